(* Lemmas about Model/Resample.v (property C08; reused by C09).
   Style: plain Coq (ZArith/QArith, lia, field); rationals up to Qeq (==). *)
From Coq Require Import ZArith QArith Qabs List Bool Lia Sorting.Sorted Setoid Morphisms.
From V Require Import Model.Resample.
Import ListNotations.
Open Scope Z_scope.

(* ------------------------------------------------------------------------------------------------ *)
(* 0. sums                                                                                           *)
(* ------------------------------------------------------------------------------------------------ *)

Fixpoint sumQ (l : list Q) : Q := match l with [] => 0%Q | x :: r => (x + sumQ r)%Q end.

Lemma qsum_sumQ : forall l, (qsum l == sumQ l)%Q.
Proof.
  induction l as [|x l IH]; cbn [qsum sumQ fold_right]; [reflexivity|].
  fold (qsum l). rewrite Qred_correct, IH. reflexivity.
Qed.

Lemma sumQ_app : forall a b, (sumQ (a ++ b) == sumQ a + sumQ b)%Q.
Proof. induction a as [|x a IH]; intros; cbn [sumQ app]; [ring|]. rewrite IH. ring. Qed.

Lemma sumQ_ext : forall {A} (f g : A -> Q) l,
  (forall x, In x l -> (f x == g x)%Q) -> (sumQ (map f l) == sumQ (map g l))%Q.
Proof.
  induction l as [|x l IH]; intros H; cbn [map sumQ]; [reflexivity|].
  rewrite (H x (or_introl eq_refl)), IH; [reflexivity|]. intros y Hy. apply H. right. exact Hy.
Qed.

Lemma sumQ_zero : forall {A} (f : A -> Q) l, (forall x, In x l -> (f x == 0)%Q) -> (sumQ (map f l) == 0)%Q.
Proof.
  induction l as [|x l IH]; intros H; cbn [map sumQ]; [reflexivity|].
  rewrite (H x (or_introl eq_refl)), IH; [ring|]. intros y Hy. apply H. right. exact Hy.
Qed.

Lemma sumQ_plus : forall {A} (f g : A -> Q) l,
  (sumQ (map (fun x => f x + g x) l) == sumQ (map f l) + sumQ (map g l))%Q.
Proof. induction l as [|x l IH]; cbn [map sumQ]; [ring|]. rewrite IH. ring. Qed.

Lemma sumQ_scale : forall {A} (f : A -> Q) (k : Q) l,
  (sumQ (map (fun x => f x * k) l) == sumQ (map f l) * k)%Q.
Proof. induction l as [|x l IH]; cbn [map sumQ]; [ring|]. rewrite IH. ring. Qed.

(* exchange of two finite sums *)
Lemma sumQ_swap : forall {A B} (f : A -> B -> Q) la lb,
  (sumQ (map (fun a => sumQ (map (fun b => f a b) lb)) la) ==
   sumQ (map (fun b => sumQ (map (fun a => f a b) la)) lb))%Q.
Proof.
  induction la as [|a la IH]; intros lb; cbn [map sumQ].
  - symmetry. apply sumQ_zero. reflexivity.
  - rewrite IH. rewrite <- sumQ_plus. reflexivity.
Qed.

Lemma inject_Z_zsum : forall {A} (f : A -> Z) l,
  (inject_Z (zsum (map f l)) == sumQ (map (fun x => inject_Z (f x)) l))%Q.
Proof.
  induction l as [|x l IH]; cbn [map zsum sumQ fold_right]; [reflexivity|].
  fold (zsum (map f l)). rewrite inject_Z_plus, IH. reflexivity.
Qed.

Lemma inject_Z_nonzero : forall z, z <> 0 -> ~ (inject_Z z == 0)%Q.
Proof. intros z Hz E. unfold Qeq in E. cbn in E. lia. Qed.

Lemma zsum_app : forall a b, zsum (a ++ b) = zsum a + zsum b.
Proof. induction a as [|x a IH]; intros; cbn [zsum app fold_right]; [reflexivity|]. fold (zsum (a ++ b)). fold (zsum a). rewrite IH. lia. Qed.

Lemma zsum_zero : forall {A} (f : A -> Z) l, (forall x, In x l -> f x = 0) -> zsum (map f l) = 0.
Proof.
  induction l as [|x l IH]; intros H; cbn [map zsum fold_right]; [reflexivity|].
  fold (zsum (map f l)). rewrite (H x (or_introl eq_refl)), IH; [reflexivity|]. intros y Hy. apply H. right. exact Hy.
Qed.

Lemma zsum_nonneg : forall {A} (f : A -> Z) l, (forall x, In x l -> 0 <= f x) -> 0 <= zsum (map f l).
Proof.
  induction l as [|x l IH]; intros H; cbn [map zsum fold_right]; [lia|].
  fold (zsum (map f l)). specialize (H x (or_introl eq_refl)) as Hx.
  assert (0 <= zsum (map f l)) by (apply IH; intros y Hy; apply H; right; exact Hy). lia.
Qed.

(* ------------------------------------------------------------------------------------------------ *)
(* 1. overlap and tilings                                                                            *)
(* ------------------------------------------------------------------------------------------------ *)

Lemma overlap_nonneg : forall a b c d, 0 <= overlap a b c d.
Proof. intros. unfold overlap. lia. Qed.

Lemma overlap_le_len : forall a b c d, a <= b -> overlap a b c d <= b - a.
Proof. intros. unfold overlap. lia. Qed.

Lemma overlap_inside : forall a b c d, c <= a -> b <= d -> a <= b -> overlap a b c d = b - a.
Proof. intros. unfold overlap. lia. Qed.

Lemma overlap_disjoint : forall a b c d, b <= c \/ d <= a -> overlap a b c d = 0.
Proof. intros. unfold overlap. lia. Qed.

Lemma overlap_bucket_inside : forall a b c d, a <= c -> d <= b -> c <= d -> overlap a b c d = d - c.
Proof. intros. unfold overlap. lia. Qed.

(* strictly increasing boundary lists *)
Fixpoint incr (l : list Z) : Prop :=
  match l with
  | a :: ((b :: _) as r) => a < b /\ incr r
  | _ => True
  end.

Lemma incr_tail : forall a l, incr (a :: l) -> incr l.
Proof. intros a [|b l]; cbn; tauto. Qed.

Lemma incr_le_last : forall l a, incr (a :: l) -> a <= last l a.
Proof.
  induction l as [|b l IH]; intros a H; cbn [last]; [lia|].
  destruct H as [Hab H]. specialize (IH b H).
  destruct l as [|c l]; [cbn in *; lia|].
  change (last (b :: c :: l) a) with (last (c :: l) a).
  assert (last (c :: l) a = last (c :: l) b) as -> by (clear; revert c; induction l; intros; cbn; [reflexivity|apply IHl]).
  lia.
Qed.

Lemma last_cons_default : forall {A} (l : list A) x d d', last (x :: l) d = last (x :: l) d'.
Proof. intros A l. induction l as [|y l IH]; intros; [reflexivity|]. change (last (y :: l) d = last (y :: l) d'). apply IH. Qed.

(* the overlaps of [a,b) with the pieces of a tiling add up to its overlap with the tiled range *)
Lemma overlap_tiling : forall rest c a b, incr (c :: rest) ->
  zsum (map (fun p => overlap a b (fst p) (snd p)) (pairs (c :: rest))) = overlap a b c (last rest c).
Proof.
  induction rest as [|d rest IH]; intros c a b H.
  - cbn. unfold overlap. lia.
  - change (pairs (c :: d :: rest)) with ((c, d) :: pairs (d :: rest)).
    cbn [map zsum fold_right fst snd].
    fold (zsum (map (fun p => overlap a b (fst p) (snd p)) (pairs (d :: rest)))).
    destruct H as [Hcd H]. rewrite (IH d a b H).
    pose proof (incr_le_last rest d H) as Hl.
    assert (last (d :: rest) c = last rest d) as ->.
    { destruct rest as [|e rest]; [reflexivity|]. change (last (d :: e :: rest) c) with (last (e :: rest) c).
      apply last_cons_default. }
    unfold overlap. lia.
Qed.

Lemma pairs_in_bounds : forall l c p, incr (c :: l) -> In p (pairs (c :: l)) ->
  c <= fst p /\ fst p < snd p /\ snd p <= last l c.
Proof.
  induction l as [|d l IH]; intros c p H Hp; [destruct Hp|].
  change (pairs (c :: d :: l)) with ((c, d) :: pairs (d :: l)) in Hp.
  destruct H as [Hcd H]. pose proof (incr_le_last l d H) as Hl.
  assert (last (d :: l) c = last l d) as Hlast.
  { destruct l as [|e l]; [reflexivity|]. change (last (d :: e :: l) c) with (last (e :: l) c). apply last_cons_default. }
  rewrite Hlast. destruct Hp as [<-|Hp]; cbn [fst snd]; [lia|].
  specialize (IH d p H Hp). lia.
Qed.

(* ------------------------------------------------------------------------------------------------ *)
(* 2. contributions of one interval                                                                  *)
(* ------------------------------------------------------------------------------------------------ *)

Definition ovl (lo hi : Z) (iv : interval) : Z := overlap (ilo iv) (ihi iv) lo hi.

Lemma contrib_eq : forall lo hi iv,
  (contrib lo hi iv ==
   match ival iv with
   | Some v => v * inject_Z (ovl lo hi iv) / inject_Z (ilen iv)
   | None => 0
   end)%Q.
Proof.
  intros. unfold contrib, ovl. destruct (ival iv) as [v|]; [|reflexivity].
  destruct (overlap (ilo iv) (ihi iv) lo hi =? 0) eqn:E; [|reflexivity].
  apply Z.eqb_eq in E. rewrite E. unfold Qdiv. change (inject_Z 0) with 0%Q. ring.
Qed.

Lemma contrib_none : forall lo hi iv, ival iv = None -> (contrib lo hi iv == 0)%Q.
Proof. intros. unfold contrib. rewrite H. reflexivity. Qed.

Lemma contrib_disjoint : forall lo hi iv, ovl lo hi iv = 0 -> (contrib lo hi iv == 0)%Q.
Proof. intros. unfold contrib. fold (ovl lo hi iv). rewrite H. destruct (ival iv); reflexivity. Qed.

Lemma contrib_inside : forall lo hi iv v, ival iv = Some v -> ilo iv < ihi iv -> lo <= ilo iv -> ihi iv <= hi ->
  (contrib lo hi iv == v)%Q.
Proof.
  intros lo hi iv v Hv Hlen Hlo Hhi. rewrite contrib_eq, Hv. unfold ovl.
  rewrite overlap_inside by lia. unfold ilen. field.
  apply inject_Z_nonzero. lia.
Qed.

Lemma covered_le : forall lo hi iv, 0 <= covered lo hi iv.
Proof. intros. unfold covered. destruct (ival iv); [apply overlap_nonneg|lia]. Qed.

(* a billed interval spread over a tiling of a range that contains it gives back the billed amount *)
Lemma contrib_tiling : forall rest c iv v, incr (c :: rest) -> ival iv = Some v -> ilo iv < ihi iv ->
  c <= ilo iv -> ihi iv <= last rest c ->
  (sumQ (map (fun p => contrib (fst p) (snd p) iv) (pairs (c :: rest))) == v)%Q.
Proof.
  intros rest c iv v Hinc Hv Hlen Hc Hl.
  rewrite (sumQ_ext _ (fun p => inject_Z (ovl (fst p) (snd p) iv) * (v / inject_Z (ilen iv)))%Q).
  2:{ intros p _. rewrite contrib_eq, Hv. unfold Qdiv. ring. }
  rewrite sumQ_scale. rewrite <- (inject_Z_zsum (fun p => ovl (fst p) (snd p) iv)).
  unfold ovl. rewrite overlap_tiling by exact Hinc. rewrite overlap_inside by lia.
  unfold ilen. field.
  apply inject_Z_nonzero. lia.
Qed.

Lemma contrib_tiling_none : forall l iv, ival iv = None ->
  (sumQ (map (fun p => contrib (fst p) (snd p) iv) l) == 0)%Q.
Proof. intros. apply sumQ_zero. intros p _. apply contrib_none. exact H. Qed.

(* ------------------------------------------------------------------------------------------------ *)
(* 3. the intervals of a series with strictly increasing stamps                                      *)
(* ------------------------------------------------------------------------------------------------ *)

Definition sorted_rs (rs : list reading) : Prop := incr (map stamp rs).

Lemma sorted_rs_tail : forall r rs, sorted_rs (r :: rs) -> sorted_rs rs.
Proof. intros r rs H. unfold sorted_rs in *. cbn [map] in H. eapply incr_tail. exact H. Qed.

Lemma last_stamp_last : forall rs r, last_stamp (r :: rs) = last (map stamp rs) (stamp r).
Proof.
  induction rs as [|r' rs IH]; intros r; [reflexivity|].
  change (last_stamp (r :: r' :: rs)) with (last_stamp (r' :: rs)). rewrite IH.
  cbn [map]. destruct rs as [|r'' rs]; [reflexivity|]. cbn [map].
  change (last (stamp r' :: stamp r'' :: map stamp rs) (stamp r)) with (last (stamp r'' :: map stamp rs) (stamp r)).
  apply last_cons_default.
Qed.

Lemma sorted_first_le_last : forall r rs, sorted_rs (r :: rs) -> stamp r <= last_stamp (r :: rs).
Proof. intros. rewrite last_stamp_last. apply incr_le_last. exact H. Qed.

(* every interval is non-empty and lies between the first and the last stamp *)
Lemma intervals_bounds : forall rs iv, sorted_rs rs -> In iv (intervals rs) ->
  first_stamp rs <= ilo iv /\ ilo iv < ihi iv /\ ihi iv <= last_stamp rs.
Proof.
  induction rs as [|r rs IH]; intros iv Hs Hin; [destruct Hin|].
  destruct rs as [|r' rs]; [destruct Hin|].
  change (intervals (r :: r' :: rs)) with (mkI (stamp r) (stamp r') (rval r) :: intervals (r' :: rs)) in Hin.
  pose proof (sorted_rs_tail _ _ Hs) as Hs'.
  pose proof (sorted_first_le_last _ _ Hs') as Hfl.
  assert (stamp r < stamp r') as Hlt by (unfold sorted_rs in Hs; cbn in Hs; tauto).
  change (last_stamp (r :: r' :: rs)) with (last_stamp (r' :: rs)).
  cbn [first_stamp]. destruct Hin as [<-|Hin]; cbn [ilo ihi]; [lia|].
  specialize (IH iv Hs' Hin). cbn [first_stamp] in IH. lia.
Qed.

(* earlier intervals end before later ones begin *)
Definition before (x y : interval) : Prop := ihi x <= ilo y.

Lemma intervals_sorted : forall rs, sorted_rs rs -> StronglySorted before (intervals rs).
Proof.
  induction rs as [|r rs IH]; intros Hs; [constructor|].
  destruct rs as [|r' rs]; [constructor|].
  change (intervals (r :: r' :: rs)) with (mkI (stamp r) (stamp r') (rval r) :: intervals (r' :: rs)).
  pose proof (sorted_rs_tail _ _ Hs) as Hs'.
  constructor; [apply IH; exact Hs'|].
  apply Forall_forall. intros y Hy. unfold before. cbn [ihi].
  pose proof (intervals_bounds _ _ Hs' Hy) as Hb. cbn [first_stamp] in Hb. lia.
Qed.

Lemma strongly_sorted_split : forall {A} (R : A -> A -> Prop) l1 x l2,
  StronglySorted R (l1 ++ x :: l2) -> Forall (fun y => R y x) l1 /\ Forall (R x) l2.
Proof.
  induction l1 as [|a l1 IH]; intros x l2 H; cbn [app] in H.
  - inversion H; subst. split; [constructor|assumption].
  - inversion H as [|? ? Hs Hf]; subst. destruct (IH x l2 Hs) as [H1 H2]. split; [|exact H2].
    constructor; [|exact H1]. rewrite Forall_forall in Hf. apply Hf. apply in_or_app. right. left. reflexivity.
Qed.

(* the usage of all closed intervals = all readings but the last *)
Lemma intervals_values : forall rs,
  map (fun iv => oq0 (ival iv)) (intervals rs) = map (fun r => oq0 (rval r)) (removelast rs).
Proof.
  induction rs as [|r rs IH]; [reflexivity|].
  destruct rs as [|r' rs]; [reflexivity|].
  change (intervals (r :: r' :: rs)) with (mkI (stamp r) (stamp r') (rval r) :: intervals (r' :: rs)).
  change (removelast (r :: r' :: rs)) with (r :: removelast (r' :: rs)).
  cbn [map ival]. rewrite IH. reflexivity.
Qed.

(* ------------------------------------------------------------------------------------------------ *)
(* 4. buckets                                                                                        *)
(* ------------------------------------------------------------------------------------------------ *)

Lemma bucket_sum_sumQ : forall lo hi ivs, (bucket_sum lo hi ivs == sumQ (map (contrib lo hi) ivs))%Q.
Proof. intros. unfold bucket_sum. apply qsum_sumQ. Qed.

Lemma bucket_count_nonneg : forall lo hi ivs, 0 <= bucket_count lo hi ivs.
Proof. intros. unfold bucket_count. apply zsum_nonneg. intros. apply covered_le. Qed.

(* a bucket inside one interval of a sorted series sees that interval only *)
Lemma bucket_in_period : forall rs iv lo hi, sorted_rs rs -> In iv (intervals rs) ->
  ilo iv <= lo -> lo <= hi -> hi <= ihi iv ->
  (bucket_sum lo hi (intervals rs) == contrib lo hi iv)%Q /\
  bucket_count lo hi (intervals rs) = covered lo hi iv.
Proof.
  intros rs iv lo hi Hs Hin Hlo Hle Hhi.
  destruct (in_split _ _ Hin) as (l1 & l2 & E).
  pose proof (intervals_sorted rs Hs) as Hss. rewrite E in Hss.
  destruct (strongly_sorted_split _ _ _ _ Hss) as [H1 H2].
  rewrite Forall_forall in H1, H2. unfold before in H1, H2.
  assert (forall y, In y l1 \/ In y l2 -> ovl lo hi y = 0) as Hz.
  { intros y [Hy|Hy]; unfold ovl; apply overlap_disjoint; [specialize (H1 y Hy)|specialize (H2 y Hy)]; lia. }
  split.
  - rewrite bucket_sum_sumQ, E, map_app, sumQ_app. cbn [map sumQ].
    rewrite (sumQ_zero (contrib lo hi) l1), (sumQ_zero (contrib lo hi) l2); [ring| |];
      intros y Hy; apply contrib_disjoint; apply Hz; tauto.
  - unfold bucket_count. rewrite E, map_app, zsum_app. cbn [map zsum fold_right].
    fold (zsum (map (covered lo hi) l2)).
    rewrite (zsum_zero (covered lo hi) l1), (zsum_zero (covered lo hi) l2); [lia| |];
      intros y Hy; unfold covered; destruct (ival y); try reflexivity; apply Hz; tauto.
Qed.

(* ------------------------------------------------------------------------------------------------ *)
(* 5. conservation                                                                                   *)
(* ------------------------------------------------------------------------------------------------ *)

(* billing_period_conserved: the local days that tile a billed period [ilo, ihi) add up to the billed amount,
   every one of them is covered completely (so none is missing), whatever the lengths of the days *)
Lemma period_conserved_l : forall rs iv v c mid,
  sorted_rs rs -> In iv (intervals rs) -> ival iv = Some v ->
  incr (c :: mid) -> c = ilo iv -> last mid c = ihi iv ->
  (sumQ (map (fun p => bucket_sum (fst p) (snd p) (intervals rs)) (pairs (c :: mid))) == v)%Q /\
  forall p, In p (pairs (c :: mid)) ->
    bucket_count (fst p) (snd p) (intervals rs) = snd p - fst p /\
    bucket_value (fst p) (snd p) (intervals rs) = Some (bucket_sum (fst p) (snd p) (intervals rs)).
Proof.
  intros rs iv v c mid Hs Hin Hv Hinc Hc Hl.
  pose proof (intervals_bounds rs iv Hs Hin) as (_ & Hlen & _).
  assert (forall p, In p (pairs (c :: mid)) -> ilo iv <= fst p /\ fst p < snd p /\ snd p <= ihi iv) as Hp.
  { intros p Hp. pose proof (pairs_in_bounds mid c p Hinc Hp). lia. }
  split.
  - rewrite (sumQ_ext _ (fun p => contrib (fst p) (snd p) iv)).
    + apply contrib_tiling; try assumption; lia.
    + intros p Hin'. destruct (Hp p Hin') as (H1 & H2 & H3).
      apply (bucket_in_period rs iv (fst p) (snd p) Hs Hin); lia.
  - intros p Hin'. destruct (Hp p Hin') as (H1 & H2 & H3).
    destruct (bucket_in_period rs iv (fst p) (snd p) Hs Hin) as [_ Hc']; try lia.
    assert (bucket_count (fst p) (snd p) (intervals rs) = snd p - fst p) as Hcnt.
    { rewrite Hc'. unfold covered. rewrite Hv. apply overlap_bucket_inside; lia. }
    split; [exact Hcnt|]. unfold bucket_value. rewrite Hcnt.
    destruct (snd p - fst p =? 0) eqn:E; [apply Z.eqb_eq in E; lia|reflexivity].
Qed.

(* an interval without usage (NaN reading, or a period blanked by the off-cycle filter): every day inside it is
   missing *)
Lemma period_missing_l : forall rs iv lo hi, sorted_rs rs -> In iv (intervals rs) -> ival iv = None ->
  ilo iv <= lo -> lo <= hi -> hi <= ihi iv -> bucket_value lo hi (intervals rs) = None.
Proof.
  intros rs iv lo hi Hs Hin Hv H1 H2 H3.
  destruct (bucket_in_period rs iv lo hi Hs Hin H1 H2 H3) as [_ Hc].
  unfold bucket_value. rewrite Hc. unfold covered. rewrite Hv. reflexivity.
Qed.

Lemma zsum_zero_inv : forall {A} (f : A -> Z) l, (forall x, In x l -> 0 <= f x) -> zsum (map f l) = 0 ->
  forall x, In x l -> f x = 0.
Proof.
  induction l as [|y l IH]; intros Hn Hz x Hx; [destruct Hx|].
  cbn [map zsum fold_right] in Hz. fold (zsum (map f l)) in Hz.
  pose proof (Hn y (or_introl eq_refl)) as Hy.
  assert (0 <= zsum (map f l)) as Hr by (apply zsum_nonneg; intros z Hz'; apply Hn; right; exact Hz').
  destruct Hx as [<-|Hx]; [lia|]. apply IH; try assumption; [intros z Hz'; apply Hn; right; exact Hz'|lia].
Qed.

(* the value of a bucket, read as a number (NaN as 0), is its usage *)
Lemma bucket_value_sum : forall lo hi ivs, (oq0 (bucket_value lo hi ivs) == bucket_sum lo hi ivs)%Q.
Proof.
  intros lo hi ivs. unfold bucket_value. destruct (bucket_count lo hi ivs =? 0) eqn:E; [|reflexivity].
  apply Z.eqb_eq in E. cbn [oq0]. rewrite bucket_sum_sumQ. symmetry. apply sumQ_zero. intros iv Hiv.
  pose proof (zsum_zero_inv (covered lo hi) ivs (fun x _ => covered_le lo hi x) E iv Hiv) as Hc.
  unfold covered in Hc. destruct (ival iv) as [v|] eqn:Ev; [|apply contrib_none; exact Ev].
  apply contrib_disjoint. exact Hc.
Qed.

(* nothing_invented: over a tiling that spans the series, the buckets add up to the readings of all closed
   intervals (every reading but the open-ended last one) *)
Lemma nothing_invented_l : forall rs c rest, sorted_rs rs -> incr (c :: rest) ->
  c <= first_stamp rs -> last_stamp rs <= last rest c ->
  (sumQ (map (fun p => bucket_sum (fst p) (snd p) (intervals rs)) (pairs (c :: rest))) ==
   sumQ (map (fun r => oq0 (rval r)) (removelast rs)))%Q.
Proof.
  intros rs c rest Hs Hinc Hc Hl.
  rewrite (sumQ_ext _ (fun p => sumQ (map (fun iv => contrib (fst p) (snd p) iv) (intervals rs)))).
  2:{ intros p _. apply bucket_sum_sumQ. }
  rewrite (sumQ_swap (fun p iv => contrib (fst p) (snd p) iv)).
  rewrite <- intervals_values.
  apply sumQ_ext. intros iv Hiv.
  pose proof (intervals_bounds rs iv Hs Hiv) as (H1 & H2 & H3).
  destruct (ival iv) as [v|] eqn:Ev; cbn [oq0].
  - apply contrib_tiling; try assumption; lia.
  - apply contrib_tiling_none. exact Ev.
Qed.

(* ------------------------------------------------------------------------------------------------ *)
(* 6. as_freq_cum row by row                                                                         *)
(* ------------------------------------------------------------------------------------------------ *)

Lemma rows_of_spec : forall ivs bk,
  map (fun r => (d_lo r, d_hi r, d_val r)) (rows_of ivs bk) =
  map (fun p => (fst p, snd p, bucket_value (fst p) (snd p) ivs)) bk.
Proof.
  induction bk as [|[lo hi] bk IH]; [reflexivity|].
  cbn [rows_of map d_lo d_hi d_val fst snd]. rewrite IH. reflexivity.
Qed.

Lemma as_freq_cum_spec : forall rs bs,
  map (fun r => (d_lo r, d_hi r, d_val r)) (as_freq_cum rs bs) =
  map (fun p => (fst p, snd p, bucket_value (fst p) (snd p) (intervals rs))) (filter (relevant rs) (pairs bs)).
Proof. intros. unfold as_freq_cum. apply rows_of_spec. Qed.

Lemma rows_of_cov : forall ivs bk r, In r (removelast (rows_of ivs bk)) ->
  d_cov r = coverage (d_lo r) (d_hi r) ivs false.
Proof.
  induction bk as [|[lo hi] bk IH]; intros r Hr; [destruct Hr|].
  cbn [rows_of] in Hr. destruct bk as [|q bk]; [destruct Hr|].
  destruct q as [lo' hi'].
  change (rows_of ivs ((lo', hi') :: bk)) with
    (mkD lo' hi' (bucket_value lo' hi' ivs) (coverage lo' hi' ivs (match bk with [] => true | _ => false end)) :: rows_of ivs bk) in Hr.
  cbn [removelast] in Hr.
  destruct Hr as [<-|Hr]; [reflexivity|].
  apply IH. cbn [rows_of]. exact Hr.
Qed.

Lemma sumQ_filter : forall {A} (f : A -> bool) (g : A -> Q) l,
  (forall x, In x l -> f x = false -> (g x == 0)%Q) ->
  (sumQ (map g (filter f l)) == sumQ (map g l))%Q.
Proof.
  induction l as [|x l IH]; intros H; [reflexivity|].
  cbn [filter]. destruct (f x) eqn:E; cbn [map sumQ].
  - rewrite IH; [reflexivity|]. intros y Hy. apply H. right. exact Hy.
  - rewrite IH, (H x (or_introl eq_refl) E); [ring|]. intros y Hy. apply H. right. exact Hy.
Qed.

(* buckets that pandas does not create (before the first / after the last stamp) hold no usage *)
Lemma irrelevant_empty : forall rs p, sorted_rs rs -> relevant rs p = false ->
  (bucket_sum (fst p) (snd p) (intervals rs) == 0)%Q.
Proof.
  intros rs p Hs Hr. rewrite bucket_sum_sumQ. apply sumQ_zero. intros iv Hiv.
  pose proof (intervals_bounds rs iv Hs Hiv) as (H1 & H2 & H3).
  apply contrib_disjoint. unfold ovl. apply overlap_disjoint.
  unfold relevant in Hr. apply andb_false_iff in Hr. destruct Hr as [Hr|Hr].
  - apply Z.ltb_ge in Hr. lia.
  - apply Z.leb_gt in Hr. lia.
Qed.

(* nothing_invented for the rows as_freq returns *)
Lemma as_freq_conserves_l : forall rs c rest, sorted_rs rs -> incr (c :: rest) ->
  c <= first_stamp rs -> last_stamp rs <= last rest c ->
  (sumQ (map (fun r => oq0 (d_val r)) (as_freq_cum rs (c :: rest))) ==
   sumQ (map (fun r => oq0 (rval r)) (removelast rs)))%Q.
Proof.
  intros rs c rest Hs Hinc Hc Hl.
  rewrite <- (nothing_invented_l rs c rest Hs Hinc Hc Hl).
  assert (map (fun r => oq0 (d_val r)) (as_freq_cum rs (c :: rest)) =
          map (fun t => oq0 (snd t)) (map (fun r => (d_lo r, d_hi r, d_val r)) (as_freq_cum rs (c :: rest)))) as ->
    by (rewrite map_map; reflexivity).
  rewrite as_freq_cum_spec, map_map. cbn [snd].
  rewrite (sumQ_filter (relevant rs) (fun p => oq0 (bucket_value (fst p) (snd p) (intervals rs)))).
  - apply sumQ_ext. intros p _. apply bucket_value_sum.
  - intros p _ Hr. rewrite bucket_value_sum. apply irrelevant_empty; assumption.
Qed.

(* ------------------------------------------------------------------------------------------------ *)
(* 7. days of aligned sub-daily readings                                                             *)
(* ------------------------------------------------------------------------------------------------ *)

Definition inside (lo hi : Z) (iv : interval) : bool := (lo <=? ilo iv) && (ihi iv <=? hi).

(* no reading interval straddles a boundary of the bucket *)
Definition no_straddle (lo hi : Z) (ivs : list interval) : Prop :=
  forall iv, In iv ivs ->
    ilo iv < ihi iv /\ (ihi iv <= lo \/ hi <= ilo iv \/ (lo <= ilo iv /\ ihi iv <= hi)).

Lemma no_straddle_tail : forall lo hi iv ivs, no_straddle lo hi (iv :: ivs) -> no_straddle lo hi ivs.
Proof. intros lo hi iv ivs H x Hx. apply H. right. exact Hx. Qed.

Lemma bucket_sum_inside : forall lo hi ivs, lo <= hi -> no_straddle lo hi ivs ->
  (bucket_sum lo hi ivs == sumQ (map (fun iv => oq0 (ival iv)) (filter (inside lo hi) ivs)))%Q.
Proof.
  intros lo hi ivs Hle. rewrite bucket_sum_sumQ.
  induction ivs as [|iv ivs IH]; intros Hn; [reflexivity|].
  cbn [map sumQ filter]. rewrite (IH (no_straddle_tail _ _ _ _ Hn)).
  destruct (Hn iv (or_introl eq_refl)) as [Hlen Hpos]. unfold inside.
  destruct Hpos as [Hb|[Ha|[H1 H2]]].
  - assert ((lo <=? ilo iv) && (ihi iv <=? hi) = false \/ ((lo <=? ilo iv) && (ihi iv <=? hi) = true)) as [E|E]
      by (destruct ((lo <=? ilo iv) && (ihi iv <=? hi)); auto).
    + rewrite E, contrib_disjoint; [ring|]. unfold ovl. apply overlap_disjoint. lia.
    + apply andb_true_iff in E. destruct E as [E1 E2]. apply Z.leb_le in E1. lia.
  - assert ((lo <=? ilo iv) && (ihi iv <=? hi) = false \/ ((lo <=? ilo iv) && (ihi iv <=? hi) = true)) as [E|E]
      by (destruct ((lo <=? ilo iv) && (ihi iv <=? hi)); auto).
    + rewrite E, contrib_disjoint; [ring|]. unfold ovl. apply overlap_disjoint. lia.
    + apply andb_true_iff in E. destruct E as [E1 E2]. apply Z.leb_le in E2. lia.
  - assert ((lo <=? ilo iv) && (ihi iv <=? hi) = true) as -> by (apply andb_true_iff; split; apply Z.leb_le; lia).
    cbn [map sumQ]. destruct (ival iv) as [v|] eqn:Ev; cbn [oq0].
    + rewrite (contrib_inside lo hi iv v Ev Hlen H1 H2). reflexivity.
    + rewrite (contrib_none lo hi iv Ev). reflexivity.
Qed.

Definition present_len (iv : interval) : Z := if is_some (ival iv) then ilen iv else 0.

Lemma bucket_count_inside : forall lo hi ivs, lo <= hi -> no_straddle lo hi ivs ->
  bucket_count lo hi ivs = zsum (map present_len (filter (inside lo hi) ivs)).
Proof.
  intros lo hi ivs Hle. unfold bucket_count.
  induction ivs as [|iv ivs IH]; intros Hn; [reflexivity|].
  cbn [map zsum fold_right filter]. fold (zsum (map (covered lo hi) ivs)).
  rewrite (IH (no_straddle_tail _ _ _ _ Hn)).
  destruct (Hn iv (or_introl eq_refl)) as [Hlen Hpos]. unfold inside.
  assert (forall b : bool, b = false \/ b = true) as Hb by (intros []; auto).
  destruct Hpos as [Hp|[Hp|[H1 H2]]].
  - destruct (Hb ((lo <=? ilo iv) && (ihi iv <=? hi))) as [E|E]; rewrite E.
    + cbv iota. unfold covered, zsum. destruct (ival iv); [rewrite overlap_disjoint by lia|]; lia.
    + apply andb_true_iff in E. destruct E as [E1 E2]. apply Z.leb_le in E1. lia.
  - destruct (Hb ((lo <=? ilo iv) && (ihi iv <=? hi))) as [E|E]; rewrite E.
    + cbv iota. unfold covered, zsum. destruct (ival iv); [rewrite overlap_disjoint by lia|]; lia.
    + apply andb_true_iff in E. destruct E as [E1 E2]. apply Z.leb_le in E2. lia.
  - assert ((lo <=? ilo iv) && (ihi iv <=? hi) = true) as -> by (apply andb_true_iff; split; apply Z.leb_le; lia).
    cbn [map zsum fold_right]. fold (zsum (map present_len (filter (fun iv0 => (lo <=? ilo iv0) && (ihi iv0 <=? hi)) ivs))).
    unfold covered, present_len, ilen. destruct (ival iv); cbn [is_some]; [rewrite overlap_inside by lia|]; lia.
Qed.

(* equality of optional rationals up to == *)
Definition oq_eq (a b : option Q) : Prop :=
  match a, b with Some x, Some y => (x == y)%Q | None, None => True | _, _ => False end.

Lemma qltb_true : forall a b, qltb a b = true <-> (a < b)%Q.
Proof.
  intros a b. unfold qltb. rewrite negb_true_iff. split.
  - intros H. apply Qnot_le_lt. intro Hle. apply Qle_bool_iff in Hle. congruence.
  - intros H. destruct (Qle_bool b a) eqn:E; [|reflexivity]. apply Qle_bool_iff in E.
    exfalso. apply (Qlt_not_le _ _ H E).
Qed.

Lemma qltb_false : forall a b, qltb a b = false <-> (b <= a)%Q.
Proof.
  intros a b. unfold qltb. rewrite negb_false_iff. apply Qle_bool_iff.
Qed.

Lemma coverage_day : forall lo hi ivs,
  coverage lo hi ivs false = (inject_Z (bucket_count lo hi ivs) / inject_Z (hi - lo))%Q.
Proof. reflexivity. Qed.

(* sparse_day: covered for half or less -> missing *)
Lemma sparse_day_l : forall lo hi ivs, (coverage lo hi ivs false <= 1 # 2)%Q -> clean_day lo hi ivs false = None.
Proof.
  intros lo hi ivs H. unfold clean_day, clean_value.
  assert (qltb half (coverage lo hi ivs false) = false) as -> by (apply qltb_false; exact H). reflexivity.
Qed.

(* partial_day: covered for more than half -> the covered usage divided by the coverage *)
Lemma partial_day_l : forall lo hi ivs, lo < hi -> (1 # 2 < coverage lo hi ivs false)%Q ->
  oq_eq (clean_day lo hi ivs false) (Some (bucket_sum lo hi ivs / coverage lo hi ivs false)%Q).
Proof.
  intros lo hi ivs Hlt H. unfold clean_day, clean_value.
  assert (qltb half (coverage lo hi ivs false) = true) as -> by (apply qltb_true; exact H).
  unfold bucket_value. destruct (bucket_count lo hi ivs =? 0) eqn:E.
  - exfalso. apply Z.eqb_eq in E. rewrite coverage_day, E in H.
    assert ((inject_Z 0 / inject_Z (hi - lo)) == 0)%Q as Hz by (unfold Qdiv; change (inject_Z 0) with 0%Q; ring).
    rewrite Hz in H. discriminate H.
  - cbn [option_map oq_eq]. reflexivity.
Qed.

(* subdaily_full_day: aligned readings, the day covered completely -> the sum of the readings in the day,
   whatever the length of the day *)
Lemma full_day_l : forall lo hi ivs, lo < hi -> no_straddle lo hi ivs ->
  bucket_count lo hi ivs = hi - lo ->
  oq_eq (clean_day lo hi ivs false)
        (Some (sumQ (map (fun iv => oq0 (ival iv)) (filter (inside lo hi) ivs)))).
Proof.
  intros lo hi ivs Hlt Hn Hc.
  assert (coverage lo hi ivs false == 1)%Q as Hcov.
  { rewrite coverage_day, Hc. field. apply inject_Z_nonzero. lia. }
  assert (1 # 2 < coverage lo hi ivs false)%Q as Hhalf by (rewrite Hcov; reflexivity).
  pose proof (partial_day_l lo hi ivs Hlt Hhalf) as H.
  destruct (clean_day lo hi ivs false) as [x|]; cbn [oq_eq] in *; [|exact H].
  rewrite H, Hcov, (bucket_sum_inside lo hi ivs) by (try lia; exact Hn). field.
Qed.

(* a regular series (every reading closed by the next slot) whose slots are in phase with the bucket boundaries
   has no straddling interval: 15/30/60-minute readings and local days of 23, 24 or 25 hours alike *)
Lemma regular_no_straddle : forall ivs step t0 lo hi, 0 < step ->
  (forall iv, In iv ivs -> ihi iv = ilo iv + step /\ (step | ilo iv - t0)) ->
  (step | lo - t0) -> (step | hi - t0) -> no_straddle lo hi ivs.
Proof.
  intros ivs step t0 lo hi Hs Hreg [m Hm] [n Hn] iv Hiv.
  destruct (Hreg iv Hiv) as [Hhi [k Hk]]. split; [lia|].
  destruct (Z_le_gt_dec m k) as [Hmk|Hmk]; destruct (Z_le_gt_dec (k + 1) n) as [Hkn|Hkn].
  - right. right. nia.
  - right. left. nia.
  - left. nia.
  - left. nia.
Qed.

(* ------------------------------------------------------------------------------------------------ *)
(* 8. clean_billing_data: off-cycle periods                                                          *)
(* ------------------------------------------------------------------------------------------------ *)

Definition filter_iv (cal : bool) (offs : list (Z * Z)) (g : gran) (iv : interval) : interval :=
  mkI (ilo iv) (ihi iv) (if valid_len g (whole_days cal offs (ilo iv) (ihi iv)) then ival iv else None).

Lemma offcycle_head : forall cal offs g r rest, exists v, exists tl, offcycle_filter cal offs g (r :: rest) = (stamp r, v) :: tl.
Proof. intros cal offs g r [|r' rest]; cbn [offcycle_filter]; eauto. Qed.

Lemma offcycle_intervals_cons : forall cal offs g rest r,
  intervals (offcycle_filter cal offs g (r :: rest)) = map (filter_iv cal offs g) (intervals (r :: rest)).
Proof.
  intros cal offs g. induction rest as [|r' rest IH]; intros r; [reflexivity|].
  change (offcycle_filter cal offs g (r :: r' :: rest)) with
    ((stamp r, if valid_len g (whole_days cal offs (stamp r) (stamp r')) then rval r else None) :: offcycle_filter cal offs g (r' :: rest)).
  change (intervals (r :: r' :: rest)) with (mkI (stamp r) (stamp r') (rval r) :: intervals (r' :: rest)).
  cbn [map]. rewrite <- (IH r').
  destruct (offcycle_head cal offs g r' rest) as (v & tl & E). rewrite E.
  cbn [intervals stamp rval fst snd]. unfold filter_iv. cbn [ilo ihi ival]. reflexivity.
Qed.

Lemma offcycle_intervals : forall cal offs g rs, intervals (offcycle_filter cal offs g rs) = map (filter_iv cal offs g) (intervals rs).
Proof. intros cal offs g [|r rest]; [reflexivity|apply offcycle_intervals_cons]. Qed.

Lemma offcycle_stamps_cons : forall cal offs g rest r, map stamp (offcycle_filter cal offs g (r :: rest)) = map stamp (r :: rest).
Proof.
  intros cal offs g. induction rest as [|r' rest IH]; intros r; [reflexivity|].
  change (offcycle_filter cal offs g (r :: r' :: rest)) with
    ((stamp r, if valid_len g (whole_days cal offs (stamp r) (stamp r')) then rval r else None) :: offcycle_filter cal offs g (r' :: rest)).
  cbn [map]. rewrite (IH r'). reflexivity.
Qed.

Lemma offcycle_stamps : forall cal offs g rs, map stamp (offcycle_filter cal offs g rs) = map stamp rs.
Proof. intros cal offs g [|r rest]; [reflexivity|apply offcycle_stamps_cons]. Qed.

Lemma valid_len_spec : forall g d, valid_len g d = true <-> 25 <= d <= max_days g.
Proof. intros. unfold valid_len. rewrite andb_true_iff, !Z.leb_le. tauto. Qed.

Lemma clean_billing_cases : forall cal offs g rs, clean_billing cal offs g rs = [] \/ clean_billing cal offs g rs = offcycle_filter cal offs g rs.
Proof. intros. unfold clean_billing. destruct (all_nan rs); [auto|]. destruct (all_nan (offcycle_filter cal offs g rs)); auto. Qed.

(* offcycle_dropped: whatever still carries usage after cleaning is a period of valid length with the billed amount
   of the input *)
Lemma offcycle_dropped_l : forall cal offs g rs iv v, In iv (intervals (clean_billing cal offs g rs)) -> ival iv = Some v ->
  25 <= whole_days cal offs (ilo iv) (ihi iv) <= max_days g /\ In (mkI (ilo iv) (ihi iv) (Some v)) (intervals rs).
Proof.
  intros cal offs g rs iv v Hin Hv. destruct (clean_billing_cases cal offs g rs) as [E|E]; rewrite E in Hin; [destruct Hin|].
  rewrite offcycle_intervals in Hin. apply in_map_iff in Hin. destruct Hin as (iv0 & <- & Hin0).
  unfold filter_iv in *. cbn [ilo ihi ival] in *.
  destruct (valid_len g (whole_days cal offs (ilo iv0) (ihi iv0))) eqn:Ev; [|discriminate].
  split; [apply valid_len_spec; exact Ev|]. rewrite <- Hv. destruct iv0; exact Hin0.
Qed.

Lemma intervals_some_not_all_nan_cons : forall rest r lo hi v,
  In (mkI lo hi (Some v)) (intervals (r :: rest)) -> all_nan (r :: rest) = false.
Proof.
  induction rest as [|r' rest IH]; intros r lo hi v Hin; [destruct Hin|].
  change (intervals (r :: r' :: rest)) with (mkI (stamp r) (stamp r') (rval r) :: intervals (r' :: rest)) in Hin.
  unfold all_nan. cbn [forallb]. destruct Hin as [E|Hin].
  - injection E as _ _ E. rewrite E. reflexivity.
  - apply andb_false_iff. right. apply (IH r' lo hi v Hin).
Qed.

Lemma intervals_some_not_all_nan : forall rs lo hi v, In (mkI lo hi (Some v)) (intervals rs) -> all_nan rs = false.
Proof. intros [|r rest] lo hi v Hin; [destruct Hin|eapply intervals_some_not_all_nan_cons; exact Hin]. Qed.

(* ... and every period of valid length keeps its billed amount *)
Lemma valid_period_kept_l : forall cal offs g rs lo hi v, In (mkI lo hi (Some v)) (intervals rs) ->
  25 <= whole_days cal offs lo hi <= max_days g -> In (mkI lo hi (Some v)) (intervals (clean_billing cal offs g rs)).
Proof.
  intros cal offs g rs lo hi v Hin Hd.
  assert (In (mkI lo hi (Some v)) (intervals (offcycle_filter cal offs g rs))) as Hf.
  { rewrite offcycle_intervals. apply in_map_iff. exists (mkI lo hi (Some v)). split; [|exact Hin].
    unfold filter_iv. cbn [ilo ihi ival]. apply valid_len_spec in Hd. rewrite Hd. reflexivity. }
  unfold clean_billing. rewrite (intervals_some_not_all_nan rs lo hi v Hin).
  rewrite (intervals_some_not_all_nan _ lo hi v Hf). exact Hf.
Qed.

(* an off-cycle period is blanked: in the cleaned series it is an interval without usage *)
Lemma offcycle_period_blank_l : forall cal offs g rs iv, In iv (intervals rs) ->
  ~ (25 <= whole_days cal offs (ilo iv) (ihi iv) <= max_days g) -> clean_billing cal offs g rs <> [] ->
  In (mkI (ilo iv) (ihi iv) None) (intervals (clean_billing cal offs g rs)).
Proof.
  intros cal offs g rs iv Hin Hd Hne. destruct (clean_billing_cases cal offs g rs) as [E|E]; [contradiction|]. rewrite E.
  rewrite offcycle_intervals. apply in_map_iff. exists iv. split; [|exact Hin].
  unfold filter_iv. destruct (valid_len g (whole_days cal offs (ilo iv) (ihi iv))) eqn:Ev; [|reflexivity].
  apply valid_len_spec in Ev. contradiction.
Qed.

Lemma clean_billing_sorted : forall cal offs g rs, sorted_rs rs -> sorted_rs (clean_billing cal offs g rs).
Proof.
  intros cal offs g rs Hs. destruct (clean_billing_cases cal offs g rs) as [E|E]; rewrite E; [exact I|].
  unfold sorted_rs. rewrite offcycle_stamps. exact Hs.
Qed.

(* ------------------------------------------------------------------------------------------------ *)
(* 9. looking a day up in the rows (the data classes' merge on the day index)                        *)
(* ------------------------------------------------------------------------------------------------ *)

Lemma pairs_fst_sorted : forall l c, incr (c :: l) -> StronglySorted Z.lt (map fst (pairs (c :: l))).
Proof.
  induction l as [|d l IH]; intros c H; [constructor|].
  change (pairs (c :: d :: l)) with ((c, d) :: pairs (d :: l)). cbn [map fst].
  destruct H as [Hcd H]. constructor; [apply IH; exact H|].
  apply Forall_forall. intros x Hx. apply in_map_iff in Hx. destruct Hx as (p & <- & Hp).
  pose proof (pairs_in_bounds l d p H Hp). lia.
Qed.

Lemma pairs_fst_sorted' : forall bs, incr bs -> StronglySorted Z.lt (map fst (pairs bs)).
Proof. intros [|c l] H; [constructor|apply pairs_fst_sorted; exact H]. Qed.

Lemma sorted_filter : forall {A} (f : A -> Z) (g : A -> bool) l,
  StronglySorted Z.lt (map f l) -> StronglySorted Z.lt (map f (filter g l)).
Proof.
  induction l as [|x l IH]; intros H; [constructor|].
  cbn [map] in H. inversion H as [|? ? Hs Hf]; subst. cbn [filter].
  destruct (g x); [|apply IH; exact Hs]. cbn [map]. constructor; [apply IH; exact Hs|].
  apply Forall_forall. intros y Hy. rewrite Forall_forall in Hf. apply Hf.
  apply in_map_iff in Hy. destruct Hy as (z & <- & Hz). apply filter_In in Hz. apply in_map. tauto.
Qed.

Lemma sorted_last_max : forall {A} (f : A -> Z) l d x,
  StronglySorted Z.lt (map f l) -> In x l -> f x <= f (last l d).
Proof.
  induction l as [|y l IH]; intros d x H Hx; [destruct Hx|].
  cbn [map] in H. inversion H as [|? ? Hs Hf]; subst.
  destruct l as [|z l]; [destruct Hx as [<-|[]]; cbn; lia|].
  change (last (y :: z :: l) d) with (last (z :: l) d).
  destruct Hx as [<-|Hx]; [|apply IH; assumption].
  rewrite Forall_forall in Hf.
  assert (f y < f (last (z :: l) d)); [|lia].
  apply Hf. apply in_map. clear. revert z. induction l as [|w l IHl]; intros z; [left; reflexivity|].
  change (last (z :: w :: l) d) with (last (w :: l) d). right. apply IHl.
Qed.

Lemma in_removelast : forall {A} (l : list A) x d, In x l -> x <> last l d -> In x (removelast l).
Proof.
  induction l as [|y l IH]; intros x d Hx Hn; [destruct Hx|].
  destruct l as [|z l]; [destruct Hx as [<-|[]]; cbn in Hn; congruence|].
  change (removelast (y :: z :: l)) with (y :: removelast (z :: l)).
  change (last (y :: z :: l) d) with (last (z :: l) d) in Hn.
  destruct Hx as [<-|Hx]; [left; reflexivity|right; apply (IH x d); assumption].
Qed.

Lemma removelast_incl : forall {A} (l : list A) x, In x (removelast l) -> In x l.
Proof.
  induction l as [|y [|z l] IH]; intros x Hx; [destruct Hx|destruct Hx|].
  change (removelast (y :: z :: l)) with (y :: removelast (z :: l)) in Hx.
  destruct Hx as [<-|Hx]; [left; reflexivity|right; apply IH; exact Hx].
Qed.

Lemma map_removelast : forall {A B} (f : A -> B) l, map f (removelast l) = removelast (map f l).
Proof.
  induction l as [|y [|z l] IH]; [reflexivity|reflexivity|].
  change (removelast (y :: z :: l)) with (y :: removelast (z :: l)). cbn [map] in *.
  change (removelast (f y :: f z :: map f l)) with (f y :: removelast (f z :: map f l)). rewrite IH. reflexivity.
Qed.

Lemma sorted_removelast : forall l, StronglySorted Z.lt l -> StronglySorted Z.lt (removelast l).
Proof.
  induction l as [|y [|z l] IH]; intros H; [constructor|constructor|].
  change (removelast (y :: z :: l)) with (y :: removelast (z :: l)).
  inversion H as [|? ? Hs Hf]; subst. constructor; [apply IH; exact Hs|].
  apply Forall_forall. intros x Hx. rewrite Forall_forall in Hf. apply Hf. apply removelast_incl. exact Hx.
Qed.

Lemma removelast_rows_spec : forall l, removelast_rows l = removelast l.
Proof. induction l as [|x [|y l] IH]; [reflexivity|reflexivity|]. cbn [removelast_rows removelast] in *. rewrite IH. reflexivity. Qed.

Lemma rows_of_removelast : forall ivs bk,
  map (fun r => (d_lo r, d_hi r, d_val r, d_cov r)) (removelast (rows_of ivs bk)) =
  map (fun p => (fst p, snd p, bucket_value (fst p) (snd p) ivs, coverage (fst p) (snd p) ivs false)) (removelast bk).
Proof.
  induction bk as [|[lo hi] bk IH]; [reflexivity|].
  destruct bk as [|[lo' hi'] bk]; [reflexivity|].
  change (removelast ((lo, hi) :: (lo', hi') :: bk)) with ((lo, hi) :: removelast ((lo', hi') :: bk)).
  change (rows_of ivs ((lo, hi) :: (lo', hi') :: bk)) with
    (mkD lo hi (bucket_value lo hi ivs) (coverage lo hi ivs false) :: rows_of ivs ((lo', hi') :: bk)).
  assert (exists r rest, rows_of ivs ((lo', hi') :: bk) = r :: rest) as (r & rest & E) by (cbn [rows_of]; eauto).
  rewrite E in *. change (removelast (?a :: r :: rest)) with (a :: removelast (r :: rest)).
  cbn [map d_lo d_hi d_val d_cov fst snd]. rewrite IH. reflexivity.
Qed.

(* find on a list whose keys are strictly increasing returns the entry with the key *)
Lemma find_sorted : forall {A} (key : A -> Z) l x,
  StronglySorted Z.lt (map key l) -> In x l -> find (fun r => key r =? key x) l = Some x.
Proof.
  induction l as [|y l IH]; intros x H Hx; [destruct Hx|].
  cbn [map] in H. inversion H as [|? ? Hs Hf]; subst. cbn [find].
  destruct Hx as [<-|Hx]; [rewrite Z.eqb_refl; reflexivity|].
  rewrite Forall_forall in Hf. assert (key y < key x) by (apply Hf; apply in_map; exact Hx).
  destruct (key y =? key x) eqn:E; [apply Z.eqb_eq in E; lia|]. apply IH; assumption.
Qed.

Lemma find_ext_key : forall {A B} (f : A -> B) (k : B -> bool) l, find k (map f l) = option_map f (find (fun x => k (f x)) l).
Proof. induction l as [|x l IH]; [reflexivity|]. cbn [map find]. destruct (k (f x)); [reflexivity|exact IH]. Qed.

(* a relevant day that is not the last row: the daily class' entry is clean_day, the billing class' entry is the
   bucket value *)
Section Lookup.
  Variable rs : list reading.
  Variable bs : list Z.
  Hypothesis Hinc : incr bs.
  Let bk := filter (relevant rs) (pairs bs).

  Lemma bk_sorted : StronglySorted Z.lt (map fst bk).
  Proof. apply sorted_filter. apply pairs_fst_sorted'. exact Hinc. Qed.

  Lemma lookup_downsample : forall p, In p (removelast bk) ->
    lookup_day (downsample_and_clean rs bs) (fst p) = clean_day (fst p) (snd p) (intervals rs) false.
  Proof.
    intros p Hp. unfold downsample_and_clean, as_freq_cum. fold bk.
    set (ivs := intervals rs).
    assert (exists last_row, rows_of ivs bk = removelast (rows_of ivs bk) ++ [last_row]) as (lr & Elr).
    { destruct bk as [|q bk'] eqn:Ebk; [destruct Hp|].
      exists (last (rows_of ivs (q :: bk')) (mkD 0 0 None 0)). apply app_removelast_last.
      destruct q. cbn [rows_of]. discriminate. }
    unfold lookup_day. rewrite Elr, find_ext_key.
    assert (map (fun r => (d_lo r, d_hi r, d_val r, d_cov r)) (removelast (rows_of ivs bk)) =
            map (fun p => (fst p, snd p, bucket_value (fst p) (snd p) ivs, coverage (fst p) (snd p) ivs false)) (removelast bk))
      as Hrows by apply rows_of_removelast.
    (* the row of p *)
    assert (In (fst p, snd p, bucket_value (fst p) (snd p) ivs, coverage (fst p) (snd p) ivs false)
               (map (fun r => (d_lo r, d_hi r, d_val r, d_cov r)) (removelast (rows_of ivs bk)))) as Hin
      by (rewrite Hrows; apply (in_map (fun p => (fst p, snd p, bucket_value (fst p) (snd p) ivs, coverage (fst p) (snd p) ivs false))); exact Hp).
    apply in_map_iff in Hin. destruct Hin as (r & Er & Hr). injection Er as E1 E2 E3 E4.
    assert (StronglySorted Z.lt (map d_lo (removelast (rows_of ivs bk) ++ [lr]))) as Hsrt.
    { rewrite <- Elr.
      assert (map d_lo (rows_of ivs bk) = map fst bk) as ->.
      { pose proof (rows_of_spec ivs bk) as Hs. apply (f_equal (map (fun t => fst (fst t)))) in Hs.
        rewrite !map_map in Hs. cbn [fst] in Hs. exact Hs. }
      exact bk_sorted. }
    assert (find (fun x => d_lo x =? fst p) (removelast (rows_of ivs bk) ++ [lr]) = Some r) as Hf.
    { rewrite <- E1. apply (find_sorted d_lo); [exact Hsrt|]. apply in_or_app. left. exact Hr. }
    cbn [fst]. rewrite Hf. cbn [option_map snd]. unfold clean_day. rewrite E3, E4. reflexivity.
  Qed.

  Lemma lookup_values : forall p, In p (removelast bk) ->
    lookup_day (map (fun r => (d_lo r, d_val r)) (removelast_rows (as_freq_cum rs bs))) (fst p) =
    bucket_value (fst p) (snd p) (intervals rs).
  Proof.
    intros p Hp. rewrite removelast_rows_spec. unfold as_freq_cum. fold bk. set (ivs := intervals rs).
    assert (map (fun r => (d_lo r, d_hi r, d_val r, d_cov r)) (removelast (rows_of ivs bk)) =
            map (fun p => (fst p, snd p, bucket_value (fst p) (snd p) ivs, coverage (fst p) (snd p) ivs false)) (removelast bk))
      as Hrows by apply rows_of_removelast.
    assert (In (fst p, snd p, bucket_value (fst p) (snd p) ivs, coverage (fst p) (snd p) ivs false)
               (map (fun r => (d_lo r, d_hi r, d_val r, d_cov r)) (removelast (rows_of ivs bk)))) as Hin
      by (rewrite Hrows; apply (in_map (fun p => (fst p, snd p, bucket_value (fst p) (snd p) ivs, coverage (fst p) (snd p) ivs false))); exact Hp).
    apply in_map_iff in Hin. destruct Hin as (r & Er & Hr). injection Er as E1 E2 E3 E4.
    assert (StronglySorted Z.lt (map d_lo (removelast (rows_of ivs bk)))) as Hsrt.
    { assert (map d_lo (removelast (rows_of ivs bk)) = map fst (removelast bk)) as ->.
      { apply (f_equal (map (fun t => fst (fst (fst t))))) in Hrows. rewrite !map_map in Hrows. cbn [fst] in Hrows. exact Hrows. }
      rewrite map_removelast. apply sorted_removelast. exact bk_sorted. }
    unfold lookup_day. rewrite find_ext_key. cbn [fst].
    assert (find (fun x => d_lo x =? fst p) (removelast (rows_of ivs bk)) = Some r) as Hf
      by (rewrite <- E1; apply (find_sorted d_lo); assumption).
    rewrite Hf. cbn [option_map snd]. exact E3.
  Qed.

  (* a relevant bucket that lies before another relevant one is not the last row *)
  Lemma not_last_row : forall p q, In p (pairs bs) -> relevant rs p = true ->
    In q (pairs bs) -> relevant rs q = true -> fst p < fst q -> In p (removelast bk).
  Proof.
    intros p q Hp Hrp Hq Hrq Hlt.
    assert (In p bk) as Hpb by (apply filter_In; tauto).
    assert (In q bk) as Hqb by (apply filter_In; tauto).
    apply (in_removelast bk p (0, 0)); [exact Hpb|].
    intro E. pose proof (sorted_last_max fst bk (0, 0) q bk_sorted Hqb) as Hm. rewrite <- E in Hm. lia.
  Qed.
End Lookup.

(* ------------------------------------------------------------------------------------------------ *)
(* 10. the data classes                                                                              *)
(* ------------------------------------------------------------------------------------------------ *)

Lemma pairs_cons_incl : forall a l p, In p (pairs l) -> In p (pairs (a :: l)).
Proof. intros a [|b l] p H; [destruct H|]. change (pairs (a :: b :: l)) with ((a, b) :: pairs (b :: l)). right. exact H. Qed.

Lemma pairs_app_incl : forall mid c post p, In p (pairs (c :: mid)) -> In p (pairs ((c :: mid) ++ post)).
Proof.
  induction mid as [|d mid IH]; intros c post p H; [destruct H|].
  change (pairs (c :: d :: mid)) with ((c, d) :: pairs (d :: mid)) in H.
  change (pairs ((c :: d :: mid) ++ post)) with ((c, d) :: pairs ((d :: mid) ++ post)).
  destruct H as [<-|H]; [left; reflexivity|right; apply IH; exact H].
Qed.

Lemma pairs_sub : forall pre c mid post p, In p (pairs (c :: mid)) -> In p (pairs (pre ++ (c :: mid) ++ post)).
Proof.
  induction pre as [|a pre IH]; intros c mid post p H; [apply pairs_app_incl; exact H|].
  change ((a :: pre) ++ (c :: mid) ++ post) with (a :: (pre ++ (c :: mid) ++ post)).
  apply pairs_cons_incl. apply IH. exact H.
Qed.

(* the day buckets of a boundary list do not overlap *)
Lemma pairs_disjoint : forall l c p q, incr (c :: l) -> In p (pairs (c :: l)) -> In q (pairs (c :: l)) ->
  p = q \/ snd p <= fst q \/ snd q <= fst p.
Proof.
  induction l as [|d l IH]; intros c p q H Hp Hq; [destruct Hp|].
  change (pairs (c :: d :: l)) with ((c, d) :: pairs (d :: l)) in Hp, Hq.
  destruct H as [Hcd H].
  destruct Hp as [<-|Hp]; destruct Hq as [<-|Hq]; [left; reflexivity| | |apply (IH d); assumption]; cbn [fst snd].
  - pose proof (pairs_in_bounds l d q H Hq). right. left. lia.
  - pose proof (pairs_in_bounds l d p H Hp). right. right. lia.
Qed.

Lemma pairs_disjoint' : forall bs p q, incr bs -> In p (pairs bs) -> In q (pairs bs) ->
  p = q \/ snd p <= fst q \/ snd q <= fst p.
Proof. intros [|c l] p q H Hp Hq; [destruct Hp|eapply pairs_disjoint; eassumption]. Qed.

Lemma pairs_pos : forall bs p, incr bs -> In p (pairs bs) -> fst p < snd p.
Proof. intros [|c l] p H Hp; [destruct Hp|]. pose proof (pairs_in_bounds l c p H Hp). lia. Qed.

(* ---- the daily class on sub-daily data ---- *)

Lemma daily_class_hourly_l : forall elec inf rows bs rs,
  rs = dropna (zero_to_nan elec rows) -> rs <> [] ->
  granularity inf (map stamp rs) Daily = Some Hourly ->
  daily_class elec inf rows bs =
  Days (map (fun b => lookup_day (downsample_and_clean rs bs) (fst b)) (pairs bs)).
Proof.
  intros elec inf rows bs rs E Hne Hg. unfold daily_class. rewrite <- E.
  destruct rs as [|r rs']; [congruence|]. rewrite Hg. reflexivity.
Qed.

(* a day that is not the last one pandas creates: the class reports clean_day of the readings that are LEFT AFTER
   dropna() -- the previous reading is spread over whatever was dropped *)
Lemma daily_class_day_l : forall rs bs p q, incr bs ->
  In p (pairs bs) -> relevant rs p = true -> In q (pairs bs) -> relevant rs q = true -> fst p < fst q ->
  lookup_day (downsample_and_clean rs bs) (fst p) = clean_day (fst p) (snd p) (intervals rs) false.
Proof.
  intros rs bs p q Hinc Hp Hrp Hq Hrq Hlt. apply lookup_downsample; [exact Hinc|].
  eapply not_last_row; eassumption.
Qed.

(* ---- the billing class ---- *)

Definition billing_closing (bs : list Z) (rows : list reading) : Z :=
  let fb := floor_boundary bs (last_stamp rows) in fb + (last_stamp rows - fb) mod 60 + 1440.

Definition billing_days (cl : list reading) (bs : list Z) (b : Z * Z) : option Q :=
  lookup_day (map (fun r => (d_lo r, d_val r)) (removelast_rows (as_freq_cum cl bs))) (fst b).

Lemma billing_class_spec_l : forall cal offs elec inf rows bs rs g cl,
  rs = dropna (zero_to_nan elec rows) -> rs <> [] ->
  granularity inf (map stamp rs) BillingBimonthly = Some g -> is_billing g = true ->
  cl = clean_billing cal offs g (rs ++ [(billing_closing bs rows, None)]) -> cl <> [] ->
  billing_class cal offs elec inf rows bs = Days (map (billing_days cl bs) (pairs bs)).
Proof.
  intros cal offs elec inf rows bs rs g cl E Hne Hg Hb Ecl Hcl. unfold billing_class. rewrite <- E.
  destruct rs as [|r rs']; [congruence|]. rewrite Hg, Hb. cbn [negb].
  unfold billing_closing in Ecl. cbv zeta in Ecl. cbv zeta. rewrite <- Ecl.
  destruct cl as [|x cl']; [congruence|]. reflexivity.
Qed.

(* billing_period_conserved, end to end: a period that still carries usage after cleaning (a valid one, see
   offcycle_dropped_l) and whose two ends are local midnights: the class' days inside it are all present and add up
   to the billed amount *)
Lemma billing_class_period_l : forall cl bs iv v pre c mid post,
  sorted_rs cl -> In iv (intervals cl) -> ival iv = Some v ->
  bs = pre ++ (c :: mid) ++ post -> incr bs -> c = ilo iv -> last mid c = ihi iv ->
  (exists q, In q (pairs bs) /\ fst q <= last_stamp cl < snd q) ->
  (forall p, In p (pairs (c :: mid)) ->
     In p (pairs bs) /\ billing_days cl bs p = Some (bucket_sum (fst p) (snd p) (intervals cl))) /\
  (sumQ (map (fun p => oq0 (billing_days cl bs p)) (pairs (c :: mid))) == v)%Q.
Proof.
  intros cl bs iv v pre c mid post Hs Hin Hv Ebs Hinc Hc Hl (q & Hq & Hq1 & Hq2).
  assert (incr (c :: mid)) as Hincm.
  { subst bs. clear - Hinc. induction pre as [|a pre IH]; cbn [app] in Hinc.
    - revert c Hinc. induction mid as [|d mid IHm]; intros c Hinc; [exact I|].
      cbn [app] in Hinc. destruct Hinc as [Hcd Hinc]. split; [exact Hcd|]. apply IHm. exact Hinc.
    - apply IH. eapply incr_tail. exact Hinc. }
  pose proof (intervals_bounds cl iv Hs Hin) as (Hb1 & Hb2 & Hb3).
  destruct (period_conserved_l cl iv v c mid Hs Hin Hv Hincm Hc Hl) as [Hsum Hday].
  assert (forall p, In p (pairs (c :: mid)) ->
            In p (pairs bs) /\ billing_days cl bs p = Some (bucket_sum (fst p) (snd p) (intervals cl))) as Hall.
  { intros p Hp. pose proof (pairs_in_bounds mid c p Hincm Hp) as (Hp1 & Hp2 & Hp3).
    assert (In p (pairs bs)) as Hpb by (rewrite Ebs; apply pairs_sub; exact Hp).
    split; [exact Hpb|].
    destruct (Hday p Hp) as [_ Hval]. rewrite <- Hval.
    unfold billing_days. apply lookup_values; [exact Hinc|].
    apply (not_last_row cl bs Hinc p q); try assumption.
    - unfold relevant. apply andb_true_iff. split; [apply Z.ltb_lt|apply Z.leb_le]; lia.
    - unfold relevant. apply andb_true_iff. split; [apply Z.ltb_lt|apply Z.leb_le]; lia.
    - destruct (pairs_disjoint' bs p q Hinc Hpb Hq) as [E|[E|E]]; [subst q; lia| |lia].
      pose proof (pairs_pos bs p Hinc Hpb). lia. }
  split; [exact Hall|].
  rewrite <- Hsum. apply sumQ_ext. intros p Hp. destruct (Hall p Hp) as [_ E]. rewrite E. reflexivity.
Qed.

(* offcycle_dropped, end to end: the class' days inside an interval of the cleaned series that carries no usage (an
   off-cycle period, an unbilled one, the closing row) are all missing *)
Lemma billing_class_blank_l : forall cl bs iv p,
  sorted_rs cl -> In iv (intervals cl) -> ival iv = None -> incr bs -> In p (pairs bs) ->
  ilo iv <= fst p -> snd p <= ihi iv ->
  (exists q, In q (pairs bs) /\ fst q <= last_stamp cl < snd q /\ p <> q) ->
  billing_days cl bs p = None.
Proof.
  intros cl bs iv p Hs Hin Hv Hinc Hp H1 H2 (q & Hq & [Hq1 Hq2] & Hne).
  pose proof (intervals_bounds cl iv Hs Hin) as (Hb1 & Hb2 & Hb3).
  pose proof (pairs_pos bs p Hinc Hp) as Hpp.
  rewrite <- (period_missing_l cl iv (fst p) (snd p) Hs Hin Hv); try lia.
  unfold billing_days. apply lookup_values; [exact Hinc|].
  apply (not_last_row cl bs Hinc p q); try assumption.
  - unfold relevant. apply andb_true_iff. split; [apply Z.ltb_lt|apply Z.leb_le]; lia.
  - unfold relevant. apply andb_true_iff. split; [apply Z.ltb_lt|apply Z.leb_le]; lia.
  - destruct (pairs_disjoint' bs p q Hinc Hp Hq) as [E|[E|E]]; [congruence|lia|lia].
Qed.

(* ------------------------------------------------------------------------------------------------ *)
(* 11. minute_grid_eq: the code's literal 1-minute materialisation equals the interval formula       *)
(* ------------------------------------------------------------------------------------------------ *)

Definition rate (iv : interval) : option Q :=
  option_map (fun v => (v * inject_Z 1 / inject_Z (ihi iv - ilo iv))%Q) (ival iv).
Definition holds (iv : interval) (m : Z) : bool := (ilo iv <=? m) && (m <? ihi iv).
Definition rate_at (iv : interval) (m : Z) : option Q := if holds iv m then rate iv else None.
Definition b2z (b : bool) : Z := if b then 1 else 0.

(* at every minute the forward-filled atomic series carries the rate of the one interval that holds the minute *)
Lemma atom_sum_cons : forall rest r m, sorted_rs (r :: rest) ->
  (oq0 (atom (r :: rest) m) == sumQ (map (fun iv => oq0 (rate_at iv m)) (intervals (r :: rest))))%Q /\
  b2z (is_some (atom (r :: rest) m)) = zsum (map (fun iv => b2z (is_some (rate_at iv m))) (intervals (r :: rest))).
Proof.
  induction rest as [|r' rest IH]; intros r m Hs; [split; reflexivity|].
  change (intervals (r :: r' :: rest)) with (mkI (stamp r) (stamp r') (rval r) :: intervals (r' :: rest)).
  pose proof (sorted_rs_tail _ _ Hs) as Hs'.
  assert (stamp r < stamp r') as Hlt by (unfold sorted_rs in Hs; cbn in Hs; tauto).
  cbn [map sumQ zsum fold_right]. fold (zsum (map (fun iv => b2z (is_some (rate_at iv m))) (intervals (r' :: rest)))).
  change (atom (r :: r' :: rest) m) with
    (if stamp r' <=? m then atom (r' :: rest) m
     else if stamp r <=? m then option_map (fun v => (v * inject_Z 1 / inject_Z (stamp r' - stamp r))%Q) (rval r) else None).
  unfold rate_at at 1 3. unfold holds. cbn [ilo ihi].
  destruct (stamp r' <=? m) eqn:E1.
  - apply Z.leb_le in E1. assert ((stamp r <=? m) && (m <? stamp r') = false) as ->
      by (apply andb_false_iff; right; apply Z.ltb_ge; lia).
    destruct (IH r' m Hs') as [IH1 IH2]. cbn [oq0 is_some b2z]. split; [rewrite IH1; ring|rewrite IH2; lia].
  - apply Z.leb_gt in E1.
    assert (forall iv, In iv (intervals (r' :: rest)) -> rate_at iv m = None) as Hnone.
    { intros iv Hiv. pose proof (intervals_bounds _ iv Hs' Hiv) as (H1 & _). cbn [first_stamp] in H1.
      unfold rate_at, holds. assert (ilo iv <=? m = false) as -> by (apply Z.leb_gt; lia). reflexivity. }
    assert (sumQ (map (fun iv => oq0 (rate_at iv m)) (intervals (r' :: rest))) == 0)%Q as Hz1
      by (apply sumQ_zero; intros iv Hiv; rewrite (Hnone iv Hiv); reflexivity).
    assert (zsum (map (fun iv => b2z (is_some (rate_at iv m))) (intervals (r' :: rest))) = 0) as Hz2
      by (apply zsum_zero; intros iv Hiv; rewrite (Hnone iv Hiv); reflexivity).
    rewrite Hz1, Hz2. assert (m <? stamp r' = true) as -> by (apply Z.ltb_lt; lia). rewrite andb_true_r.
    destruct (stamp r <=? m); unfold rate; cbn [ival ilo ihi]; split; try ring; lia.
Qed.

Lemma atom_sum : forall rs m, sorted_rs rs ->
  (oq0 (atom rs m) == sumQ (map (fun iv => oq0 (rate_at iv m)) (intervals rs)))%Q /\
  b2z (is_some (atom rs m)) = zsum (map (fun iv => b2z (is_some (rate_at iv m))) (intervals rs)).
Proof. intros [|r rest] m Hs; [split; reflexivity|apply atom_sum_cons; exact Hs]. Qed.

Lemma grid_sum_ext : forall (f g : Z -> Q) lo n, (forall m, (f m == g m)%Q) -> (grid_sum f lo n == grid_sum g lo n)%Q.
Proof. induction n as [|k IH]; intros H; cbn [grid_sum]; [reflexivity|]. rewrite !Qred_correct, IH, H by exact H. reflexivity. Qed.

Lemma grid_sum_sumQ : forall {A} (F : A -> Z -> Q) l lo n,
  (grid_sum (fun m => sumQ (map (fun a => F a m) l)) lo n == sumQ (map (fun a => grid_sum (F a) lo n) l))%Q.
Proof.
  induction n as [|k IH]; cbn [grid_sum].
  - symmetry. apply sumQ_zero. reflexivity.
  - rewrite Qred_correct, IH.
    rewrite (sumQ_ext (fun a => grid_sum (F a) lo (S k)) (fun a => (grid_sum (F a) lo k + F a (lo + Z.of_nat k)%Z)%Q))
      by (intros a _; cbn [grid_sum]; apply Qred_correct).
    rewrite <- sumQ_plus. reflexivity.
Qed.

Lemma grid_count_ext : forall (f g : Z -> bool) lo n, (forall m, f m = g m) -> grid_count f lo n = grid_count g lo n.
Proof. induction n as [|k IH]; intros H; cbn [grid_count]; [reflexivity|]. rewrite IH, H by exact H. reflexivity. Qed.

Fixpoint grid_zsum (f : Z -> Z) (lo : Z) (n : nat) : Z :=
  match n with O => 0 | S k => grid_zsum f lo k + f (lo + Z.of_nat k) end.

Lemma grid_count_zsum : forall f lo n, grid_count f lo n = grid_zsum (fun m => b2z (f m)) lo n.
Proof. induction n as [|k IH]; cbn [grid_count grid_zsum]; [reflexivity|]. rewrite IH. reflexivity. Qed.

Lemma grid_zsum_ext : forall (f g : Z -> Z) lo n, (forall m, f m = g m) -> grid_zsum f lo n = grid_zsum g lo n.
Proof. induction n as [|k IH]; intros H; cbn [grid_zsum]; [reflexivity|]. rewrite IH, H by exact H. reflexivity. Qed.

Lemma grid_zsum_zsum : forall {A} (F : A -> Z -> Z) l lo n,
  grid_zsum (fun m => zsum (map (fun a => F a m) l)) lo n = zsum (map (fun a => grid_zsum (F a) lo n) l).
Proof.
  induction n as [|k IH]; cbn [grid_zsum].
  - symmetry. apply zsum_zero. reflexivity.
  - rewrite IH. clear IH. induction l as [|a l IHl]; cbn [map zsum fold_right]; [reflexivity|].
    fold (zsum (map (fun a0 => grid_zsum (F a0) lo k) l)). fold (zsum (map (fun a0 => F a0 (lo + Z.of_nat k)) l)).
    fold (zsum (map (fun a0 => grid_zsum (F a0) lo k + F a0 (lo + Z.of_nat k)) l)). lia.
Qed.

(* minutes of [lo, lo+n) held by [a,b) = the overlap *)
Lemma overlap_step : forall a b lo k, 0 <= k ->
  overlap a b lo (lo + (k + 1)) = overlap a b lo (lo + k) + b2z ((a <=? lo + k) && (lo + k <? b)).
Proof.
  intros a b lo k Hk. unfold overlap, b2z.
  destruct (a <=? lo + k) eqn:E1; destruct (lo + k <? b) eqn:E2; cbn [andb];
    try apply Z.leb_le in E1; try apply Z.leb_gt in E1; try apply Z.ltb_lt in E2; try apply Z.ltb_ge in E2; lia.
Qed.

Lemma grid_iv_count : forall iv lo n,
  grid_zsum (fun m => b2z (is_some (rate_at iv m))) lo n = covered lo (lo + Z.of_nat n) iv.
Proof.
  intros iv lo. induction n as [|k IH]; cbn [grid_zsum].
  - unfold covered. destruct (ival iv); [|reflexivity]. unfold overlap. cbn [Z.of_nat]. lia.
  - rewrite IH. rewrite Nat2Z.inj_succ. unfold Z.succ. unfold covered, rate_at, holds, rate.
    destruct (ival iv) as [v|].
    + rewrite overlap_step by lia. cbn [option_map].
      destruct ((ilo iv <=? lo + Z.of_nat k) && (lo + Z.of_nat k <? ihi iv)); reflexivity.
    + cbn [option_map]. destruct ((ilo iv <=? lo + Z.of_nat k) && (lo + Z.of_nat k <? ihi iv)); reflexivity.
Qed.

Lemma grid_iv_sum : forall iv lo n, ilo iv < ihi iv ->
  (grid_sum (fun m => oq0 (rate_at iv m)) lo n == contrib lo (lo + Z.of_nat n) iv)%Q.
Proof.
  intros iv lo n Hlen. rewrite contrib_eq. unfold ovl.
  assert (~ inject_Z (ihi iv - ilo iv) == 0)%Q as Hnz by (apply inject_Z_nonzero; lia).
  induction n as [|k IH]; cbn [grid_sum].
  - destruct (ival iv) as [v|]; [|reflexivity].
    assert (overlap (ilo iv) (ihi iv) lo (lo + Z.of_nat 0) = 0) as -> by (unfold overlap; cbn [Z.of_nat]; lia).
    unfold Qdiv. change (inject_Z 0) with 0%Q. ring.
  - rewrite Qred_correct, IH. rewrite Nat2Z.inj_succ. unfold Z.succ. unfold rate_at, holds, rate, ilen.
    destruct (ival iv) as [v|]; cbn [option_map oq0].
    + rewrite overlap_step by lia. rewrite inject_Z_plus.
      destruct ((ilo iv <=? lo + Z.of_nat k) && (lo + Z.of_nat k <? ihi iv)); cbn [b2z oq0].
      * field. exact Hnz.
      * change (inject_Z 0) with 0%Q. field. exact Hnz.
    + destruct ((ilo iv <=? lo + Z.of_nat k) && (lo + Z.of_nat k <? ihi iv)); cbn [oq0]; ring.
Qed.

Lemma minute_grid_eq_l : forall rs lo hi, sorted_rs rs -> lo <= hi ->
  (grid_bucket_sum rs lo hi == bucket_sum lo hi (intervals rs))%Q /\
  grid_bucket_count rs lo hi = bucket_count lo hi (intervals rs).
Proof.
  intros rs lo hi Hs Hle.
  assert (lo + Z.of_nat (Z.to_nat (hi - lo)) = hi) as Ehi by (rewrite Z2Nat.id; lia).
  split.
  - unfold grid_bucket_sum.
    rewrite (grid_sum_ext _ (fun m => sumQ (map (fun iv => oq0 (rate_at iv m)) (intervals rs)))) by (intros m; apply atom_sum; exact Hs).
    rewrite (grid_sum_sumQ (fun iv m => oq0 (rate_at iv m))).
    rewrite bucket_sum_sumQ. apply sumQ_ext. intros iv Hiv.
    pose proof (intervals_bounds rs iv Hs Hiv) as (_ & Hlen & _).
    rewrite grid_iv_sum by exact Hlen. rewrite Ehi. reflexivity.
  - unfold grid_bucket_count, bucket_count. rewrite grid_count_zsum.
    rewrite (grid_zsum_ext _ (fun m => zsum (map (fun iv => b2z (is_some (rate_at iv m))) (intervals rs)))) by (intros m; apply atom_sum; exact Hs).
    rewrite (grid_zsum_zsum (fun iv m => b2z (is_some (rate_at iv m)))).
    f_equal. apply map_ext. intros iv. rewrite grid_iv_count, Ehi. reflexivity.
Qed.

(* ------------------------------------------------------------------------------------------------ *)
(* 12. the statement for the daily class, under the guard "no reading is missing"                    *)
(* ------------------------------------------------------------------------------------------------ *)

Definition readings_in (lo hi : Z) (ivs : list interval) : Q :=
  sumQ (map (fun iv => oq0 (ival iv)) (filter (inside lo hi) ivs)).

Lemma daily_class_statement_partial_l : forall elec inf rows bs step t0 p q,
  dropna (zero_to_nan elec rows) = rows -> rows <> [] ->
  granularity inf (map stamp rows) Daily = Some Hourly ->
  incr bs -> In p (pairs bs) -> relevant rows p = true ->
  In q (pairs bs) -> relevant rows q = true -> fst p < fst q ->
  0 < step -> (forall iv, In iv (intervals rows) -> ihi iv = ilo iv + step /\ (step | ilo iv - t0)) ->
  (step | fst p - t0) -> (step | snd p - t0) ->
  let entry := fun b : Z * Z => lookup_day (downsample_and_clean rows bs) (fst b) in
  let ivs := intervals rows in
  let c := coverage (fst p) (snd p) ivs false in
  daily_class elec inf rows bs = Days (map entry (pairs bs)) /\
  ((c <= 1 # 2)%Q -> entry p = None) /\
  ((1 # 2 < c)%Q -> oq_eq (entry p) (Some (readings_in (fst p) (snd p) ivs / c)%Q)) /\
  (bucket_count (fst p) (snd p) ivs = snd p - fst p -> oq_eq (entry p) (Some (readings_in (fst p) (snd p) ivs))).
Proof.
  intros elec inf rows bs step t0 p q Hd Hne Hg Hinc Hp Hrp Hq Hrq Hlt Hstep Hreg Hlo Hhi entry ivs c.
  pose proof (pairs_pos bs p Hinc Hp) as Hpp.
  assert (no_straddle (fst p) (snd p) ivs) as Hns by (eapply regular_no_straddle; eassumption).
  assert (entry p = clean_day (fst p) (snd p) ivs false) as He
    by (unfold entry; eapply daily_class_day_l; eassumption).
  split; [apply daily_class_hourly_l; [symmetry; exact Hd|exact Hne|exact Hg]|].
  rewrite He. split; [apply sparse_day_l|]. split.
  - intros Hc. pose proof (partial_day_l (fst p) (snd p) ivs Hpp Hc) as H.
    destruct (clean_day (fst p) (snd p) ivs false) as [x|]; cbn [oq_eq] in *; [|exact H].
    rewrite H. unfold readings_in. rewrite (bucket_sum_inside (fst p) (snd p) ivs) by (try lia; exact Hns). reflexivity.
  - intros Hc. apply full_day_l; assumption.
Qed.
