From Coq Require Import ZArith QArith List Bool Lia.
From V Require Import Model.Resample.
Import ListNotations.
Open Scope Z_scope.
Lemma overlap_nonneg : forall a b c d, 0 <= overlap a b c d.
Proof. intros. unfold overlap. lia. Qed.
