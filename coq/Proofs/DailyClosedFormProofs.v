(* C01, last sentence: "for daily and billing models the prediction is exactly what the documented
   piecewise heating/cooling formula gives when evaluated from the JSON parameters alone".
   The documented smoothed hinge, and the model text of Model/DailyCurve.v (real instance) in that form.
   Builds on Proofs/DailyCurveProofs.v (C11). *)
From Coq Require Import Reals Lra List Bool.
From V Require Import Model.Num Model.NumR Model.DailyCurve Proofs.DailyCurveProofs.
Import ListNotations.
Local Open Scope R_scope.

Section Hinge.
Variable lo : R.

(* S(d, 0) = max d 0;  S(d, k) = k (u + e^(-u) - 1) with u = max d 0 / k
   (the exponent is clipped below at [lo], as every exp argument of the package is) *)
Definition hinge (d k : R) : R :=
  if Req_EM_T k 0 then Rmax d 0
  else k * (Rmax d 0 / k + exp (Rmax (- (Rmax d 0 / k)) lo) - 1).

Lemma branch_hinge : forall beta k d, branch lo beta k (pos d) = beta * hinge d k.
Proof.
  intros beta k d. unfold hinge, pos. destruct (Req_EM_T k 0) as [E|E].
  - subst k. rewrite branch_k0. reflexivity.
  - unfold branch, sm. field. exact E.
Qed.

Lemma hinge_unclipped : forall d k, k <> 0 -> lo <= - (Rmax d 0 / k) ->
  hinge d k = k * (Rmax d 0 / k + exp (- (Rmax d 0 / k)) - 1).
Proof.
  intros d k Hk Hc. unfold hinge. destruct (Req_EM_T k 0); [contradiction|].
  rewrite (Rmax_left (- (Rmax d 0 / k)) lo) by exact Hc. reflexivity.
Qed.

Lemma hinge_inactive : forall d k, d <= 0 -> lo <= 0 -> hinge d k = 0.
Proof.
  intros d k Hd Hlo. unfold hinge. rewrite (Rmax_right d 0) by exact Hd.
  destruct (Req_EM_T k 0); [reflexivity|].
  replace (0 / k) with 0 by (unfold Rdiv; ring). rewrite Ropp_0. rewrite (Rmax_left 0 lo) by exact Hlo.
  rewrite exp_0. ring.
Qed.
End Hinge.

Section ClosedForm.
Variables lo hi : R.
Hypothesis Hlo : lo <= 0.
Hypothesis Hhi : 0 <= hi.
Notation N := (RNumOf lo hi).

(* heating and cooling terms evaluated from the vector the stored parameters determine *)
Definition H_term (x : fullx N) (T : R) : R := x_hdd_beta x * hinge lo (x_hdd_bp x - T) (x_hdd_k x).
Definition C_term (x : fullx N) (T : R) : R := x_cdd_beta x * hinge lo (T - x_cdd_bp x) (x_cdd_k x).

Lemma daily_closed_form_l : forall c tc, admissible lo hi c tc -> off_corner lo hi c tc -> forall T : R,
  predict_submodel N c tc T =
    Some (intercept c + H_term (eff lo hi c tc) T + C_term (eff lo hi c tc) T,
          H_term (eff lo hi c tc) T, C_term (eff lo hi c tc) T).
Proof.
  intros c tc Ha Ho T. rewrite (predict_closed lo hi Hlo Hhi c tc Ha Ho T).
  unfold heat_part, cool_part, H_term, C_term. rewrite !branch_hinge. reflexivity.
Qed.
End ClosedForm.
