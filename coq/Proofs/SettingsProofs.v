(* C14 — generic lemmas about Model/Settings.v (no generated content). *)
From Coq Require Import ZArith QArith List Bool String Ascii Lia.
From V Require Import Model.Settings.
Import ListNotations.
Open Scope string_scope.

(* ================================================================== strings *)
Lemma is_ws_lower : forall c, is_ws (lower_ascii c) = is_ws c.
Proof. intros [[] [] [] [] [] [] [] []]; reflexivity. Qed.
Lemma lower_ascii_idem : forall c, lower_ascii (lower_ascii c) = lower_ascii c.
Proof. intros [[] [] [] [] [] [] [] []]; reflexivity. Qed.

Lemma lower_idem : forall s, lower (lower s) = lower s.
Proof. induction s as [|c r IH]; cbn; [reflexivity|]. now rewrite lower_ascii_idem, IH. Qed.

Lemma lower_lstrip : forall s, lower (lstrip s) = lstrip (lower s).
Proof.
  induction s as [|c r IH]; cbn; [reflexivity|].
  rewrite is_ws_lower. destruct (is_ws c); [exact IH|reflexivity].
Qed.

Lemma lower_rstrip : forall s, lower (rstrip s) = rstrip (lower s).
Proof.
  induction s as [|c r IH]; cbn [rstrip lower]; [reflexivity|].
  rewrite <- IH. destruct (rstrip r) as [|d r'] eqn:E; cbn [lower].
  - rewrite is_ws_lower. destruct (is_ws c); reflexivity.
  - reflexivity.
Qed.

Lemma lower_strip : forall s, lower (strip s) = strip (lower s).
Proof. intros s. unfold strip. now rewrite lower_rstrip, lower_lstrip. Qed.

Definition head_not_ws (s : string) : Prop :=
  match s with EmptyString => True | String c _ => is_ws c = false end.

Lemma lstrip_head : forall s, head_not_ws (lstrip s).
Proof.
  induction s as [|c r IH]; cbn; [exact I|].
  destruct (is_ws c) eqn:E; [exact IH|exact E].
Qed.
Lemma lstrip_fix : forall s, head_not_ws s -> lstrip s = s.
Proof. intros [|c r] H; cbn in *; [reflexivity|]. now rewrite H. Qed.
Lemma rstrip_head : forall s, head_not_ws s -> head_not_ws (rstrip s).
Proof.
  intros [|c r] H; cbn in *; [exact I|].
  destruct (rstrip r); [rewrite H|]; exact H.
Qed.
Lemma rstrip_idem : forall s, rstrip (rstrip s) = rstrip s.
Proof.
  induction s as [|c r IH]; cbn [rstrip]; [reflexivity|].
  destruct (rstrip r) as [|d r'] eqn:E.
  - destruct (is_ws c) eqn:W; cbn [rstrip]; [reflexivity|]. now rewrite W.
  - assert (X : forall c0 x, rstrip (String c0 x) =
                  match rstrip x with
                  | EmptyString => if is_ws c0 then EmptyString else String c0 EmptyString
                  | String a b => String c0 (String a b)
                  end) by reflexivity.
    rewrite X, IH. reflexivity.
Qed.

Lemma strip_idem : forall s, strip (strip s) = strip s.
Proof.
  intros s. unfold strip.
  rewrite (lstrip_fix (rstrip (lstrip s))); [apply rstrip_idem|].
  apply rstrip_head, lstrip_head.
Qed.

Lemma norm_str_idem : forall s, norm_str (norm_str s) = norm_str s.
Proof. intros s. unfold norm_str. now rewrite lower_strip, lower_idem, strip_idem. Qed.

Arguments norm_str : simpl never.

(* ================================================================== induction principles (nested inductives) *)
Section jv_ind2.
  Variable P : jv -> Prop.
  Hypothesis HNull : P JNull.
  Hypothesis HBool : forall b, P (JBool b).
  Hypothesis HNum : forall q, P (JNum q).
  Hypothesis HStr : forall s, P (JStr s).
  Hypothesis HList : forall l, Forall P l -> P (JList l).
  Hypothesis HObj : forall kvs, Forall (fun kv => P (snd kv)) kvs -> P (JObj kvs).
  Hypothesis HInst : forall c kvs, Forall (fun kv => P (snd kv)) kvs -> P (JInst c kvs).
  Fixpoint jv_ind2 (v : jv) : P v :=
    match v with
    | JNull => HNull
    | JBool b => HBool b
    | JNum q => HNum q
    | JStr s => HStr s
    | JList l => HList l ((fix go (l : list jv) : Forall P l :=
                             match l with [] => Forall_nil _ | x :: r => Forall_cons x (jv_ind2 x) (go r) end) l)
    | JObj kvs => HObj kvs ((fix go (l : list (string * jv)) : Forall (fun kv => P (snd kv)) l :=
                               match l with [] => Forall_nil _ | x :: r => Forall_cons x (jv_ind2 (snd x)) (go r) end) kvs)
    | JInst c kvs => HInst c kvs ((fix go (l : list (string * jv)) : Forall (fun kv => P (snd kv)) l :=
                               match l with [] => Forall_nil _ | x :: r => Forall_cons x (jv_ind2 (snd x)) (go r) end) kvs)
    end.
End jv_ind2.

Section stree_ind2.
  Variable P : stree -> Prop.
  Hypothesis HL : forall l, P (Leaf l).
  Hypothesis HN : forall n d c o v ch, Forall P ch -> P (Node n d c o v ch).
  Fixpoint stree_ind2 (t : stree) : P t :=
    match t with
    | Leaf l => HL l
    | Node n d c o v ch =>
        HN n d c o v ch ((fix go (l : list stree) : Forall P l :=
                            match l with [] => Forall_nil _ | x :: r => Forall_cons x (stree_ind2 x) (go r) end) ch)
    end.
End stree_ind2.

(* ================================================================== normalisation *)
Lemma map_ext_Forall : forall {A B} (f g : A -> B) l, Forall (fun x => f x = g x) l -> map f l = map g l.
Proof. induction 1; cbn; congruence. Qed.

Lemma normalise_idempotent_l : forall v, normalise (normalise v) = normalise v.
Proof.
  induction v using jv_ind2; cbn; try reflexivity.
  - now rewrite norm_str_idem.
  - f_equal. rewrite map_map. apply map_ext_Forall.
    eapply Forall_impl; [|exact H]. intros [k x] Hx; cbn [fst snd] in *. now rewrite norm_str_idem, Hx.
Qed.

Lemma normalise_kvs_idempotent_l : forall kvs, normalise_kvs (normalise_kvs kvs) = normalise_kvs kvs.
Proof.
  intros kvs. unfold normalise_kvs. rewrite map_map. apply map_ext. intros [k x]; cbn [fst snd].
  now rewrite norm_str_idem, normalise_idempotent_l.
Qed.

Lemma norm_doc_idempotent_l : forall v, norm_doc (norm_doc v) = norm_doc v.
Proof.
  induction v using jv_ind2; cbn; try reflexivity.
  f_equal. rewrite map_map. apply map_ext_Forall.
  eapply Forall_impl; [|exact H]. intros [k x] Hx; cbn [fst snd] in *. now rewrite norm_str_idem, Hx.
Qed.

(* value normalisation absorbs key normalisation *)
Lemma normalise_norm_doc : forall v, normalise (norm_doc v) = normalise v.
Proof.
  induction v using jv_ind2; cbn; try reflexivity.
  f_equal. rewrite map_map. apply map_ext_Forall.
  eapply Forall_impl; [|exact H]. intros [k x] Hx; cbn [fst snd] in *. now rewrite norm_str_idem, Hx.
Qed.

(* ------------------------------------------------------------------ two documents that agree after normalisation *)
Definition vrel (a b : jv) : Prop := normalise a = normalise b.
Definition krel (d1 d2 : list (string * jv)) : Prop :=
  Forall2 (fun x y => fst x = fst y /\ vrel (snd x) (snd y)) d1 d2.

Lemma krel_lookup : forall k d1 d2, krel d1 d2 ->
  match lookup k d1, lookup k d2 with
  | Some a, Some b => vrel a b
  | None, None => True
  | _, _ => False
  end.
Proof.
  intros k d1 d2 H. induction H as [|[k1 a] [k2 b] r1 r2 [Hk Hv] _ IH]; cbn; [exact I|].
  cbn in Hk, Hv. subst k2.
  destruct (lookup k r1), (lookup k r2); try contradiction; [exact IH|].
  destruct (String.eqb k k1); [exact Hv|exact I].
Qed.

Lemma vrel_pre_coerce : forall ty a b, vrel a b -> coerce ty (pre a) = coerce ty (pre b).
Proof.
  intros ty a b H. unfold vrel in H.
  destruct a, b; cbn in H; try discriminate; try (inversion H; subst; reflexivity).
  (* JStr / JStr *) inversion H as [H1]. cbn [pre]. now rewrite H1.
Qed.

Lemma vrel_norm_kvs : forall x y,
  map (fun kv => (norm_str (fst kv), normalise (snd kv))) x = map (fun kv => (norm_str (fst kv), normalise (snd kv))) y ->
  krel (norm_kvs x) (norm_kvs y).
Proof.
  induction x as [|[k a] x IH]; intros [|[k' b] y] H; cbn [map fst snd] in H; try discriminate; [constructor|].
  inversion H as [[Hk Hv Hr]]. unfold norm_kvs. cbn [map fst snd]. constructor; [|apply IH; exact Hr].
  cbn [fst snd]. split; [exact Hk|]. unfold vrel. now rewrite !normalise_norm_doc.
Qed.

Lemma all_some_ext_Forall : forall {A B} (f g : A -> option B) l,
  Forall (fun x => f x = g x) l -> all_some f l = all_some g l.
Proof. induction 1 as [|x l Hx _ IH]; cbn; [reflexivity|]. now rewrite Hx, IH. Qed.

Lemma vfield_krel : forall reg t d1 d2, krel d1 d2 -> vfield reg t d1 = vfield reg t d2.
Proof.
  intros reg t. induction t as [l|n d c o v ch IH] using stree_ind2; intros d1 d2 H.
  - cbn. unfold validate_leaf. pose proof (krel_lookup (lname l) d1 d2 H) as L.
    destruct (lookup (lname l) d1) as [a|], (lookup (lname l) d2) as [b|]; try contradiction; [|reflexivity].
    now rewrite (vrel_pre_coerce (lty l) a b L).
  - cbn [vfield]. pose proof (krel_lookup n d1 d2 H) as L.
    assert (B : forall s1 s2, krel s1 s2 ->
                all_some (fun c0 => named c0 (vfield reg c0 s1)) ch = all_some (fun c0 => named c0 (vfield reg c0 s2)) ch).
    { intros s1 s2 Hs. apply all_some_ext_Forall. eapply Forall_impl; [|exact IH].
      intros c0 Hc. cbn. now rewrite (Hc s1 s2 Hs). }
    destruct (lookup n d1) as [a|], (lookup n d2) as [b|]; try contradiction; [|reflexivity].
    unfold vrel in L.
    destruct a, b; cbn in L; try discriminate; try reflexivity; try (inversion L; subst; reflexivity).
    inversion L as [L1]. now rewrite (B _ _ (vrel_norm_kvs _ _ L1)).
Qed.

Lemma krel_top : forall kvs, krel (norm_kvs (normalise_kvs kvs)) (norm_kvs kvs).
Proof.
  induction kvs as [|[k a] r IH]; cbn; [constructor|]. constructor; [|exact IH].
  cbn. split; [apply norm_str_idem|]. unfold vrel. now rewrite !normalise_norm_doc, normalise_idempotent_l.
Qed.

(* key case / whitespace and the case / whitespace of string values never change the outcome *)
Lemma case_whitespace_irrelevant_l : forall reg t kvs, vtop reg t (normalise_kvs kvs) = vtop reg t kvs.
Proof.
  intros reg [l|n d c o v ch] kvs; cbn [vtop]; [reflexivity|].
  unfold vfields.
  rewrite (all_some_ext_Forall (fun c0 => named c0 (vfield reg c0 (norm_kvs (normalise_kvs kvs))))
                               (fun c0 => named c0 (vfield reg c0 (norm_kvs kvs))) ch); [reflexivity|].
  apply Forall_forall. intros c0 _. now rewrite (vfield_krel reg c0 _ _ (krel_top kvs)).
Qed.

(* ================================================================== the lock *)
(* fields built from the declared children by validation of a document without object input *)
Definition built (reg : registry) (ch : list stree) (sub : list (string * jv)) (f : list (string * sval)) : Prop :=
  all_some (fun c => named c (vfield reg c sub)) ch = Some f /\ no_inst_kvs sub = true.

Lemma no_inst_lookup : forall k kvs v, no_inst_kvs kvs = true -> lookup k kvs = Some v -> no_inst v = true.
Proof.
  induction kvs as [|[k' x] r IH]; intros v H L; cbn in *; [discriminate|].
  apply andb_prop in H as [Hx Hr]. destruct (lookup k r) eqn:E.
  - inversion L; subst. now apply IH.
  - destruct (String.eqb k k'); inversion L; subst. exact Hx.
Qed.

Lemma no_inst_norm_doc : forall v, no_inst v = true -> no_inst (norm_doc v) = true.
Proof.
  induction v using jv_ind2; cbn; intros Hn; try reflexivity; try discriminate.
  rewrite forallb_forall in *. intros [k x] Hin. apply in_map_iff in Hin as [[k0 x0] [E Hin]].
  cbn in E. inversion E; subst. cbn. rewrite Forall_forall in H. apply (H _ Hin). exact (Hn _ Hin).
Qed.
Lemma no_inst_norm_kvs : forall kvs, no_inst_kvs kvs = true -> no_inst_kvs (norm_kvs kvs) = true.
Proof.
  intros kvs H. unfold no_inst_kvs, norm_kvs in *. rewrite forallb_forall in *.
  intros [k x] Hin. apply in_map_iff in Hin as [[k0 x0] [E Hin]]. cbn in E. inversion E; subst. cbn.
  apply no_inst_norm_doc. exact (H _ Hin).
Qed.

(* the settled entry of the first child called k *)
Lemma built_find : forall reg ch sub f k c,
  all_some (fun c => named c (vfield reg c sub)) ch = Some f -> find_tree k ch = Some c ->
  exists s, vfield reg c sub = Some s /\ getf k f = Some s /\ In (k, s) f /\ tname c = k.
Proof.
  induction ch as [|c0 ch IH]; intros sub f k c H F; cbn in *; [discriminate|].
  unfold named in H at 1. destruct (vfield reg c0 sub) as [s0|] eqn:V; cbn in H; [|discriminate].
  destruct (all_some (fun c1 => named c1 (vfield reg c1 sub)) ch) as [f'|] eqn:A; [|discriminate].
  inversion H; subst f; clear H. cbn.
  destruct (String.eqb k (tname c0)) eqn:E.
  - inversion F; subst c. apply String.eqb_eq in E. subst k. exists s0. repeat split; auto.
  - destruct (IH sub f' k c A F) as (s & Hv & Hg & Hi & Hn). exists s. repeat split; auto.
Qed.

Lemma vfield_node_no_inst : forall reg n d c o v ch sub gov f,
  no_inst_kvs sub = true ->
  vfield reg (Node n d c o v ch) sub = Some (SObj gov f) ->
  gov = ch /\ exists sub', built reg ch sub' f.
Proof.
  intros reg n d c o v ch sub gov f Hn H. cbn [vfield] in H.
  destruct (lookup n sub) as [x|] eqn:L.
  - pose proof (no_inst_lookup _ _ _ Hn L) as Hx.
    destruct x; try discriminate.
    + destruct o; discriminate.
    + destruct (all_some (fun c0 => named c0 (vfield reg c0 (norm_kvs kvs))) ch) as [f'|] eqn:A; [|discriminate].
      destruct (first_fail v ch f'); [discriminate|]. inversion H; subst. split; [reflexivity|].
      exists (norm_kvs kvs). split; [exact A|]. apply no_inst_norm_kvs. exact Hx.
  - destruct (all_some (fun c0 => named c0 (vfield reg c0 [])) ch) as [f'|] eqn:A; [|discriminate].
    destruct (first_fail v ch f'); [discriminate|]. inversion H; subst. split; [reflexivity|].
    exists []. split; [exact A|reflexivity].
Qed.

Lemma forallb_In : forall {A} (p : A -> bool) l x, forallb p l = true -> In x l -> p x = true.
Proof. intros A p l x H Hin. exact (proj1 (forallb_forall p l) H x Hin). Qed.

Lemma find_tree_In : forall k ch c, find_tree k ch = Some c -> In c ch /\ tname c = k.
Proof.
  induction ch as [|c0 r IH]; cbn; intros c H; [discriminate|].
  destruct (String.eqb k (tname c0)) eqn:E.
  - inversion H; subst c. split; [now left|]. symmetry. now apply String.eqb_eq.
  - destruct (IH c H) as [I1 I2]. split; [now right|exact I2].
Qed.

(* THE LOCK (fixed code, /repo c15ad84d): if the developer check passes on the fields `f` of an object whose declared
   children are `ch`, every developer leaf of the DECLARED tree, at any depth, holds its declared default — whatever
   the fields were built from (dicts, settings objects of the declared class or of a subclass) *)
Lemma check_dev_sound : forall path ch g f l v,
  check_dev ch f = true ->
  leaf_at ch path = Some l -> ldev l = true -> value_at (SObj g f) path = Some v ->
  jv_eqb v (ldefault l) = true.
Proof.
  induction path as [|k rest IH]; intros ch g f l v C L D V; [discriminate|].
  cbn [leaf_at] in L. cbn [value_at] in V.
  destruct (find_tree k ch) as [c|] eqn:F; [|discriminate].
  destruct (find_tree_In _ _ _ F) as [Hin Hn].
  unfold check_dev in C. pose proof (forallb_In _ _ _ C Hin) as E. cbn beta in E. rewrite Hn in E.
  destruct (getf k f) as [s|] eqn:G; [|discriminate].
  destruct c as [l0|n d c o vs ch'].
  - destruct rest; [|discriminate]. inversion L; subst l0.
    destruct s as [x|g' f']; cbn in V; [|discriminate]. inversion V; subst x.
    cbn [check_dev_t] in E. rewrite D in E. cbn in E. now apply negb_true_iff, negb_false_iff in E.
  - destruct rest as [|k2 r2]; [discriminate|].
    destruct s as [x|g' f']; [cbn in V; discriminate|].
    cbn [check_dev_t] in E. exact (IH ch' g' f' l v E L D V).
Qed.

Lemma first_fail_devmode : forall vs gov f, In VDevMode vs -> first_fail vs gov f = None -> v_devmode gov f = None.
Proof.
  induction vs as [|v r IH]; intros gov f Hin H; [contradiction|]. cbn in H.
  destruct (run_vid v gov f) eqn:R; [discriminate|].
  destruct Hin as [->|Hin]; [exact R|]. now apply IH.
Qed.

Lemma dev_lock_l : forall reg n d c o vs ch kvs gov f,
  In VDevMode vs ->
  vtop reg (Node n d c o vs ch) kvs = Accept (SObj gov f) ->
  get_leaf "developer_mode" f = Some (JBool false) ->
  forall path l v, leaf_at ch path = Some l -> ldev l = true -> value_at (SObj gov f) path = Some v ->
  jv_eqb v (ldefault l) = true.
Proof.
  intros reg n d c o vs ch kvs gov f Hin H Hdm path l v L D V.
  cbn [vtop] in H. unfold vfields in H.
  destruct (all_some (fun c0 => named c0 (vfield reg c0 (norm_kvs kvs))) ch) as [f'|] eqn:A; [|discriminate].
  destruct (first_fail vs ch f') eqn:FF; [discriminate|]. inversion H; subst gov f'.
  pose proof (first_fail_devmode vs ch f Hin FF) as DM. unfold v_devmode in DM. rewrite Hdm in DM. cbn [truthy] in DM.
  destruct (check_dev ch f) eqn:C; [|discriminate].
  exact (check_dev_sound path ch ch f l v C L D V).
Qed.

(* ================================================================== the lock is exact *)
(* only the developer-mode validator answers RDeveloper *)
Lemma run_vid_developer : forall v gov f, run_vid v gov f = Some RDeveloper ->
  v = VDevMode /\ check_dev gov f = false.
Proof.
  intros v gov f H. destruct v; cbn [run_vid] in H.
  - split; [reflexivity|]. unfold v_devmode in H.
    destruct (get_leaf "developer_mode" f) as [x|]; [|discriminate].
    destruct (truthy x); [discriminate|].
    destruct (check_dev gov f); [discriminate|reflexivity].
  - exfalso. unfold v_alpha_final in H.
    repeat match type of H with context [match ?x with _ => _ end] => destruct x end; discriminate.
  - exfalso. unfold v_final_bounds in H.
    repeat match type of H with context [match ?x with _ => _ end] => destruct x end; discriminate.
  - exfalso. unfold v_init_step in H.
    repeat match type of H with context [match ?x with _ => _ end] => destruct x end; discriminate.
  - exfalso. unfold v_reduce_std in H.
    repeat match type of H with context [match ?x with _ => _ end] => destruct x end; discriminate.
  - exfalso. unfold v_options in H.
    repeat match type of H with context [match ?x with _ => _ end] => destruct x end; discriminate.
  - exfalso. unfold v_temp_bins in H.
    repeat match type of H with context [match ?x with _ => _ end] => destruct x end; discriminate.
  - exfalso. unfold v_edge_bins in H.
    repeat match type of H with context [match ?x with _ => _ end] => destruct x end; discriminate.
  - exfalso. unfold v_wavelet in H.
    repeat match type of H with context [match ?x with _ => _ end] => destruct x end; discriminate.
  - exfalso. unfold v_adaptive in H.
    repeat match type of H with context [match ?x with _ => _ end] => destruct x end; discriminate.
  - discriminate.
Qed.

Lemma first_fail_developer : forall vs gov f, first_fail vs gov f = Some RDeveloper -> check_dev gov f = false.
Proof.
  induction vs as [|v r IH]; intros gov f H; cbn in H; [discriminate|].
  destruct (run_vid v gov f) as [x|] eqn:R; [|now apply IH].
  inversion H; subst x. now destruct (run_vid_developer v gov f R).
Qed.

Lemma mem_false_neq : forall x l y, mem x l = false -> In y l -> String.eqb x y = false.
Proof.
  induction l as [|z r IH]; intros y H Hin; [contradiction|]. cbn in H. apply orb_false_iff in H as [H1 H2].
  destruct Hin as [->|Hin]; [exact H1|now apply IH].
Qed.

Lemma find_tree_nodup : forall ch c, nodupb (map tname ch) = true -> In c ch -> find_tree (tname c) ch = Some c.
Proof.
  induction ch as [|c0 r IH]; intros c H Hin; [contradiction|]. cbn in H. apply andb_prop in H as [H1 H2].
  cbn. destruct Hin as [->|Hin]; [now rewrite String.eqb_refl|].
  assert (E : String.eqb (tname c) (tname c0) = false).
  { rewrite String.eqb_sym. apply negb_true_iff in H1. apply (mem_false_neq _ _ _ H1). now apply in_map. }
  rewrite E. now apply IH.
Qed.

Lemma built_names : forall reg ch sub f,
  all_some (fun c => named c (vfield reg c sub)) ch = Some f -> map fst f = map tname ch.
Proof.
  induction ch as [|c0 r IH]; intros sub f H; cbn in H; [inversion H; reflexivity|].
  unfold named in H at 1. destruct (vfield reg c0 sub) as [s0|]; cbn in H; [|discriminate].
  destruct (all_some (fun c => named c (vfield reg c sub)) r) as [f'|] eqn:A; [|discriminate].
  inversion H; subst f. cbn. f_equal. exact (IH sub f' A).
Qed.

Lemma built_in : forall reg ch sub f k s,
  all_some (fun c => named c (vfield reg c sub)) ch = Some f -> In (k, s) f ->
  exists c, In c ch /\ tname c = k /\ vfield reg c sub = Some s.
Proof.
  induction ch as [|c0 r IH]; intros sub f k s H Hin; cbn in H; [inversion H; subst; contradiction|].
  unfold named in H at 1. destruct (vfield reg c0 sub) as [s0|] eqn:V; cbn in H; [|discriminate].
  destruct (all_some (fun c => named c (vfield reg c sub)) r) as [f'|] eqn:A; [|discriminate].
  inversion H; subst f. destruct Hin as [E|Hin].
  - inversion E; subst. exists c0. repeat split; auto. now left.
  - destruct (IH sub f' k s A Hin) as (c & I1 & I2 & I3). exists c. repeat split; auto. now right.
Qed.

Lemma forallb_false_ex : forall {A} (p : A -> bool) l, forallb p l = false -> exists x, In x l /\ p x = false.
Proof.
  induction l as [|x r IH]; cbn; intros H; [discriminate|]. apply andb_false_iff in H as [H|H].
  - exists x. split; [now left|exact H].
  - destruct (IH H) as (y & I1 & I2). exists y. split; [now right|exact I2].
Qed.


Lemma vfield_node_not_leaf : forall reg n d c vs ch sub x,
  vfield reg (Node n d c false vs ch) sub = Some (SLeaf x) -> False.
Proof.
  intros reg n d c vs ch sub x H. cbn [vfield] in H.
  destruct (lookup n sub) as [v|].
  - destruct v; try discriminate.
    + destruct (all_some (fun c0 => named c0 (vfield reg c0 (norm_kvs kvs))) ch); [|discriminate].
      destruct (first_fail vs ch l); discriminate.
    + unfold inst in H. destruct (lookup_reg cls reg) as [[anc t]|]; [|discriminate].
      destruct (mem c anc); [|discriminate]. unfold build_flat in H. destruct t; [discriminate|].
      destruct (all_some (fun c0 => vleaf_field c0 (norm_kvs kvs)) children); [|discriminate].
      destruct (first_fail vals children l); discriminate.
  - destruct (all_some (fun c0 => named c0 (vfield reg c0 [])) ch); [|discriminate].
    destruct (first_fail vs ch l); discriminate.
Qed.

(* if the developer check fails on an object built from a well-formed tree by a document without object input,
   some developer leaf of the declared tree, at some depth, does not hold its default *)
Definition exact_at (reg : registry) (t : stree) : Prop :=
  forall sub gov f, no_inst_kvs sub = true -> wf_tree t = true -> vfield reg t sub = Some (SObj gov f) ->
    check_dev_t t (SObj gov f) = false ->
    exists path l v, leaf_at (children_of t) path = Some l /\ ldev l = true /\ value_at (SObj gov f) path = Some v /\
                     jv_eqb v (ldefault l) = false.

Lemma check_dev_false_children : forall reg ch sub g f,
  Forall (exact_at reg) ch -> nodupb (map tname ch) = true -> forallb wf_tree ch = true ->
  built reg ch sub f -> check_dev ch f = false ->
  exists path l v, leaf_at ch path = Some l /\ ldev l = true /\ value_at (SObj g f) path = Some v /\
                   jv_eqb v (ldefault l) = false.
Proof.
  intros reg ch sub g f IH ND WF [B Hn] C.
  unfold check_dev in C. destruct (forallb_false_ex _ _ C) as (c1 & Hc1 & Hbad).
  pose proof (find_tree_nodup ch c1 ND Hc1) as F.
  destruct (built_find reg ch sub f (tname c1) c1 B F) as (s & Hv & Hg & _ & _).
  rewrite Hg in Hbad.
  pose proof (forallb_In _ _ _ WF Hc1) as WF1.
  destruct c1 as [l|n d c o vs ch1].
  - (* a leaf *)
    cbn in Hv. destruct (validate_leaf l sub) as [x|]; [|discriminate]. inversion Hv; subst s.
    cbn [check_dev_t] in Hbad. apply negb_false_iff, andb_true_iff in Hbad as [D1 D2]. apply negb_true_iff in D2.
    exists [lname l], l, x. cbn [leaf_at value_at]. cbn [tname] in F, Hg. rewrite F, Hg. repeat split; auto.
  - (* a nested object *)
    cbn [tname] in F, Hg.
    destruct s as [x|gov1 f1].
    + cbn in WF1. apply andb_prop in WF1 as [WF1 _]. apply andb_prop in WF1 as [WF1 _]. apply negb_true_iff in WF1. subst o.
      exfalso. exact (vfield_node_not_leaf reg n d c vs ch1 sub x Hv).
    + rewrite Forall_forall in IH. specialize (IH _ Hc1 sub gov1 f1 Hn WF1 Hv Hbad).
      destruct IH as (path & l & v & L & D & V & E). cbn [children_of] in L.
      exists (n :: path), l, v. cbn [leaf_at value_at]. rewrite F, Hg.
      destruct path as [|k2 rest]; [cbn in L; discriminate|]. repeat split; auto.
Qed.

Lemma exact_all : forall reg t, exact_at reg t.
Proof.
  intros reg. induction t as [l|n d c o vs ch IH] using stree_ind2; intros sub gov f Hn WF H C.
  - cbn in H. destruct (validate_leaf l sub); discriminate.
  - destruct (vfield_node_no_inst reg n d c o vs ch sub gov f Hn H) as [-> [sub' B]].
    cbn in WF. apply andb_prop in WF as [WF W2]. apply andb_prop in WF as [_ W1].
    cbn [check_dev_t] in C. cbn [children_of].
    exact (check_dev_false_children reg ch sub' ch f IH W1 W2 B C).
Qed.

Lemma lock_exact_l : forall reg n d c o vs ch kvs,
  wf_children ch = true -> no_inst_kvs kvs = true ->
  vtop reg (Node n d c o vs ch) kvs = Reject RDeveloper ->
  exists f path l v, vfields reg ch (norm_kvs kvs) = Some f /\
    leaf_at ch path = Some l /\ ldev l = true /\ value_at (SObj ch f) path = Some v /\ jv_eqb v (ldefault l) = false.
Proof.
  intros reg n d c o vs ch kvs WF Hn H. cbn [vtop] in H.
  destruct (vfields reg ch (norm_kvs kvs)) as [f|] eqn:A; [|discriminate].
  destruct (first_fail vs ch f) as [r|] eqn:FF; [|discriminate]. inversion H; subst r.
  pose proof (first_fail_developer vs ch f FF) as C.
  unfold wf_children in WF. apply andb_prop in WF as [W1 W2].
  assert (IH : Forall (exact_at reg) ch) by (apply Forall_forall; intros; apply exact_all).
  destruct (check_dev_false_children reg ch (norm_kvs kvs) ch f IH W1 W2 (conj A (no_inst_norm_kvs kvs Hn)) C)
    as (path & l & v & L & D & V & E).
  exists f, path, l, v. repeat split; auto.
Qed.

(* contrapositive, the shape the property text uses: a document that leaves every developer leaf at its default is
   never refused by the lock (whatever it does to the open fields) *)
Lemma nondev_not_locked_l : forall reg n d c o vs ch kvs f,
  wf_children ch = true -> no_inst_kvs kvs = true ->
  vfields reg ch (norm_kvs kvs) = Some f ->
  (forall path l v, leaf_at ch path = Some l -> ldev l = true -> value_at (SObj ch f) path = Some v ->
                    jv_eqb v (ldefault l) = true) ->
  vtop reg (Node n d c o vs ch) kvs <> Reject RDeveloper.
Proof.
  intros reg n d c o vs ch kvs f WF Hn A All H.
  destruct (lock_exact_l reg n d c o vs ch kvs WF Hn H) as (f' & path & l & v & A' & L & D & V & E).
  rewrite A in A'. inversion A'; subst f'. rewrite (All path l v L D V) in E. discriminate.
Qed.

(* "unless developer mode is explicit": with developer_mode = True the lock validator passes whatever the fields hold *)
Lemma explicit_developer_mode_unlocks_l : forall gov f,
  get_leaf "developer_mode" f = Some (JBool true) -> run_vid VDevMode gov f = None.
Proof. intros gov f H. cbn [run_vid]. unfold v_devmode. rewrite H. reflexivity. Qed.
