(* C14 — generic lemmas about Model/Settings.v (no generated content). *)
From Coq Require Import ZArith QArith List Bool String Ascii.
From V Require Import Model.Settings.
Import ListNotations.
Open Scope string_scope.
