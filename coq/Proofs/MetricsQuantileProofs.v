(* Order statistics of Model/Metrics.v: the quantile with linear interpolation lies between the smallest
   and the largest value, is monotone in p, hence IQR >= 0 and the 5-95 % range >= 0.  No axioms. *)
From Coq Require Import ZArith QArith Qabs List Bool Lia Lqa Permutation Sorting.Sorted RelationClasses.
From V Require Import Model.Metrics Proofs.MetricsProofs.
Import ListNotations.
Open Scope Q_scope.
Ltac Zify.zify_post_hook ::= Z.to_euclidean_division_equations.

Lemma qleb_le : forall a b, qleb a b = true <-> a <= b.
Proof.
  intros [na da] [nb db]. unfold qleb. cbn [Qnum Qden].
  destruct (Pos.eqb da db) eqn:E.
  - apply Pos.eqb_eq in E. subst db. unfold Qle. cbn [Qnum Qden]. rewrite Z.leb_le.
    split; intros H; [apply Z.mul_le_mono_nonneg_r; lia|apply Z.mul_le_mono_pos_r in H; lia].
  - apply Qle_bool_iff.
Qed.

Definition qle_rel (x y : Q) : Prop := is_true (QOrder.leb x y).

Lemma qle_rel_trans : Transitive qle_rel.
Proof.
  intros x y z H1 H2. unfold qle_rel, is_true, QOrder.leb in *.
  apply qleb_le in H1. apply qleb_le in H2. apply qleb_le. eapply Qle_trans; eassumption.
Qed.

Lemma sort_strongly_sorted : forall l, StronglySorted qle_rel (QSort.sort l).
Proof. intros l. apply QSort.StronglySorted_sort. exact qle_rel_trans. Qed.

Lemma sort_length : forall l, length (QSort.sort l) = length l.
Proof. intros l. symmetry. apply Permutation_length. apply QSort.Permuted_sort. Qed.

Lemma sort_in : forall l x, In x (QSort.sort l) -> In x l.
Proof. intros l x H. eapply Permutation_in; [apply Permutation_sym; apply QSort.Permuted_sort|exact H]. Qed.

Lemma ss_nth_le : forall s, StronglySorted qle_rel s ->
  forall i j, (i <= j)%nat -> (j < length s)%nat -> nth i s 0 <= nth j s 0.
Proof.
  induction 1 as [|x s Hs IH Hall]; intros i j Hij Hj; [cbn in Hj; lia|].
  destruct i as [|i]; destruct j as [|j]; cbn [nth length] in *.
  - apply Qle_refl.
  - rewrite Forall_forall in Hall. apply qleb_le. apply Hall. apply nth_In. lia.
  - lia.
  - apply IH; lia.
Qed.

Section Quantile.
  Variable s : list Q.
  Hypothesis Hs : StronglySorted qle_rel s.
  Hypothesis Hne : s <> [].

  Let n := zlen s.
  Lemma n_pos_q : (0 < n)%Z.
  Proof. apply zlen_pos. exact Hne. Qed.

  Lemma nthq_le : forall i j, (0 <= i <= j)%Z -> (j < n)%Z -> nthq s i <= nthq s j.
  Proof.
    intros i j Hij Hj. unfold nthq. apply ss_nth_le; [exact Hs| |].
    - apply Z2Nat.inj_le; lia.
    - unfold n, zlen in Hj. lia.
  Qed.

  Lemma nthq_in : forall i, (0 <= i < n)%Z -> In (nthq s i) s.
  Proof. intros i Hi. unfold nthq. apply nth_In. unfold n, zlen in Hi. lia. Qed.

  (* the interpolation weight is in [0, 1) *)
  Lemma frac_range : forall h b, (0 < b)%Z -> 0 <= inject_Z (h mod b) / inject_Z b /\ inject_Z (h mod b) / inject_Z b < 1.
  Proof.
    intros h b Hb. assert (Hm : (0 <= h mod b < b)%Z) by (apply Z.mod_pos_bound; exact Hb).
    assert (Pb : 0 < inject_Z b) by (replace 0 with (inject_Z 0) by reflexivity; rewrite <- Zlt_Qlt; exact Hb).
    split.
    - apply Qle_shift_div_l; [exact Pb|]. rewrite Qmult_0_l. replace 0 with (inject_Z 0) by reflexivity. rewrite <- Zle_Qle. lia.
    - apply Qlt_shift_div_r; [exact Pb|]. rewrite Qmult_1_l. rewrite <- Zlt_Qlt. lia.
  Qed.

  Variable b : Z.
  Hypothesis Hb : (0 < b)%Z.

  Definition q_lo (a : Z) : Z := ((n - 1) * a / b)%Z.
  Definition q_hi (a : Z) : Z := Z.min (q_lo a + 1) (n - 1).
  Definition q_fr (a : Z) : Q := inject_Z (((n - 1) * a) mod b) / inject_Z b.

  Lemma quantile_sorted_eq : forall a,
    quantile_sorted s a b == nthq s (q_lo a) + q_fr a * (nthq s (q_hi a) - nthq s (q_lo a)).
  Proof. intros a. unfold quantile_sorted. rewrite Qred_correct. reflexivity. Qed.

  Lemma lo_range : forall a, (0 <= a <= b)%Z -> (0 <= q_lo a <= n - 1)%Z.
  Proof.
    intros a Ha. pose proof n_pos_q as Hn. unfold q_lo. split.
    - apply Z.div_pos; [nia|lia].
    - apply Z.div_le_upper_bound; [lia|]. nia.
  Qed.

  Lemma hi_range : forall a, (0 <= a <= b)%Z -> (q_lo a <= q_hi a <= n - 1)%Z.
  Proof. intros a Ha. pose proof (lo_range a Ha). unfold q_hi. lia. Qed.

  (* between the two neighbouring order statistics *)
  Lemma quantile_between : forall a, (0 <= a <= b)%Z ->
    nthq s (q_lo a) <= quantile_sorted s a b /\ quantile_sorted s a b <= nthq s (q_hi a).
  Proof.
    intros a Ha. rewrite quantile_sorted_eq.
    pose proof (lo_range a Ha) as Hl. pose proof (hi_range a Ha) as Hh.
    assert (Hx : nthq s (q_lo a) <= nthq s (q_hi a)) by (apply nthq_le; lia).
    destruct (frac_range ((n - 1) * a) b Hb) as [F0 F1]. fold (q_fr a) in F0, F1.
    split; nra.
  Qed.

  (* min <= q <= max *)
  Lemma quantile_sorted_bounds : forall a L U, (0 <= a <= b)%Z ->
    (forall x, In x s -> L <= x /\ x <= U) -> L <= quantile_sorted s a b /\ quantile_sorted s a b <= U.
  Proof.
    intros a L U Ha Hall. destruct (quantile_between a Ha) as [A B].
    pose proof (lo_range a Ha) as Hl. pose proof (hi_range a Ha) as Hh.
    destruct (Hall _ (nthq_in (q_lo a) ltac:(lia))) as [L1 _].
    destruct (Hall _ (nthq_in (q_hi a) ltac:(lia))) as [_ U1].
    split; [eapply Qle_trans; eassumption|eapply Qle_trans; eassumption].
  Qed.

  (* monotone in p (same denominator) *)
  Lemma quantile_sorted_mono : forall a1 a2, (0 <= a1 <= a2)%Z -> (a2 <= b)%Z ->
    quantile_sorted s a1 b <= quantile_sorted s a2 b.
  Proof.
    intros a1 a2 H12 H2b. pose proof n_pos_q as Hn.
    assert (Ha1 : (0 <= a1 <= b)%Z) by lia. assert (Ha2 : (0 <= a2 <= b)%Z) by lia.
    pose proof (lo_range a1 Ha1) as L1. pose proof (lo_range a2 Ha2) as L2.
    assert (Hh : ((n - 1) * a1 <= (n - 1) * a2)%Z) by nia.
    assert (Hlo : (q_lo a1 <= q_lo a2)%Z) by (unfold q_lo; apply Z.div_le_mono; lia).
    destruct (Z.eq_dec (q_lo a1) (q_lo a2)) as [E|NE].
    - (* same bracket: the weight grows *)
      rewrite !quantile_sorted_eq. unfold q_hi. rewrite E.
      assert (Hx : nthq s (q_lo a2) <= nthq s (Z.min (q_lo a2 + 1) (n - 1))) by (apply nthq_le; lia).
      assert (Hf : q_fr a1 <= q_fr a2).
      { unfold q_fr. assert (Pb : 0 < inject_Z b) by (replace 0 with (inject_Z 0) by reflexivity; rewrite <- Zlt_Qlt; exact Hb).
        apply Qle_shift_div_l; [exact Pb|].
        assert (Eq : inject_Z (((n - 1) * a1) mod b) / inject_Z b * inject_Z b == inject_Z (((n - 1) * a1) mod b)) by (field; lra).
        rewrite Eq. rewrite <- Zle_Qle. unfold q_lo in E.
        pose proof (Z.div_mod ((n - 1) * a1) b ltac:(lia)). pose proof (Z.div_mod ((n - 1) * a2) b ltac:(lia)). nia. }
      nra.
    - (* different brackets *)
      destruct (quantile_between a1 Ha1) as [_ B1]. destruct (quantile_between a2 Ha2) as [A2 _].
      assert (Hm : nthq s (q_hi a1) <= nthq s (q_lo a2)) by (apply nthq_le; unfold q_hi; lia).
      eapply Qle_trans; [exact B1|]. eapply Qle_trans; [exact Hm|exact A2].
  Qed.
End Quantile.

(* ------------------------------------------------------------------ on arbitrary (unsorted) lists *)

Lemma sort_ne : forall l, l <> [] -> QSort.sort l <> [].
Proof.
  intros l H E. apply H. apply length_zero_iff_nil. rewrite <- sort_length, E. reflexivity.
Qed.

Theorem quantile_bounds : forall l a b L U, l <> [] -> (0 < b)%Z -> (0 <= a <= b)%Z ->
  (forall x, In x l -> L <= x /\ x <= U) -> L <= quantile l a b /\ quantile l a b <= U.
Proof.
  intros l a b L U Hl Hb Ha Hall. unfold quantile.
  apply quantile_sorted_bounds; [apply sort_strongly_sorted|apply sort_ne; exact Hl|exact Hb|exact Ha|].
  intros x Hx. apply Hall. apply sort_in. exact Hx.
Qed.

Theorem quantile_mono : forall l a1 a2 b, l <> [] -> (0 < b)%Z -> (0 <= a1 <= a2)%Z -> (a2 <= b)%Z ->
  quantile l a1 b <= quantile l a2 b.
Proof.
  intros l a1 a2 b Hl Hb H12 H2. unfold quantile.
  apply quantile_sorted_mono; [apply sort_strongly_sorted|apply sort_ne; exact Hl|exact Hb|exact H12|exact H2].
Qed.

Theorem iqr_nonneg : forall l, l <> [] -> 0 <= iqr l.
Proof.
  intros l Hl. unfold iqr. rewrite Qred_correct.
  pose proof (quantile_sorted_mono (QSort.sort l) (sort_strongly_sorted l) (sort_ne l Hl) 4 ltac:(lia) 1 3 ltac:(lia) ltac:(lia)).
  lra.
Qed.

Theorem range_5_95_nonneg : forall l, l <> [] -> 0 <= range_5_95 l.
Proof.
  intros l Hl. unfold range_5_95. rewrite Qred_correct.
  pose proof (quantile_sorted_mono (QSort.sort l) (sort_strongly_sorted l) (sort_ne l Hl) 20 ltac:(lia) 1 19 ltac:(lia) ltac:(lia)).
  lra.
Qed.

Theorem median_bounds : forall l L U, l <> [] -> (forall x, In x l -> L <= x /\ x <= U) -> L <= median l /\ median l <= U.
Proof. intros l L U Hl Hall. unfold median. apply quantile_bounds; [exact Hl|lia|lia|exact Hall]. Qed.

(* the median absolute deviation is not negative and at most the largest deviation *)
Theorem mad_bounds : forall l D, l <> [] -> (forall x, In x l -> Qabs (x - median l) <= D) -> 0 <= mad l /\ mad l <= D.
Proof.
  intros l D Hl HD. unfold mad. apply median_bounds.
  - destruct l; [congruence|discriminate].
  - intros y Hy. apply in_map_iff in Hy. destruct Hy as [x [<- Hx]]. split; [apply Qabs_nonneg|apply HD; exact Hx].
Qed.
