(* Lemmas about Model/HourlyFlow.v (property C05): non-interference of the hourly predict pipeline. *)
From Coq Require Import ZArith List Bool Arith Lia.
From V Require Import Model.Dst Model.HourlyFlow.
Import ListNotations.

(* ---------------------------------------------------------------- generic *)
Lemma bind_ok : forall (A B : Type) (r : res A) (f : A -> res B) b,
  bind r f = Ok b -> exists a, r = Ok a /\ f a = Ok b.
Proof. intros A B [a|e] f b H; cbn in H; [exists a; auto | discriminate]. Qed.

Lemma map_concat : forall (A B : Type) (f : A -> B) (l : list (list A)),
  map f (concat l) = concat (map (map f) l).
Proof. intros A B f. induction l as [|x l IH]; cbn; [reflexivity|]. rewrite map_app, IH. reflexivity. Qed.

Lemma filter_true_all : forall (A : Type) (p : A -> bool) l, (forall x, In x l -> p x = true) -> filter p l = l.
Proof.
  intros A p. induction l as [|x l IH]; intros H; cbn; [reflexivity|].
  rewrite (H x (or_introl eq_refl)), IH; [reflexivity|]. intros y Hy. apply H. right. exact Hy.
Qed.

Lemma filter_false_none : forall (A : Type) (p : A -> bool) l, (forall x, In x l -> p x = false) -> filter p l = [].
Proof.
  intros A p. induction l as [|x l IH]; intros H; cbn; [reflexivity|].
  rewrite (H x (or_introl eq_refl)). apply IH. intros y Hy. apply H. right. exact Hy.
Qed.

(* ---------------------------------------------------------------- _get_dst_indices reads the count only through
   the two tests == 23 and == 25 *)
Definition day_rel (d d' : day) : Prop :=
  (count_obs d =? 23) = (count_obs d' =? 23) /\ (count_obs d =? 25) = (count_obs d' =? 25) /\
  hours d = hours d' /\ d_loc d = d_loc d'.

Lemma interp_loop_ext : forall days days', Forall2 day_rel days days' ->
  forall i last, interp_loop i days last = interp_loop i days' last.
Proof.
  intros days days' H. induction H as [|d d' l l' [H23 [_ [Hh Hl]]] _ IH]; intros i last; cbn [interp_loop]; [reflexivity|].
  rewrite H23. destruct (count_obs d' =? 23); [|apply IH].
  rewrite Hl. destruct (d_loc d'); [reflexivity|].
  unfold missing_hours. rewrite Hh. destruct (missing_of (hours d')) as [|h [|? ?]]; try reflexivity.
  rewrite IH. reflexivity.
Qed.

Lemma mean_loop_ext : forall days days', Forall2 day_rel days days' ->
  forall i last, mean_loop i days last = mean_loop i days' last.
Proof.
  intros days days' H. induction H as [|d d' l l' [_ [H25 [Hh Hl]]] _ IH]; intros i last; cbn [mean_loop]; [reflexivity|].
  rewrite H25. destruct (count_obs d' =? 25); [|apply IH].
  rewrite Hl. destruct (d_loc d'); [reflexivity|].
  rewrite Hh. destruct (match first_repeat [] (hours d') with Some h => Some h | None => last end); [|reflexivity].
  rewrite IH. reflexivity.
Qed.

Lemma get_dst_indices_ext : forall days days', Forall2 day_rel days days' ->
  get_dst_indices days = get_dst_indices days'.
Proof.
  intros days days' H. unfold get_dst_indices. rewrite (interp_loop_ext _ _ H).
  destruct (interp_loop 0 days' None) as [[interp last]|e]; cbn [bind]; [|reflexivity].
  rewrite (mean_loop_ext _ _ H). reflexivity.
Qed.

Section FlowFacts.
  Context {W O F C Y : Type}.
  Notation hrow := (hrow W O).
  Notation hday := (hday W O).
  Notation frame := (frame W O).
  Variable K : oracles W O F C Y.

  (* ---- what each stage sees of a frame that does not involve the usage column ---- *)
  Definition s_utc (s : Z * Z * Z * nat * W) : Z := let '(u, _, _, _, _) := s in u.
  Definition s_combo (s : Z * Z * Z * nat * W) : combo := let '(_, m, d, _, _) := s in (m, d).
  Definition s_hour (s : Z * Z * Z * nat * W) : nat := let '(_, _, _, h, _) := s in h.
  Definition s_w (s : Z * Z * Z * nat * W) : W := let '(_, _, _, _, w) := s in w.

  Lemma same_wc_length : forall fr fr' : frame, same_weather_calendar fr fr' -> length fr = length fr'.
  Proof. intros fr fr' H. rewrite <- (map_length strip_day fr), H, map_length. reflexivity. Qed.

  Lemma same_wc_rows : forall fr fr' : frame, same_weather_calendar fr fr' ->
    map strip (all_rows fr) = map strip (all_rows fr').
  Proof.
    intros fr fr' H. unfold all_rows. rewrite !map_concat, !map_map.
    assert (E : map (fun d : hday => fst (strip_day d)) fr = map (fun d : hday => fst (strip_day d)) fr').
    { rewrite <- !(map_map strip_day fst). rewrite H. reflexivity. }
    cbn [strip_day fst] in E. rewrite E. reflexivity.
  Qed.

  Lemma index_of_frame_s : forall fr : frame, index_of_frame fr = map s_utc (map strip (all_rows fr)).
  Proof. intros. unfold index_of_frame. rewrite map_map. apply map_ext. intros r. reflexivity. Qed.

  Lemma combos_of_s : forall fr : frame,
    combos_of fr = fold_right insert_combo [] (map s_combo (map strip (all_rows fr))).
  Proof. intros. unfold combos_of. f_equal. rewrite map_map. apply map_ext. intros r. reflexivity. Qed.

  Lemma index_of_frame_ni : forall fr fr' : frame, same_weather_calendar fr fr' ->
    index_of_frame fr = index_of_frame fr'.
  Proof. intros fr fr' H. rewrite !index_of_frame_s, (same_wc_rows _ _ H). reflexivity. Qed.

  Lemma combos_of_ni : forall fr fr' : frame, same_weather_calendar fr fr' -> combos_of fr = combos_of fr'.
  Proof. intros fr fr' H. rewrite !combos_of_s, (same_wc_rows _ _ H). reflexivity. Qed.

  Lemma ts_matrix_s : forall ct (fr : frame),
    ts_matrix K ct fr =
    map (fun sd => map (fun s => ts_feat K (s_w s) (label_in ct (s_combo s))) (fst sd)) (map strip_day fr).
  Proof.
    intros ct fr. unfold ts_matrix. rewrite map_map. apply map_ext. intros d.
    cbn [strip_day fst]. rewrite map_map. apply map_ext. intros r. reflexivity.
  Qed.

  Lemma day_cat_s : forall ct (fr : frame),
    map (day_cat K ct) fr =
    map (fun sd => match fst sd with
                   | s :: _ => Some (cat_feat K (s_w s) (label_in ct (s_combo s)))
                   | [] => None
                   end) (map strip_day fr).
  Proof.
    intros ct fr. rewrite map_map. apply map_ext. intros d. unfold day_cat. cbn [strip_day fst].
    destruct (h_rows d) as [|r rest]; reflexivity.
  Qed.

  Lemma ts_matrix_ni : forall ct (fr fr' : frame), same_weather_calendar fr fr' ->
    ts_matrix K ct fr = ts_matrix K ct fr'.
  Proof. intros ct fr fr' H. rewrite !ts_matrix_s. unfold same_weather_calendar in H. rewrite H. reflexivity. Qed.

  Lemma day_cat_ni : forall ct (fr fr' : frame), same_weather_calendar fr fr' ->
    map (day_cat K ct) fr = map (day_cat K ct) fr'.
  Proof. intros ct fr fr' H. rewrite !day_cat_s. unfold same_weather_calendar in H. rewrite H. reflexivity. Qed.

  (* ---- DST stage ---- *)
  Lemma hours_dst_day : forall pol (d : hday), hours (dst_day pol d) = map s_hour (fst (strip_day d)).
  Proof.
    intros. unfold hours, dst_day. cbn [d_rows strip_day fst]. rewrite !map_map. apply map_ext. intros r. reflexivity.
  Qed.

  Lemma dst_days_rel : forall pol (fr fr' : frame), same_weather_calendar fr fr' ->
    map (dst_trigger pol) fr = map (dst_trigger pol) fr' ->
    Forall2 day_rel (map (dst_day pol) fr) (map (dst_day pol) fr').
  Proof.
    intros pol. induction fr as [|d fr IH]; intros [|d' fr'] H T; cbn in H, T; try discriminate; cbn [map]; [constructor|].
    inversion H as [[Hd Hl Hrest]]. inversion T as [[T1 T2 Trest]].
    constructor; [|apply IH; assumption].
    unfold day_rel. split; [exact T1|]. split; [exact T2|]. split.
    - rewrite !hours_dst_day. unfold strip_day. cbn [fst]. rewrite Hd. reflexivity.
    - cbn [dst_day d_loc]. exact Hl.
  Qed.

  Lemma dst_stage_ext : forall pol (fr fr' : frame), same_weather_calendar fr fr' ->
    map (dst_trigger pol) fr = map (dst_trigger pol) fr' -> dst_stage pol fr = dst_stage pol fr'.
  Proof. intros pol fr fr' H T. unfold dst_stage. apply get_dst_indices_ext. apply dst_days_rel; assumption. Qed.

  Lemma count_rows : forall d : hday, count_obs (dst_day CountRows d) = length (h_rows d).
  Proof.
    intros d. unfold count_obs, dst_day. cbn [d_rows]. rewrite filter_true_all, map_length; [reflexivity|].
    intros x Hx. apply in_map_iff in Hx. destruct Hx as [r [<- _]]. reflexivity.
  Qed.

  Lemma rows_length_ni : forall fr fr' : frame, same_weather_calendar fr fr' ->
    map (fun d : hday => length (h_rows d)) fr = map (fun d : hday => length (h_rows d)) fr'.
  Proof.
    induction fr as [|d fr IH]; intros [|d' fr'] H; cbn in H; try discriminate; [reflexivity|].
    inversion H as [[Hd Hl Hrest]]. cbn [map]. f_equal; [|apply IH; exact Hrest].
    rewrite <- (map_length strip (h_rows d)), Hd, map_length. reflexivity.
  Qed.

  Lemma trigger_rows_ni : forall fr fr' : frame, same_weather_calendar fr fr' ->
    map (dst_trigger CountRows) fr = map (dst_trigger CountRows) fr'.
  Proof.
    intros fr fr' H. pose proof (rows_length_ni _ _ H) as L.
    assert (E : forall l : frame, map (dst_trigger CountRows) l =
                  map (fun n => (n =? 23, n =? 25)) (map (fun d : hday => length (h_rows d)) l)).
    { intros l. rewrite map_map. apply map_ext. intros d. unfold dst_trigger. rewrite count_rows. reflexivity. }
    rewrite !E, L. reflexivity.
  Qed.

  Lemma count_observed_full : forall d : hday, forallb (fun r : hrow => is_some (r_obs r)) (h_rows d) = true ->
    count_obs (dst_day CountObserved d) = length (h_rows d).
  Proof.
    intros d H. unfold count_obs, dst_day. cbn [d_rows]. rewrite filter_true_all, map_length; [reflexivity|].
    intros x Hx. apply in_map_iff in Hx. destruct Hx as [r [<- Hr]]. cbn [stamp hs_obs obs_flag].
    rewrite forallb_forall in H. apply H. exact Hr.
  Qed.

  Lemma count_observed_blank : forall d : hday, existsb (fun r : hrow => is_some (r_obs r)) (h_rows d) = false ->
    count_obs (dst_day CountObserved d) = 0.
  Proof.
    intros d H. unfold count_obs, dst_day. cbn [d_rows]. rewrite filter_false_none; [reflexivity|].
    intros x Hx. apply in_map_iff in Hx. destruct Hx as [r [<- Hr]]. cbn [stamp hs_obs obs_flag].
    destruct (is_some (r_obs r)) eqn:E; [|reflexivity].
    assert (existsb (fun r : hrow => is_some (r_obs r)) (h_rows d) = true) by (apply existsb_exists; exists r; auto).
    congruence.
  Qed.

  Lemma forallb_concat : forall (A : Type) (p : A -> bool) (l : list (list A)),
    forallb p (concat l) = forallb (forallb p) l.
  Proof. intros A p. induction l as [|x l IH]; cbn; [reflexivity|]. rewrite forallb_app, IH. reflexivity. Qed.

  Lemma existsb_concat : forall (A : Type) (p : A -> bool) (l : list (list A)),
    existsb p (concat l) = existsb (existsb p) l.
  Proof. intros A p. induction l as [|x l IH]; cbn; [reflexivity|]. rewrite existsb_app, IH. reflexivity. Qed.

  Lemma trigger_full : forall fr : frame, fully_observed fr = true ->
    map (dst_trigger CountObserved) fr = map (dst_trigger CountRows) fr.
  Proof.
    intros fr H. unfold fully_observed, all_rows in H. rewrite forallb_concat, forallb_forall in H.
    apply map_ext_in. intros d Hd. unfold dst_trigger. rewrite count_rows, count_observed_full; [reflexivity|].
    apply H. apply in_map. exact Hd.
  Qed.

  Definition no_short_long (fr : frame) : bool :=
    forallb (fun d : hday => negb (length (h_rows d) =? 23) && negb (length (h_rows d) =? 25)) fr.

  Lemma trigger_blank : forall fr : frame, blank fr = true ->
    map (dst_trigger CountObserved) fr = map (fun _ => (false, false)) fr.
  Proof.
    intros fr H. unfold blank, obs_usable, all_rows in H. rewrite negb_true_iff, existsb_concat in H.
    apply map_ext_in. intros d Hd. unfold dst_trigger. rewrite count_observed_blank; [reflexivity|].
    destruct (existsb (fun r : hrow => is_some (r_obs r)) (h_rows d)) eqn:E; [|reflexivity].
    assert (existsb (existsb (fun r : hrow => is_some (r_obs r))) (map h_rows fr) = true).
    { apply existsb_exists. exists (h_rows d). split; [apply in_map; exact Hd | exact E]. }
    congruence.
  Qed.

  Lemma trigger_rows_regular : forall fr : frame, no_short_long fr = true ->
    map (dst_trigger CountRows) fr = map (fun _ => (false, false)) fr.
  Proof.
    intros fr H. unfold no_short_long in H. rewrite forallb_forall in H.
    apply map_ext_in. intros d Hd. unfold dst_trigger. rewrite count_rows.
    specialize (H d Hd). apply andb_true_iff in H. destruct H as [H1 H2].
    rewrite negb_true_iff in H1, H2. rewrite H1, H2. reflexivity.
  Qed.

  Lemma no_short_long_ni : forall fr fr' : frame, same_weather_calendar fr fr' ->
    no_short_long fr = no_short_long fr'.
  Proof.
    intros fr fr' H. pose proof (rows_length_ni _ _ H) as L. unfold no_short_long.
    assert (E : forall l : frame,
      forallb (fun d : hday => negb (length (h_rows d) =? 23) && negb (length (h_rows d) =? 25)) l =
      forallb (fun n => negb (n =? 23) && negb (n =? 25)) (map (fun d : hday => length (h_rows d)) l)).
    { induction l as [|d l IH]; cbn; [reflexivity|]. rewrite IH. reflexivity. }
    rewrite !E, L. reflexivity.
  Qed.

  Lemma const_map_ni : forall (fr fr' : frame) (c : bool * bool), length fr = length fr' ->
    map (fun _ : hday => c) fr = map (fun _ : hday => c) fr'.
  Proof.
    induction fr as [|d fr IH]; intros [|d' fr'] c L; cbn in L; try discriminate; [reflexivity|].
    cbn [map]. f_equal. apply IH. lia.
  Qed.

  (* ---- cluster stage ---- *)
  Lemma covers_no_missing : forall t (fr : frame), covers t fr = true ->
    has_missing (reindexed t (combos_of fr)) = false.
  Proof.
    intros t fr H. unfold covers in H. rewrite forallb_forall in H.
    unfold has_missing, reindexed. destruct (existsb _ _) eqn:E; [|reflexivity].
    apply existsb_exists in E. destruct E as [p [Hp Hn]]. apply in_map_iff in Hp. destruct Hp as [c [<- Hc]].
    specialize (H c Hc). cbn [snd] in Hn. unfold is_some in H. rewrite Hn in H. discriminate.
  Qed.

  Lemma cluster_stage_covered : forall t (fr : frame), covers t fr = true ->
    cluster_stage K t fr = Ok (reindexed t (combos_of fr)).
  Proof. intros t fr H. unfold cluster_stage. rewrite (covers_no_missing _ _ H). reflexivity. Qed.

  Lemma covers_ni : forall t (fr fr' : frame), same_weather_calendar fr fr' -> covers t fr = covers t fr'.
  Proof. intros t fr fr' H. unfold covers. rewrite (combos_of_ni _ _ H). reflexivity. Qed.

  Lemma cluster_stage_ni : forall t (fr fr' : frame), same_weather_calendar fr fr' -> covers t fr = true ->
    cluster_stage K t fr = cluster_stage K t fr'.
  Proof.
    intros t fr fr' H Hc. rewrite (cluster_stage_covered _ _ Hc).
    rewrite (covers_ni t _ _ H) in Hc. rewrite (cluster_stage_covered _ _ Hc), (combos_of_ni _ _ H). reflexivity.
  Qed.

  (* a frame without usable usage never reaches the observed-reading repair, whatever the table *)
  Lemma cluster_stage_blank_ni : forall t (fr fr' : frame), same_weather_calendar fr fr' ->
    blank fr = true -> blank fr' = true -> cluster_stage K t fr = cluster_stage K t fr'.
  Proof.
    intros t fr fr' H B B'. unfold cluster_stage, blank in *. rewrite negb_true_iff in B, B'.
    rewrite B, B', (combos_of_ni _ _ H). reflexivity.
  Qed.

  (* ---- the whole pipeline ---- *)
  Lemma hourly_flow_from_stages : forall pol t (fr fr' : frame), same_weather_calendar fr fr' ->
    dst_stage pol fr = dst_stage pol fr' -> cluster_stage K t fr = cluster_stage K t fr' ->
    hourly_flow K pol t fr = hourly_flow K pol t fr'.
  Proof.
    intros pol t fr fr' H Hd Hc. unfold hourly_flow. rewrite Hd, Hc.
    destruct (dst_stage pol fr') as [idx|e]; cbn [bind]; [|reflexivity].
    destruct (cluster_stage K t fr') as [ct|e]; cbn [bind]; [|reflexivity].
    rewrite (ts_matrix_ni ct _ _ H), (day_cat_ni ct _ _ H), (index_of_frame_ni _ _ H). reflexivity.
  Qed.

  (* the guard the code forces: the 23/25 tests of every date come out the same on both frames *)
  Lemma hourly_flow_ni : forall pol t (fr fr' : frame), same_weather_calendar fr fr' -> covers t fr = true ->
    map (dst_trigger pol) fr = map (dst_trigger pol) fr' ->
    hourly_flow K pol t fr = hourly_flow K pol t fr'.
  Proof.
    intros pol t fr fr' H Hc T. apply hourly_flow_from_stages; [exact H | apply dst_stage_ext; assumption |
      apply cluster_stage_ni; assumption].
  Qed.

  (* repaired counting: no guard beyond the statement's *)
  Lemma hourly_flow_ni_count_rows : forall t (fr fr' : frame), same_weather_calendar fr fr' -> covers t fr = true ->
    hourly_flow K CountRows t fr = hourly_flow K CountRows t fr'.
  Proof. intros t fr fr' H Hc. apply hourly_flow_ni; [exact H | exact Hc | apply trigger_rows_ni; exact H]. Qed.

  (* the code as it is, both usage columns without a gap (what HourlyReportingData delivers whenever the caller's
     column has at least one value: scaled, shuffled, partly NaN — the data class interpolates the gaps) *)
  Lemma hourly_flow_ni_fully_observed : forall t (fr fr' : frame), same_weather_calendar fr fr' -> covers t fr = true ->
    fully_observed fr = true -> fully_observed fr' = true ->
    hourly_flow K CountObserved t fr = hourly_flow K CountObserved t fr'.
  Proof.
    intros t fr fr' H Hc F1 F2. apply hourly_flow_ni; [exact H | exact Hc|].
    rewrite (trigger_full _ F1), (trigger_full _ F2). apply trigger_rows_ni. exact H.
  Qed.

  (* the code as it is, usage blanked or omitted: unchanged as long as no date of the frame has 23 or 25 rows *)
  Lemma hourly_flow_ni_blank_regular : forall t (fr fr' : frame), same_weather_calendar fr fr' -> covers t fr = true ->
    fully_observed fr = true -> blank fr' = true -> no_short_long fr = true ->
    hourly_flow K CountObserved t fr = hourly_flow K CountObserved t fr'.
  Proof.
    intros t fr fr' H Hc F1 B N. apply hourly_flow_ni; [exact H | exact Hc|].
    rewrite (trigger_full _ F1), (trigger_rows_regular _ N), (trigger_blank _ B).
    apply const_map_ni. apply same_wc_length. exact H.
  Qed.

  (* with the counting repaired the as-coded behaviour on fully observed frames is what every frame gets *)
  Lemma count_rows_agrees_when_full : forall t (fr : frame), fully_observed fr = true ->
    hourly_flow K CountObserved t fr = hourly_flow K CountRows t fr.
  Proof.
    intros t fr F1. unfold hourly_flow.
    assert (E : dst_stage CountObserved fr = dst_stage CountRows fr).
    { unfold dst_stage. apply get_dst_indices_ext.
      pose proof (trigger_full _ F1) as T. clear F1. induction fr as [|d fr IH]; cbn [map]; [constructor|].
      cbn [map] in T. inversion T as [[T1 T2 Trest]]. constructor; [|apply IH; exact Trest].
      unfold day_rel. repeat split; try assumption. rewrite !hours_dst_day. reflexivity. }
    rewrite E. reflexivity.
  Qed.

  (* ---- outputs are functions of the time stamp ---- *)
  Lemma reindex_functional : forall (V : Type) (rows : list (Z * V)) target out,
    reindex rows target = Ok out -> forall ts a b, In (ts, a) out -> In (ts, b) out -> a = b.
  Proof.
    intros V rows target out H ts a b Ha Hb. unfold reindex in H. destruct (has_dup (map fst rows)); [discriminate|].
    inversion H; subst out. apply in_map_iff in Ha, Hb.
    destruct Ha as [t1 [E1 _]], Hb as [t2 [E2 _]]. inversion E1; inversion E2; subst. reflexivity.
  Qed.

  Lemma hourly_flow_functional : forall pol t (fr : frame) out, hourly_flow K pol t fr = Ok out ->
    forall ts a b, In (ts, a) out -> In (ts, b) out -> a = b.
  Proof.
    intros pol t fr out H. unfold hourly_flow in H.
    apply bind_ok in H. destruct H as [idx [_ H]].
    apply bind_ok in H. destruct H as [ct [_ H]].
    apply bind_ok in H. destruct H as [agg [_ H]].
    destruct (negb (all24 agg)); [discriminate|].
    apply bind_ok in H. destruct H as [y [_ H]].
    destruct (negb (length y =? length (index_of_frame fr))); [discriminate|].
    eapply reindex_functional. exact H.
  Qed.

  Lemma eq_agree : forall pol t (fr fr' : frame),
    hourly_flow K pol t fr = hourly_flow K pol t fr' -> agree (hourly_flow K pol t fr) (hourly_flow K pol t fr').
  Proof.
    intros pol t fr fr' E. rewrite <- E. unfold agree. destruct (hourly_flow K pol t fr) as [out|e] eqn:Ho; [|exact I].
    intros ts p q Hp Hq. pose proof (hourly_flow_functional _ _ _ _ Ho ts _ _ Hp Hq) as X. inversion X. reflexivity.
  Qed.

  (* ---- a model object used more than once ---- *)
  Lemma table_after_all_keep_local : forall t (history : list frame), table_after_all K KeepLocal t history = t.
  Proof. intros t history. revert t. induction history as [|fr rest IH]; intros t; cbn; [reflexivity | apply IH]. Qed.

  Lemma combo_eqb_eq : forall a b : combo, combo_eqb a b = true -> a = b.
  Proof.
    intros [a1 a2] [b1 b2] E. unfold combo_eqb in E. cbn [fst snd] in E. apply andb_true_iff in E.
    destruct E as [E1 E2]. apply Z.eqb_eq in E1, E2. congruence.
  Qed.

  Lemma find_known_none : forall (ct : ctable) c, ~ In c (map fst ct) ->
    find (fun p : combo * Z => combo_eqb (fst p) c) (known_part ct) = None.
  Proof.
    unfold known_part. induction ct as [|[k [l|]] ct IH]; intros c Hn; cbn [flat_map app find fst snd]; [reflexivity| |].
    - destruct (combo_eqb k c) eqn:E.
      + exfalso. apply Hn. left. cbn [fst]. apply combo_eqb_eq. exact E.
      + apply IH. intros X. apply Hn. right. exact X.
    - apply IH. intros X. apply Hn. right. exact X.
  Qed.

  Lemma lookup_known_part : forall (ct : ctable) c, NoDup (map fst ct) ->
    lookup_combo (known_part ct) c = label_in ct c.
  Proof.
    intros ct c. unfold lookup_combo, label_in.
    induction ct as [|[k [l|]] ct IH]; intros Hnd; [reflexivity| |].
    - unfold known_part. cbn [flat_map app find fst snd]. fold (known_part ct).
      destruct (combo_eqb k c) eqn:E; [reflexivity|]. apply IH. inversion Hnd; assumption.
    - unfold known_part. cbn [flat_map app find fst snd]. fold (known_part ct).
      destruct (combo_eqb k c) eqn:E.
      + apply combo_eqb_eq in E. subst k. inversion Hnd as [|? ? Hnot Hnd']; subst.
        rewrite (find_known_none ct c Hnot). reflexivity.
      + apply IH. inversion Hnd; assumption.
  Qed.
End FlowFacts.
