(* Lemmas about Model/HourlyFlow.v (property C05): non-interference of the hourly predict pipeline. *)
From Coq Require Import ZArith List Bool Arith Lia.
From V Require Import Model.Dst Model.HourlyFlow.
Import ListNotations.

(* ---------------------------------------------------------------- generic *)
Lemma bind_ok : forall (A B : Type) (r : res A) (f : A -> res B) b,
  bind r f = Ok b -> exists a, r = Ok a /\ f a = Ok b.
Proof. intros A B [a|e] f b H; cbn in H; [exists a; auto | discriminate]. Qed.

Lemma map_concat : forall (A B : Type) (f : A -> B) (l : list (list A)),
  map f (concat l) = concat (map (map f) l).
Proof. intros A B f. induction l as [|x l IH]; cbn; [reflexivity|]. rewrite map_app, IH. reflexivity. Qed.

Lemma filter_true_all : forall (A : Type) (p : A -> bool) l, (forall x, In x l -> p x = true) -> filter p l = l.
Proof.
  intros A p. induction l as [|x l IH]; intros H; cbn; [reflexivity|].
  rewrite (H x (or_introl eq_refl)), IH; [reflexivity|]. intros y Hy. apply H. right. exact Hy.
Qed.

Lemma filter_false_none : forall (A : Type) (p : A -> bool) l, (forall x, In x l -> p x = false) -> filter p l = [].
Proof.
  intros A p. induction l as [|x l IH]; intros H; cbn; [reflexivity|].
  rewrite (H x (or_introl eq_refl)). apply IH. intros y Hy. apply H. right. exact Hy.
Qed.

(* ---------------------------------------------------------------- _get_dst_indices reads the count only through
   the two tests == 23 and == 25 *)
Definition day_rel (pol : policy) (d d' : day) : Prop :=
  (day_count pol d =? 23) = (day_count pol d' =? 23) /\ (day_count pol d =? 25) = (day_count pol d' =? 25) /\
  hours d = hours d' /\ day_loc pol d = day_loc pol d'.

Lemma interp_loop_ext : forall pol days days', Forall2 (day_rel pol) days days' ->
  forall i last, interp_loop pol i days last = interp_loop pol i days' last.
Proof.
  intros pol days days' H. induction H as [|d d' l l' [H23 [_ [Hh Hl]]] _ IH]; intros i last; cbn [interp_loop]; [reflexivity|].
  rewrite H23. destruct (day_count pol d' =? 23); [|apply IH].
  rewrite Hl. destruct (day_loc pol d'); [reflexivity|].
  unfold missing_hours. rewrite Hh. destruct (missing_of (hours d')) as [|h [|? ?]]; try reflexivity.
  rewrite IH. reflexivity.
Qed.

Lemma mean_loop_ext : forall pol days days', Forall2 (day_rel pol) days days' ->
  forall i last, mean_loop pol i days last = mean_loop pol i days' last.
Proof.
  intros pol days days' H. induction H as [|d d' l l' [_ [H25 [Hh Hl]]] _ IH]; intros i last; cbn [mean_loop]; [reflexivity|].
  rewrite H25. destruct (day_count pol d' =? 25); [|apply IH].
  rewrite Hl. destruct (day_loc pol d'); [reflexivity|].
  rewrite Hh. destruct (match first_repeat [] (hours d') with Some h => Some h | None => last end); [|reflexivity].
  rewrite IH. reflexivity.
Qed.

Lemma get_dst_indices_ext : forall pol days days', Forall2 (day_rel pol) days days' ->
  get_dst_indices pol days = get_dst_indices pol days'.
Proof.
  intros pol days days' H. unfold get_dst_indices. rewrite (interp_loop_ext _ _ _ H).
  destruct (interp_loop pol 0 days' None) as [[interp last]|e]; cbn [bind]; [|reflexivity].
  rewrite (mean_loop_ext _ _ _ H). reflexivity.
Qed.

Section FlowFacts.
  Context {W O F C Y : Type}.
  Notation hrow := (hrow W O).
  Notation hday := (hday W O).
  Notation frame := (frame W O).
  Variable K : oracles W O F C Y.

  (* ---- what each stage sees of a frame that does not involve the usage column ---- *)
  Definition s_utc (s : Z * Z * Z * nat * W) : Z := let '(u, _, _, _, _) := s in u.
  Definition s_combo (s : Z * Z * Z * nat * W) : combo := let '(_, m, d, _, _) := s in (m, d).
  Definition s_hour (s : Z * Z * Z * nat * W) : nat := let '(_, _, _, h, _) := s in h.
  Definition s_w (s : Z * Z * Z * nat * W) : W := let '(_, _, _, _, w) := s in w.

  Lemma same_wc_length : forall fr fr' : frame, same_weather_calendar fr fr' -> length fr = length fr'.
  Proof. intros fr fr' H. rewrite <- (map_length strip_day fr), H, map_length. reflexivity. Qed.

  Lemma same_wc_rows : forall fr fr' : frame, same_weather_calendar fr fr' ->
    map strip (all_rows fr) = map strip (all_rows fr').
  Proof.
    intros fr fr' H. unfold all_rows. rewrite !map_concat, !map_map.
    assert (E : map (fun d : hday => fst (strip_day d)) fr = map (fun d : hday => fst (strip_day d)) fr').
    { rewrite <- !(map_map strip_day fst). rewrite H. reflexivity. }
    cbn [strip_day fst] in E. rewrite E. reflexivity.
  Qed.

  Lemma index_of_frame_s : forall fr : frame, index_of_frame fr = map s_utc (map strip (all_rows fr)).
  Proof. intros. unfold index_of_frame. rewrite map_map. apply map_ext. intros r. reflexivity. Qed.

  Lemma combos_of_s : forall fr : frame,
    combos_of fr = fold_right insert_combo [] (map s_combo (map strip (all_rows fr))).
  Proof. intros. unfold combos_of. f_equal. rewrite map_map. apply map_ext. intros r. reflexivity. Qed.

  Lemma index_of_frame_ni : forall fr fr' : frame, same_weather_calendar fr fr' ->
    index_of_frame fr = index_of_frame fr'.
  Proof. intros fr fr' H. rewrite !index_of_frame_s, (same_wc_rows _ _ H). reflexivity. Qed.

  Lemma combos_of_ni : forall fr fr' : frame, same_weather_calendar fr fr' -> combos_of fr = combos_of fr'.
  Proof. intros fr fr' H. rewrite !combos_of_s, (same_wc_rows _ _ H). reflexivity. Qed.

  Lemma ts_matrix_s : forall ct (fr : frame),
    ts_matrix K ct fr =
    map (fun sd => map (fun s => ts_feat K (s_w s) (label_in ct (s_combo s))) (fst sd)) (map strip_day fr).
  Proof.
    intros ct fr. unfold ts_matrix. rewrite map_map. apply map_ext. intros d.
    cbn [strip_day fst]. rewrite map_map. apply map_ext. intros r. reflexivity.
  Qed.

  Lemma day_cat_s : forall ct (fr : frame),
    map (day_cat K ct) fr =
    map (fun sd => match fst sd with
                   | s :: _ => Some (cat_feat K (s_w s) (label_in ct (s_combo s)))
                   | [] => None
                   end) (map strip_day fr).
  Proof.
    intros ct fr. rewrite map_map. apply map_ext. intros d. unfold day_cat. cbn [strip_day fst].
    destruct (h_rows d) as [|r rest]; reflexivity.
  Qed.

  Lemma ts_matrix_ni : forall ct (fr fr' : frame), same_weather_calendar fr fr' ->
    ts_matrix K ct fr = ts_matrix K ct fr'.
  Proof. intros ct fr fr' H. rewrite !ts_matrix_s. unfold same_weather_calendar in H. rewrite H. reflexivity. Qed.

  Lemma day_cat_ni : forall ct (fr fr' : frame), same_weather_calendar fr fr' ->
    map (day_cat K ct) fr = map (day_cat K ct) fr'.
  Proof. intros ct fr fr' H. rewrite !day_cat_s. unfold same_weather_calendar in H. rewrite H. reflexivity. Qed.

  (* ---- DST stage ---- *)
  Lemma hours_dst_day : forall d : hday, hours (dst_day d) = map s_hour (fst (strip_day d)).
  Proof.
    intros. unfold hours, dst_day. cbn [d_rows strip_day fst]. rewrite !map_map. apply map_ext. intros r. reflexivity.
  Qed.

  Lemma dst_days_rel : forall pol (fr fr' : frame), same_weather_calendar fr fr' ->
    map (dst_trigger pol) fr = map (dst_trigger pol) fr' ->
    Forall2 (day_rel pol) (map dst_day fr) (map dst_day fr').
  Proof.
    intros pol. induction fr as [|d fr IH]; intros [|d' fr'] H T; cbn in H, T; try discriminate; cbn [map]; [constructor|].
    inversion H as [[Hd Hl Hrest]]. inversion T as [[T1 T2 Trest]].
    constructor; [|apply IH; assumption].
    unfold day_rel. split; [exact T1|]. split; [exact T2|]. split.
    - rewrite !hours_dst_day. unfold strip_day. cbn [fst]. rewrite Hd. reflexivity.
    - unfold day_loc. cbn [dst_day d_loc]. rewrite Hl. reflexivity.
  Qed.

  Lemma dst_stage_ext : forall pol (fr fr' : frame), same_weather_calendar fr fr' ->
    map (dst_trigger pol) fr = map (dst_trigger pol) fr' -> dst_stage pol fr = dst_stage pol fr'.
  Proof. intros pol fr fr' H T. unfold dst_stage. apply get_dst_indices_ext. apply dst_days_rel; assumption. Qed.

  Lemma rows_length_ni : forall fr fr' : frame, same_weather_calendar fr fr' ->
    map (fun d : hday => length (h_rows d)) fr = map (fun d : hday => length (h_rows d)) fr'.
  Proof.
    induction fr as [|d fr IH]; intros [|d' fr'] H; cbn in H; try discriminate; [reflexivity|].
    inversion H as [[Hd Hl Hrest]]. cbn [map]. f_equal; [|apply IH; exact Hrest].
    rewrite <- (map_length strip (h_rows d)), Hd, map_length. reflexivity.
  Qed.

  Lemma rows_trigger_ni : forall fr fr' : frame, same_weather_calendar fr fr' ->
    map rows_trigger fr = map rows_trigger fr'.
  Proof.
    intros fr fr' H. pose proof (rows_length_ni _ _ H) as L.
    assert (E : forall l : frame, map rows_trigger l =
                  map (fun n => (n =? 23, n =? 25)) (map (fun d : hday => length (h_rows d)) l)).
    { intros l. rewrite map_map. apply map_ext. intros d. reflexivity. }
    rewrite !E, L. reflexivity.
  Qed.

  (* rows counted: the tests see the number of rows of the date *)
  Lemma trigger_count_rows : forall pol (fr : frame), count_rows pol = true ->
    map (dst_trigger pol) fr = map rows_trigger fr.
  Proof.
    intros pol fr Hp. apply map_ext. intros d. unfold dst_trigger, rows_trigger, day_count. rewrite Hp.
    unfold dst_day. cbn [d_rows]. rewrite map_length. reflexivity.
  Qed.

  Lemma count_observed_full : forall d : hday, forallb (fun r : hrow => is_some (r_obs r)) (h_rows d) = true ->
    count_obs (dst_day d) = length (h_rows d).
  Proof.
    intros d H. unfold count_obs, dst_day. cbn [d_rows]. rewrite filter_true_all, map_length; [reflexivity|].
    intros x Hx. apply in_map_iff in Hx. destruct Hx as [r [<- Hr]]. cbn [stamp hs_obs].
    rewrite forallb_forall in H. apply H. exact Hr.
  Qed.

  Lemma count_observed_blank : forall d : hday, existsb (fun r : hrow => is_some (r_obs r)) (h_rows d) = false ->
    count_obs (dst_day d) = 0.
  Proof.
    intros d H. unfold count_obs, dst_day. cbn [d_rows]. rewrite filter_false_none; [reflexivity|].
    intros x Hx. apply in_map_iff in Hx. destruct Hx as [r [<- Hr]]. cbn [stamp hs_obs].
    destruct (is_some (r_obs r)) eqn:E; [|reflexivity].
    assert (existsb (fun r : hrow => is_some (r_obs r)) (h_rows d) = true) by (apply existsb_exists; exists r; auto).
    congruence.
  Qed.

  Lemma forallb_concat : forall (A : Type) (p : A -> bool) (l : list (list A)),
    forallb p (concat l) = forallb (forallb p) l.
  Proof. intros A p. induction l as [|x l IH]; cbn; [reflexivity|]. rewrite forallb_app, IH. reflexivity. Qed.

  Lemma existsb_concat : forall (A : Type) (p : A -> bool) (l : list (list A)),
    existsb p (concat l) = existsb (existsb p) l.
  Proof. intros A p. induction l as [|x l IH]; cbn; [reflexivity|]. rewrite existsb_app, IH. reflexivity. Qed.

  (* a usage column without a gap: either way of counting sees the number of rows *)
  Lemma trigger_full : forall pol (fr : frame), fully_observed fr = true ->
    map (dst_trigger pol) fr = map rows_trigger fr.
  Proof.
    intros pol fr H. unfold fully_observed, all_rows in H. rewrite forallb_concat, forallb_forall in H.
    apply map_ext_in. intros d Hd. unfold dst_trigger, rows_trigger, day_count.
    destruct (count_rows pol).
    - unfold dst_day. cbn [d_rows]. rewrite map_length. reflexivity.
    - rewrite count_observed_full; [reflexivity|]. apply H. apply in_map. exact Hd.
  Qed.

  Definition no_short_long (fr : frame) : bool :=
    forallb (fun d : hday => negb (length (h_rows d) =? 23) && negb (length (h_rows d) =? 25)) fr.

  Lemma trigger_blank : forall pol (fr : frame), count_rows pol = false -> blank fr = true ->
    map (dst_trigger pol) fr = map (fun _ => (false, false)) fr.
  Proof.
    intros pol fr Hp H. unfold blank, obs_usable, all_rows in H. rewrite negb_true_iff, existsb_concat in H.
    apply map_ext_in. intros d Hd. unfold dst_trigger, day_count. rewrite Hp, count_observed_blank; [reflexivity|].
    destruct (existsb (fun r : hrow => is_some (r_obs r)) (h_rows d)) eqn:E; [|reflexivity].
    assert (existsb (existsb (fun r : hrow => is_some (r_obs r))) (map h_rows fr) = true).
    { apply existsb_exists. exists (h_rows d). split; [apply in_map; exact Hd | exact E]. }
    congruence.
  Qed.

  Lemma trigger_rows_regular : forall fr : frame, no_short_long fr = true ->
    map rows_trigger fr = map (fun _ => (false, false)) fr.
  Proof.
    intros fr H. unfold no_short_long in H. rewrite forallb_forall in H.
    apply map_ext_in. intros d Hd. unfold rows_trigger.
    specialize (H d Hd). apply andb_true_iff in H. destruct H as [H1 H2].
    rewrite negb_true_iff in H1, H2. rewrite H1, H2. reflexivity.
  Qed.

  Lemma const_map_ni : forall (fr fr' : frame) (c : bool * bool), length fr = length fr' ->
    map (fun _ : hday => c) fr = map (fun _ : hday => c) fr'.
  Proof.
    induction fr as [|d fr IH]; intros [|d' fr'] c L; cbn in L; try discriminate; [reflexivity|].
    cbn [map]. f_equal. apply IH. lia.
  Qed.

  (* ---- cluster stage ---- *)
  Lemma covers_no_missing : forall t (fr : frame), covers t fr = true ->
    has_missing (reindexed t (combos_of fr)) = false.
  Proof.
    intros t fr H. unfold covers in H. rewrite forallb_forall in H.
    unfold has_missing, reindexed. destruct (existsb _ _) eqn:E; [|reflexivity].
    apply existsb_exists in E. destruct E as [p [Hp Hn]]. apply in_map_iff in Hp. destruct Hp as [c [<- Hc]].
    specialize (H c Hc). cbn [snd] in Hn. unfold is_some in H. rewrite Hn in H. discriminate.
  Qed.

  Lemma cluster_stage_covered : forall t (fr : frame), covers t fr = true ->
    cluster_stage K t fr = Ok (reindexed t (combos_of fr)).
  Proof. intros t fr H. unfold cluster_stage. rewrite (covers_no_missing _ _ H). reflexivity. Qed.

  Lemma covers_ni : forall t (fr fr' : frame), same_weather_calendar fr fr' -> covers t fr = covers t fr'.
  Proof. intros t fr fr' H. unfold covers. rewrite (combos_of_ni _ _ H). reflexivity. Qed.

  Lemma cluster_stage_ni : forall t (fr fr' : frame), same_weather_calendar fr fr' -> covers t fr = true ->
    cluster_stage K t fr = cluster_stage K t fr'.
  Proof.
    intros t fr fr' H Hc. rewrite (cluster_stage_covered _ _ Hc).
    rewrite (covers_ni t _ _ H) in Hc. rewrite (cluster_stage_covered _ _ Hc), (combos_of_ni _ _ H). reflexivity.
  Qed.

  (* a frame without usable usage never reaches the observed-reading repair, whatever the table *)
  Lemma cluster_stage_blank_ni : forall t (fr fr' : frame), same_weather_calendar fr fr' ->
    blank fr = true -> blank fr' = true -> cluster_stage K t fr = cluster_stage K t fr'.
  Proof.
    intros t fr fr' H B B'. unfold cluster_stage, blank in *. rewrite negb_true_iff in B, B'.
    rewrite B, B', (combos_of_ni _ _ H). reflexivity.
  Qed.

  (* ---- the whole pipeline ---- *)
  Lemma hourly_flow_from_stages : forall pol t (fr fr' : frame), same_weather_calendar fr fr' ->
    dst_stage pol fr = dst_stage pol fr' -> cluster_stage K t fr = cluster_stage K t fr' ->
    hourly_flow K pol t fr = hourly_flow K pol t fr'.
  Proof.
    intros pol t fr fr' H Hd Hc. unfold hourly_flow. rewrite Hd, Hc.
    destruct (dst_stage pol fr') as [idx|e]; cbn [bind]; [|reflexivity].
    destruct (cluster_stage K t fr') as [ct|e]; cbn [bind]; [|reflexivity].
    rewrite (ts_matrix_ni ct _ _ H), (day_cat_ni ct _ _ H), (index_of_frame_ni _ _ H). reflexivity.
  Qed.

  (* the guard the code forces: the 23/25 tests of every date come out the same on both frames *)
  Lemma hourly_flow_ni : forall pol t (fr fr' : frame), same_weather_calendar fr fr' -> covers t fr = true ->
    map (dst_trigger pol) fr = map (dst_trigger pol) fr' ->
    hourly_flow K pol t fr = hourly_flow K pol t fr'.
  Proof.
    intros pol t fr fr' H Hc T. apply hourly_flow_from_stages; [exact H | apply dst_stage_ext; assumption |
      apply cluster_stage_ni; assumption].
  Qed.

  (* repaired counting: no guard beyond the statement's *)
  Lemma hourly_flow_ni_count_rows : forall pol t (fr fr' : frame), count_rows pol = true ->
    same_weather_calendar fr fr' -> covers t fr = true ->
    hourly_flow K pol t fr = hourly_flow K pol t fr'.
  Proof.
    intros pol t fr fr' Hp H Hc. apply hourly_flow_ni; [exact H | exact Hc|].
    rewrite !(trigger_count_rows pol _ Hp). apply rows_trigger_ni. exact H.
  Qed.

  (* both usage columns without a gap (what HourlyReportingData delivers whenever the caller's column has at least
     one value: scaled, shuffled, partly NaN — the data class interpolates the gaps): either way of counting *)
  Lemma hourly_flow_ni_fully_observed : forall pol t (fr fr' : frame), same_weather_calendar fr fr' -> covers t fr = true ->
    fully_observed fr = true -> fully_observed fr' = true ->
    hourly_flow K pol t fr = hourly_flow K pol t fr'.
  Proof.
    intros pol t fr fr' H Hc F1 F2. apply hourly_flow_ni; [exact H | exact Hc|].
    rewrite (trigger_full pol _ F1), (trigger_full pol _ F2). apply rows_trigger_ni. exact H.
  Qed.

  (* the code as it is, usage blanked or omitted: unchanged as long as no date of the frame has 23 or 25 rows *)
  Lemma hourly_flow_ni_blank_regular : forall pol t (fr fr' : frame), count_rows pol = false ->
    same_weather_calendar fr fr' -> covers t fr = true ->
    fully_observed fr = true -> blank fr' = true -> no_short_long fr = true ->
    hourly_flow K pol t fr = hourly_flow K pol t fr'.
  Proof.
    intros pol t fr fr' Hp H Hc F1 B N. apply hourly_flow_ni; [exact H | exact Hc|].
    rewrite (trigger_full pol _ F1), (trigger_rows_regular _ N), (trigger_blank pol _ Hp B).
    apply const_map_ni. apply same_wc_length. exact H.
  Qed.

  (* usage blanked vs usage omitted (or any two frames without a usable usage value): no guard at all — not even
     the coverage of the stored table *)
  Lemma hourly_flow_ni_both_blank : forall pol t (fr fr' : frame), same_weather_calendar fr fr' ->
    blank fr = true -> blank fr' = true -> hourly_flow K pol t fr = hourly_flow K pol t fr'.
  Proof.
    intros pol t fr fr' H B B'. apply hourly_flow_from_stages; [exact H| |apply cluster_stage_blank_ni; assumption].
    apply dst_stage_ext; [exact H|]. destruct (count_rows pol) eqn:Hp.
    - rewrite !(trigger_count_rows pol _ Hp). apply rows_trigger_ni. exact H.
    - rewrite (trigger_blank pol _ Hp B), (trigger_blank pol _ Hp B'). apply const_map_ni. apply same_wc_length. exact H.
  Qed.

  (* with the counting repaired, frames with a complete usage column are predicted as before *)
  Lemma count_rows_agrees_when_full : forall pol pol' t (fr : frame), loc_by_mask pol = loc_by_mask pol' ->
    fully_observed fr = true -> hourly_flow K pol t fr = hourly_flow K pol' t fr.
  Proof.
    intros pol pol' t fr Hm F1. unfold hourly_flow.
    assert (E : dst_stage pol fr = dst_stage pol' fr).
    { unfold dst_stage, get_dst_indices.
      pose proof (trigger_full pol _ F1) as T. pose proof (trigger_full pol' _ F1) as T'.
      assert (X : forall days i last,
                 map (fun d => (day_count pol d =? 23, day_count pol d =? 25)) days =
                 map (fun d => (day_count pol' d =? 23, day_count pol' d =? 25)) days ->
                 interp_loop pol i days last = interp_loop pol' i days last /\
                 mean_loop pol i days last = mean_loop pol' i days last).
      { induction days as [|d days IH]; intros i last E; [split; reflexivity|].
        cbn [map] in E. inversion E as [[E1 E2 Er]]. cbn [interp_loop mean_loop].
        rewrite E1, E2. unfold day_loc. rewrite Hm.
        split.
        - destruct (day_count pol' d =? 23); [|apply IH; exact Er].
          destruct (if loc_by_mask pol' then None else d_loc d); [reflexivity|].
          destruct (missing_hours d) as [|h [|? ?]]; try reflexivity.
          rewrite (proj1 (IH (S i) (Some h) Er)). reflexivity.
        - destruct (day_count pol' d =? 25); [|apply IH; exact Er].
          destruct (if loc_by_mask pol' then None else d_loc d); [reflexivity|].
          destruct (match first_repeat [] (hours d) with Some h => Some h | None => last end) as [h|]; [|reflexivity].
          rewrite (proj2 (IH (S i) (Some h) Er)). reflexivity. }
      assert (Em : map (fun d => (day_count pol d =? 23, day_count pol d =? 25)) (map dst_day fr) =
                   map (fun d => (day_count pol' d =? 23, day_count pol' d =? 25)) (map dst_day fr)).
      { rewrite !map_map. unfold dst_trigger in T, T'. rewrite T, T'. reflexivity. }
      rewrite (proj1 (X _ 0 None Em)).
      destruct (interp_loop pol' 0 (map dst_day fr) None) as [[interp last]|e]; cbn [bind]; [|reflexivity].
      rewrite (proj2 (X _ 0 last Em)). reflexivity. }
    rewrite E. reflexivity.
  Qed.

  (* ---- outputs are functions of the time stamp ---- *)
  Lemma reindex_functional : forall (V : Type) (rows : list (Z * V)) target out,
    reindex rows target = Ok out -> forall ts a b, In (ts, a) out -> In (ts, b) out -> a = b.
  Proof.
    intros V rows target out H ts a b Ha Hb. unfold reindex in H. destruct (has_dup (map fst rows)); [discriminate|].
    inversion H; subst out. apply in_map_iff in Ha, Hb.
    destruct Ha as [t1 [E1 _]], Hb as [t2 [E2 _]]. inversion E1; inversion E2; subst. reflexivity.
  Qed.

  Lemma hourly_flow_functional : forall pol t (fr : frame) out, hourly_flow K pol t fr = Ok out ->
    forall ts a b, In (ts, a) out -> In (ts, b) out -> a = b.
  Proof.
    intros pol t fr out H. unfold hourly_flow in H.
    apply bind_ok in H. destruct H as [idx [_ H]].
    apply bind_ok in H. destruct H as [ct [_ H]].
    apply bind_ok in H. destruct H as [agg [_ H]].
    destruct (negb (all24 agg)); [discriminate|].
    apply bind_ok in H. destruct H as [y [_ H]].
    destruct (negb (length y =? length (index_of_frame fr))); [discriminate|].
    eapply reindex_functional. exact H.
  Qed.

  Lemma eq_agree : forall pol t (fr fr' : frame),
    hourly_flow K pol t fr = hourly_flow K pol t fr' -> agree (hourly_flow K pol t fr) (hourly_flow K pol t fr').
  Proof.
    intros pol t fr fr' E. rewrite <- E. unfold agree. destruct (hourly_flow K pol t fr) as [out|e] eqn:Ho; [|exact I].
    intros ts p q Hp Hq. pose proof (hourly_flow_functional _ _ _ _ Ho ts _ _ Hp Hq) as X. inversion X. reflexivity.
  Qed.

  (* ---- a model object used more than once ---- *)
  Lemma table_after_all_keep_local : forall t (history : list frame), table_after_all K KeepLocal t history = t.
  Proof. intros t history. revert t. induction history as [|fr rest IH]; intros t; cbn; [reflexivity | apply IH]. Qed.

  Lemma combo_eqb_eq : forall a b : combo, combo_eqb a b = true -> a = b.
  Proof.
    intros [a1 a2] [b1 b2] E. unfold combo_eqb in E. cbn [fst snd] in E. apply andb_true_iff in E.
    destruct E as [E1 E2]. apply Z.eqb_eq in E1, E2. congruence.
  Qed.

  Lemma find_known_none : forall (ct : ctable) c, ~ In c (map fst ct) ->
    find (fun p : combo * Z => combo_eqb (fst p) c) (known_part ct) = None.
  Proof.
    unfold known_part. induction ct as [|[k [l|]] ct IH]; intros c Hn; cbn [flat_map app find fst snd]; [reflexivity| |].
    - destruct (combo_eqb k c) eqn:E.
      + exfalso. apply Hn. left. cbn [fst]. apply combo_eqb_eq. exact E.
      + apply IH. intros X. apply Hn. right. exact X.
    - apply IH. intros X. apply Hn. right. exact X.
  Qed.

  Lemma lookup_known_part : forall (ct : ctable) c, NoDup (map fst ct) ->
    lookup_combo (known_part ct) c = label_in ct c.
  Proof.
    intros ct c. unfold lookup_combo, label_in.
    induction ct as [|[k [l|]] ct IH]; intros Hnd; [reflexivity| |].
    - unfold known_part. cbn [flat_map app find fst snd]. fold (known_part ct).
      destruct (combo_eqb k c) eqn:E; [reflexivity|]. apply IH. inversion Hnd; assumption.
    - unfold known_part. cbn [flat_map app find fst snd]. fold (known_part ct).
      destruct (combo_eqb k c) eqn:E.
      + apply combo_eqb_eq in E. subst k. inversion Hnd as [|? ? Hnot Hnd']; subst.
        rewrite (find_known_none ct c Hnot). reflexivity.
      + apply IH. inversion Hnd; assumption.
  Qed.
  (* ---- predicting the same calendar again with the same object: the stored-back table answers as the fitted one ---- *)
  Lemma combo_eqb_refl : forall c : combo, combo_eqb c c = true.
  Proof. intros [a b]. unfold combo_eqb. cbn [fst snd]. rewrite !Z.eqb_refl. reflexivity. Qed.

  Lemma combo_ltb_spec : forall a b : combo,
    combo_ltb a b = true <-> (fst a < fst b \/ (fst a = fst b /\ snd a < snd b))%Z.
  Proof.
    intros [a1 a2] [b1 b2]. unfold combo_ltb. cbn [fst snd].
    rewrite orb_true_iff, andb_true_iff, !Z.ltb_lt, Z.eqb_eq. reflexivity.
  Qed.

  Lemma combo_trichotomy : forall a b : combo, combo_eqb a b = false -> combo_ltb a b = false -> combo_ltb b a = true.
  Proof.
    intros [a1 a2] [b1 b2] E L. apply combo_ltb_spec. cbn [fst snd].
    assert (L' : ~ (a1 < b1 \/ (a1 = b1 /\ a2 < b2))%Z).
    { intros X. apply (proj2 (combo_ltb_spec (a1, a2) (b1, b2))) in X. congruence. }
    assert (E' : ~ (a1 = b1 /\ a2 = b2)).
    { intros [X1 X2]. subst. rewrite combo_eqb_refl in E. discriminate. }
    lia.
  Qed.

  Lemma insert_combo_In : forall c l x, In x (insert_combo c l) -> x = c \/ In x l.
  Proof.
    intros c. induction l as [|y l IH]; intros x H; cbn [insert_combo] in H.
    - destruct H as [<-|[]]. left. reflexivity.
    - destruct (combo_eqb c y); [right; exact H|].
      destruct (combo_ltb c y); [destruct H as [<-|H]; [left; reflexivity | right; exact H]|].
      destruct H as [<-|H]; [right; left; reflexivity|]. destruct (IH _ H) as [->|H']; [left; reflexivity | right; right; exact H'].
  Qed.

  Definition all_gt (x : combo) (l : list combo) : Prop := forall y, In y l -> combo_ltb x y = true.
  Fixpoint csorted (l : list combo) : Prop := match l with [] => True | x :: t => all_gt x t /\ csorted t end.

  Lemma insert_combo_sorted : forall c l, csorted l -> csorted (insert_combo c l).
  Proof.
    intros c. induction l as [|y l IH]; intros H; cbn [insert_combo].
    - split; [intros z []| exact I].
    - destruct H as [Hy Hl]. destruct (combo_eqb c y) eqn:E; [split; assumption|].
      destruct (combo_ltb c y) eqn:L.
      + split; [|split; assumption]. intros z [<-|Hz]; [exact L|].
        specialize (Hy z Hz). apply combo_ltb_spec in L, Hy. apply combo_ltb_spec. lia.
      + split; [|apply IH; exact Hl]. intros z Hz. apply insert_combo_In in Hz. destruct Hz as [->|Hz]; [|apply Hy; exact Hz].
        apply combo_trichotomy; assumption.
  Qed.

  Lemma csorted_NoDup : forall l, csorted l -> NoDup l.
  Proof.
    induction l as [|x l IH]; intros H; [constructor|]. destruct H as [Hx Hl]. constructor; [|apply IH; exact Hl].
    intros Hin. specialize (Hx x Hin). apply combo_ltb_spec in Hx. lia.
  Qed.

  Lemma combos_of_NoDup : forall fr : frame, NoDup (combos_of fr).
  Proof.
    intros fr. apply csorted_NoDup. unfold combos_of. induction (map combo_of (all_rows fr)) as [|c l IH]; [exact I|].
    cbn [fold_right]. apply insert_combo_sorted. exact IH.
  Qed.

  Lemma label_in_reindexed : forall t cs c, In c cs -> label_in (reindexed t cs) c = lookup_combo t c.
  Proof.
    intros t cs c. unfold label_in, reindexed. induction cs as [|x cs IH]; intros H; [destruct H|].
    cbn [map find fst snd]. destruct (combo_eqb x c) eqn:E.
    - apply combo_eqb_eq in E. subst x. reflexivity.
    - destruct H as [->|H]; [rewrite combo_eqb_refl in E; discriminate | apply IH; exact H].
  Qed.

  Lemma reindexed_idem : forall t cs, NoDup cs -> reindexed (known_part (reindexed t cs)) cs = reindexed t cs.
  Proof.
    intros t cs Hnd. unfold reindexed at 1 3. apply map_ext_in. intros c Hc. f_equal.
    rewrite lookup_known_part.
    - apply label_in_reindexed. exact Hc.
    - unfold reindexed. rewrite map_map. cbn [fst]. rewrite map_id. exact Hnd.
  Qed.

  Lemma hourly_flow_table_ext : forall pol t t' (fr : frame), cluster_stage K t fr = cluster_stage K t' fr ->
    hourly_flow K pol t fr = hourly_flow K pol t' fr.
  Proof. intros pol t t' fr E. unfold hourly_flow. rewrite E. reflexivity. Qed.

  Lemma reuse_same_calendar : forall pol sp t (fr fr' : frame), covers t fr = true -> same_weather_calendar fr fr' ->
    hourly_flow_after K pol sp t [fr] fr' = hourly_flow K pol t fr'.
  Proof.
    intros pol sp t fr fr' Hc H. unfold hourly_flow_after. cbn [table_after_all]. destruct sp; [|reflexivity].
    apply hourly_flow_table_ext. unfold table_after. rewrite (cluster_stage_covered t fr Hc).
    unfold cluster_stage. rewrite <- (combos_of_ni _ _ H), (reindexed_idem t _ (combos_of_NoDup fr)). reflexivity.
  Qed.
End FlowFacts.

(* ================================================================== the data class in front of predict *)
Section DataStageFacts.
  Context {Wc W O : Type}.
  Variable w_empty : Wc -> bool.
  Variable calendar : list Z -> list (list cal_stamp * option err).
  Variable fill_w : list (option Wc) -> list W.
  Variable fill_o : list (option O) -> list (option O).
  Notation rec := (rec Wc O).

  (* keep-first de-duplication seen through the (stamp, weather) view of the records *)
  Fixpoint keep_first_v (seen : list Z) (l : list (Z * Wc)) : list (Z * Wc) :=
    match l with
    | [] => []
    | v :: t => if existsb (Z.eqb (fst v)) seen then keep_first_v seen t else v :: keep_first_v (fst v :: seen) t
    end.

  Lemma keep_first_view : forall (l : list rec) seen,
    map rec_view (keep_first seen l) = keep_first_v seen (map rec_view l).
  Proof.
    induction l as [|r l IH]; intros seen; [reflexivity|]. cbn [keep_first map keep_first_v rec_view fst].
    destruct (existsb (Z.eqb (q_utc r)) seen); [apply IH|]. cbn [map]. rewrite IH. reflexivity.
  Qed.

  (* which record of a repeated stamp survives is decided by the index alone *)
  Lemma select_keep_first_ni : forall a b : list rec, same_records_but_usage a b ->
    map rec_view (select w_empty KeepFirst a) = map rec_view (select w_empty KeepFirst b).
  Proof. intros a b H. unfold select. rewrite !keep_first_view. unfold same_records_but_usage in H. rewrite H. reflexivity. Qed.

  Lemma find_rec_view : forall (sel : list rec) u,
    option_map (@q_w Wc O) (find_rec sel u) = option_map snd (find (fun v : Z * Wc => Z.eqb (fst v) u) (map rec_view sel)).
  Proof.
    intros sel u. unfold find_rec. induction sel as [|r sel IH]; [reflexivity|]. cbn [find map rec_view fst].
    destruct (Z.eqb (q_utc r) u); [reflexivity | exact IH].
  Qed.

  Lemma map_fst_combine_seq : forall (A : Type) (l : list A) a n, length l <= n -> map fst (combine l (seq a n)) = l.
  Proof.
    intros A. induction l as [|x l IH]; intros a n H; [reflexivity|]. destruct n as [|n]; [cbn in H; lia|].
    cbn [seq combine map fst]. f_equal. apply IH. cbn in H. lia.
  Qed.

  Definition sview (sw : cal_stamp * W) : Z * Z * Z * nat * W := let '(u, m, d, h) := fst sw in (u, m, d, h, snd sw).

  Lemma strip_mk_hrow : forall s w (o : option O), strip (mk_hrow s w o) = sview (s, w).
  Proof. intros [[[u m] d] h] w o. reflexivity. Qed.

  Lemma flat_strip : forall (stamps : list cal_stamp) (wcol : list W) (ocol : list (option O)),
    map strip (map (fun swk : cal_stamp * W * nat => mk_hrow (fst (fst swk)) (snd (fst swk)) (nth (snd swk) ocol None))
                   (combine (combine stamps wcol) (seq 0 (length stamps))))
    = map sview (combine stamps wcol).
  Proof.
    intros stamps wcol ocol. rewrite map_map.
    transitivity (map sview (map fst (combine (combine stamps wcol) (seq 0 (length stamps))))).
    - rewrite map_map. apply map_ext. intros [[s w] k]. cbn [fst snd]. apply strip_mk_hrow.
    - rewrite map_fst_combine_seq; [reflexivity|]. rewrite combine_length. apply Nat.le_min_l.
  Qed.

  Lemma split_days_ni : forall cal (flat flat' : list (hrow W O)), map strip flat = map strip flat' ->
    same_weather_calendar (split_days cal flat) (split_days cal flat').
  Proof.
    unfold same_weather_calendar. induction cal as [|[st loc] cal IH]; intros flat flat' E; [reflexivity|].
    cbn [split_days map]. unfold strip_day at 1 3. cbn [h_rows h_loc].
    rewrite <- !firstn_map, E. f_equal. apply IH. rewrite <- !skipn_map, E. reflexivity.
  Qed.

  (* the frame the model receives has the same weather and calendar whatever the usage cells of the records are *)
  Lemma data_stage_ni : forall a b : list rec, same_records_but_usage a b ->
    same_weather_calendar (data_stage w_empty calendar fill_w fill_o KeepFirst a)
                          (data_stage w_empty calendar fill_w fill_o KeepFirst b).
  Proof.
    intros a b H. pose proof (select_keep_first_ni a b H) as S. unfold data_stage.
    set (sa := select w_empty KeepFirst a) in *. set (sb := select w_empty KeepFirst b) in *.
    assert (Eu : map (@q_utc Wc O) sa = map (@q_utc Wc O) sb).
    { assert (X : forall l : list rec, map (@q_utc Wc O) l = map fst (map rec_view l))
        by (intros l; rewrite map_map; apply map_ext; reflexivity).
      rewrite !X, S. reflexivity. }
    rewrite Eu. set (cal := calendar (map (@q_utc Wc O) sb)). set (stamps := concat (map fst cal)).
    apply split_days_ni. rewrite !flat_strip. f_equal. f_equal. f_equal.
    apply map_ext. intros s. rewrite !find_rec_view, S. reflexivity.
  Qed.
End DataStageFacts.

(* ================================================================== the zero rule in front of the de-duplication *)
Section ZeroStageFacts.
  Context {Wc W O : Type}.
  Variable is_zero : O -> bool.
  Variable w_nan : Wc.
  Variable w_empty : Wc -> bool.
  Variable calendar : list Z -> list (list cal_stamp * option err).
  Variable fill_w : list (option Wc) -> list W.
  Variable fill_o : list (option O) -> list (option O).

  (* the rule touches the usage cell only: stamp and weather cells of every record are as the caller gave them *)
  Lemma zero_rec_view : forall elec (l : list (rec Wc O)),
    map rec_view (map (zero_rec is_zero w_nan ZeroUsageCell elec) l) = map rec_view l.
  Proof.
    intros elec l. rewrite map_map. apply map_ext. intros r. unfold zero_rec.
    destruct (elec && match q_obs r with Some o => is_zero o | None => false end); reflexivity.
  Qed.

  Lemma public_stage_ni : forall elec elec' (a b : list (rec Wc O)), same_records_but_usage a b ->
    same_weather_calendar (public_stage is_zero w_nan w_empty calendar fill_w fill_o ZeroUsageCell elec KeepFirst a)
                          (public_stage is_zero w_nan w_empty calendar fill_w fill_o ZeroUsageCell elec' KeepFirst b).
  Proof.
    intros elec elec' a b H. unfold public_stage. apply data_stage_ni.
    unfold same_records_but_usage in *. rewrite !zero_rec_view. exact H.
  Qed.
End ZeroStageFacts.
