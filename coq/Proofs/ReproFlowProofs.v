(* Meaning of the seed-flow check of Model/ReproFlow.v (C03).
   [resolve] is a fuel-bounded search through the tables the translator regenerates from the source.  Here: a declarative
   semantics of those tables -- [flows s l]: "some data-flow path from the expression s ends at a source of kind l" -- and
   the theorem that the search is COMPLETE: when it reports no bad leaf, every path of the semantics, of any length, through
   any chain of attribute assignments and parameter bindings, ends at a leaf the search has listed.  So
   [site_seeded s = true] means: with a seed in the settings EVERY path into the consumer starts at the settings field
   `seed`; without one, EVERY path starts at the one documented draw.  For all tables, not only today's. *)
From Coq Require Import List Bool String Lia.
From V Require Import Model.ReproFlow.
Import ListNotations.
Open Scope string_scope.

Section FlowSemantics.
  Variable assigns : list attr_assign.
  Variable bindings : list binding.
  Variable given : bool.          (* is the settings field `seed` given (true) or None (false) *)

  Definition assign_matches (o : string) (a : attr_assign) : bool :=
    String.eqb (a_owner a) o && guard_ok given (a_guard a).
  Definition binding_matches (f p : string) (b : binding) : bool :=
    String.eqb (b_func b) f && String.eqb (b_param b) p.

  (* one step of data flow at a time; LBad stands for every way of NOT being derived from the seed: the literal None, a
     keyword that is not passed, an expression the translator has no word for, an attribute that is read but never
     assigned under this guard, a parameter of a function nobody calls *)
  Inductive flows : src -> leaf -> Prop :=
  | f_none : flows SNone LBad
  | f_absent : flows SAbsent LBad
  | f_external : flows SExternal LBad
  | f_other : forall w, flows (SOther w) LBad
  | f_const : flows SConst LConst
  | f_field : flows SField LField
  | f_draw : flows SGlobalDraw LDraw
  | f_plus : forall s l, flows s l -> flows (SPlusIdx s) l
  | f_attr : forall o a l, In a assigns -> assign_matches o a = true -> flows (a_src a) l -> flows (SAttr o) l
  | f_attr_unassigned : forall o, (forall a, In a assigns -> assign_matches o a = false) -> flows (SAttr o) LBad
  | f_param : forall f p b x l, In b bindings -> binding_matches f p b = true -> In x (b_args b) -> flows x l ->
      flows (SParam f p) l
  | f_param_uncalled : forall f p b, In b bindings -> binding_matches f p b = true -> b_args b = [] -> flows (SParam f p) LBad
  | f_param_unbound : forall f p, (forall b, In b bindings -> binding_matches f p b = false) -> flows (SParam f p) LBad.

  Lemma flat_map_nil_iff : forall (A B : Type) (g : A -> list B) (l : list A),
    flat_map g l = [] <-> forall a, In a l -> g a = [].
  Proof.
    intros A B g l. induction l as [|a l IH]; cbn; [split; [intros _ a []|reflexivity]|].
    split.
    - intros H. apply app_eq_nil in H. destruct H as [H1 H2]. intros x [<-|Hx]; [exact H1|]. apply IH; assumption.
    - intros H. rewrite (H a (or_introl eq_refl)). cbn. apply IH. intros x Hx. apply H. right. exact Hx.
  Qed.

  (* the two non-leaf cases of [resolve], named *)
  Definition attr_paths (fuel : nat) (o : string) : list leaf :=
    flat_map (fun a => if assign_matches o a then resolve assigns bindings fuel given (a_src a) else []) assigns.
  Definition param_paths (fuel : nat) (f p : string) : list leaf :=
    flat_map (fun b => if binding_matches f p b
                       then match b_args b with [] => [LBad] | l => flat_map (resolve assigns bindings fuel given) l end
                       else []) bindings.

  Lemma resolve_attr : forall fuel o,
    resolve assigns bindings (S fuel) given (SAttr o) = match attr_paths fuel o with [] => [LBad] | l => l end.
  Proof. reflexivity. Qed.
  Lemma resolve_param : forall fuel f p,
    resolve assigns bindings (S fuel) given (SParam f p) = match param_paths fuel f p with [] => [LBad] | l => l end.
  Proof. reflexivity. Qed.

  Lemma or_nil_bad : forall (l : list leaf), ~ In LBad (match l with [] => [LBad] | x :: r => x :: r end) -> l <> [] /\ ~ In LBad l.
  Proof. intros [|x l] H; cbn in H; [exfalso; apply H; left; reflexivity|]. split; [discriminate|exact H]. Qed.

  Lemma or_nil_same : forall (l : list leaf), l <> [] -> match l with [] => [LBad] | x :: r => x :: r end = l.
  Proof. intros [|x l] H; [congruence|reflexivity]. Qed.

  (* completeness of the search *)
  Theorem resolve_complete : forall fuel s,
    ~ In LBad (resolve assigns bindings fuel given s) ->
    forall l, flows s l -> In l (resolve assigns bindings fuel given s).
  Proof.
    induction fuel as [|fuel IH]; intros s Hbad l Hf.
    - exfalso. apply Hbad. left. reflexivity.
    - destruct Hf as [ | | |w| | | |s l Hf|o a l Ha Hm Hf|o Hno|f p b x l Hb Hm Hx Hf|f p b Hb Hm Hargs|f p Hno].
      + exfalso. apply Hbad. left. reflexivity.
      + exfalso. apply Hbad. left. reflexivity.
      + exfalso. apply Hbad. left. reflexivity.
      + exfalso. apply Hbad. left. reflexivity.
      + left. reflexivity.
      + left. reflexivity.
      + left. reflexivity.
      + cbn [resolve] in *. apply IH; assumption.
      + rewrite resolve_attr in *. destruct (or_nil_bad _ Hbad) as [Hne Hnb]. rewrite or_nil_same by exact Hne.
        unfold attr_paths in *. apply in_flat_map. exists a. split; [exact Ha|]. rewrite Hm.
        apply IH; [|exact Hf]. intros Hin. apply Hnb. apply in_flat_map. exists a. split; [exact Ha|]. rewrite Hm. exact Hin.
      + exfalso. rewrite resolve_attr in Hbad. apply Hbad.
        assert (E : attr_paths fuel o = []).
        { unfold attr_paths. apply flat_map_nil_iff. intros a Ha. rewrite (Hno a Ha). reflexivity. }
        rewrite E. left. reflexivity.
      + rewrite resolve_param in *. destruct (or_nil_bad _ Hbad) as [Hne Hnb]. rewrite or_nil_same by exact Hne.
        unfold param_paths in *. apply in_flat_map. exists b. split; [exact Hb|]. rewrite Hm.
        destruct (b_args b) as [|y ys] eqn:Ey; [destruct Hx|].
        apply in_flat_map. exists x. split; [exact Hx|].
        apply IH; [|exact Hf]. intros Hin. apply Hnb. apply in_flat_map. exists b. split; [exact Hb|]. rewrite Hm, Ey.
        apply in_flat_map. exists x. split; [exact Hx|exact Hin].
      + exfalso. rewrite resolve_param in Hbad. destruct (or_nil_bad _ Hbad) as [_ Hnb]. apply Hnb.
        unfold param_paths. apply in_flat_map. exists b. split; [exact Hb|]. rewrite Hm, Hargs. left. reflexivity.
      + exfalso. rewrite resolve_param in Hbad. apply Hbad.
        assert (E : param_paths fuel f p = []).
        { unfold param_paths. apply flat_map_nil_iff. intros b Hb. rewrite (Hno b Hb). reflexivity. }
        rewrite E. left. reflexivity.
  Qed.

  Lemma leaf_is_eq : forall x y, leaf_is x y = true -> x = y.
  Proof. destruct x, y; cbn; congruence. Qed.

  Lemma all_leaves_spec : forall want l, all_leaves want l = true -> l <> [] /\ forall x, In x l -> x = want.
  Proof.
    intros want [|y l] H; [discriminate|]. split; [discriminate|].
    unfold all_leaves in H. rewrite forallb_forall in H. intros x Hx. symmetry. apply leaf_is_eq. apply H. exact Hx.
  Qed.

  (* what a successful check MEANS: every path ends where the check says *)
  Theorem all_leaves_sound : forall fuel want s, want <> LBad ->
    all_leaves want (resolve assigns bindings fuel given s) = true -> forall l, flows s l -> l = want.
  Proof.
    intros fuel want s Hw H l Hf. destruct (all_leaves_spec _ _ H) as [_ Hall].
    apply Hall. apply resolve_complete; [|exact Hf].
    intros Hbad. apply Hw. symmetry. apply Hall. exact Hbad.
  Qed.

  (* ... and the check is not vacuous: a listed leaf is the end of a real path *)
  Theorem resolve_sound : forall fuel s l, In l (resolve assigns bindings fuel given s) -> l <> LBad -> flows s l.
  Proof.
    induction fuel as [|fuel IH]; intros s l Hin Hl.
    - destruct Hin as [<-|[]]. congruence.
    - destruct s as [ | | | | | |o|f p|s|w]; cbn [resolve] in Hin;
        try (destruct Hin as [<-|[]]; try congruence; constructor).
      + change (In l (match attr_paths fuel o with [] => [LBad] | x => x end)) in Hin.
        destruct (attr_paths fuel o) as [|y ys] eqn:E; [destruct Hin as [<-|[]]; congruence|].
        rewrite <- E in Hin. unfold attr_paths in Hin. apply in_flat_map in Hin. destruct Hin as [a [Ha Hin]].
        destruct (assign_matches o a) eqn:Hm; [|destruct Hin].
        eapply f_attr; [exact Ha|exact Hm|]. apply IH; assumption.
      + change (In l (match param_paths fuel f p with [] => [LBad] | x => x end)) in Hin.
        destruct (param_paths fuel f p) as [|y ys] eqn:E; [destruct Hin as [<-|[]]; congruence|].
        rewrite <- E in Hin. unfold param_paths in Hin. apply in_flat_map in Hin. destruct Hin as [b [Hb Hin]].
        destruct (binding_matches f p b) eqn:Hm; [|destruct Hin].
        destruct (b_args b) as [|z zs] eqn:Ez; [destruct Hin as [<-|[]]; congruence|].
        apply in_flat_map in Hin. destruct Hin as [x [Hx Hin]].
        eapply f_param; [exact Hb|exact Hm|rewrite Ez; exact Hx|]. apply IH; assumption.
      + apply f_plus. apply IH; assumption.
  Qed.
End FlowSemantics.

(* a site that passes [site_seeded]: with a seed given every path starts at the settings field, without one at the draw *)
Theorem site_seeded_means : forall assigns bindings s, site_seeded assigns bindings s = true ->
  (forall l, flows assigns bindings true (s_src s) l -> l = LField) /\
  (forall l, flows assigns bindings false (s_src s) l -> l = LDraw).
Proof.
  intros assigns bindings s H. unfold site_seeded in H. apply andb_prop in H. destruct H as [H1 H2]. split.
  - intros l Hf. eapply all_leaves_sound; [discriminate|exact H1|exact Hf].
  - intros l Hf. eapply all_leaves_sound; [discriminate|exact H2|exact Hf].
Qed.

Theorem site_constant_means : forall assigns bindings s given, site_constant assigns bindings s = true ->
  forall l, flows assigns bindings given (s_src s) l -> l = LConst.
Proof.
  intros assigns bindings s given H l Hf. unfold site_constant in H. apply andb_prop in H. destruct H as [H1 H2].
  destruct given; [eapply all_leaves_sound; [discriminate|exact H1|exact Hf]|eapply all_leaves_sound; [discriminate|exact H2|exact Hf]].
Qed.
