(* C06 — lemmas about Model/Dst.v (clock normalisation of the hourly model) and Model/PredictRows.v
   (row accounting of the daily / billing predict). *)
From Coq Require Import ZArith List Bool Arith Lia Permutation Sorted.
From V Require Import Model.Dst Model.PredictRows.
Import ListNotations.

(* ================================================================== generic list facts *)

Lemma filter_all : forall (A : Type) (p : A -> bool) l, forallb p l = true -> filter p l = l.
Proof.
  intros A p. induction l as [|x l IH]; cbn [forallb filter]; intros H; [reflexivity|].
  apply andb_true_iff in H. destruct H as [Hx Hl]. rewrite Hx, (IH Hl). reflexivity.
Qed.

Lemma skipn_skipn' : forall (A : Type) (a b : nat) (l : list A), skipn a (skipn b l) = skipn (b + a) l.
Proof.
  intros A a b. revert a. induction b as [|b IH]; intros a l; [reflexivity|].
  destruct l as [|x l]; cbn [skipn plus]; [destruct a; reflexivity|]. apply IH.
Qed.

Lemma nth_error_app_r : forall (A : Type) (a b : list A) n, nth_error (a ++ b) (length a + n) = nth_error b n.
Proof. intros A a b n. rewrite nth_error_app2 by lia. f_equal. lia. Qed.

Lemma skipn_app_r : forall (A : Type) (a b : list A) n, skipn (length a + n) (a ++ b) = skipn n b.
Proof.
  intros A a b n. rewrite skipn_app. rewrite skipn_all2 by lia. cbn [app]. f_equal. lia.
Qed.

Lemma Some_inj : forall (A : Type) (a b : A), Some a = Some b -> a = b.
Proof. intros A a b H. congruence. Qed.

Lemma firstn_add_skipn : forall (A : Type) (a b : nat) (l : list A),
  firstn (a + b) l = firstn a l ++ firstn b (skipn a l).
Proof.
  intros A a b. induction a as [|a IH]; intros l; [reflexivity|].
  destruct l as [|x l]; cbn [plus firstn skipn app]; [destruct b; reflexivity|]. rewrite IH. reflexivity.
Qed.

Lemma nth_error_skipn' : forall (A : Type) (c n : nat) (l : list A), nth_error (skipn c l) n = nth_error l (c + n).
Proof.
  intros A c. induction c as [|c IH]; intros n l; [reflexivity|].
  destruct l as [|x l]; cbn [skipn plus nth_error]; [destruct n; reflexivity|]. apply IH.
Qed.

(* ================================================================== _get_dst_indices on clock patterns *)

(* a day of the frame shows the clock pattern k, has a usage value on every row, and its date label resolves *)
Definition realises (pol : policy) (d : day) (k : daykind) : Prop :=
  hours d = clock_hours k
  /\ (count_rows pol = false -> forallb hs_obs (d_rows d) = true)
  /\ (loc_by_mask pol = false -> d_loc d = None).

Definition rows_expected (k : daykind) : nat := match k with Reg => 24 | Short _ => 23 | Long _ => 25 end.

Lemma clock_hours_length : forall k, kind_ok k = true -> length (clock_hours k) = rows_expected k.
Proof.
  intros [|h|h]; cbn [kind_ok clock_hours rows_expected]; intros H.
  - reflexivity.
  - apply Nat.ltb_lt in H. rewrite app_length, !seq_length. lia.
  - apply Nat.ltb_lt in H. rewrite app_length, !seq_length. lia.
Qed.

Lemma count_obs_realises : forall pol d k, realises pol d k -> kind_ok k = true -> day_count pol d = rows_expected k.
Proof.
  intros pol d k (Hh & Ho & _) Hk. unfold day_count, count_obs.
  assert (E : length (d_rows d) = rows_expected k).
  { rewrite <- (clock_hours_length k Hk), <- Hh. unfold hours. rewrite map_length. reflexivity. }
  destruct (count_rows pol); [exact E|]. rewrite (filter_all _ _ _ (Ho eq_refl)). exact E.
Qed.

Lemma day_loc_realises : forall pol d k, realises pol d k -> day_loc pol d = None.
Proof.
  intros pol d k (_ & _ & Hl). unfold day_loc. destruct (loc_by_mask pol); [reflexivity | apply Hl; reflexivity].
Qed.

Lemma missing_short : forall h, h < 24 -> missing_of (clock_hours (Short h)) = [h].
Proof.
  intros h H. do 24 (destruct h as [|h]; [vm_compute; reflexivity|]). exfalso. lia.
Qed.

Lemma first_repeat_long : forall h, h < 24 -> first_repeat [] (clock_hours (Long h)) = Some h.
Proof.
  intros h H. do 24 (destruct h as [|h]; [vm_compute; reflexivity|]). exfalso. lia.
Qed.

Lemma interp_loop_valid : forall pol days pat, Forall2 (realises pol) days pat -> forallb kind_ok pat = true ->
  forall i last, exists last', interp_loop pol i days last = Ok (interp_of i pat, last').
Proof.
  intros pol days pat H. induction H as [|d k days pat Hd Hr IH]; intros Hk i last.
  - exists last. reflexivity.
  - cbn [forallb] in Hk. apply andb_true_iff in Hk. destruct Hk as [Hk Hp].
    cbn [interp_loop]. rewrite (count_obs_realises pol d k Hd Hk).
    destruct k as [|h|h]; cbn [rows_expected interp_of].
    + change (24 =? 23) with false. cbv iota. apply IH. exact Hp.
    + change (23 =? 23) with true. cbv iota. rewrite (day_loc_realises pol d _ Hd). destruct Hd as (Hh & _ & Hl).
      unfold missing_hours. rewrite Hh. cbn [kind_ok] in Hk. apply Nat.ltb_lt in Hk.
      rewrite (missing_short h Hk).
      destruct (IH Hp (S i) (Some h)) as [last' E]. rewrite E. exists last'. reflexivity.
    + change (25 =? 23) with false. cbv iota. apply IH. exact Hp.
Qed.

Lemma mean_loop_valid : forall pol days pat, Forall2 (realises pol) days pat -> forallb kind_ok pat = true ->
  forall i last, mean_loop pol i days last = Ok (mean_of i pat).
Proof.
  intros pol days pat H. induction H as [|d k days pat Hd Hr IH]; intros Hk i last.
  - reflexivity.
  - cbn [forallb] in Hk. apply andb_true_iff in Hk. destruct Hk as [Hk Hp].
    cbn [mean_loop]. rewrite (count_obs_realises pol d k Hd Hk).
    destruct k as [|h|h]; cbn [rows_expected mean_of].
    + change (24 =? 25) with false. cbv iota. apply IH. exact Hp.
    + change (23 =? 25) with false. cbv iota. apply IH. exact Hp.
    + change (25 =? 25) with true. cbv iota. rewrite (day_loc_realises pol d _ Hd). destruct Hd as (Hh & _ & Hl).
      rewrite Hh. cbn [kind_ok] in Hk. apply Nat.ltb_lt in Hk. rewrite (first_repeat_long h Hk).
      rewrite (IH Hp (S i) (Some h)). reflexivity.
Qed.

Lemma get_dst_indices_valid_l : forall pol days pat, Forall2 (realises pol) days pat -> forallb kind_ok pat = true ->
  get_dst_indices pol days = Ok (indices_of pat).
Proof.
  intros pol days pat H Hk. unfold get_dst_indices, indices_of.
  destruct (interp_loop_valid pol days pat H Hk 0 None) as [last' E]. rewrite E. cbn [bind].
  rewrite (mean_loop_valid pol days pat H Hk 0 last'). reflexivity.
Qed.

Lemma pattern_ok_kind_ok : forall pat, pattern_ok pat = true -> forallb kind_ok pat = true.
Proof.
  induction pat as [|k p IH]; [reflexivity|]. cbn [pattern_ok forallb]. destruct k as [|h|h]; intros H.
  - rewrite (IH H). reflexivity.
  - apply andb_true_iff in H. destruct H as [H1 H2]. rewrite (IH H2). cbn [kind_ok].
    apply Nat.ltb_lt in H1. replace (h <? 24) with true; [reflexivity|]. symmetry. apply Nat.ltb_lt. lia.
  - apply andb_true_iff in H. destruct H as [H1 _]. apply andb_true_iff in H1. destruct H1 as [H1 H2].
    rewrite (IH H2). cbn [kind_ok]. rewrite H1. reflexivity.
Qed.

Lemma pattern_ok_tail : forall k p, pattern_ok (k :: p) = true -> pattern_ok p = true.
Proof.
  intros [|h|h] p; cbn [pattern_ok]; intros H.
  - exact H.
  - apply andb_true_iff in H. tauto.
  - apply andb_true_iff in H. destruct H as [H _]. apply andb_true_iff in H. tauto.
Qed.

(* ================================================================== correct_dst: 24 slots on every day *)
Inductive rel3 {A B C : Type} (R : A -> B -> C -> Prop) : list A -> list B -> list C -> Prop :=
| rel3_nil : rel3 R [] [] []
| rel3_cons : forall a b c la lb lc, R a b c -> rel3 R la lb lc -> rel3 R (a :: la) (b :: lb) (c :: lc).

Section Correct.
  Context {V : Type}.
  Variable mean2 : V -> V -> V.

  Lemma nth_res_ok : forall (l : list V) n, n < length l -> exists v, nth_res l n = Ok v.
  Proof.
    intros l n H. unfold nth_res. destruct (nth_error l n) eqn:E; [eexists; reflexivity|].
    apply nth_error_None in E. lia.
  Qed.

  Lemma replace_day_app : forall (pre : list (list V)) x s f,
    replace_day (length pre) f (pre ++ x :: s) = pre ++ f :: s.
  Proof. induction pre as [|y pre IH]; intros x s f; cbn; [reflexivity|]. rewrite IH. reflexivity. Qed.

  Lemma nth_error_mid : forall (pre : list (list V)) x s, nth_error (pre ++ x :: s) (length pre) = Some x.
  Proof. intros. rewrite nth_error_app2 by lia. rewrite Nat.sub_diag. reflexivity. Qed.

  Lemma last_of_nonempty : forall (agg : list (list V)) j, Forall (fun f => f <> []) agg -> j < length agg ->
    exists a, match nth_error agg j with Some p => last_res p | None => Err EIndex end = Ok a.
  Proof.
    intros agg j Hne Hj. destruct (nth_error agg j) as [p|] eqn:E.
    - assert (Hp : p <> []). { rewrite Forall_forall in Hne. apply Hne. eapply nth_error_In. exact E. }
      unfold last_res. apply nth_res_ok. destruct p; [congruence|]. cbn [length]. lia.
    - apply nth_error_None in E. lia.
  Qed.

  Definition interp_rel (k : daykind) (f f' : list V) : Prop :=
    match k with Short h => exists v, f' = insert_at h v f | _ => f' = f end.
  Definition mean_rel (k : daykind) (f f' : list V) : Prop :=
    match k with Long h => exists v, f' = set_at h v (delete_at h f) | _ => f' = f end.
  (* the net effect of correct_dst on one day *)
  Definition day_fix (k : daykind) (f f' : list V) : Prop :=
    match k with
    | Reg => f' = f
    | Short h => exists v, f' = insert_at h v f
    | Long h => exists v, f' = set_at h v (delete_at h f)
    end.

  Lemma insert_at_nonempty : forall n (v : V) l, insert_at n v l <> [].
  Proof. intros n v l. unfold insert_at. destruct (firstn n l); cbn; congruence. Qed.

  Lemma fold_interp : forall pat suf, Forall2 (fun k f => length f = rows_expected k) pat suf ->
    pattern_ok pat = true ->
    forall pre, Forall (fun f => f <> []) pre ->
    exists suf', fold_days (interp_day mean2) (interp_of (length pre) pat) (pre ++ suf) = Ok (pre ++ suf')
                 /\ rel3 interp_rel pat suf suf'.
  Proof.
    intros pat suf H. induction H as [|k f pat suf Hf Hs IH]; intros Hok pre Hpre.
    - exists []. split; [reflexivity | constructor].
    - assert (Hok' := pattern_ok_tail _ _ Hok).
      assert (Hsuf_ne : Forall (fun g : list V => g <> []) (f :: suf)).
      { constructor.
        - destruct f; [destruct k; cbn in Hf; discriminate | congruence].
        - clear - Hs. induction Hs as [|k g p s Hg _ IHs]; constructor; [|exact IHs].
          destruct g; [destruct k; cbn in Hg; discriminate | congruence]. }
      destruct k as [|h|h]; cbn [interp_of].
      + destruct (IH Hok' (pre ++ [f])) as (suf' & E & R).
        { apply Forall_app. split; [exact Hpre | constructor; [inversion Hsuf_ne; assumption | constructor]]. }
        rewrite app_length in E. cbn [length] in E. rewrite Nat.add_1_r in E.
        rewrite <- !app_assoc in E. cbn [app] in E.
        exists (f :: suf'). split; [exact E | constructor; [reflexivity | exact R]].
      + cbn [pattern_ok] in Hok. apply andb_true_iff in Hok. destruct Hok as [Hh _].
        apply Nat.ltb_lt in Hh. cbn [rows_expected] in Hf.
        cbn [fold_days]. unfold interp_day at 1. rewrite nth_error_mid.
        assert (Hprev : exists a,
          (if h =? 0 then
             match nth_error (pre ++ f :: suf)
                     (if length pre =? 0 then length (pre ++ f :: suf) - 1 else length pre - 1) with
             | Some p => last_res p | None => Err EIndex end
           else nth_res f (h - 1)) = Ok a).
        { destruct (h =? 0) eqn:E0.
          - apply last_of_nonempty.
            + apply Forall_app. split; assumption.
            + rewrite app_length. cbn [length]. destruct (length pre =? 0) eqn:E1; [lia|].
              apply Nat.eqb_neq in E1. lia.
          - apply Nat.eqb_neq in E0. apply nth_res_ok. lia. }
        destruct Hprev as [a Ea]. rewrite Ea. cbn [bind].
        destruct (nth_res_ok f h ltac:(lia)) as [b Eb]. rewrite Eb. cbn [bind].
        rewrite replace_day_app.
        destruct (IH Hok' (pre ++ [insert_at h (mean2 a b) f])) as (suf' & E & R).
        { apply Forall_app. split; [exact Hpre | constructor; [apply insert_at_nonempty | constructor]]. }
        rewrite app_length in E. cbn [length] in E. rewrite Nat.add_1_r in E.
        rewrite <- !app_assoc in E. cbn [app] in E.
        exists (insert_at h (mean2 a b) f :: suf'). split; [exact E|].
        constructor; [exists (mean2 a b); reflexivity | exact R].
      + destruct (IH Hok' (pre ++ [f])) as (suf' & E & R).
        { apply Forall_app. split; [exact Hpre | constructor; [inversion Hsuf_ne; assumption | constructor]]. }
        rewrite app_length in E. cbn [length] in E. rewrite Nat.add_1_r in E.
        rewrite <- !app_assoc in E. cbn [app] in E.
        exists (f :: suf'). split; [exact E | constructor; [reflexivity | exact R]].
  Qed.

  Lemma delete_at_length : forall n (l : list V), n < length l -> length (delete_at n l) = length l - 1.
  Proof.
    intros n l H. unfold delete_at. rewrite app_length, firstn_length, skipn_length. lia.
  Qed.
  Lemma set_at_length : forall n (v : V) l, n < length l -> length (set_at n v l) = length l.
  Proof.
    intros n v l H. unfold set_at. rewrite app_length, firstn_length. cbn [length]. rewrite skipn_length. lia.
  Qed.
  Lemma insert_at_length : forall n (v : V) l, length (insert_at n v l) = S (length l).
  Proof.
    intros n v l. unfold insert_at. rewrite app_length. cbn [length].
    rewrite Nat.add_succ_r. rewrite <- app_length, firstn_skipn. reflexivity.
  Qed.

  Lemma fold_mean : forall pat suf,
    Forall2 (fun k f => match k with Long h => length f = 25 /\ h < 24 | _ => True end) pat suf ->
    forall pre,
    exists suf', fold_days (mean_day mean2) (mean_of (length pre) pat) (pre ++ suf) = Ok (pre ++ suf')
                 /\ rel3 mean_rel pat suf suf'.
  Proof.
    intros pat suf H. induction H as [|k f pat suf Hf Hs IH]; intros pre.
    - exists []. split; [reflexivity | constructor].
    - destruct k as [|h|h]; cbn [mean_of].
      + destruct (IH (pre ++ [f])) as (suf' & E & R).
        rewrite app_length in E. cbn [length] in E. rewrite Nat.add_1_r in E.
        rewrite <- !app_assoc in E. cbn [app] in E.
        exists (f :: suf'). split; [exact E | constructor; [reflexivity | exact R]].
      + destruct (IH (pre ++ [f])) as (suf' & E & R).
        rewrite app_length in E. cbn [length] in E. rewrite Nat.add_1_r in E.
        rewrite <- !app_assoc in E. cbn [app] in E.
        exists (f :: suf'). split; [exact E | constructor; [reflexivity | exact R]].
      + destruct Hf as [Hlen Hh].
        cbn [fold_days]. unfold mean_day at 1. rewrite nth_error_mid.
        destruct (nth_res_ok f (h + 1) ltac:(lia)) as [a Ea]. rewrite Ea. cbn [bind].
        destruct (nth_res_ok f h ltac:(lia)) as [b Eb]. rewrite Eb. cbn [bind].
        assert (Hp : h <? length (delete_at h f) = true).
        { apply Nat.ltb_lt. rewrite delete_at_length by lia. lia. }
        rewrite Hp. rewrite replace_day_app.
        destruct (IH (pre ++ [set_at h (mean2 a b) (delete_at h f)])) as (suf' & E & R).
        rewrite app_length in E. cbn [length] in E. rewrite Nat.add_1_r in E.
        rewrite <- !app_assoc in E. cbn [app] in E.
        exists (set_at h (mean2 a b) (delete_at h f) :: suf'). split; [exact E|].
        constructor; [exists (mean2 a b); reflexivity | exact R].
  Qed.

  Lemma correct_dst_24_l : forall pat agg,
    Forall2 (fun k f => length f = rows_expected k) pat agg -> pattern_ok pat = true ->
    exists agg', feature_matrix mean2 agg (indices_of pat) = Ok agg'
                 /\ all24 agg' = true /\ rel3 day_fix pat agg agg'.
  Proof.
    intros pat agg Hshape Hok.
    destruct (fold_interp pat agg Hshape Hok [] (Forall_nil _)) as (a1 & E1 & R1).
    cbn [length app] in E1.
    assert (Hshape2 : Forall2 (fun k f => match k with Long h => length f = 25 /\ h < 24 | _ => True end) pat a1).
    { assert (Hk := pattern_ok_kind_ok _ Hok). clear E1 Hok.
      revert Hk. induction R1 as [|k f f' p s s' Hr R IH]; intros Hk; [constructor|].
      inversion Hshape as [|? ? ? ? Hf Hs]; subst.
      cbn [forallb] in Hk. apply andb_true_iff in Hk. destruct Hk as [Hk1 Hk2].
      constructor; [|apply IH; assumption].
      destruct k as [|h|h]; [exact I | exact I|].
      cbn [interp_rel] in Hr. subst f'. cbn [rows_expected] in Hf. cbn [kind_ok] in Hk1.
      apply Nat.ltb_lt in Hk1. split; assumption. }
    destruct (fold_mean pat a1 Hshape2 []) as (a2 & E2 & R2). cbn [length app] in E2.
    assert (R : rel3 day_fix pat agg a2 /\ Forall (fun f => length f = 24) a2).
    { assert (Hk := pattern_ok_kind_ok _ Hok). clear E1 E2 Hshape2.
      revert a2 R2 Hok Hk. induction R1 as [|k f f' p s s' Hr R IH]; intros a2 R2 Hok Hk.
      - inversion R2; subst. split; constructor.
      - inversion R2 as [|? ? f'' ? ? s'' Hr2 R2']; subst.
        inversion Hshape as [|? ? ? ? Hf Hs]; subst.
        cbn [forallb] in Hk. apply andb_true_iff in Hk. destruct Hk as [Hk1 Hk2].
        destruct (IH Hs s'' R2' (pattern_ok_tail _ _ Hok) Hk2) as [IH1 IH2].
        destruct k as [|h|h]; cbn [interp_rel mean_rel rows_expected] in *.
        + subst. split; constructor; try assumption. reflexivity.
        + subst f''. destruct Hr as [v Hv]. subst f'. split; constructor; try assumption.
          * exists v. reflexivity.
          * rewrite insert_at_length. lia.
        + subst f'. destruct Hr2 as [v Hv]. subst f''. split; constructor; try assumption.
          * exists v. reflexivity.
          * cbn [kind_ok] in Hk1. apply Nat.ltb_lt in Hk1.
            rewrite set_at_length; rewrite delete_at_length; lia. }
    destruct R as [R H24].
    exists a2. split; [|split; [|exact R]].
    - unfold feature_matrix, correct_dst, indices_of. cbn [fst snd]. rewrite E1. cbn [bind]. rewrite E2. cbn [bind].
      replace (uniform a2) with true; [reflexivity|]. symmetry. unfold uniform. destruct a2 as [|f t]; [reflexivity|].
      inversion H24 as [|? ? Hf Ht]; subst. apply forallb_forall. intros g Hg.
      rewrite Forall_forall in Ht. rewrite (Ht g Hg), Hf. reflexivity.
    - unfold all24. apply forallb_forall. intros g Hg. rewrite Forall_forall in H24. rewrite (H24 g Hg). reflexivity.
  Qed.
End Correct.

(* ================================================================== the sorted operation list of a pattern *)
Definition shift_op (n : nat) (o : op) : op := (fst o, n + snd o).

Lemma ops_of_shift : forall pat i, ops_of (S i) pat = map (shift_op 24) (ops_of i pat).
Proof.
  induction pat as [|k p IH]; intros i; [reflexivity|].
  destruct k as [|h|h]; cbn [ops_of map]; rewrite IH; try reflexivity; unfold shift_op; cbn [fst snd]; f_equal; f_equal; lia.
Qed.

Lemma ops_of_lower : forall pat i o, In o (ops_of i pat) -> i * 24 <= snd o.
Proof.
  induction pat as [|k p IH]; intros i o H; [destruct H|].
  destruct k as [|h|h]; cbn [ops_of] in H.
  - apply IH in H. lia.
  - destruct H as [H|H]; [subst o; cbn [snd]; lia | apply IH in H; lia].
  - destruct H as [H|H]; [subst o; cbn [snd]; lia | apply IH in H; lia].
Qed.

Lemma insert_op_head : forall x l, (forall o, In o l -> snd x <= snd o) -> insert_op x l = x :: l.
Proof.
  intros x [|y t] H; [reflexivity|]. cbn [insert_op].
  replace (snd x <=? snd y) with true; [reflexivity|]. symmetry. apply Nat.leb_le. apply H. left. reflexivity.
Qed.

Lemma insert_past : forall y t r, (forall x, In x r -> snd y < snd x) ->
  fold_right insert_op (y :: t) r = y :: fold_right insert_op t r.
Proof.
  intros y t. induction r as [|x r IH]; intros H; [reflexivity|].
  cbn [fold_right]. rewrite IH by (intros z Hz; apply H; right; exact Hz).
  cbn [insert_op]. replace (snd x <=? snd y) with false; [reflexivity|].
  symmetry. apply Nat.leb_gt. apply H. left. reflexivity.
Qed.

Definition rems (i : nat) (pat : list daykind) : list op := remove_ops (interp_of i pat).
Definition inss (i : nat) (pat : list daykind) : list op := interp_ops (mean_of i pat).

Lemma inss_lower : forall pat i o, In o (inss i pat) -> i * 24 + 1 <= snd o.
Proof.
  unfold inss, interp_ops. induction pat as [|k p IH]; intros i o H; [destruct H|].
  destruct k as [|h|h]; cbn [mean_of map] in H.
  - apply IH in H. lia.
  - apply IH in H. lia.
  - destruct H as [H|H]; [subst o; cbn [fst snd]; lia | apply IH in H; lia].
Qed.

Lemma rems_lower : forall pat i o, In o (rems i pat) -> i * 24 <= snd o.
Proof.
  unfold rems, remove_ops. induction pat as [|k p IH]; intros i o H; [destruct H|].
  destruct k as [|h|h]; cbn [interp_of map] in H.
  - apply IH in H. lia.
  - destruct H as [H|H]; [subst o; cbn [fst snd]; lia | apply IH in H; lia].
  - apply IH in H. lia.
Qed.

Lemma sort_inss : forall pat i, forallb kind_ok pat = true -> sort_ops (inss i pat) = inss i pat.
Proof.
  unfold sort_ops. induction pat as [|k p IH]; intros i Hk; [reflexivity|].
  cbn [forallb] in Hk. apply andb_true_iff in Hk. destruct Hk as [Hk Hp].
  destruct k as [|h|h]; unfold inss in *; cbn [mean_of interp_ops map] in *; try (apply IH; exact Hp).
  cbn [fold_right]. unfold interp_ops in IH. rewrite (IH (S i) Hp). apply insert_op_head.
  intros o Ho. cbn [fst snd]. apply (inss_lower p (S i)) in Ho. cbn [kind_ok] in Hk. apply Nat.ltb_lt in Hk. lia.
Qed.

Lemma sort_ops_pattern : forall pat i, pattern_ok pat = true ->
  sort_ops (rems i pat ++ inss i pat) = ops_of i pat.
Proof.
  intros pat i Hok. unfold sort_ops. rewrite fold_right_app.
  change (fold_right insert_op [] (inss i pat)) with (sort_ops (inss i pat)).
  rewrite (sort_inss pat i (pattern_ok_kind_ok _ Hok)).
  revert i Hok. induction pat as [|k p IH]; intros i Hok; [reflexivity|].
  assert (Hok' := pattern_ok_tail _ _ Hok).
  destruct k as [|h|h]; unfold rems, inss in *; cbn [interp_of mean_of remove_ops interp_ops map ops_of] in *.
  - apply IH. exact Hok'.
  - cbn [fold_right fst snd]. unfold remove_ops, interp_ops in IH. rewrite (IH (S i) Hok').
    apply insert_op_head. intros o Ho. cbn [snd]. apply ops_of_lower in Ho.
    cbn [pattern_ok] in Hok. apply andb_true_iff in Hok. destruct Hok as [Hh _]. apply Nat.ltb_lt in Hh. lia.
  - cbn [fst snd]. rewrite insert_past.
    + unfold remove_ops, interp_ops in IH. rewrite (IH (S i) Hok'). reflexivity.
    + intros x Hx. cbn [snd].
      cbn [pattern_ok] in Hok. apply andb_true_iff in Hok. destruct Hok as [Hok Hg].
      apply andb_true_iff in Hok. destruct Hok as [Hh _]. apply Nat.ltb_lt in Hh.
      destruct (h =? 23) eqn:E23.
      * apply Nat.eqb_eq in E23. subst h.
        destruct p as [|[|h'|h'] p']; [discriminate | | | ].
        -- cbn [interp_of map] in Hx. apply (rems_lower p' (S (S i))) in Hx. lia.
        -- destruct h' as [|h']; [discriminate|]. cbn [interp_of map] in Hx.
           destruct Hx as [Hx|Hx]; [subst x; cbn [fst snd]; lia | apply (rems_lower p' (S (S i))) in Hx; lia].
        -- cbn [interp_of map] in Hx. apply (rems_lower p' (S (S i))) in Hx. lia.
      * apply Nat.eqb_neq in E23. apply (rems_lower p (S i)) in Hx. lia.
Qed.

(* ================================================================== _transform_dst *)
Section Transform.
  Context {V : Type}.
  Variable mean2 : V -> V -> V.

  (* the fence-post slicing with the inserted value emitted at its operation *)
  Fixpoint slices2 (pred : list V) (c : nat) (ops : list op) (vals : list V) : list V :=
    match ops with
    | [] => skipn c pred
    | (REMOVE, i) :: rest => slice c i pred ++ slices2 pred (i + 1) rest vals
    | (INTERPOLATE, i) :: rest =>
        match vals with
        | v :: vs => slice c i pred ++ v :: slices2 pred i rest vs
        | [] => slice c i pred ++ slices2 pred i rest []
        end
    end.

  Lemma slices_slices2 : forall pred ops prev vals,
    slices pred prev ops vals =
    match prev with
    | None => slices2 pred 0 ops vals
    | Some (REMOVE, i) => slices2 pred (i + 1) ops vals
    | Some (INTERPOLATE, i) =>
        match vals with v :: vs => v :: slices2 pred i ops vs | [] => slices2 pred i ops [] end
    end.
  Proof.
    intros pred. induction ops as [|o rest IH]; intros prev vals.
    - destruct prev as [[[|] i]|]; cbn [slices slices2]; try reflexivity.
      destruct vals; reflexivity.
    - cbn [slices]. destruct prev as [[[|] i]|].
      + rewrite IH. destruct o as [[|] j]; cbn [slices2 snd app]; [reflexivity|].
        destruct vals; reflexivity.
      + destruct vals as [|v vs]; rewrite IH; destruct o as [[|] j]; cbn [slices2 snd app]; try reflexivity.
        destruct vs; reflexivity.
      + rewrite IH. destruct o as [[|] j]; cbn [slices2 snd app]; [reflexivity|].
        destruct vals; reflexivity.
  Qed.

  Lemma slice_split : forall (l : list V) a b c, a <= b -> b <= c -> slice a c l = slice a b l ++ slice b c l.
  Proof.
    intros l a b c Hab Hbc. unfold slice.
    replace (c - a) with ((b - a) + (c - b)) by lia.
    rewrite firstn_add_skipn. f_equal. rewrite skipn_skipn'. replace (a + (b - a)) with b by lia. reflexivity.
  Qed.

  (* moving the cursor over a stretch without operations *)
  Lemma slices2_advance : forall pred ops c c' vals, c <= c' -> (forall o, In o ops -> c' <= snd o) ->
    slices2 pred c ops vals = slice c c' pred ++ slices2 pred c' ops vals.
  Proof.
    intros pred ops c c' vals Hc H. destruct ops as [|[[|] i] rest]; cbn [slices2].
    - unfold slice. rewrite <- (firstn_skipn (c' - c) (skipn c pred)) at 1. f_equal.
      rewrite skipn_skipn'. f_equal. lia.
    - assert (Hi : c' <= i) by (apply (H (REMOVE, i)); left; reflexivity).
      rewrite (slice_split pred c c' i Hc Hi). rewrite <- app_assoc. reflexivity.
    - assert (Hi : c' <= i) by (apply (H (INTERPOLATE, i)); left; reflexivity).
      rewrite (slice_split pred c c' i Hc Hi). destruct vals; rewrite <- app_assoc; reflexivity.
  Qed.

  Lemma slice_app_r : forall (pre l : list V) a b, slice (length pre + a) (length pre + b) (pre ++ l) = slice a b l.
  Proof.
    intros pre l a b. unfold slice. rewrite skipn_app_r. f_equal. lia.
  Qed.

  (* the same frame seen from 24 slots (one day) later *)
  Lemma slices2_shift : forall (pre pred : list V) ops c vals,
    slices2 (pre ++ pred) (length pre + c) (map (shift_op (length pre)) ops) vals = slices2 pred c ops vals.
  Proof.
    intros pre pred. induction ops as [|[[|] i] rest IH]; intros c vals; cbn [map slices2 shift_op fst snd].
    - apply skipn_app_r.
    - rewrite slice_app_r. f_equal. rewrite <- Nat.add_assoc. apply IH.
    - destruct vals as [|v vs]; rewrite slice_app_r; f_equal; [apply IH | f_equal; apply IH].
  Qed.

  Lemma interp_vals_shift : forall (pre pred : list V) idxs, Forall (fun i => 1 <= i) idxs ->
    interp_vals mean2 (pre ++ pred) (map (fun i => length pre + i) idxs) = interp_vals mean2 pred idxs.
  Proof.
    intros pre pred. induction idxs as [|i t IH]; intros H; [reflexivity|].
    inversion H as [|? ? Hi Ht]; subst. cbn [map interp_vals].
    replace (length pre + i - 1) with (length pre + (i - 1)) by lia.
    rewrite !nth_error_app_r. rewrite (IH Ht). reflexivity.
  Qed.

  (* ---------------------------------------------------------------- well-formed operation lists:
     strictly increasing, inside the array, an INTERPOLATE never directly behind a REMOVE of the slot before it;
     `vals` are the interpolated values in the order of the operations *)
  Fixpoint wfv (pred : list V) (c : nat) (ops : list op) (vals : list V) : Prop :=
    match ops with
    | [] => True
    | (REMOVE, i) :: rest => c <= i /\ i < length pred /\ wfv pred (i + 1) rest vals
    | (INTERPOLATE, i) :: rest =>
        c + 1 <= i /\
        match vals with
        | v :: vs => (exists a b, nth_error pred (i - 1) = Some a /\ nth_error pred i = Some b /\ v = mean2 a b)
                     /\ wfv pred i rest vs
        | [] => False
        end
    end.

  Lemma wfv_weaken : forall pred ops c c' vals, c' <= c -> wfv pred c ops vals -> wfv pred c' ops vals.
  Proof.
    intros pred [|[[|] i] rest] c c' vals Hc H; cbn [wfv] in *; [exact I | |].
    - destruct H as (H1 & H2 & H3). repeat split; [lia | exact H2 | exact H3].
    - destruct H as (H1 & H2). split; [lia | exact H2].
  Qed.

  Lemma wfv_shift : forall (pre pred : list V) ops c vals, wfv pred c ops vals ->
    wfv (pre ++ pred) (length pre + c) (map (shift_op (length pre)) ops) vals.
  Proof.
    intros pre pred. induction ops as [|[[|] i] rest IH]; intros c vals H; cbn [map wfv shift_op fst snd] in *.
    - exact I.
    - destruct H as (H1 & H2 & H3). split; [lia|]. split; [rewrite app_length; lia|].
      rewrite <- Nat.add_assoc. apply IH. exact H3.
    - destruct H as (H1 & H2). split; [lia|]. destruct vals as [|v vs]; [exact H2|].
      destruct H2 as ((a & b & Ha & Hb & Hv) & H3). split.
      + exists a, b. replace (length pre + i - 1) with (length pre + (i - 1)) by lia.
        rewrite !nth_error_app_r. auto.
      + apply IH. exact H3.
  Qed.

  (* ---------------------------------------------------------------- slicing = insert/delete loop *)
  Lemma firstn_app_exact : forall (pre l : list V) k, firstn (length pre + k) (pre ++ l) = pre ++ firstn k l.
  Proof. intros. apply firstn_app_2. Qed.

  Lemma loop_slices : forall pred ops pre c vals, c <= length pred -> wfv pred c ops vals ->
    loop_spec mean2 (pre ++ skipn c pred) (Z.of_nat (length pre) - Z.of_nat c)%Z ops
    = Some (pre ++ slices2 pred c ops vals).
  Proof.
    intros pred. induction ops as [|[[|] i] rest IH]; intros pre c vals Hc H; cbn [loop_spec slices2 wfv] in *.
    - reflexivity.
    - destruct H as (H1 & H2 & H3).
      replace (Z.of_nat i + (Z.of_nat (length pre) - Z.of_nat c))%Z with (Z.of_nat (length pre + (i - c))) by lia.
      assert (Hlen : length (pre ++ skipn c pred) = length pre + (length pred - c)).
      { rewrite app_length, skipn_length. reflexivity. }
      replace ((Z.of_nat (length pre + (i - c)) <? 0)%Z) with false by (symmetry; apply Z.ltb_ge; lia).
      replace ((Z.of_nat (length (pre ++ skipn c pred)) <=? Z.of_nat (length pre + (i - c)))%Z) with false
        by (symmetry; apply Z.leb_gt; rewrite Hlen; lia).
      cbn [orb]. rewrite Nat2Z.id.
      unfold delete_at. rewrite firstn_app_exact.
      replace (S (length pre + (i - c))) with (length pre + S (i - c)) by lia. rewrite skipn_app_r.
      rewrite skipn_skipn'. replace (c + S (i - c)) with (i + 1) by lia.
      change (firstn (i - c) (skipn c pred)) with (slice c i pred).
      assert (Hsl : length (slice c i pred) = i - c).
      { unfold slice. rewrite firstn_length, skipn_length. lia. }
      specialize (IH (pre ++ slice c i pred) (i + 1) vals ltac:(lia) H3).
      rewrite app_length, Hsl in IH.
      replace (Z.of_nat (length pre + (i - c)) - Z.of_nat (i + 1))%Z
        with (Z.of_nat (length pre) - Z.of_nat c - 1)%Z in IH by lia.
      rewrite <- !app_assoc in IH. rewrite <- !app_assoc. exact IH.
    - destruct H as (H1 & H2). destruct vals as [|v vs]; [destruct H2|].
      destruct H2 as ((a & b & Ha & Hb & Hv) & H3).
      assert (Hi : i < length pred) by (apply nth_error_Some; congruence).
      replace (Z.of_nat i + (Z.of_nat (length pre) - Z.of_nat c))%Z with (Z.of_nat (length pre + (i - c))) by lia.
      replace ((Z.of_nat (length pre + (i - c)) <? 1)%Z) with false by (symmetry; apply Z.ltb_ge; lia).
      rewrite Nat2Z.id.
      replace (length pre + (i - c) - 1) with (length pre + (i - c - 1)) by lia.
      rewrite !nth_error_app_r, !nth_error_skipn'.
      replace (c + (i - c - 1)) with (i - 1) by lia. replace (c + (i - c)) with i by lia.
      rewrite Ha, Hb. unfold insert_at. rewrite firstn_app_exact, skipn_app_r.
      rewrite skipn_skipn'. replace (c + (i - c)) with i by lia.
      change (firstn (i - c) (skipn c pred)) with (slice c i pred).
      assert (Hsl : length (slice c i pred) = i - c).
      { unfold slice. rewrite firstn_length, skipn_length. lia. }
      specialize (IH (pre ++ slice c i pred ++ [mean2 a b]) i vs ltac:(lia) H3).
      rewrite !app_length, Hsl in IH. cbn [length] in IH.
      replace (Z.of_nat (length pre + (i - c + 1)) - Z.of_nat i)%Z
        with (Z.of_nat (length pre) - Z.of_nat c + 1)%Z in IH by lia.
      rewrite <- !app_assoc in IH. cbn [app] in IH. subst v. rewrite <- !app_assoc. cbn [app]. exact IH.
  Qed.

  (* ---------------------------------------------------------------- day by day *)
  Lemma firstn_app_len : forall (s r : list V) n, length s = n -> firstn n (s ++ r) = s.
  Proof. intros s r n H. subst n. rewrite firstn_app, Nat.sub_diag, firstn_all. cbn [firstn]. apply app_nil_r. Qed.
  Lemma skipn_app_len : forall (s r : list V) n, length s = n -> skipn n (s ++ r) = r.
  Proof. intros s r n H. subst n. rewrite skipn_app, Nat.sub_diag, skipn_all. reflexivity. Qed.
  Lemma slice_in_first : forall (s r : list V) a b, b <= length s -> slice a b (s ++ r) = slice a b s.
  Proof.
    intros s r a b H. unfold slice. rewrite skipn_app, firstn_app, skipn_length.
    replace (b - a - (length s - a)) with 0 by lia. cbn [firstn]. apply app_nil_r.
  Qed.
  Lemma slice_to_end : forall (s : list V) a n, length s = n -> slice a n s = skipn a s.
  Proof. intros s a n H. unfold slice. apply firstn_all2. rewrite skipn_length. lia. Qed.
  Lemma slice_from_0 : forall (s : list V) b, slice 0 b s = firstn b s.
  Proof. intros. unfold slice. rewrite Nat.sub_0_r. reflexivity. Qed.

  Lemma inss_shift : forall pat i, inss (S i) pat = map (shift_op 24) (inss i pat).
  Proof.
    unfold inss, interp_ops. induction pat as [|k p IH]; intros i; [reflexivity|].
    destruct k as [|h|h]; cbn [mean_of map]; rewrite ?IH; reflexivity.
  Qed.

  Lemma shifted_lower : forall n ops o, In o (map (shift_op n) ops) -> n <= snd o.
  Proof. intros n ops o H. apply in_map_iff in H. destruct H as (x & Hx & _). subst o. cbn. lia. Qed.

  Lemma pattern_slices : forall pat pred, pattern_ok pat = true -> length pred = 24 * length pat ->
    exists vals out, interp_vals mean2 pred (map snd (inss 0 pat)) = Ok vals
      /\ wfv pred 0 (ops_of 0 pat) vals
      /\ by_day mean2 pat pred = Some out
      /\ slices2 pred 0 (ops_of 0 pat) vals = out.
  Proof.
    induction pat as [|k p IH]; intros pred Hok Hlen.
    - destruct pred; [|discriminate]. exists [], []. repeat split.
    - assert (Hok' := pattern_ok_tail _ _ Hok).
      rewrite <- (firstn_skipn 24 pred) in *. set (s := firstn 24 pred) in *. set (r := skipn 24 pred) in *.
      assert (Hs : length s = 24). { unfold s. rewrite firstn_length. cbn [length] in Hlen. rewrite app_length in Hlen.
        unfold s, r in Hlen. rewrite firstn_length, skipn_length in Hlen. lia. }
      assert (Hr : length r = 24 * length p). { rewrite app_length in Hlen. cbn [length] in Hlen. lia. }
      destruct (IH r Hok' Hr) as (vals' & out' & Ev & Hw & Eb & Es).
      assert (Eidx : map snd (inss 1 p) = map (fun i => length s + i) (map snd (inss 0 p))).
      { rewrite inss_shift, !map_map. apply map_ext. intros o. rewrite Hs. reflexivity. }
      assert (Hge1 : Forall (fun i => 1 <= i) (map snd (inss 0 p))).
      { apply Forall_forall. intros i Hi. apply in_map_iff in Hi. destruct Hi as (o & Ho & Hin). subst i.
        apply inss_lower in Hin. lia. }
      assert (Eops : ops_of 1 p = map (shift_op (length s)) (ops_of 0 p)) by (rewrite Hs; apply ops_of_shift).
      assert (Hw24 : forall c, c <= 24 -> wfv (s ++ r) c (map (shift_op (length s)) (ops_of 0 p)) vals').
      { intros c Hc. apply (wfv_weaken _ _ (length s + 0)); [lia|]. apply wfv_shift. exact Hw. }
      assert (Hadv : forall c, c <= 24 ->
                slices2 (s ++ r) c (map (shift_op (length s)) (ops_of 0 p)) vals' = skipn c s ++ out').
      { intros c Hc. rewrite (slices2_advance _ _ c (length s + 0)); [|lia|].
        - rewrite slices2_shift, Es. f_equal. rewrite Nat.add_0_r. rewrite slice_in_first by lia.
          apply slice_to_end. reflexivity.
        - intros o Ho. apply shifted_lower in Ho. lia. }
      cbn [by_day]. fold s r. rewrite (firstn_app_len s r 24 Hs), (skipn_app_len s r 24 Hs), Eb.
      destruct k as [|h|h].
      + exists vals', (s ++ out'). cbn [ops_of]. unfold inss at 1. cbn [mean_of]. fold (inss 1 p).
        rewrite Eidx, Eops, (interp_vals_shift s r _ Hge1).
        split; [exact Ev|]. split; [apply Hw24; lia|]. split; [reflexivity|]. rewrite (Hadv 0) by lia. reflexivity.
      + cbn [pattern_ok] in Hok. apply andb_true_iff in Hok. destruct Hok as [Hh _]. apply Nat.ltb_lt in Hh.
        exists vals', (delete_at h s ++ out'). cbn [ops_of]. unfold inss at 1. cbn [mean_of]. fold (inss 1 p).
        change (0 * 24 + h) with h.
        rewrite Eidx, Eops, (interp_vals_shift s r _ Hge1).
        split; [exact Ev|]. split; [|split; [reflexivity|]].
        * cbn [wfv]. split; [lia|]. split; [rewrite app_length; lia|]. apply Hw24. lia.
        * cbn [slices2]. rewrite (Hadv (h + 1)) by lia. rewrite slice_in_first by lia. rewrite slice_from_0.
          unfold delete_at. rewrite <- app_assoc. rewrite Nat.add_1_r. reflexivity.
      + cbn [pattern_ok] in Hok. apply andb_true_iff in Hok. destruct Hok as [Hok Hg].
        apply andb_true_iff in Hok. destruct Hok as [Hh _]. apply Nat.ltb_lt in Hh.
        assert (Hrl : h = 23 -> 24 <= length r).
        { intros E. subst h. cbn [Nat.eqb] in Hg. destruct p; [discriminate|]. cbn [length] in Hr. lia. }
        assert (Ha : exists a, nth_error (s ++ r) h = Some a).
        { destruct (nth_error (s ++ r) h) eqn:E; [eexists; reflexivity|]. apply nth_error_None in E.
          rewrite app_length in E. lia. }
        assert (Hb : exists b, nth_error (s ++ r) (S h) = Some b).
        { destruct (nth_error (s ++ r) (S h)) eqn:E; [eexists; reflexivity|]. apply nth_error_None in E.
          rewrite app_length in E. destruct (Nat.eq_dec h 23) as [E23|E23]; [specialize (Hrl E23)|]; lia. }
        destruct Ha as [a Ha]. destruct Hb as [b Hb]. rewrite Ha, Hb.
        exists (mean2 a b :: vals'), (firstn (S h) s ++ mean2 a b :: skipn (S h) s ++ out').
        cbn [ops_of]. unfold inss at 1. cbn [mean_of interp_ops map fst snd]. fold (interp_ops (mean_of 1 p)).
        fold (inss 1 p). change (0 * 24 + h + 1) with (h + 1).
        rewrite Eidx, Eops. cbn [interp_vals]. rewrite Nat.add_sub, Nat.add_1_r, Ha, Hb.
        rewrite (interp_vals_shift s r _ Hge1), Ev. cbn [bind].
        split; [reflexivity|]. split; [|split; [reflexivity|]].
        * cbn [wfv]. split; [lia|]. split.
          -- exists a, b. cbn [Nat.sub]. rewrite Nat.sub_0_r. auto.
          -- apply Hw24. lia.
        * cbn [slices2]. rewrite (Hadv (S h)) by lia. rewrite slice_in_first by lia. rewrite slice_from_0. reflexivity.
  Qed.

  (* ---------------------------------------------------------------- the theorems about _transform_dst *)
  Lemma transform_dst_pattern : forall pat pred, pattern_ok pat = true -> length pred = 24 * length pat ->
    exists out, transform_dst mean2 pred (indices_of pat) = Ok out
             /\ by_day mean2 pat pred = Some out
             /\ transform_spec mean2 pred (indices_of pat) = Some out.
  Proof.
    intros pat pred Hok Hlen.
    destruct (pattern_slices pat pred Hok Hlen) as (vals & out & Ev & Hw & Eb & Es).
    exists out. split; [|split; [exact Eb|]].
    - unfold transform_dst, indices_of. cbn [fst snd].
      change (interp_ops (mean_of 0 pat)) with (inss 0 pat). change (remove_ops (interp_of 0 pat)) with (rems 0 pat).
      rewrite Ev. cbn [bind]. rewrite (sort_ops_pattern pat 0 Hok), slices_slices2, Es. reflexivity.
    - unfold transform_spec, indices_of. cbn [fst snd].
      change (interp_ops (mean_of 0 pat)) with (inss 0 pat). change (remove_ops (interp_of 0 pat)) with (rems 0 pat).
      rewrite (sort_ops_pattern pat 0 Hok).
      pose proof (loop_slices pred (ops_of 0 pat) [] 0 vals ltac:(lia) Hw) as L.
      cbn [app length skipn] in L. change (Z.of_nat 0 - Z.of_nat 0)%Z with 0%Z in L. rewrite L, Es. reflexivity.
  Qed.

  Lemma by_day_length : forall pat pred out, forallb kind_ok pat = true -> length pred = 24 * length pat ->
    by_day mean2 pat pred = Some out -> length out = total_rows pat.
  Proof.
    unfold total_rows. induction pat as [|k p IH]; intros pred out Hk Hlen E.
    - cbn in E. inversion E. reflexivity.
    - cbn [forallb] in Hk. apply andb_true_iff in Hk. destruct Hk as [Hk Hp].
      cbn [by_day] in E. destruct (by_day mean2 p (skipn 24 pred)) as [out'|] eqn:E'; [|discriminate].
      cbn [length] in Hlen.
      assert (Hs : length (firstn 24 pred) = 24) by (rewrite firstn_length; lia).
      assert (IH' : length out' = length (concat (map clock_hours p))).
      { apply (IH (skipn 24 pred)); [exact Hp | rewrite skipn_length; lia | exact E']. }
      cbn [map concat]. rewrite app_length, (clock_hours_length k Hk), <- IH'.
      destruct k as [|h|h]; cbn [rows_expected kind_ok] in *.
      + apply Some_inj in E. rewrite <- E. rewrite app_length, Hs. reflexivity.
      + apply Nat.ltb_lt in Hk. apply Some_inj in E. rewrite <- E. rewrite app_length, delete_at_length by lia. lia.
      + apply Nat.ltb_lt in Hk.
        destruct (nth_error pred h); [|discriminate]. destruct (nth_error pred (S h)); [|discriminate].
        apply Some_inj in E. rewrite <- E.
        rewrite app_length. cbn [length]. rewrite app_length, firstn_length, skipn_length. lia.
  Qed.
End Transform.

(* ================================================================== the index *)
Lemma has_dup_sorted : forall l, StronglySorted Z.lt l -> has_dup l = false.
Proof.
  induction l as [|x t IH]; intros H; [reflexivity|]. inversion H as [|? ? Ht Hx]; subst.
  cbn [has_dup]. rewrite (IH Ht), orb_false_r. apply not_true_is_false. intros E.
  apply existsb_exists in E. destruct E as (y & Hy & Exy). apply Z.eqb_eq in Exy. subst y.
  rewrite Forall_forall in Hx. specialize (Hx x Hy). lia.
Qed.

Lemma NoDup_sorted : forall l, StronglySorted Z.lt l -> NoDup l.
Proof.
  induction l as [|x t IH]; intros H; [constructor|]. inversion H as [|? ? Ht Hx]; subst.
  constructor; [|apply IH; exact Ht]. intros Hin. rewrite Forall_forall in Hx. specialize (Hx x Hin). lia.
Qed.

Lemma contiguous_index_spec : forall s e, (s <= e)%Z ->
  let idx := contiguous_index s e in
  StronglySorted Z.lt idx
  /\ (forall n a b, nth_error idx n = Some a -> nth_error idx (S n) = Some b -> b = a + 60)%Z
  /\ nth_error idx 0 = Some s
  /\ (forall t, In t idx <-> (s <= t <= e /\ (t - s) mod 60 = 0)%Z).
Proof.
  intros s e Hse idx. unfold idx, contiguous_index. replace (e <? s)%Z with false by (symmetry; apply Z.ltb_ge; lia).
  set (n := S (Z.to_nat ((e - s) / 60))).
  assert (Hn : forall k, k < n <-> (s + 60 * Z.of_nat k <= e)%Z).
  { intros k. unfold n. pose proof (Z.div_mod (e - s) 60 ltac:(lia)) as D.
    pose proof (Z.mod_pos_bound (e - s) 60 ltac:(lia)) as B.
    assert (0 <= (e - s) / 60)%Z by (apply Z.div_pos; lia). split; intros Hk; nia. }
  split; [|split; [|split]].
  - clear Hn. generalize 0 as st. induction n as [|m IH]; intros st; cbn [seq map]; constructor; [apply IH|].
    apply Forall_forall. intros y Hy. apply in_map_iff in Hy. destruct Hy as (k & Hk & Hin). subst y.
    apply in_seq in Hin. lia.
  - intros k a b Ha Hb. rewrite nth_error_map in Ha, Hb.
    destruct (nth_error (seq 0 n) k) as [x|] eqn:Ex; [|discriminate].
    destruct (nth_error (seq 0 n) (S k)) as [y|] eqn:Ey; [|discriminate].
    cbn [option_map] in Ha, Hb. apply Some_inj in Ha. apply Some_inj in Hb. subst a b.
    assert (Hk : k < n) by (rewrite <- (seq_length n 0); apply nth_error_Some; congruence).
    assert (Hk' : S k < n) by (rewrite <- (seq_length n 0); apply nth_error_Some; congruence).
    pose proof (@seq_nth n 0 k 0 Hk) as N1. pose proof (@seq_nth n 0 (S k) 0 Hk') as N2.
    apply nth_error_nth with (d := 0) in Ex. apply nth_error_nth with (d := 0) in Ey. lia.
  - unfold n. cbn [seq map nth_error]. f_equal. lia.
  - intros t. rewrite in_map_iff. split.
    + intros (k & Hk & Hin). subst t. apply in_seq in Hin. split.
      * assert (k < n) by lia. apply Hn in H. lia.
      * replace (s + 60 * Z.of_nat k - s)%Z with (Z.of_nat k * 60)%Z by lia. apply Z.mod_mul. lia.
    + intros ((H1 & H2) & H3). exists (Z.to_nat ((t - s) / 60)).
      pose proof (Z.div_mod (t - s) 60 ltac:(lia)) as D. rewrite H3 in D.
      assert (0 <= (t - s) / 60)%Z by (apply Z.div_pos; lia).
      split; [rewrite Z2Nat.id by lia; lia|]. apply in_seq. split; [lia|]. cbn [plus]. apply Hn.
      rewrite Z2Nat.id by lia. lia.
Qed.

(* ================================================================== HourlyModel._predict *)
Section HourlyPredict.
  Context {V : Type}.
  Variable mean2 : V -> V -> V.
  Variable feat : hour_stamp -> V.
  Variable regress : list (list V) -> list V.
  (* oracle contract of the regression (self._model.predict + inverse scaling + flatten): one value per slot *)
  Hypothesis regress_length : forall agg, length (regress agg) = 24 * length agg.

  Lemma lookup_nth : forall (idx : list Z) (y : list V), NoDup idx -> length y = length idx ->
    forall n t, nth_error idx n = Some t -> lookup (combine idx y) t = nth_error y n.
  Proof.
    induction idx as [|a idx IH]; intros y Hnd Hlen n t Hn; [destruct n; discriminate|].
    destruct y as [|b y]; [discriminate|]. inversion Hnd as [|? ? Ha Hnd']; subst.
    unfold lookup. cbn [combine find fst].
    destruct n as [|n]; cbn [nth_error] in *.
    - inversion Hn; subst. rewrite Z.eqb_refl. reflexivity.
    - assert (Hin : In t idx) by (eapply nth_error_In; exact Hn).
      replace (a =? t)%Z with false by (symmetry; apply Z.eqb_neq; intros E; subst; contradiction).
      apply (IH y Hnd' ltac:(cbn [length] in Hlen; lia) n t Hn).
  Qed.

  Lemma map_lookup : forall (idx : list Z) (y : list V) (rows : list (Z * V)), length y = length idx ->
    (forall n t, nth_error idx n = Some t -> lookup rows t = nth_error y n) ->
    map (fun t => (t, lookup rows t)) idx = combine idx (map Some y).
  Proof.
    induction idx as [|a idx IH]; intros [|b y] rows Hlen L; try discriminate; [reflexivity|].
    cbn [map combine]. f_equal.
    - f_equal. apply (L 0 a). reflexivity.
    - apply IH; [cbn [length] in Hlen; lia|]. intros n t Hn. apply (L (S n) t). exact Hn.
  Qed.

  Lemma reindex_same : forall (idx : list Z) (y : list V), StronglySorted Z.lt idx -> length y = length idx ->
    reindex (combine idx y) idx = Ok (combine idx (map Some y)).
  Proof.
    intros idx y Hs Hlen. unfold reindex.
    assert (Hfst : map fst (combine idx y) = idx).
    { clear Hs. revert y Hlen. induction idx as [|a idx IH]; intros [|b y] Hlen; try discriminate; [reflexivity|].
      cbn [combine map fst]. f_equal. apply IH. cbn [length] in Hlen. lia. }
    rewrite Hfst, (has_dup_sorted idx Hs). f_equal.
    apply map_lookup; [exact Hlen|]. apply lookup_nth; [apply NoDup_sorted; exact Hs | exact Hlen].
  Qed.

  Lemma rel3_length : forall (A B C : Type) (R : A -> B -> C -> Prop) la lb lc, rel3 R la lb lc ->
    length lb = length la /\ length lc = length la.
  Proof. intros A B C R la lb lc H. induction H; cbn [length]; [split; reflexivity | lia]. Qed.

  Lemma index_length : forall pol days pat, Forall2 (realises pol) days pat -> length (index_of days) = total_rows pat.
  Proof.
    intros pol days pat H. unfold index_of, rows_of, total_rows. rewrite map_length.
    induction H as [|d k days pat Hd _ IH]; [reflexivity|].
    cbn [map concat]. rewrite !app_length, IH. f_equal.
    destruct Hd as (Hh & _ & _). rewrite <- Hh. unfold hours. rewrite map_length. reflexivity.
  Qed.

  Lemma hourly_predict_valid : forall pol days pat, Forall2 (realises pol) days pat -> pattern_ok pat = true ->
    StronglySorted Z.lt (index_of days) ->
    exists agg y, hourly_predict mean2 feat regress pol days = Ok (combine (index_of days) (map Some y))
                  /\ length y = length (index_of days)
                  /\ rel3 day_fix pat (map (fun d => map feat (d_rows d)) days) agg
                  /\ by_day mean2 pat (regress agg) = Some y.
  Proof.
    intros pol days pat Hr Hok Hs.
    assert (Hk := pattern_ok_kind_ok _ Hok).
    assert (Hshape : Forall2 (fun k f => length f = rows_expected k) pat (map (fun d => map feat (d_rows d)) days)).
    { clear Hs Hok. induction Hr as [|d k days pat Hd _ IH]; [constructor|].
      cbn [forallb] in Hk. apply andb_true_iff in Hk. destruct Hk as [Hk1 Hk2].
      cbn [map]. constructor; [|apply IH; exact Hk2].
      rewrite map_length, <- (clock_hours_length k Hk1). destruct Hd as (Hh & _ & _). rewrite <- Hh.
      unfold hours. rewrite map_length. reflexivity. }
    destruct (correct_dst_24_l mean2 pat _ Hshape Hok) as (agg & Ef & H24 & R).
    destruct (rel3_length _ _ _ _ _ _ _ R) as [_ Hla].
    destruct (transform_dst_pattern mean2 pat (regress agg) Hok ltac:(rewrite regress_length, Hla; reflexivity))
      as (y & Et & Eb & _).
    assert (Hy : length y = length (index_of days)).
    { rewrite (index_length pol days pat Hr). apply (by_day_length mean2 pat (regress agg)); try assumption.
      rewrite regress_length, Hla. reflexivity. }
    exists agg, y. split; [|split; [exact Hy | split; assumption]].
    unfold hourly_predict. rewrite (get_dst_indices_valid_l pol days pat Hr Hk). cbn [bind].
    rewrite Ef. cbn [bind]. rewrite H24. cbn [negb]. rewrite Et. cbn [bind].
    rewrite Hy, Nat.eqb_refl. cbn [negb]. apply reindex_same; assumption.
  Qed.
End HourlyPredict.

(* ================================================================== DailyModel._predict / BillingModel.predict *)
Section SortFacts.
  Context {B : Type}.
  Variable key : B -> Z.

  Lemma insert_by_perm : forall x l, Permutation (insert_by key x l) (x :: l).
  Proof.
    intros x. induction l as [|y l IH]; cbn [insert_by]; [apply Permutation_refl|].
    destruct (key x <=? key y)%Z; [apply Permutation_refl|].
    eapply Permutation_trans; [apply perm_skip; exact IH | apply perm_swap].
  Qed.

  Lemma sort_by_perm : forall l, Permutation (sort_by key l) l.
  Proof.
    induction l as [|x l IH]; [apply Permutation_refl|].
    unfold sort_by. cbn [fold_right]. fold (sort_by key l).
    eapply Permutation_trans; [apply insert_by_perm | apply perm_skip; exact IH].
  Qed.

  Definition key_le (a b : B) : Prop := (key a <= key b)%Z.

  Lemma insert_by_sorted : forall x l, LocallySorted key_le l -> LocallySorted key_le (insert_by key x l).
  Proof.
    intros x l H. induction H as [|y|y z l H IH Hyz]; cbn [insert_by].
    - constructor.
    - destruct (key x <=? key y)%Z eqn:E.
      + constructor; [constructor | unfold key_le; lia].
      + constructor; [constructor | unfold key_le; lia].
    - destruct (key x <=? key y)%Z eqn:E.
      + constructor; [constructor; assumption | unfold key_le; lia].
      + cbn [insert_by] in IH. destruct (key x <=? key z)%Z eqn:E2.
        * constructor; [exact IH | unfold key_le; lia].
        * constructor; [exact IH | exact Hyz].
  Qed.

  Lemma sort_by_sorted : forall l, LocallySorted key_le (sort_by key l).
  Proof.
    induction l as [|x l IH]; [constructor|].
    unfold sort_by. cbn [fold_right]. fold (sort_by key l). apply insert_by_sorted. exact IH.
  Qed.
End SortFacts.

Lemma filter_split_perm : forall (B : Type) (p : B -> bool) l,
  Permutation (filter p l ++ filter (fun x => negb (p x)) l) l.
Proof.
  intros B p. induction l as [|x l IH]; cbn [filter]; [apply Permutation_refl|].
  destruct (p x); cbn [negb app].
  - apply perm_skip. exact IH.
  - eapply Permutation_trans; [apply Permutation_sym; apply Permutation_middle|]. apply perm_skip. exact IH.
Qed.

Lemma filter_map_comm : forall (A B : Type) (g : A -> B) (p : B -> bool) l,
  filter p (map g l) = map g (filter (fun x => p (g x)) l).
Proof.
  intros A B g p. induction l as [|x l IH]; [reflexivity|]. cbn [map filter].
  destruct (p (g x)); cbn [map]; rewrite IH; reflexivity.
Qed.

Lemma filter_flat_map : forall (A B : Type) (f : A -> list B) (p : B -> bool) l,
  filter p (flat_map f l) = flat_map (fun x => filter p (f x)) l.
Proof.
  intros A B f p. induction l as [|x l IH]; [reflexivity|]. cbn [flat_map]. rewrite filter_app, IH. reflexivity.
Qed.

Lemma flat_map_single : forall (A B : Type) (f : A -> list B) (g : A -> B) l,
  (forall x, In x l -> f x = [g x]) -> flat_map f l = map g l.
Proof.
  intros A B f g. induction l as [|x l IH]; intros H; [reflexivity|]. cbn [flat_map map].
  rewrite (H x (or_introl eq_refl)), IH; [reflexivity|]. intros y Hy. apply H. right. exact Hy.
Qed.

Lemma filter_comm : forall (A : Type) (p q : A -> bool) l, filter p (filter q l) = filter q (filter p l).
Proof.
  intros A p q. induction l as [|x l IH]; [reflexivity|]. cbn [filter].
  destruct (q x) eqn:Eq, (p x) eqn:Ep; cbn [filter]; rewrite ?Eq, ?Ep, IH; reflexivity.
Qed.

Lemma NoDup_map_filter : forall (A : Type) (f : A -> Z) (p : A -> bool) l,
  NoDup (map f l) -> NoDup (map f (filter p l)).
Proof.
  intros A f p. induction l as [|x l IH]; intros H; [constructor|]. cbn [map] in H. inversion H as [|? ? Hx Hl]; subst.
  cbn [filter]. destruct (p x); [|apply IH; exact Hl]. cbn [map]. constructor; [|apply IH; exact Hl].
  intros Hin. apply Hx. apply in_map_iff in Hin. destruct Hin as (y & Hy & Hyin). apply filter_In in Hyin.
  apply in_map_iff. exists y. tauto.
Qed.

Lemma NoDup_map_inj : forall (A : Type) (f : A -> Z) l a b,
  NoDup (map f l) -> In a l -> In b l -> f a = f b -> a = b.
Proof.
  intros A f. induction l as [|x l IH]; intros a b H Ha Hb E; [destruct Ha|].
  cbn [map] in H. inversion H as [|? ? Hx Hl]; subst.
  destruct Ha as [Ha|Ha], Hb as [Hb|Hb]; subst.
  - reflexivity.
  - exfalso. apply Hx. rewrite E. apply in_map. exact Hb.
  - exfalso. apply Hx. rewrite <- E. apply in_map. exact Ha.
  - apply IH; assumption.
Qed.

Lemma filter_label_unique : forall (A : Type) (f : A -> Z) l r, NoDup (map f l) -> In r l ->
  filter (fun x => Z.eqb (f x) (f r)) l = [r].
Proof.
  intros A f. induction l as [|x l IH]; intros r H Hr; [destruct Hr|].
  cbn [map] in H. inversion H as [|? ? Hx Hl]; subst. cbn [filter]. destruct Hr as [Hr|Hr].
  - subst x. rewrite Z.eqb_refl. f_equal.
    assert (E : forall y, In y l -> Z.eqb (f y) (f r) = false).
    { intros y Hy. apply Z.eqb_neq. intros E. apply Hx. rewrite <- E. apply in_map. exact Hy. }
    clear - E. induction l as [|y l IHl]; [reflexivity|]. cbn [filter]. rewrite (E y (or_introl eq_refl)).
    apply IHl. intros z Hz. apply E. right. exact Hz.
  - replace (Z.eqb (f x) (f r)) with false; [apply IH; assumption|].
    symmetry. apply Z.eqb_neq. intros E. apply Hx. rewrite E. apply in_map. exact Hr.
Qed.

Section DailyPredict.
  Context {V K : Type}.
  Variable finite : V -> bool.
  Variable predict_sub : K -> V -> option V.
  Variable member : K -> @drow V -> bool.
  Variable keys : list K.

  Notation keepb := (keep finite).
  Notation okb := (cell_ok finite).

  Definition val (k : K) (r : @drow V) : option V :=
    match d_temp r with Some t => predict_sub k t | None => None end.
  (* the prediction of the one sub-model that selects the row *)
  Definition pred_of (r : @drow V) : option V :=
    match filter (fun k => member k r) keys with k :: _ => val k r | [] => None end.

  Lemma matches_of_row : forall kept r, NoDup (map d_ts kept) -> In r kept ->
    filter (fun p => Z.eqb (fst p) (d_ts r)) (segment_predictions predict_sub member keys kept)
    = map (fun k => (d_ts r, val k r)) (filter (fun k => member k r) keys).
  Proof.
    intros kept r Hnd Hr. unfold segment_predictions. rewrite filter_flat_map.
    induction keys as [|k ks IH]; [reflexivity|]. cbn [flat_map filter].
    rewrite IH. rewrite filter_map_comm. cbn [fst].
    rewrite filter_comm. rewrite (filter_label_unique _ d_ts kept r Hnd Hr). cbn [filter].
    destruct (member k r); cbn [map app]; reflexivity.
  Qed.

  Lemma join_left_exact : forall kept, NoDup (map d_ts kept) ->
    (forall r, In r kept -> length (filter (fun k => member k r) keys) = 1) ->
    join_left kept (segment_predictions predict_sub member keys kept) = map (fun r => (r, pred_of r)) kept.
  Proof.
    intros kept Hnd Hcov. unfold join_left. apply flat_map_single. intros r Hr.
    rewrite (matches_of_row kept r Hnd Hr). specialize (Hcov r Hr). unfold pred_of.
    destruct (filter (fun k => member k r) keys) as [|k [|k' t]]; try discriminate. reflexivity.
  Qed.

  Lemma dropped_are_not_kept : forall s obs, NoDup (map d_ts s) ->
    filter (fun r => negb (existsb (Z.eqb (d_ts r)) (map d_ts (filter (keepb obs) s)))) s
    = filter (fun r => negb (keepb obs r)) s.
  Proof.
    intros s obs Hnd. apply filter_ext_in. intros r Hr. f_equal.
    destruct (keepb obs r) eqn:E.
    - apply existsb_exists. exists (d_ts r). split; [|apply Z.eqb_refl].
      apply in_map. apply filter_In. split; assumption.
    - apply not_true_is_false. intros H. apply existsb_exists in H. destruct H as (t & Ht & Et).
      apply Z.eqb_eq in Et. subst t. apply in_map_iff in Ht. destruct Ht as (r' & Hl & Hr').
      apply filter_In in Hr'. destruct Hr' as [Hr' Hk].
      assert (r' = r) by (apply (NoDup_map_inj _ d_ts s); assumption). subst r'. congruence.
  Qed.

  (* what daily_predict computes when labels are unique and every kept row is selected by exactly one sub-model *)
  Lemma daily_predict_shape : forall obs rows, NoDup (map d_ts rows) ->
    exact_cover finite member keys obs rows ->
    let s := sort_by d_ts rows in
    daily_predict finite predict_sub member keys obs rows
    = sort_by (fun rp => d_ts (fst rp))
        (map (fun r => (r, pred_of r)) (filter (keepb obs) s)
         ++ map (fun r => (r, None)) (filter (fun r => negb (keepb obs r)) s)).
  Proof.
    intros obs rows Hnd Hcov s. unfold daily_predict, initialize_data. fold s.
    assert (Hs : NoDup (map d_ts s)).
    { eapply Permutation_NoDup; [apply Permutation_map; apply Permutation_sym; apply sort_by_perm | exact Hnd]. }
    rewrite (dropped_are_not_kept s obs Hs).
    rewrite join_left_exact; [reflexivity | apply NoDup_map_filter; exact Hs |].
    intros r Hr. apply filter_In in Hr. destruct Hr as [Hr Hk]. apply Hcov; [|exact Hk].
    eapply Permutation_in; [apply sort_by_perm | exact Hr].
  Qed.

  Lemma daily_predict_perm_l : forall obs rows, NoDup (map d_ts rows) ->
    exact_cover finite member keys obs rows ->
    let out := daily_predict finite predict_sub member keys obs rows in
    Permutation (map fst out) rows /\ LocallySorted Z.le (map (fun rp => d_ts (fst rp)) out).
  Proof.
    intros obs rows Hnd Hcov out. unfold out. rewrite (daily_predict_shape obs rows Hnd Hcov). split.
    - eapply Permutation_trans; [apply Permutation_map; apply sort_by_perm|].
      rewrite map_app, !map_map. cbn [fst]. rewrite !map_id.
      eapply Permutation_trans; [apply filter_split_perm | apply sort_by_perm].
    - match goal with |- context [sort_by ?k ?l] => pose proof (sort_by_sorted k l) as S; revert S; generalize (sort_by k l) end.
      intros l S. induction S as [|a|a b l S IH Hab]; cbn [map]; constructor; [exact IH | exact Hab].
  Qed.

  (* oracle contract of the sub-model curve: finite for a finite temperature *)
  Hypothesis predict_sub_finite : forall k t, finite t = true -> exists v, predict_sub k t = Some v /\ finite v = true.

  Lemma daily_finite_iff_l : forall obs rows, NoDup (map d_ts rows) ->
    exact_cover finite member keys obs rows ->
    forall rp, In rp (daily_predict finite predict_sub member keys obs rows) -> okb (snd rp) = keepb obs (fst rp).
  Proof.
    intros obs rows Hnd Hcov rp Hin. rewrite (daily_predict_shape obs rows Hnd Hcov) in Hin.
    eapply Permutation_in in Hin; [|apply sort_by_perm]. apply in_app_or in Hin. destruct Hin as [Hin|Hin].
    - apply in_map_iff in Hin. destruct Hin as (r & E & Hr). subst rp. cbn [fst snd].
      apply filter_In in Hr. destruct Hr as [Hr Hk]. rewrite Hk.
      assert (Hc : length (filter (fun k => member k r) keys) = 1).
      { apply Hcov; [|exact Hk]. eapply Permutation_in; [apply sort_by_perm | exact Hr]. }
      unfold pred_of. destruct (filter (fun k => member k r) keys) as [|k t]; [discriminate|].
      unfold keep in Hk. apply andb_true_iff in Hk. destruct Hk as [Ht _].
      unfold val. unfold cell_ok in Ht. destruct (d_temp r) as [t0|]; [|discriminate].
      destruct (predict_sub_finite k t0 Ht) as (v & Ev & Fv). rewrite Ev. cbn [cell_ok]. exact Fv.
    - apply in_map_iff in Hin. destruct Hin as (r & E & Hr). subst rp. cbn [fst snd cell_ok].
      apply filter_In in Hr. destruct Hr as [_ Hk]. apply negb_true_iff in Hk. rewrite Hk. reflexivity.
  Qed.
End DailyPredict.

(* ================================================================== derived forms used by Properties/C06.v *)
Section Derived.
  Context {V : Type}.
  Variable mean2 : V -> V -> V.

  Lemma transform_dst_pointwise_l : forall pat pred out, pattern_ok pat = true -> length pred = 24 * length pat ->
    transform_dst mean2 pred (indices_of pat) = Ok out -> by_day mean2 pat pred = Some out.
  Proof.
    intros pat pred out Hok Hlen E. destruct (transform_dst_pattern mean2 pat pred Hok Hlen) as (o & E1 & E2 & _).
    rewrite E in E1. inversion E1; subst. exact E2.
  Qed.

  Lemma transform_dst_total_l : forall pat pred, pattern_ok pat = true -> length pred = 24 * length pat ->
    exists out, transform_dst mean2 pred (indices_of pat) = Ok out.
  Proof.
    intros pat pred Hok Hlen. destruct (transform_dst_pattern mean2 pat pred Hok Hlen) as (o & E1 & _). eauto.
  Qed.

  Lemma transform_dst_eq_spec_l : forall pat pred out, pattern_ok pat = true -> length pred = 24 * length pat ->
    (transform_dst mean2 pred (indices_of pat) = Ok out <-> transform_spec mean2 pred (indices_of pat) = Some out).
  Proof.
    intros pat pred out Hok Hlen. destruct (transform_dst_pattern mean2 pat pred Hok Hlen) as (o & E1 & _ & E3).
    rewrite E1, E3. split; intros H; inversion H; reflexivity.
  Qed.

  Lemma transform_dst_length_l : forall pat pred out, pattern_ok pat = true -> length pred = 24 * length pat ->
    transform_dst mean2 pred (indices_of pat) = Ok out -> length out = total_rows pat.
  Proof.
    intros pat pred out Hok Hlen E. apply (by_day_length mean2 pat pred); [apply pattern_ok_kind_ok; exact Hok | exact Hlen|].
    apply transform_dst_pointwise_l; assumption.
  Qed.

  (* the source comment "the block above is equivalent to" for any well-formed operation list, not only those of a
     clock pattern *)
  Lemma loop_equals_slicing_l : forall pred ops vals, wfv mean2 pred 0 ops vals ->
    loop_spec mean2 pred 0%Z ops = Some (slices pred None ops vals).
  Proof.
    intros pred ops vals H. pose proof (loop_slices mean2 pred ops [] 0 vals ltac:(lia) H) as L.
    cbn [app length skipn] in L. change (Z.of_nat 0 - Z.of_nat 0)%Z with 0%Z in L.
    rewrite L, slices_slices2. reflexivity.
  Qed.
End Derived.

(* ================================================================== after the repairs of D11 and D18 *)
Definition clock_only (d : day) (k : daykind) : Prop := hours d = clock_hours k.

Lemma clock_only_realises_repaired : forall days pat, Forall2 clock_only days pat -> Forall2 (realises repaired) days pat.
Proof.
  intros days pat H. induction H as [|d k days pat Hd _ IH]; constructor; [|exact IH].
  split; [exact Hd|]. split; intros E; discriminate E.
Qed.

Section HourlyRepaired.
  Context {V : Type}.
  Variable mean2 : V -> V -> V.
  Variable feat : hour_stamp -> V.
  Variable regress : list (list V) -> list V.
  Hypothesis regress_length : forall agg, length (regress agg) = 24 * length agg.

  Lemma hourly_predict_repaired : forall days pat, Forall2 clock_only days pat -> pattern_ok pat = true ->
    StronglySorted Z.lt (index_of days) ->
    exists agg y, hourly_predict mean2 feat regress repaired days = Ok (combine (index_of days) (map Some y))
                  /\ length y = length (index_of days)
                  /\ rel3 day_fix pat (map (fun d => map feat (d_rows d)) days) agg
                  /\ by_day mean2 pat (regress agg) = Some y.
  Proof.
    intros days pat H. apply (hourly_predict_valid mean2 feat regress regress_length repaired).
    apply clock_only_realises_repaired. exact H.
  Qed.
End HourlyRepaired.

(* ================================================================== the guards are necessary, in general *)
Definition is_change (k : daykind) : bool := match k with Reg => false | _ => true end.
Definition observed_clock (d : day) (k : daykind) : Prop := hours d = clock_hours k /\ forallb hs_obs (d_rows d) = true.
Definition unobserved_clock (d : day) (k : daykind) : Prop :=
  hours d = clock_hours k /\ forallb (fun r => negb (hs_obs r)) (d_rows d) = true.

Lemma filter_none : forall (A : Type) (p : A -> bool) l, forallb (fun x => negb (p x)) l = true -> filter p l = [].
Proof.
  intros A p. induction l as [|x l IH]; cbn [forallb filter]; intros H; [reflexivity|].
  apply andb_true_iff in H. destruct H as [Hx Hl]. apply negb_true_iff in Hx. rewrite Hx. apply IH. exact Hl.
Qed.

Lemma loops_unobserved : forall days pat, Forall2 unobserved_clock days pat ->
  forall i last, interp_loop as_coded i days last = Ok ([], last) /\ mean_loop as_coded i days last = Ok [].
Proof.
  intros days pat H. induction H as [|d k days pat (Hh & Ho) _ IH]; intros i last; [split; reflexivity|].
  cbn [interp_loop mean_loop]. unfold day_count. cbn [count_rows as_coded]. unfold count_obs.
  rewrite (filter_none _ _ _ Ho). cbn [length Nat.eqb]. apply IH.
Qed.

Section Necessity.
  Context {V : Type}.
  Variable mean2 : V -> V -> V.
  Variable feat : hour_stamp -> V.
  Variable regress : list (list V) -> list V.

  (* D11, in general: without usage values EVERY frame that contains a short or a long day makes predict fail *)
  Lemma hourly_predict_unobserved_fails : forall days pat, Forall2 unobserved_clock days pat ->
    forallb kind_ok pat = true -> existsb is_change pat = true ->
    exists e, hourly_predict mean2 feat regress as_coded days = Err e.
  Proof.
    intros days pat H Hk Hc. unfold hourly_predict, get_dst_indices.
    destruct (loops_unobserved days pat H 0 None) as [E1 _]. rewrite E1. cbn [bind].
    destruct (loops_unobserved days pat H 0 None) as [_ E2]. rewrite E2. cbn [bind].
    unfold feature_matrix, correct_dst. cbn [fst snd fold_days bind].
    set (agg := map (fun d => map feat (d_rows d)) days).
    destruct (uniform agg); [|cbn [bind]; eexists; reflexivity].
    assert (H24 : all24 agg = false).
    { unfold agg. clear E1 E2. induction H as [|d k days pat (Hh & _) _ IH]; [discriminate|].
      cbn [forallb existsb] in *. apply andb_true_iff in Hk. destruct Hk as [Hk1 Hk2].
      cbn [map all24 forallb]. fold (all24 (map (fun d => map feat (d_rows d)) days)).
      assert (L : length (map feat (d_rows d)) = rows_expected k).
      { rewrite map_length, <- (clock_hours_length k Hk1), <- Hh. unfold hours. rewrite map_length. reflexivity. }
      rewrite L. destruct k as [|h|h]; cbn [rows_expected is_change orb] in *; try reflexivity.
      rewrite (IH Hk2 Hc). reflexivity. }
    cbn [bind]. rewrite H24. cbn [negb]. eexists. reflexivity.
  Qed.
End Necessity.

(* D18, in general: a short or long day whose date label cannot be resolved makes _get_dst_indices fail *)
(* the clock pattern, with usage on every row when non-null usage is what is counted *)
Definition counted_clock (pol : policy) (d : day) (k : daykind) : Prop :=
  hours d = clock_hours k /\ (count_rows pol = false -> forallb hs_obs (d_rows d) = true).

Lemma day_count_counted : forall pol d k, counted_clock pol d k -> kind_ok k = true -> day_count pol d = rows_expected k.
Proof.
  intros pol d k (Hh & Ho) Hk. unfold day_count, count_obs.
  assert (E : length (d_rows d) = rows_expected k).
  { rewrite <- (clock_hours_length k Hk), <- Hh. unfold hours. rewrite map_length. reflexivity. }
  destruct (count_rows pol); [exact E|]. rewrite (filter_all _ _ _ (Ho eq_refl)). exact E.
Qed.

Definition bad_label (want : daykind -> bool) (dk : day * daykind) : Prop := want (snd dk) = true /\ d_loc (fst dk) <> None.
Definition is_short (k : daykind) : bool := match k with Short _ => true | _ => false end.
Definition is_long (k : daykind) : bool := match k with Long _ => true | _ => false end.

Lemma interp_loop_bad_label : forall pol, loc_by_mask pol = false ->
  forall days pat, Forall2 (counted_clock pol) days pat -> forallb kind_ok pat = true ->
  Exists (bad_label is_short) (combine days pat) ->
  forall i last, exists e, interp_loop pol i days last = Err e.
Proof.
  intros pol Hpol days pat H. induction H as [|d k days pat Hd Hr IH]; intros Hk Hex i last; [inversion Hex|].
  cbn [forallb] in Hk. apply andb_true_iff in Hk. destruct Hk as [Hk1 Hk2].
  cbn [interp_loop]. rewrite (day_count_counted pol d k Hd Hk1). cbn [combine] in Hex.
  destruct k as [|h|h]; cbn [rows_expected].
  - change (24 =? 23) with false. cbv iota. apply IH; [exact Hk2|].
    inversion Hex as [? ? [Hb _]|]; subst; [discriminate Hb | assumption].
  - change (23 =? 23) with true. cbv iota. unfold day_loc. rewrite Hpol.
    destruct (d_loc d) as [e|] eqn:El; [eexists; reflexivity|].
    destruct Hd as (Hh & _). unfold missing_hours. rewrite Hh. cbn [kind_ok] in Hk1. apply Nat.ltb_lt in Hk1.
    rewrite (missing_short h Hk1).
    assert (Hex' : Exists (bad_label is_short) (combine days pat)).
    { inversion Hex as [? ? [_ Hb]|]; subst; [cbn [fst] in Hb; congruence | assumption]. }
    destruct (IH Hk2 Hex' (S i) (Some h)) as [e E]. rewrite E. exists e. reflexivity.
  - change (25 =? 23) with false. cbv iota. apply IH; [exact Hk2|].
    inversion Hex as [? ? [Hb _]|]; subst; [discriminate Hb | assumption].
Qed.

Lemma mean_loop_bad_label : forall pol, loc_by_mask pol = false ->
  forall days pat, Forall2 (counted_clock pol) days pat -> forallb kind_ok pat = true ->
  Exists (bad_label is_long) (combine days pat) ->
  forall i last, exists e, mean_loop pol i days last = Err e.
Proof.
  intros pol Hpol days pat H. induction H as [|d k days pat Hd Hr IH]; intros Hk Hex i last; [inversion Hex|].
  cbn [forallb] in Hk. apply andb_true_iff in Hk. destruct Hk as [Hk1 Hk2].
  cbn [mean_loop]. rewrite (day_count_counted pol d k Hd Hk1). cbn [combine] in Hex.
  destruct k as [|h|h]; cbn [rows_expected].
  - change (24 =? 25) with false. cbv iota. apply IH; [exact Hk2|].
    inversion Hex as [? ? [Hb _]|]; subst; [discriminate Hb | assumption].
  - change (23 =? 25) with false. cbv iota. apply IH; [exact Hk2|].
    inversion Hex as [? ? [Hb _]|]; subst; [discriminate Hb | assumption].
  - change (25 =? 25) with true. cbv iota. unfold day_loc. rewrite Hpol.
    destruct (d_loc d) as [e|] eqn:El; [eexists; reflexivity|].
    destruct Hd as (Hh & _). rewrite Hh. cbn [kind_ok] in Hk1. apply Nat.ltb_lt in Hk1.
    rewrite (first_repeat_long h Hk1).
    assert (Hex' : Exists (bad_label is_long) (combine days pat)).
    { inversion Hex as [? ? [_ Hb]|]; subst; [cbn [fst] in Hb; congruence | assumption]. }
    destruct (IH Hk2 Hex' (S i) (Some h)) as [e E]. rewrite E. exists e. reflexivity.
Qed.

Lemma get_dst_indices_bad_label : forall pol, loc_by_mask pol = false ->
  forall days pat, Forall2 (counted_clock pol) days pat -> forallb kind_ok pat = true ->
  Exists (bad_label is_change) (combine days pat) ->
  exists e, get_dst_indices pol days = Err e.
Proof.
  intros pol Hpol days pat H Hk Hex. unfold get_dst_indices.
  assert (Hsplit : Exists (bad_label is_short) (combine days pat) \/ Exists (bad_label is_long) (combine days pat)).
  { clear H Hk. induction Hex as [[d k] l [Hc Hb]|x l _ IH].
    - destruct k as [|h|h]; [discriminate Hc | left | right]; constructor; split; try reflexivity; exact Hb.
    - destruct IH as [IH|IH]; [left | right]; apply Exists_cons_tl; exact IH. }
  destruct (interp_loop pol 0 days None) as [[interp last]|e] eqn:E1; [|eexists; reflexivity].
  cbn [bind]. destruct Hsplit as [Hs|Hl].
  - destruct (interp_loop_bad_label pol Hpol days pat H Hk Hs 0 None) as [e E]. congruence.
  - destruct (mean_loop_bad_label pol Hpol days pat H Hk Hl 0 last) as [e E]. rewrite E. eexists. reflexivity.
Qed.

(* ================================================================== rows that get no prediction are kept, not lost *)
Section DailyDropped.
  Context {V K : Type}.
  Variable finite : V -> bool.
  Variable predict_sub : K -> V -> option V.
  Variable member : K -> @drow V -> bool.
  Variable keys : list K.

  (* a row whose temperature (or supplied usage) is NaN (None) OR non-finite (Some v with finite v = false: +-inf)
     comes back with prediction NaN *)
  Lemma daily_dropped_rows_kept_l : forall obs rows, NoDup (map d_ts rows) ->
    exact_cover finite member keys obs rows ->
    forall r, In r rows -> keep finite obs r = false ->
    In (r, None) (daily_predict finite predict_sub member keys obs rows).
  Proof.
    intros obs rows Hnd Hcov r Hr Hk. rewrite (daily_predict_shape finite predict_sub member keys obs rows Hnd Hcov).
    eapply Permutation_in; [apply Permutation_sym; apply sort_by_perm|]. apply in_or_app. right.
    apply in_map_iff. exists r. split; [reflexivity|]. apply filter_In. split.
    - eapply Permutation_in; [apply Permutation_sym; apply sort_by_perm | exact Hr].
    - rewrite Hk. reflexivity.
  Qed.
End DailyDropped.

(* ================================================================== the DST indices are a function of the LOCAL clock *)
(* what _get_dst_indices reads of a frame: per local date the clock hour and the null-flag of every row and whether the
   date label resolves — the instants (hs_utc) do not enter.  So the indices of one frame must not be reused for a
   frame of the same instants in another zone (C06_dst_indices_depend_on_the_zone gives two such frames). *)
Definition local_view (d : day) : list (nat * bool) * option err :=
  (map (fun r => (hs_hour r, hs_obs r)) (d_rows d), d_loc d).

Lemma local_view_fields : forall d1 d2, local_view d1 = local_view d2 ->
  hours d1 = hours d2 /\ (forall pol, day_count pol d1 = day_count pol d2) /\ (forall pol, day_loc pol d1 = day_loc pol d2).
Proof.
  intros d1 d2 E. unfold local_view in E. injection E as E1 E2.
  assert (Hh : hours d1 = hours d2).
  { unfold hours.
    assert (F : forall l, map hs_hour l = map fst (map (fun r => (hs_hour r, hs_obs r)) l)).
    { intros l. rewrite map_map. reflexivity. }
    rewrite !F, E1. reflexivity. }
  split; [exact Hh|]. split.
  - intros pol. unfold day_count, count_obs. destruct (count_rows pol).
    + rewrite <- (map_length (fun r => (hs_hour r, hs_obs r)) (d_rows d1)), E1, map_length. reflexivity.
    + assert (F : forall l, length (filter hs_obs l) = length (filter snd (map (fun r => (hs_hour r, hs_obs r)) l))).
      { intros l. rewrite filter_map_comm, map_length. reflexivity. }
      rewrite !F, E1. reflexivity.
  - intros pol. unfold day_loc. rewrite E2. reflexivity.
Qed.

Lemma interp_loop_local : forall pol days1 days2, map local_view days1 = map local_view days2 ->
  forall i last, interp_loop pol i days1 last = interp_loop pol i days2 last.
Proof.
  intros pol. induction days1 as [|d1 t1 IH]; intros [|d2 t2] E i last; try discriminate; [reflexivity|].
  cbn [map] in E. pose proof (f_equal (hd (local_view d1)) E) as Ed. pose proof (f_equal (@tl _) E) as Et.
  cbn [hd tl] in Ed, Et. destruct (local_view_fields d1 d2 Ed) as (Hh & Hc & Hl).
  cbn [interp_loop]. unfold missing_hours. rewrite (Hc pol), (Hl pol), Hh.
  destruct (day_count pol d2 =? 23); [|apply IH; exact Et].
  destruct (day_loc pol d2); [reflexivity|]. destruct (missing_of (hours d2)) as [|h [|h' t]]; try reflexivity.
  rewrite (IH t2 Et). reflexivity.
Qed.

Lemma mean_loop_local : forall pol days1 days2, map local_view days1 = map local_view days2 ->
  forall i last, mean_loop pol i days1 last = mean_loop pol i days2 last.
Proof.
  intros pol. induction days1 as [|d1 t1 IH]; intros [|d2 t2] E i last; try discriminate; [reflexivity|].
  cbn [map] in E. pose proof (f_equal (hd (local_view d1)) E) as Ed. pose proof (f_equal (@tl _) E) as Et.
  cbn [hd tl] in Ed, Et. destruct (local_view_fields d1 d2 Ed) as (Hh & Hc & Hl).
  cbn [mean_loop]. rewrite (Hc pol), (Hl pol), Hh.
  destruct (day_count pol d2 =? 25); [|apply IH; exact Et].
  destruct (day_loc pol d2); [reflexivity|].
  destruct (match first_repeat [] (hours d2) with Some h => Some h | None => last end); [|reflexivity].
  rewrite (IH t2 Et). reflexivity.
Qed.

Lemma get_dst_indices_local_l : forall pol days1 days2, map local_view days1 = map local_view days2 ->
  get_dst_indices pol days1 = get_dst_indices pol days2.
Proof.
  intros pol days1 days2 E. unfold get_dst_indices. rewrite (interp_loop_local pol days1 days2 E).
  destruct (interp_loop pol 0 days2 None) as [[interp last]|e]; cbn [bind]; [|reflexivity].
  rewrite (mean_loop_local pol days1 days2 E). reflexivity.
Qed.

(* ================================================================== the guard of the hourly theorem is exact *)
(* pattern_ok, spelled out: no day skips hour 23, the frame does not end on a day repeating hour 23, and no day
   repeating hour 23 is directly followed by a day skipping hour 0 *)
Definition is_short23 (k : daykind) : bool := match k with Short h => h =? 23 | _ => false end.
Definition has_short23 (pat : list daykind) : bool := existsb is_short23 pat.
Definition ends_long23 (pat : list daykind) : bool := match last pat Reg with Long h => h =? 23 | _ => false end.
Fixpoint no_clash (pat : list daykind) : bool :=
  match pat with
  | [] => true
  | k :: p => (match k, p with Long h, Short h' :: _ => negb ((h =? 23) && (h' =? 0)) | _, _ => true end) && no_clash p
  end.

Lemma ltb23_eqb : forall h, h < 24 -> (h <? 23) = negb (h =? 23).
Proof.
  intros h H. destruct (h =? 23) eqn:E.
  - apply Nat.eqb_eq in E. subst. reflexivity.
  - apply Nat.eqb_neq in E. apply Nat.ltb_lt. lia.
Qed.

Lemma pattern_ok_char : forall pat, forallb kind_ok pat = true -> no_clash pat = true ->
  pattern_ok pat = negb (has_short23 pat) && negb (ends_long23 pat).
Proof.
  unfold has_short23, ends_long23. induction pat as [|k p IH]; intros Hk Hn; [reflexivity|].
  cbn [forallb] in Hk. apply andb_true_iff in Hk. destruct Hk as [Hk1 Hk2].
  cbn [no_clash] in Hn. apply andb_true_iff in Hn. destruct Hn as [Hn1 Hn2].
  specialize (IH Hk2 Hn2).
  destruct p as [|k' p'].
  - destruct k as [|h|h]; cbn [kind_ok] in Hk1; cbn [pattern_ok existsb is_short23 last orb andb negb].
    + reflexivity.
    + apply Nat.ltb_lt in Hk1. rewrite (ltb23_eqb h Hk1). rewrite orb_false_r, !andb_true_r. reflexivity.
    + rewrite Hk1. cbn [andb]. destruct (h =? 23); reflexivity.
  - change (last (k :: k' :: p') Reg) with (last (k' :: p') Reg).
    change (existsb is_short23 (k :: k' :: p')) with (is_short23 k || existsb is_short23 (k' :: p')).
    destruct k as [|h|h]; cbn [kind_ok] in Hk1.
    + cbn [pattern_ok is_short23 orb]. cbn [pattern_ok] in IH. exact IH.
    + apply Nat.ltb_lt in Hk1.
      change (pattern_ok (Short h :: k' :: p')) with ((h <? 23) && pattern_ok (k' :: p')).
      rewrite IH, (ltb23_eqb h Hk1). cbn [is_short23]. rewrite negb_orb, andb_assoc. reflexivity.
    + change (pattern_ok (Long h :: k' :: p')) with
        ((h <? 24) && pattern_ok (k' :: p') &&
         (if h =? 23 then match k' :: p' with [] => false | Short 0 :: _ => false | _ => true end else true)).
      rewrite Hk1, IH. cbn [is_short23 orb andb].
      destruct (h =? 23) eqn:E; [|apply andb_true_r].
      destruct k' as [|h'|h']; try apply andb_true_r.
      cbn [andb negb] in Hn1. destruct h' as [|h']; [discriminate Hn1 | apply andb_true_r].
Qed.

Section HourlyExact.
  Context {V : Type}.
  Variable mean2 : V -> V -> V.
  Variable feat : hour_stamp -> V.
  Variable regress : list (list V) -> list V.
  Hypothesis regress_length : forall agg, length (regress agg) = 24 * length agg.

  Lemma replace_day_length : forall n (f : list V) agg, length (replace_day n f agg) = length agg.
  Proof.
    intros n f agg. revert n. induction agg as [|x t IH]; intros n; [destruct n; reflexivity|].
    destruct n as [|n]; cbn [replace_day length]; [reflexivity | rewrite IH; reflexivity].
  Qed.

  Lemma interp_day_length : forall agg d h agg', interp_day mean2 agg d h = Ok agg' -> length agg' = length agg.
  Proof.
    intros agg d h agg' E. unfold interp_day in E. destruct (nth_error agg d) as [f|]; [|discriminate].
    match type of E with bind ?x _ = _ => destruct x as [a|e] end; cbn [bind] in E; [|discriminate].
    destruct (nth_res f h) as [b|e]; cbn [bind] in E; [|discriminate].
    apply (f_equal (fun r => match r with Ok x => length x | Err _ => 0 end)) in E. cbn beta iota in E.
    rewrite replace_day_length in E. symmetry. exact E.
  Qed.

  Lemma mean_day_length : forall agg d h agg', mean_day mean2 agg d h = Ok agg' -> length agg' = length agg.
  Proof.
    intros agg d h agg' E. unfold mean_day in E. destruct (nth_error agg d) as [f|]; [|discriminate].
    destruct (nth_res f (h + 1)) as [a|e]; cbn [bind] in E; [|discriminate].
    destruct (nth_res f h) as [b|e]; cbn [bind] in E; [|discriminate].
    destruct (h <? length (delete_at h f)); [|discriminate].
    apply (f_equal (fun r => match r with Ok x => length x | Err _ => 0 end)) in E. cbn beta iota in E.
    rewrite replace_day_length in E. symmetry. exact E.
  Qed.

  Lemma fold_days_length : forall step, (forall agg d h agg', step agg d h = Ok agg' -> length agg' = length agg) ->
    forall l (agg agg' : list (list V)), fold_days step l agg = Ok agg' -> length agg' = length agg.
  Proof.
    intros step Hs. induction l as [|[d h] t IH]; intros agg agg' E; cbn [fold_days] in E.
    - inversion E. reflexivity.
    - destruct (step agg d h) as [a1|e] eqn:E1; cbn [bind] in E; [|discriminate].
      rewrite (IH a1 agg' E). apply (Hs agg d h a1 E1).
  Qed.

  Lemma feature_matrix_length : forall agg idx agg', feature_matrix mean2 agg idx = Ok agg' -> length agg' = length agg.
  Proof.
    intros agg idx agg' E. unfold feature_matrix, correct_dst in E.
    destruct (fold_days (interp_day mean2) (fst idx) agg) as [a1|e] eqn:E1; cbn [bind] in E; [|discriminate].
    destruct (fold_days (mean_day mean2) (snd idx) a1) as [a2|e] eqn:E2; cbn [bind] in E; [|discriminate].
    destruct (uniform a2); [|discriminate]. inversion E; subst.
    rewrite (fold_days_length _ (mean_day_length) _ _ _ E2). apply (fold_days_length _ (interp_day_length) _ _ _ E1).
  Qed.

  (* a day that skips hour 23: correct_dst fails whatever happens before it *)
  Lemma fold_interp_short23 : forall pat suf, Forall2 (fun k f => length f = rows_expected k) pat suf ->
    has_short23 pat = true -> forall pre : list (list V),
    exists e, fold_days (interp_day mean2) (interp_of (length pre) pat) (pre ++ suf) = Err e.
  Proof.
    unfold has_short23. intros pat suf H. induction H as [|k f pat suf Hf Hs IH]; intros Hx pre; [discriminate|].
    cbn [existsb] in Hx. destruct k as [|h|h]; cbn [interp_of is_short23 orb] in *.
    - destruct (IH Hx (pre ++ [f])) as [e E].
      rewrite app_length in E. cbn [length] in E. rewrite Nat.add_1_r in E. rewrite <- !app_assoc in E. cbn [app] in E.
      exists e. exact E.
    - cbn [fold_days]. destruct (interp_day mean2 (pre ++ f :: suf) (length pre) h) as [a1|e] eqn:E1; cbn [bind];
        [|eexists; reflexivity].
      unfold interp_day in E1. rewrite nth_error_mid in E1.
      match type of E1 with bind ?x _ = _ => destruct x as [a|e] end; cbn [bind] in E1; [|discriminate].
      cbn [rows_expected] in Hf.
      destruct (h =? 23) eqn:E23.
      + apply Nat.eqb_eq in E23. subst h. unfold nth_res in E1.
        replace (nth_error f 23) with (@None V) in E1 by (symmetry; apply nth_error_None; lia). discriminate.
      + destruct (nth_res f h) as [b|e]; cbn [bind] in E1; [|discriminate].
        rewrite replace_day_app in E1. inversion E1 as [E1']. clear E1.
        destruct (IH Hx (pre ++ [insert_at h (mean2 a b) f])) as [e E].
        rewrite app_length in E. cbn [length] in E. rewrite Nat.add_1_r in E. rewrite <- !app_assoc in E. cbn [app] in E.
        exists e. exact E.
    - destruct (IH Hx (pre ++ [f])) as [e E].
      rewrite app_length in E. cbn [length] in E. rewrite Nat.add_1_r in E. rewrite <- !app_assoc in E. cbn [app] in E.
      exists e. exact E.
  Qed.

  Lemma Forall2_len : forall (A B : Type) (R : A -> B -> Prop) l1 l2, Forall2 R l1 l2 -> length l1 = length l2.
  Proof. intros A B R l1 l2 H. induction H; cbn [length]; [reflexivity | rewrite IHForall2; reflexivity]. Qed.

  Lemma shape_of_realises : forall pol days pat, Forall2 (realises pol) days pat -> forallb kind_ok pat = true ->
    Forall2 (fun k f => length f = rows_expected k) pat (map (fun d => map feat (d_rows d)) days).
  Proof.
    intros pol days pat Hr Hk. induction Hr as [|d k days pat Hd _ IH]; [constructor|].
    cbn [forallb] in Hk. apply andb_true_iff in Hk. destruct Hk as [Hk1 Hk2].
    cbn [map]. constructor; [|apply IH; exact Hk2].
    rewrite map_length, <- (clock_hours_length k Hk1). destruct Hd as (Hh & _ & _). rewrite <- Hh.
    unfold hours. rewrite map_length. reflexivity.
  Qed.

  (* interpolated values: reading prediction[i] beyond the end fails *)
  Lemma interp_vals_oob : forall (pred : list V) idxs, (exists i, In i idxs /\ length pred <= i) ->
    exists e, interp_vals mean2 pred idxs = Err e.
  Proof.
    intros pred. induction idxs as [|i0 t IH]; intros (i & Hin & Hi); [destruct Hin|].
    cbn [interp_vals]. destruct (nth_error pred (i0 - 1)) as [a|]; [|eexists; reflexivity].
    destruct (nth_error pred i0) as [b|] eqn:Eb; [|eexists; reflexivity].
    destruct Hin as [Hin|Hin].
    - subst i0. assert (nth_error pred i = None) by (apply nth_error_None; exact Hi). congruence.
    - destruct (IH (ex_intro _ i (conj Hin Hi))) as [e E]. rewrite E. exists e. reflexivity.
  Qed.

  Lemma mean_of_last : forall p i h, In (i + length p, h) (mean_of i (p ++ [Long h])).
  Proof.
    induction p as [|k p IH]; intros i h.
    - cbn. left. f_equal. lia.
    - cbn [app length]. replace (i + S (length p)) with (S i + length p) by lia.
      destruct k; cbn [mean_of]; [apply IH | apply IH | right; apply IH].
  Qed.

  Lemma hourly_predict_fails_l : forall pol days pat, Forall2 (realises pol) days pat ->
    forallb kind_ok pat = true -> no_clash pat = true -> pattern_ok pat = false ->
    exists e, hourly_predict mean2 feat regress pol days = Err e.
  Proof.
    intros pol days pat Hr Hk Hn Hp.
    rewrite (pattern_ok_char pat Hk Hn) in Hp.
    assert (Hshape := shape_of_realises pol days pat Hr Hk).
    unfold hourly_predict. rewrite (get_dst_indices_valid_l pol days pat Hr Hk). cbn [bind].
    set (agg := map (fun d => map feat (d_rows d)) days) in *.
    destruct (has_short23 pat) eqn:E23.
    - (* a day skips hour 23 *)
      destruct (fold_interp_short23 pat agg Hshape E23 []) as [e E]. cbn [length app] in E.
      unfold feature_matrix, correct_dst, indices_of. cbn [fst snd]. rewrite E. cbn [bind]. exists e. reflexivity.
    - cbn [negb andb] in Hp. apply negb_false_iff in Hp.
      destruct (feature_matrix mean2 agg (indices_of pat)) as [agg'|e] eqn:Ef; cbn [bind]; [|eexists; reflexivity].
      destruct (negb (all24 agg')); [eexists; reflexivity|].
      (* the frame ends on a day repeating hour 23 *)
      assert (Hlen : length (regress agg') = 24 * length pat).
      { rewrite regress_length, (feature_matrix_length _ _ _ Ef). unfold agg. rewrite map_length.
        rewrite (Forall2_len _ _ _ _ _ Hr). reflexivity. }
      assert (Hlast : exists p, pat = p ++ [Long 23]).
      { unfold ends_long23 in Hp. destruct pat as [|k0 p0]; [discriminate|].
        exists (removelast (k0 :: p0)). rewrite (app_removelast_last Reg) at 1 by discriminate.
        f_equal. destruct (last (k0 :: p0) Reg) as [|h|h]; try discriminate. apply Nat.eqb_eq in Hp. subst. reflexivity. }
      destruct Hlast as [p Ep].
      assert (Hoob : exists e, interp_vals mean2 (regress agg') (map snd (interp_ops (mean_of 0 pat))) = Err e).
      { apply interp_vals_oob. exists (length p * 24 + 23 + 1). split.
        - apply in_map_iff. exists (INTERPOLATE, length p * 24 + 23 + 1). split; [reflexivity|].
          unfold interp_ops. apply in_map_iff. exists (length p, 23). split; [reflexivity|].
          rewrite Ep. apply (mean_of_last p 0 23).
        - rewrite Hlen, Ep, app_length. cbn [length]. lia. }
      destruct Hoob as [e E]. unfold transform_dst, indices_of. cbn [fst snd]. rewrite E. cbn [bind]. exists e. reflexivity.
  Qed.

  (* the hourly predict of the model succeeds exactly on the patterns of the guard *)
  Lemma hourly_guard_exact_l : forall pol days pat, Forall2 (realises pol) days pat ->
    forallb kind_ok pat = true -> no_clash pat = true -> StronglySorted Z.lt (index_of days) ->
    ((exists rows, hourly_predict mean2 feat regress pol days = Ok rows) <-> pattern_ok pat = true).
  Proof.
    intros pol days pat Hr Hk Hn Hs. split.
    - intros [rows E]. destruct (pattern_ok pat) eqn:Hp; [reflexivity|].
      destruct (hourly_predict_fails_l pol days pat Hr Hk Hn Hp) as [e E']. congruence.
    - intros Hp. destruct (hourly_predict_valid mean2 feat regress regress_length pol days pat Hr Hp Hs) as (agg & y & E & _).
      eexists. exact E.
  Qed.
End HourlyExact.

Section HourlyExactRepaired.
  Context {V : Type}.
  Variable mean2 : V -> V -> V.
  Variable feat : hour_stamp -> V.
  Variable regress : list (list V) -> list V.
  Hypothesis regress_length : forall agg, length (regress agg) = 24 * length agg.

  Lemma hourly_guard_exact_repaired_l : forall days pat, Forall2 clock_only days pat ->
    forallb kind_ok pat = true -> no_clash pat = true -> StronglySorted Z.lt (index_of days) ->
    ((exists rows, hourly_predict mean2 feat regress repaired days = Ok rows) <-> pattern_ok pat = true).
  Proof.
    intros days pat H. apply (hourly_guard_exact_l mean2 feat regress regress_length repaired).
    apply clock_only_realises_repaired. exact H.
  Qed.
End HourlyExactRepaired.
