(* Lemmas about Model/Store.v (C02): which locations an operation can change. *)
From Coq Require Import ZArith List Bool Arith Lia.
From V Require Import Model.Gate Model.Store.
Import ListNotations.
Close Scope Z_scope.

(* ---- lists ---- *)

Lemma nth_error_update_same : forall (A : Type) (l : list A) n x y,
  nth_error l n = Some y -> nth_error (update l n x) n = Some x.
Proof.
  intros A l. induction l as [|a l IH]; intros [|n] x y H; cbn in *; try discriminate; [reflexivity | eapply IH, H].
Qed.

Lemma nth_error_update_other : forall (A : Type) (l : list A) n m x,
  n <> m -> nth_error (update l n x) m = nth_error l m.
Proof.
  intros A l. induction l as [|a l IH]; intros [|n] [|m] x H; cbn; try reflexivity; [contradiction | apply IH; lia].
Qed.

Lemma update_length : forall (A : Type) (l : list A) n x, length (update l n x) = length l.
Proof. intros A l. induction l as [|a l IH]; intros [|n] x; cbn; auto. Qed.

Lemma nth_error_app_old : forall (A : Type) (l : list A) x n, n < length l -> nth_error (l ++ [x]) n = nth_error l n.
Proof. intros. apply nth_error_app1. assumption. Qed.

(* ---- content after set_val / alloc ---- *)

Lemma content_set_val_same : forall s l f x, nth_error (cells s) l = Some x -> content (set_val s l f) l = Some f.
Proof.
  intros s l f x H. unfold content, set_val. rewrite H. cbn [cells].
  erewrite nth_error_update_same by exact H. reflexivity.
Qed.

Lemma content_set_val_other : forall s l f m, l <> m -> content (set_val s l f) m = content s m.
Proof.
  intros s l f m H. unfold content, set_val. destruct (nth_error (cells s) l); [|reflexivity].
  cbn [cells]. rewrite nth_error_update_other by assumption. reflexivity.
Qed.

Lemma own_set_val : forall s l f m, option_map own (nth_error (cells (set_val s l f)) m) = option_map own (nth_error (cells s) m).
Proof.
  intros s l f m. unfold set_val. destruct (nth_error (cells s) l) as [c|] eqn:E; [|reflexivity]. cbn [cells].
  destruct (Nat.eq_dec l m) as [<-|N].
  - erewrite nth_error_update_same by exact E. rewrite E. reflexivity.
  - rewrite nth_error_update_other by assumption. reflexivity.
Qed.

Lemma length_set_val : forall s l f, length (cells (set_val s l f)) = length (cells s).
Proof. intros. unfold set_val. destruct (nth_error (cells s) l); [cbn [cells]; apply update_length | reflexivity]. Qed.

Lemma held_set_val : forall s l f, held (set_val s l f) = held s.
Proof. intros. unfold set_val. destruct (nth_error (cells s) l); reflexivity. Qed.

Lemma content_some_lt : forall s l f, content s l = Some f -> l < length (cells s).
Proof.
  intros s l f H. unfold content in H. destruct (nth_error (cells s) l) eqn:E; [|discriminate].
  apply nth_error_Some. rewrite E. discriminate.
Qed.

Lemma content_alloc_old : forall s w f h l, l < length (cells s) -> content (alloc s w f h) l = content s l.
Proof. intros. unfold content, alloc. cbn [cells]. rewrite nth_error_app_old by assumption. reflexivity. Qed.

Lemma cell_alloc_old : forall s w f h l, l < length (cells s) -> nth_error (cells (alloc s w f h)) l = nth_error (cells s) l.
Proof. intros. unfold alloc. cbn [cells]. apply nth_error_app_old. assumption. Qed.

(* ---- one step: an existing location changes only through the operation's in-place write ---- *)

Lemma in_place_in_range : forall g s o l f, in_place g s o = Some (l, f) -> exists x, nth_error (cells s) l = Some x.
Proof.
  intros g s o l f H. destruct o as [f0|c e src|c e [m|] t|a o|o|o|l0 v]; cbn in H; try discriminate.
  - destruct (holds s src && init_writes_arg (g c)); [|discriminate].
    destruct (nth_error (cells s) src) eqn:E; cbn in H; [|discriminate]. inversion H; subst. eauto.
  - destruct (holds s m && holds s t && series_writes_arg (g c)); [|discriminate].
    destruct (nth_error (cells s) m) eqn:E; cbn in H; [|discriminate]. inversion H; subst. eauto.
  - destruct (holds s l0); [|discriminate].
    destruct (nth_error (cells s) l0) eqn:E; cbn in H; [|discriminate]. inversion H; subst. eauto.
Qed.

Lemma step_content : forall g s o l, l < length (cells s) ->
  content (step g s o) l = match in_place g s o with
                           | Some (l', f) => if Nat.eqb l' l then Some f else content s l
                           | None => content s l
                           end.
Proof.
  intros g s o l Hl. unfold step.
  set (s1 := match in_place g s o with Some (l0, f) => set_val s l0 f | None => s end).
  assert (H1 : length (cells s1) = length (cells s)).
  { subst s1. destruct (in_place g s o) as [[l0 f]|]; [apply length_set_val | reflexivity]. }
  assert (H2 : content s1 l = match in_place g s o with
                              | Some (l', f) => if Nat.eqb l' l then Some f else content s l
                              | None => content s l end).
  { subst s1. destruct (in_place g s o) as [[l0 f]|] eqn:E; [|reflexivity].
    destruct (Nat.eqb l0 l) eqn:N.
    - apply Nat.eqb_eq in N. subst l0. destruct (in_place_in_range g s o l f E) as [x Hx].
      eapply content_set_val_same, Hx.
    - apply Nat.eqb_neq in N. apply content_set_val_other, N. }
  rewrite <- H2.
  set (s2 := match created g s o with Some (w, f, h) => alloc s1 w f h | None => s1 end).
  assert (H3 : content s2 l = content s1 l).
  { subst s2. destruct (created g s o) as [[[w f] h]|]; [apply content_alloc_old; lia | reflexivity]. }
  rewrite <- H3. destruct (leaked g s o); reflexivity.
Qed.

Lemma step_length : forall g s o, length (cells s) <= length (cells (step g s o)).
Proof.
  intros g s o. unfold step.
  set (s1 := match in_place g s o with Some (l0, f) => set_val s l0 f | None => s end).
  assert (H1 : length (cells s1) = length (cells s)).
  { subst s1. destruct (in_place g s o) as [[l0 f]|]; [apply length_set_val | reflexivity]. }
  set (s2 := match created g s o with Some (w, f, h) => alloc s1 w f h | None => s1 end).
  assert (H2 : length (cells s1) <= length (cells s2)).
  { subst s2. destruct (created g s o) as [[[w f] h]|]; [unfold alloc; cbn [cells]; rewrite app_length; lia | lia]. }
  destruct (leaked g s o); cbn [cells]; lia.
Qed.

Lemma step_own : forall g s o l, l < length (cells s) ->
  option_map own (nth_error (cells (step g s o)) l) = option_map own (nth_error (cells s) l).
Proof.
  intros g s o l Hl. unfold step.
  set (s1 := match in_place g s o with Some (l0, f) => set_val s l0 f | None => s end).
  assert (H1 : length (cells s1) = length (cells s)).
  { subst s1. destruct (in_place g s o) as [[l0 f]|]; [apply length_set_val | reflexivity]. }
  assert (H2 : option_map own (nth_error (cells s1) l) = option_map own (nth_error (cells s) l)).
  { subst s1. destruct (in_place g s o) as [[l0 f]|]; [apply own_set_val | reflexivity]. }
  rewrite <- H2.
  set (s2 := match created g s o with Some (w, f, h) => alloc s1 w f h | None => s1 end).
  assert (H3 : nth_error (cells s2) l = nth_error (cells s1) l).
  { subst s2. destruct (created g s o) as [[[w f] h]|]; [apply cell_alloc_old; lia | reflexivity]. }
  rewrite <- H3. destruct (leaked g s o); reflexivity.
Qed.

(* which location an operation names as the target of an in-place write *)
Definition targets (g : cfg) (o : sop) (l : nat) : Prop :=
  match o with
  | SInit c _ src => src = l /\ init_writes_arg (g c) = true
  | SSeries c _ (Some m) _ => m = l /\ series_writes_arg (g c) = true
  | SMutate l' _ => l' = l
  | _ => False
  end.

Lemma in_place_targets : forall g s o l f, in_place g s o = Some (l, f) -> targets g o l.
Proof.
  intros g s o l f H. destruct o as [f0|c e src|c e [m|] t|a o|o|o|l0 v]; cbn in H; try discriminate; cbn.
  - destruct (holds s src); cbn in H; [|discriminate]. destruct (init_writes_arg (g c)); [|discriminate].
    destruct (nth_error (cells s) src); cbn in H; [|discriminate]. inversion H; auto.
  - destruct (holds s m && holds s t); cbn in H; [|discriminate]. destruct (series_writes_arg (g c)); [|discriminate].
    destruct (nth_error (cells s) m); cbn in H; [|discriminate]. inversion H; auto.
  - destruct (holds s l0); [|discriminate]. destruct (nth_error (cells s) l0); cbn in H; [|discriminate]. inversion H; auto.
Qed.

Lemma step_untargeted : forall g s o l f, content s l = Some f -> ~ targets g o l -> content (step g s o) l = Some f.
Proof.
  intros g s o l f H N. rewrite step_content by (eapply content_some_lt, H).
  destruct (in_place g s o) as [[l' f']|] eqn:E; [|assumption].
  destruct (Nat.eqb l' l) eqn:Q; [|assumption]. apply Nat.eqb_eq in Q. subst l'.
  exfalso. apply N. eapply in_place_targets, E.
Qed.

Lemma run_untargeted : forall g ops s l f, content s l = Some f ->
  (forall o, In o ops -> ~ targets g o l) -> content (run g s ops) l = Some f.
Proof.
  intros g ops. unfold run. induction ops as [|o ops IH]; intros s l f H N; cbn [fold_left]; [assumption|].
  apply IH; [apply step_untargeted; [assumption | apply N; left; reflexivity] | intros o' Ho; apply N; right; assumption].
Qed.

(* ---- caller-owned frames: unchanged unless the caller itself writes into them ---- *)

Definition ctors_copy (g : cfg) : Prop := forall c, init_writes_arg (g c) = false /\ series_writes_arg (g c) = false.

Lemma caller_frames_untouched_l : forall g, ctors_copy g ->
  forall ops s l f, content s l = Some f -> (forall v, ~ In (SMutate l v) ops) -> content (run g s ops) l = Some f.
Proof.
  intros g Hg ops s l f H N. apply run_untargeted; [assumption|].
  intros o Ho T. destruct o as [f0|c e src|c e [m|] t|a o|o|o|l0 v]; cbn in T; try contradiction.
  - destruct T as [_ T]. rewrite (proj1 (Hg c)) in T. discriminate.
  - destruct T as [_ T]. rewrite (proj2 (Hg c)) in T. discriminate.
  - subst l0. exact (N v Ho).
Qed.

Definition zf : frame := {| has_obs := true; zeros := true; dtcol := false; ver := 0%Z |}.
Definition empty : store := {| cells := []; held := [] |}.

Lemma normalise_zf : forall c, normalise c true zf <> zf.
Proof. intros c H. apply (f_equal zeros) in H. cbn in H. discriminate. Qed.

Lemma init_write_reaches_caller : forall g c, init_writes_arg (g c) = true ->
  content (run g empty [SNew zf; SInit c true 0]) 0 <> content (run g empty [SNew zf]) 0.
Proof.
  intros g c H. unfold run. cbn [fold_left].
  assert (E : step g empty (SNew zf) = {| cells := [{| own := Caller; val := zf |}]; held := [0] |}) by reflexivity.
  rewrite E. rewrite step_content by (cbn; lia). cbn [in_place holds held existsb Nat.eqb orb andb]. rewrite H.
  cbn. intros Q. inversion Q.
Qed.

Lemma series_write_reaches_caller : forall g c, series_writes_arg (g c) = true ->
  content (run g empty [SNew zf; SNew zf; SSeries c true (Some 0) 1]) 0 <> content (run g empty [SNew zf; SNew zf]) 0.
Proof.
  intros g c H. unfold run. cbn [fold_left].
  assert (E : step g (step g empty (SNew zf)) (SNew zf) =
              {| cells := [{| own := Caller; val := zf |}; {| own := Caller; val := zf |}]; held := [0; 1] |}) by reflexivity.
  rewrite E. rewrite step_content by (cbn; lia). cbn [in_place holds held existsb Nat.eqb orb andb]. rewrite H.
  cbn. intros Q. inversion Q.
Qed.

Lemma caller_frames_iff : forall g,
  (forall ops s l f, content s l = Some f -> (forall v, ~ In (SMutate l v) ops) -> content (run g s ops) l = Some f)
  <-> ctors_copy g.
Proof.
  intros g. split; [|apply caller_frames_untouched_l].
  intros H c. split.
  - destruct (init_writes_arg (g c)) eqn:E; [|reflexivity]. exfalso.
    apply (init_write_reaches_caller g c E).
    change (run g empty [SNew zf; SInit c true 0]) with (run g (run g empty [SNew zf]) [SInit c true 0]).
    rewrite (H [SInit c true 0] (run g empty [SNew zf]) 0 zf eq_refl); [reflexivity|].
    intros v [Q|[]]. discriminate.
  - destruct (series_writes_arg (g c)) eqn:E; [|reflexivity]. exfalso.
    apply (series_write_reaches_caller g c E).
    change (run g empty [SNew zf; SNew zf; SSeries c true (Some 0) 1])
      with (run g (run g empty [SNew zf; SNew zf]) [SSeries c true (Some 0) 1]).
    rewrite (H [SSeries c true (Some 0) 1] (run g empty [SNew zf; SNew zf]) 0 zf eq_refl); [reflexivity|].
    intros v [Q|[]]. discriminate.
Qed.

(* ---- data objects: their private frames never change, whatever the caller does with what it was handed ---- *)

(* the caller holds no reference to a private frame *)
Definition wf (s : store) : Prop :=
  forall l, In l (held s) -> exists x, nth_error (cells s) l = Some x /\ is_obj (own x) = false.

Definition df_copies (g : cfg) : Prop := forall c a, handout_copies (g c) a = true.

Lemma holds_in : forall s l, holds s l = true -> In l (held s).
Proof.
  intros s l H. unfold holds in H. apply existsb_exists in H. destruct H as [x [H1 H2]].
  apply Nat.eqb_eq in H2. subst. assumption.
Qed.

Lemma leaked_none : forall g s o, df_copies g -> leaked g s o = None.
Proof.
  intros g s o Hg. destruct o; cbn; try reflexivity.
  destruct (nth_error (cells s) o); [|reflexivity]. destruct (own c); try reflexivity. rewrite Hg. reflexivity.
Qed.

Lemma created_held_not_obj : forall g s o w f, created g s o = Some (w, f, true) -> is_obj w = false.
Proof.
  intros g s o w f H. destruct o as [f0|c e src|c e m t|a o|o|o|l0 v]; cbn in H; try discriminate.
  - inversion H; reflexivity.
  - destruct (holds s src); [|discriminate]. destruct (nth_error (cells s) src); cbn in H; [inversion H | discriminate].
  - destruct (holds s t && match m with Some l => holds s l | None => true end); [|discriminate].
    destruct (nth_error (cells s) t); cbn in H; [inversion H | discriminate].
  - destruct (nth_error (cells s) o); [|discriminate]. destruct (own c); try discriminate.
    destruct (handout_copies (g c0) a); inversion H; reflexivity.
  - destruct (nth_error (cells s) o); [|discriminate]. destruct (is_obj (own c)); inversion H; reflexivity.
Qed.

Lemma step_wf : forall g s o, df_copies g -> wf s -> wf (step g s o).
Proof.
  intros g s o Hg W. unfold step. rewrite (leaked_none g s o Hg).
  set (s1 := match in_place g s o with Some (l0, f) => set_val s l0 f | None => s end).
  assert (W1 : wf s1).
  { subst s1. destruct (in_place g s o) as [[l0 f]|]; [|assumption].
    intros l Hl. rewrite held_set_val in Hl. destruct (W l Hl) as [x [Hx Ho]].
    pose proof (own_set_val s l0 f l) as Q. rewrite Hx in Q. cbn in Q.
    destruct (nth_error (cells (set_val s l0 f)) l) as [y|]; [|discriminate]. inversion Q as [Q']. exists y. split; [reflexivity|].
    rewrite Q'. assumption. }
  destruct (created g s o) as [[[w f] h]|] eqn:C; [|assumption].
  intros l Hl. unfold alloc in *. cbn [cells held] in *.
  assert (Hold : forall l, In l (held s1) -> exists x, nth_error (cells s1 ++ [{| own := w; val := f |}]) l = Some x /\ is_obj (own x) = false).
  { intros l0 H0. destruct (W1 l0 H0) as [x [Hx Ho]]. exists x. split; [|assumption].
    rewrite nth_error_app1; [assumption|]. apply nth_error_Some. rewrite Hx. discriminate. }
  destruct h; [|apply Hold, Hl].
  apply in_app_or in Hl. destruct Hl as [Hl|[<-|[]]]; [apply Hold, Hl|].
  exists {| own := w; val := f |}. split.
  - rewrite nth_error_app2 by lia. rewrite Nat.sub_diag. reflexivity.
  - cbn. eapply created_held_not_obj, C.
Qed.

Lemma step_object_untouched : forall g s o l x, wf s -> nth_error (cells s) l = Some x -> is_obj (own x) = true ->
  content (step g s o) l = Some (val x).
Proof.
  intros g s o l x W Hx Ho.
  assert (Hl : l < length (cells s)) by (apply nth_error_Some; rewrite Hx; discriminate).
  rewrite step_content by assumption.
  assert (Hc : content s l = Some (val x)) by (unfold content; rewrite Hx; reflexivity).
  destruct (in_place g s o) as [[l' f]|] eqn:E; [|assumption].
  destruct (Nat.eqb l' l) eqn:Q; [|assumption]. apply Nat.eqb_eq in Q. subst l'. exfalso.
  assert (Hh : holds s l = true).
  { destruct o as [f0|c e src|c e [m|] t|a o|o|o|l0 v]; cbn in E; try discriminate.
    - destruct (holds s src) eqn:Hh; cbn in E; [|discriminate]. destruct (init_writes_arg (g c)); [|discriminate].
      destruct (nth_error (cells s) src); cbn in E; [|discriminate]. inversion E; subst. assumption.
    - destruct (holds s m) eqn:Hh; cbn in E; [|discriminate]. destruct (holds s t && series_writes_arg (g c)); [|discriminate].
      destruct (nth_error (cells s) m); cbn in E; [|discriminate]. inversion E; subst. assumption.
    - destruct (holds s l0) eqn:Hh; [|discriminate].
      destruct (nth_error (cells s) l0); cbn in E; [|discriminate]. inversion E; subst. assumption. }
  destruct (W l (holds_in s l Hh)) as [y [Hy Hn]]. rewrite Hx in Hy. inversion Hy; subst. rewrite Ho in Hn. discriminate.
Qed.

Lemma objects_untouched_l : forall g, df_copies g ->
  forall ops s l x, wf s -> nth_error (cells s) l = Some x -> is_obj (own x) = true ->
  content (run g s ops) l = Some (val x).
Proof.
  intros g Hg ops. unfold run. induction ops as [|o ops IH]; intros s l x W Hx Ho; cbn [fold_left].
  - unfold content. rewrite Hx. reflexivity.
  - pose proof (step_object_untouched g s o l x W Hx Ho) as C.
    assert (Hl : l < length (cells s)) by (apply nth_error_Some; rewrite Hx; discriminate).
    pose proof (step_own g s o l Hl) as O. rewrite Hx in O. cbn in O.
    unfold content in C. destruct (nth_error (cells (step g s o)) l) as [y|] eqn:E; [|discriminate].
    cbn in C, O. injection C as C'. injection O as O'.
    rewrite <- C'. apply IH; [apply step_wf; assumption | assumption | rewrite O'; assumption].
Qed.

(* `.df` without a copy: one write into the hand-out changes the data object *)
Definition plain : frame := {| has_obs := true; zeros := false; dtcol := false; ver := 0%Z |}.
Definition with_object (g : cfg) (c : dclass) : store := run g empty [SNew plain; SInit c false 0].

Lemma with_object_shape : forall g c,
  cells (with_object g c) = [{| own := Caller; val := plain |}; {| own := Obj c; val := normalise c false plain |}] /\
  held (with_object g c) = [0].
Proof.
  intros g c. unfold with_object, run. cbn [fold_left].
  assert (E : step g empty (SNew plain) = {| cells := [{| own := Caller; val := plain |}]; held := [0] |}) by reflexivity.
  rewrite E. unfold step. cbn [in_place created leaked holds held existsb Nat.eqb orb andb cells nth_error option_map val].
  destruct (init_writes_arg (g c)); cbn; split; reflexivity.
Qed.

Lemma with_object_wf : forall g c, wf (with_object g c).
Proof.
  intros g c l Hl. destruct (with_object_shape g c) as [Hc Hh]. rewrite Hh in Hl. destruct Hl as [<-|[]].
  rewrite Hc. cbn. eauto.
Qed.

Lemma df_alias_step : forall g s a o x c, nth_error (cells s) o = Some x -> own x = Obj c -> handout_copies (g c) a = false ->
  step g s (SDf a o) = {| cells := cells s; held := held s ++ [o] |}.
Proof.
  intros g s a o x c Hx Ho Hc. unfold step. cbn [in_place created leaked]. rewrite Hx, Ho, Hc. reflexivity.
Qed.

Lemma alias_reaches_object : forall g c a, handout_copies (g c) a = false ->
  content (run g (with_object g c) [SDf a 1; SMutate 1 7%Z]) 1 <> content (with_object g c) 1.
Proof.
  intros g c a H. destruct (with_object_shape g c) as [Hc Hh].
  unfold run. cbn [fold_left].
  rewrite (df_alias_step g (with_object g c) a 1 {| own := Obj c; val := normalise c false plain |} c)
    by (try rewrite Hc; try reflexivity; assumption).
  rewrite step_content by (cbn [cells]; rewrite Hc; cbn; lia).
  cbn [in_place holds held cells]. rewrite Hh, Hc. cbn [app existsb Nat.eqb orb nth_error option_map val].
  unfold content. rewrite Hc. cbn. intros Q. inversion Q.
Qed.

Lemma objects_iff : forall g,
  (forall ops s l x, wf s -> nth_error (cells s) l = Some x -> is_obj (own x) = true -> content (run g s ops) l = Some (val x))
  <-> df_copies g.
Proof.
  intros g. split; [|apply objects_untouched_l].
  intros H c a. destruct (handout_copies (g c) a) eqn:E; [reflexivity|]. exfalso.
  apply (alias_reaches_object g c a E).
  destruct (with_object_shape g c) as [Hc Hh].
  rewrite (H [SDf a 1; SMutate 1 7%Z] (with_object g c) 1 {| own := Obj c; val := normalise c false plain |}).
  - unfold content. rewrite Hc. reflexivity.
  - apply with_object_wf.
  - rewrite Hc. reflexivity.
  - reflexivity.
Qed.

(* ---- hand-outs are independent: `.df` creates a new location; a write into one location changes no other ---- *)

Lemma df_fresh : forall g s a o x c, nth_error (cells s) o = Some x -> own x = Obj c -> handout_copies (g c) a = true ->
  content (step g s (SDf a o)) (length (cells s)) = Some (val x) /\
  In (length (cells s)) (held (step g s (SDf a o))) /\
  forall l, l < length (cells s) -> content (step g s (SDf a o)) l = content s l.
Proof.
  intros g s a o x c Hx Ho Hc. unfold step. cbn [in_place created leaked]. rewrite Hx, Ho, Hc.
  unfold alloc, content. cbn [cells held]. repeat split.
  - rewrite nth_error_app2 by lia. rewrite Nat.sub_diag. reflexivity.
  - apply in_or_app. right. left. reflexivity.
  - intros l Hl. rewrite nth_error_app1 by assumption. reflexivity.
Qed.

Lemma mutate_only_target : forall g s l v m, m <> l -> m < length (cells s) ->
  content (step g s (SMutate l v)) m = content s m.
Proof.
  intros g s l v m N Hm. rewrite step_content by assumption. cbn [in_place].
  destruct (holds s l); [|reflexivity]. destruct (nth_error (cells s) l); cbn; [|reflexivity].
  destruct (Nat.eqb l m) eqn:Q; [apply Nat.eqb_eq in Q; subst; contradiction | reflexivity].
Qed.

(* fit / predict write nothing *)
Lemma use_writes_nothing : forall g s o l, l < length (cells s) ->
  content (step g s (SPredict o)) l = content s l /\ content (step g s (SFit o)) l = content s l.
Proof. intros. split; rewrite step_content by assumption; reflexivity. Qed.

(* ---- fit(): the lists ---- *)

Lemma fit_lists_copy_keeps_data : forall poor data, l_data (fit_lists true poor data) = data.
Proof. reflexivity. Qed.

Lemma fit_lists_model : forall copies poor data,
  l_model (fit_lists copies poor data) = data ++ (if poor then [POOR_FIT] else []).
Proof. intros [] poor data; reflexivity. Qed.

Lemma fit_lists_iff : forall copies,
  (forall poor data, l_data (fit_lists copies poor data) = data) <-> copies = true.
Proof.
  intros copies. split.
  - intros H. destruct copies; [reflexivity|]. specialize (H true []). cbn in H. discriminate.
  - intros ->. reflexivity.
Qed.

(* agreement with the life-cycle machine shared with C04: the model's list after a successful fit *)
Lemma fit_lists_agree_with_gate : forall poor f s d i copies, snd (fit poor f s d i) = Fitted ->
  m_dq (fst (fit poor f s d i)) = l_model (fit_lists copies (poor d) (d_dq d)).
Proof.
  intros poor f s d i copies H. rewrite fit_lists_model. unfold fit in *.
  (* robust against guards being added to / removed from Gate.fit: every failing branch contradicts H *)
  repeat match type of H with
         | snd (if ?c then _ else _) = _ => destruct c; [try discriminate H|]
         end; try discriminate H; reflexivity.
Qed.
