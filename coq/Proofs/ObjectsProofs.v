(* Lemmas about Model/Objects.v (C02): fitting or using one model object leaves every other object's serialised
   state alone, exactly when no class keeps that state in a class-level container. *)
From Coq Require Import ZArith List Bool Arith Lia.
From V Require Import Model.Objects.
Import ListNotations.

Lemma nth_set_nth_other : forall (A : Type) (l : list A) n m x, n <> m -> nth_error (set_nth l n x) m = nth_error l m.
Proof.
  intros A l. induction l as [|a l IH]; intros [|n] [|m] x H; cbn; try reflexivity; [contradiction | apply IH; lia].
Qed.

Lemma nth_app_old : forall (A : Type) (l : list A) x n y, nth_error l n = Some y -> nth_error (l ++ [x]) n = Some y.
Proof.
  intros A l x n y H. rewrite nth_error_app1; [assumption|]. apply nth_error_Some. rewrite H. discriminate.
Qed.

Lemma step_other_unchanged : forall g w o j y,
  (forall c, g c = None) -> nth_error (w_objs w) j = Some y -> target o <> Some j ->
  nth_error (w_objs (wstep g w o)) j = Some y /\ serial g (wstep g w o) j = serial g w j.
Proof.
  intros g w o j y Hg Hj Ht.
  assert (S0 : forall w', nth_error (w_objs w') j = Some y -> serial g w' j = Some (o_own y)).
  { intros w' H. unfold serial. rewrite H, Hg. reflexivity. }
  destruct o as [c|k v|k|k]; cbn [wstep].
  - cbn [w_objs]. split; [apply nth_app_old; assumption|].
    rewrite (S0 w Hj). apply S0. cbn [w_objs]. apply nth_app_old; assumption.
  - destruct (nth_error (w_objs w) k) as [x|] eqn:E; [|split; [assumption | reflexivity]].
    rewrite Hg. cbn [w_objs].
    assert (N : k <> j) by (intros ->; apply Ht; reflexivity).
    assert (Q : nth_error (set_nth (w_objs w) k {| o_class := o_class x; o_own := v |}) j = Some y)
      by (rewrite nth_set_nth_other; assumption).
    split; [assumption|]. rewrite (S0 w Hj). apply S0. cbn [w_objs]. assumption.
  - split; [assumption | reflexivity].
  - split; [assumption | reflexivity].
Qed.

Lemma others_unchanged_l : forall g, (forall c, g c = None) ->
  forall ops w j y, nth_error (w_objs w) j = Some y -> (forall v, ~ In (WFit j v) ops) ->
  serial g (wrun g w ops) j = serial g w j.
Proof.
  intros g Hg ops. unfold wrun. induction ops as [|o ops IH]; intros w j y Hj N; cbn [fold_left]; [reflexivity|].
  assert (T : target o <> Some j).
  { destruct o; cbn; try discriminate. intros Q. inversion Q; subst. apply (N v). left. reflexivity. }
  destruct (step_other_unchanged g w o j y Hg Hj T) as [H1 H2].
  rewrite <- H2. apply (IH (wstep g w o) j y H1). intros v Hv. apply (N v). right. assumption.
Qed.

(* two objects of a class that keeps the state at class level: fitting the second rewrites the first one's document *)
Definition two (c : mclass) : world :=
  {| w_objs := [{| o_class := c; o_own := 0%Z |}; {| o_class := c; o_own := 0%Z |}]; w_class := fun _ => 0%Z |}.

Lemma mclass_eqb_refl : forall c, mclass_eqb c c = true.
Proof. destruct c; reflexivity. Qed.

Lemma shared_reaches_other : forall g c r, g c = Some r ->
  serial g (wrun g (two c) [WFit 1 5%Z]) 0 <> serial g (two c) 0.
Proof.
  intros g c r H. unfold wrun, two. cbn [fold_left wstep w_objs nth_error o_class]. rewrite H.
  unfold serial. cbn [w_objs nth_error o_class w_class]. rewrite H, mclass_eqb_refl. discriminate.
Qed.

Lemma others_unchanged_iff : forall g,
  (forall ops w j y, nth_error (w_objs w) j = Some y -> (forall v, ~ In (WFit j v) ops) ->
                     serial g (wrun g w ops) j = serial g w j)
  <-> (forall c, g c = None).
Proof.
  intros g. split; [|apply others_unchanged_l].
  intros H c. destruct (g c) as [r|] eqn:E; [|reflexivity]. exfalso.
  apply (shared_reaches_other g c r E).
  apply (H [WFit 1 5%Z] (two c) 0 {| o_class := c; o_own := 0%Z |} eq_refl).
  intros v [Q|[]]. discriminate.
Qed.
