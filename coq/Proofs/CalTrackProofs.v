(* Lemmas about Model/CalTrack.v (property C18), parts B-D: temperature bin features, occupancy split, hour of week.
   Unbounded (induction / arithmetic); nothing here looks inside the regenerated tables.
   Part A (tables, finite, re-computed on every run) is Proofs/CalTrackTableProofs.v. *)
From Coq Require Import ZArith QArith Qminmax List Bool String Lia Lqa.
From V Require Import Model.CalTrack.
Import ListNotations.

(* ------------------------------------------------------------------------------------------------ *)
(* B. temperature bin features over Q (unbounded: any temperature, any increasing endpoint list)    *)
(* ------------------------------------------------------------------------------------------------ *)

Local Open Scope Q_scope.

Lemma Qltb_true a b : Qltb a b = true <-> a < b.
Proof.
  unfold Qltb. rewrite negb_true_iff. split; intros H.
  - apply Qnot_le_lt. intros Hle. apply Qle_bool_iff in Hle. congruence.
  - destruct (Qle_bool b a) eqn:E; [ | reflexivity ]. apply Qle_bool_iff in E. exfalso. apply (Qlt_not_le _ _ H E).
Qed.
Lemma Qltb_false a b : Qltb a b = false <-> b <= a.
Proof.
  unfold Qltb. rewrite negb_false_iff. apply Qle_bool_iff.
Qed.
Lemma Qleb_false a b : Qle_bool a b = false <-> b < a.
Proof.
  split; intros H.
  - apply Qnot_le_lt. intros Hle. apply Qle_bool_iff in Hle. congruence.
  - destruct (Qle_bool a b) eqn:E; [ | reflexivity ]. apply Qle_bool_iff in E. exfalso. apply (Qlt_not_le _ _ H E).
Qed.

Ltac qcase_lt a b :=
  let E := fresh "E" in destruct (Qltb a b) eqn:E; [ apply Qltb_true in E | apply Qltb_false in E ].
Ltac qcase_le a b :=
  let E := fresh "E" in destruct (Qle_bool a b) eqn:E; [ apply Qle_bool_iff in E | apply Qleb_false in E ].

Definition bsum := sum QOps.
Definition qbins := bin_features QOps.
Definition qlater := later_bins QOps.

Lemma mid_bin_value T l r : l <= r ->
  mid_bin QOps T l r == Qclamp (T - l) 0 (r - l).
Proof.
  intros Hlr. unfold mid_bin, Qclamp. cbn [nadd nsub nltb nleb nzero QOps].
  qcase_lt l T; qcase_le T r; qcase_lt r T; cbn [andb];
    try (exfalso; lra).
  - rewrite Q.min_l by lra. rewrite Q.max_r by lra. lra.
  - rewrite Q.min_r by lra. rewrite Q.max_r by lra. lra.
  - rewrite Q.min_l by lra. rewrite Q.max_l by lra. lra.
Qed.

Lemma last_bin_value T l : last_bin QOps T l == Qmax 0 (T - l).
Proof.
  unfold last_bin. cbn [nadd nsub nltb nleb nzero QOps].
  qcase_lt l T.
  - rewrite Q.max_r by lra. lra.
  - rewrite Q.max_l by lra. lra.
Qed.

Lemma first_bin_value T e1 : first_bin QOps T e1 == Qmin T e1.
Proof.
  unfold first_bin. cbn [nadd nsub nltb nleb nzero QOps].
  qcase_le T e1.
  - rewrite Q.min_l by lra. lra.
  - rewrite Q.min_r by lra. lra.
Qed.

Lemma later_closed_form : forall rest T l, increasing (l :: rest) ->
  Forall2 Qeq (qlater T l rest) (later_spec T l rest).
Proof.
  induction rest as [ | r rest IH ]; intros T l Hinc; cbn [qlater later_bins later_spec].
  - constructor; [ apply last_bin_value | constructor ].
  - destruct Hinc as [Hlr Hinc]. constructor; [ apply mid_bin_value; exact Hlr | apply IH; exact Hinc ].
Qed.

Lemma bins_closed_form_l : forall T e, increasing e -> Forall2 Qeq (qbins T e) (bin_spec T e).
Proof.
  intros T [ | e1 rest ] Hinc; cbn [qbins bin_features bin_spec].
  - constructor; [ cbn; lra | constructor ].
  - constructor; [ apply first_bin_value | apply later_closed_form; exact Hinc ].
Qed.

Lemma bsum_cons x l : bsum (x :: l) = x + bsum l.
Proof. reflexivity. Qed.

(* everything above the left edge l is accounted for by the bins to the right of l *)
Lemma later_sum : forall rest T l, increasing (l :: rest) ->
  bsum (qlater T l rest) == Qmax 0 (T - l).
Proof.
  induction rest as [ | r rest IH ]; intros T l Hinc; cbn [qlater later_bins].
  - rewrite bsum_cons. rewrite last_bin_value. cbn. lra.
  - destruct Hinc as [Hlr Hinc]. rewrite bsum_cons. fold (qlater T r rest).
    rewrite (IH T r Hinc). rewrite (mid_bin_value T l r Hlr). unfold Qclamp.
    destruct (Qlt_le_dec T l) as [H1 | H1]; [ | destruct (Qlt_le_dec T r) as [H2 | H2] ].
    + rewrite (Q.min_l (T - l)) by lra. rewrite (Q.max_l 0 (T - l)) by lra.
      rewrite (Q.max_l 0 (T - r)) by lra. lra.
    + rewrite (Q.min_l (T - l)) by lra. rewrite (Q.max_r 0 (T - l)) by lra.
      rewrite (Q.max_l 0 (T - r)) by lra. lra.
    + rewrite (Q.min_r (T - l)) by lra. rewrite (Q.max_r 0 (r - l)) by lra.
      rewrite (Q.max_r 0 (T - r)) by lra. rewrite (Q.max_r 0 (T - l)) by lra. lra.
Qed.

Lemma bins_sum_to_T_l : forall T e, increasing e -> bsum (qbins T e) == T.
Proof.
  intros T [ | e1 rest ] Hinc; cbn [qbins bin_features].
  - cbn. lra.
  - rewrite bsum_cons. fold (qlater T e1 rest). rewrite (later_sum rest T e1 Hinc). rewrite first_bin_value.
    destruct (Qlt_le_dec T e1) as [H | H].
    + rewrite Q.min_l by lra. rewrite Q.max_l by lra. lra.
    + rewrite Q.min_r by lra. rewrite Q.max_r by lra. lra.
Qed.

Lemma bins_length_l : forall (N : numops) (T : num N) e, List.length (bin_features N T e) = S (List.length e).
Proof.
  intros N T [ | e1 rest ]; [ reflexivity | ]. cbn [bin_features List.length]. f_equal.
  revert e1. induction rest as [ | r rest IH ]; intros l; [ reflexivity | ]. cbn [later_bins List.length]. f_equal. apply IH.
Qed.

(* head of the bins right of l *)
Lemma later_head_pos : forall rest T l, increasing (l :: rest) ->
  match qlater T l rest with b :: _ => (0 < b -> l < T) /\ 0 <= b | [] => False end.
Proof.
  intros [ | r rest ] T l Hinc; cbn [qlater later_bins].
  - rewrite last_bin_value. split; [ intros H | apply Q.le_max_l ].
    destruct (Qlt_le_dec l T) as [H1 | H1]; [ exact H1 | ]. rewrite Q.max_l in H by lra. lra.
  - destruct Hinc as [Hlr _]. rewrite (mid_bin_value T l r Hlr). unfold Qclamp. split; [ intros H | apply Q.le_max_l ].
    destruct (Qlt_le_dec l T) as [H1 | H1]; [ exact H1 | ].
    rewrite (Q.min_l (T - l)) in H by lra. rewrite Q.max_l in H by lra. lra.
Qed.

Lemma later_fill : forall rest T l, increasing (l :: rest) ->
  filled_in_order (widths l rest) (qlater T l rest) /\ Forall (fun b => 0 <= b) (qlater T l rest).
Proof.
  induction rest as [ | r rest IH ]; intros T l Hinc; cbn [qlater later_bins widths].
  - split; [ exact I | ]. constructor; [ rewrite last_bin_value; apply Q.le_max_l | constructor ].
  - destruct Hinc as [Hlr Hinc]. destruct (IH T r Hinc) as [IH1 IH2].
    pose proof (later_head_pos rest T r Hinc) as Hh. fold (qlater T r rest) in *.
    assert (Hm : mid_bin QOps T l r == Qclamp (T - l) 0 (r - l)) by (apply mid_bin_value; exact Hlr).
    split.
    + destruct (qlater T r rest) as [ | b' tl ] eqn:E; [ contradiction | ].
      cbn [filled_in_order]. destruct Hh as [Hh _]. repeat split.
      * rewrite Hm. unfold Qclamp. apply Q.max_lub; [ lra | apply Q.le_min_r ].
      * intros Hpos. specialize (Hh Hpos). rewrite Hm. unfold Qclamp.
        rewrite (Q.min_r (T - l)) by lra. rewrite Q.max_r by lra. reflexivity.
      * exact IH1.
    + constructor; [ rewrite Hm; unfold Qclamp; apply Q.le_max_l | exact IH2 ].
Qed.

Lemma bins_fill_in_order_l : forall T e, increasing e ->
  filled_in_order (capacities e) (qbins T e) /\ Forall (fun b => 0 <= b) (tl (qbins T e)).
Proof.
  intros T [ | e1 rest ] Hinc; cbn [qbins bin_features capacities tl].
  - split; [ exact I | constructor ].
  - destruct (later_fill rest T e1 Hinc) as [H1 H2]. pose proof (later_head_pos rest T e1 Hinc) as Hh.
    fold (qlater T e1 rest) in *. split; [ | exact H2 ].
    destruct (qlater T e1 rest) as [ | b' tl ] eqn:E; [ contradiction | ].
    cbn [filled_in_order]. destruct Hh as [Hh _]. repeat split.
    + rewrite first_bin_value. apply Q.le_min_r.
    + intros Hpos. specialize (Hh Hpos). rewrite first_bin_value. rewrite Q.min_r by lra. reflexivity.
    + exact H1.
Qed.

(* NaN temperature: every bin is NaN *)
Lemma bins_nan_l : forall (N : numops) e,
  bin_features_opt N None e = repeat None (S (List.length e)).
Proof.
  intros N e. unfold bin_features_opt. rewrite <- (bins_length_l N (nzero N) e).
  induction (bin_features N (nzero N) e) as [ | x l IH ]; [ reflexivity | ]. cbn [map List.length repeat]. f_equal. exact IH.
Qed.

(* ------------------------------------------------------------------------------------------------ *)
(* C. occupancy split                                                                                *)
(* ------------------------------------------------------------------------------------------------ *)

Lemma occupied_xor_unoccupied_l : forall (N : numops) (b : bool) T eo eu,
  let ou := occupancy_split N (Some b) T eo eu in
  (b = true -> fst ou = bin_features_opt N T eo /\ Forall (fun x => x = Some (nzero N)) (snd ou)) /\
  (b = false -> snd ou = bin_features_opt N T eu /\ Forall (fun x => x = Some (nzero N)) (fst ou)).
Proof.
  intros N b T eo eu. unfold occupancy_split, zeros. destruct b; cbn [fst snd]; split; intros Hb; try discriminate Hb;
    (split; [ reflexivity | ]); apply Forall_forall; intros x Hx; apply in_map_iff in Hx; destruct Hx as [y [Hy _]];
    symmetry; exact Hy.
Qed.

Lemma occupancy_split_lengths_l : forall (N : numops) occ T eo eu,
  List.length (fst (occupancy_split N occ T eo eu)) = S (List.length eo) /\
  List.length (snd (occupancy_split N occ T eo eu)) = S (List.length eu).
Proof.
  intros N occ T eo eu.
  assert (L : forall e, List.length (bin_features_opt N T e) = S (List.length e)).
  { intros e. unfold bin_features_opt. destruct T; rewrite map_length; apply bins_length_l. }
  unfold occupancy_split, zeros. destruct occ as [ [ | ] | ]; cbn [fst snd]; rewrite ?map_length; split; apply L.
Qed.

(* after merge_features a row is either blanked entirely or exactly the split *)
Lemma feature_row_cases_l : forall (N : numops) others occ T eo eu,
  let r := feature_row N others occ T eo eu in
  r = occupancy_split N occ T eo eu \/
  (Forall (fun x => x = None) (fst r) /\ Forall (fun x => x = None) (snd r)).
Proof.
  intros N others occ T eo eu. unfold feature_row.
  destruct (others && forallb (present N) (fst (occupancy_split N occ T eo eu))
                   && forallb (present N) (snd (occupancy_split N occ T eo eu))); [ left; reflexivity | right ].
  cbn [fst snd]. split; apply Forall_forall; intros x Hx; apply in_map_iff in Hx; destruct Hx as [y [Hy _]];
    symmetry; exact Hy.
Qed.

(* a NaN occupancy feature would leave both feature groups in place: the statement needs the lookup to
   cover the hour of week *)
Lemma occupancy_nan_keeps_both_l :
  occupancy_split QOps None (Some (50 # 1)) [30 # 1] [45 # 1] =
  (bin_features_opt QOps (Some (50 # 1)) [30 # 1], bin_features_opt QOps (Some (50 # 1)) [45 # 1]).
Proof. reflexivity. Qed.

(* ------------------------------------------------------------------------------------------------ *)
(* D. hour of week                                                                                   *)
(* ------------------------------------------------------------------------------------------------ *)

Local Open Scope Z_scope.

Lemma how_formula_l : forall dow hour, 0 <= dow < 7 -> 0 <= hour < 24 ->
  hour_of_week dow hour = 24 * dow + hour /\ 0 <= hour_of_week dow hour < 168.
Proof. intros dow hour Hd Hh. unfold hour_of_week. lia. Qed.

Lemma how_injective_l : forall d h d' h', 0 <= d < 7 -> 0 <= h < 24 -> 0 <= d' < 7 -> 0 <= h' < 24 ->
  hour_of_week d h = hour_of_week d' h' -> d = d' /\ h = h'.
Proof. intros d h d' h' Hd Hh Hd' Hh'. unfold hour_of_week. lia. Qed.

Lemma how_onto_l : forall k, 0 <= k < 168 ->
  exists d h, 0 <= d < 7 /\ 0 <= h < 24 /\ hour_of_week d h = k.
Proof.
  intros k Hk. exists (k / 24), (k mod 24). unfold hour_of_week.
  pose proof (Z.div_mod k 24 ltac:(lia)) as E. pose proof (Z.mod_pos_bound k 24 ltac:(lia)) as B.
  assert (0 <= k / 24 < 7) by (split; [ apply Z.div_pos; lia | apply Z.div_lt_upper_bound; lia ]).
  lia.
Qed.

(* ------------------------------------------------------------------------------------------------ *)
(* E. endpoint lists selected by keep-flags; features of both occupancy modes together               *)
(* ------------------------------------------------------------------------------------------------ *)

Local Open Scope Q_scope.

Lemma increasing_lower_bound : forall l a, increasing (a :: l) -> Forall (fun x => a <= x) l.
Proof.
  induction l as [ | b l IH ]; intros a H; [ constructor | ].
  destruct H as [Hab Hinc]. constructor; [ exact Hab | ].
  specialize (IH b Hinc). eapply Forall_impl; [ | exact IH ]. intros x Hx. cbn beta in Hx. apply (Qle_trans _ b); assumption.
Qed.

Lemma increasing_cons : forall l a, Forall (fun x => a <= x) l -> increasing l -> increasing (a :: l).
Proof.
  intros [ | b l ] a HF Hinc; cbn [increasing]; split; try exact I; try exact Hinc.
  inversion HF; assumption.
Qed.

Lemma increasing_tail : forall l a, increasing (a :: l) -> increasing l.
Proof. intros l a H. destruct H as [_ H]. exact H. Qed.

Lemma select_Forall : forall (A : Type) (P : A -> Prop) flags (l : list A), Forall P l -> Forall P (select flags l).
Proof.
  intros A P flags l. revert flags. induction l as [ | x l IH ]; intros [ | b flags ] H; cbn [select]; try constructor.
  inversion H as [ | ? ? Hx Hl ]; subst. destruct b; [ constructor; [ exact Hx | apply IH; exact Hl ] | apply IH; exact Hl ].
Qed.

(* a sub-list of an increasing list is increasing *)
Lemma select_increasing : forall flags l, increasing l -> increasing (select flags l).
Proof.
  intros flags l. revert flags. induction l as [ | x l IH ]; intros [ | b flags ] H; cbn [select]; try exact I.
  destruct b.
  - apply increasing_cons; [ apply select_Forall; apply increasing_lower_bound; exact H | apply IH; eapply increasing_tail; exact H ].
  - apply IH. eapply increasing_tail. exact H.
Qed.

Lemma bsum_zeros : forall (l : list Q), bsum (map (fun _ => 0) l) == 0.
Proof. induction l as [ | x l IH ]; [ reflexivity | ]. cbn [map]. rewrite bsum_cons. rewrite IH. lra. Qed.

(* both feature groups of an hour together: they hold the temperature once (in the group of the hour's occupancy
   mode), the other group is zero *)
Lemma occupancy_features_sum_l : forall (b : bool) (t : Q) eo eu, increasing eo -> increasing eu ->
  let ou := occupancy_split QOps (Some b) (Some t) eo eu in
  exists o u, fst ou = map Some o /\ snd ou = map Some u /\ bsum o + bsum u == t /\
              (if b then Forall (fun x => x = 0) u else Forall (fun x => x = 0) o).
Proof.
  intros b t eo eu Ho Hu. unfold occupancy_split, zeros, bin_features_opt. destruct b; cbn [fst snd].
  - exists (qbins t eo), (map (fun _ => 0) (qbins t eu)). repeat split.
    + rewrite !map_map. reflexivity.
    + rewrite bsum_zeros. rewrite (bins_sum_to_T_l t eo Ho). lra.
    + apply Forall_forall. intros x Hx. apply in_map_iff in Hx. destruct Hx as [y [Hy _]]. symmetry. exact Hy.
  - exists (map (fun _ => 0) (qbins t eo)), (qbins t eu). repeat split.
    + rewrite !map_map. reflexivity.
    + rewrite bsum_zeros. rewrite (bins_sum_to_T_l t eu Hu). lra.
    + apply Forall_forall. intros x Hx. apply in_map_iff in Hx. destruct Hx as [y [Hy _]]. symmetry. exact Hy.
Qed.

(* ------------------------------------------------------------------------------------------------ *)
(* F. drop_zero_weight_segments: only all-zero columns go                                            *)
(* ------------------------------------------------------------------------------------------------ *)

Lemma existsb_false_in : forall (A : Type) (f : A -> bool) l x, existsb f l = false -> In x l -> f x = false.
Proof.
  intros A f l x H Hx. destruct (f x) eqn:E; [ | reflexivity ].
  assert (existsb f l = true) by (apply existsb_exists; exists x; split; assumption). congruence.
Qed.

(* every (hour, segment) with a weight above zero survives the filter *)
Lemma drop_keeps_positive : forall present t s m, In s t -> In m present -> Qle_bool (seg_weight s m) 0 = false ->
  In s (dropped_table present t).
Proof.
  intros present t s m Hs Hm Hw. unfold dropped_table. apply filter_In. split; [ exact Hs | ].
  unfold kept_segment. apply existsb_exists. exists m. split; [ exact Hm | ]. rewrite Hw. reflexivity.
Qed.

(* a dropped column has no weight above zero on any hour of the index *)
Lemma dropped_nowhere_positive : forall present s m, kept_segment present s = false -> In m present ->
  seg_weight s m <= 0.
Proof.
  intros present s m Hk Hm. unfold kept_segment in Hk. pose proof (existsb_false_in _ _ _ _ Hk Hm) as E. cbn beta in E.
  apply negb_false_iff in E. apply Qle_bool_iff. exact E.
Qed.

(* so, for an hour of the index, the weights above zero are the same with and without the filter *)
Lemma drop_preserves_positive_row : forall present t m, In m present ->
  positive_row (dropped_table present t) m = positive_row t m.
Proof.
  intros present t m Hm. unfold positive_row, dropped_table, row_weights.
  induction t as [ | s t IH ]; [ reflexivity | ]. cbn [filter map].
  destruct (kept_segment present s) eqn:K.
  - cbn [map filter snd]. destruct (negb (Qle_bool (seg_weight s m) 0)); rewrite IH; reflexivity.
  - cbn [snd]. pose proof (dropped_nowhere_positive present s m K Hm) as Hle. apply Qle_bool_iff in Hle. rewrite Hle. cbn [negb]. exact IH.
Qed.
