(* The table read from the source on this run (Generated/HourlyPrepGen.v) against Model/HourlyPrepTable.v. *)
From Coq Require Import ZArith List Bool.
From V Require Import Model.HourlyPrep Model.HourlyPrepTable Proofs.HourlyPrepTableProofs Generated.HourlyPrepGen.
Import ListNotations.
Open Scope Z_scope.

(* the structure of the source, where the translator could read it, is one for which the interpreted table is the model *)
Definition source_accepted : Prop :=
  match gen_pipeline with Some p => accepted p = true | None => True end.

Lemma gen_pipeline_accepted_l : source_accepted.
Proof. unfold source_accepted. vm_compute. first [reflexivity | exact I]. Qed.

Lemma gen_pipeline_is_model_l : forall p, gen_pipeline = Some p ->
  forall A (is_zero : A -> bool) lin est elec bnds e (rows : list (row A)) c,
    prep_col_by is_zero lin est p elec bnds e rows c = prep_col is_zero lin est elec bnds e rows c.
Proof.
  intros p E. pose proof gen_pipeline_accepted_l as H. unfold source_accepted in H. rewrite E in H.
  intros. apply prep_col_by_accepted. exact H.
Qed.
