(* Lemmas about stored daily / billing models (Model/DailyDoc.v, Model/DocSchema.v, Model/Json.v).
   The theorems of Properties/C01.v (daily / billing part) are these lemmas. *)
From Coq Require Import ZArith List Bool String PrimFloat.
From V Require Import Model.Num Model.NumF Model.DailyCurve Model.Json Model.DocSchema Model.DailyDoc.
Import ListNotations.
Open Scope string_scope.

(* ---------------------------------------------------------------- generic *)

Lemma opt_all_map_inv : forall {A B} (f : B -> option A) (g : A -> B) (l : list A),
  (forall x, In x l -> f (g x) = Some x) -> opt_all (map f (map g l)) = Some l.
Proof.
  intros A B f g l. induction l as [|x l IH]; intros H; cbn.
  - reflexivity.
  - rewrite (H x (or_introl eq_refl)). rewrite IH; [reflexivity|].
    intros y Hy. apply H. right. exact Hy.
Qed.

Lemma get_set_other : forall k k' v o, String.eqb k' k = false -> get k' (set k v o) = get k' o.
Proof.
  intros k k' v o Hk. induction o as [|[k0 v0] o IH]; cbn.
  - rewrite Hk. reflexivity.
  - destruct (String.eqb k k0) eqn:E; cbn.
    + apply String.eqb_eq in E. subst k0. rewrite Hk. reflexivity.
    + destruct (String.eqb k' k0); [reflexivity | exact IH].
Qed.

Lemma get_set_same : forall k v o, get k (set k v o) = Some v.
Proof.
  intros k v o. induction o as [|[k0 v0] o IH]; cbn.
  - rewrite String.eqb_refl. reflexivity.
  - destruct (String.eqb k k0) eqn:E; cbn.
    + rewrite String.eqb_refl. reflexivity.
    + rewrite E. exact IH.
Qed.

(* ---------------------------------------------------------------- a proper induction principle for schemas *)

Section SfieldInd.
Variable P : sfield -> Prop.
Hypothesis Hleaf : forall n d df k, P (SLeaf n d df k).
Hypothesis Hnest : forall n sub, Forall P sub -> P (SNest n sub).
Fixpoint sfield_ind' (f : sfield) : P f :=
  match f with
  | SLeaf n d df k => Hleaf n d df k
  | SNest n sub =>
      Hnest n sub ((fix go (l : list sfield) : Forall P l :=
                      match l with
                      | [] => Forall_nil P
                      | x :: r => Forall_cons x (sfield_ind' x) (go r)
                      end) sub)
  end.
End SfieldInd.

Lemma accepts_nest_unfold : forall dev name sub obj,
  accepts_field dev (SNest name sub) obj =
  match get name obj with
  | Some (JObj o) => forallb (fun g => accepts_field dev g o) sub
  | None => forallb (fun g => accepts_field dev g []) sub
  | Some _ => false
  end.
Proof.
  intros dev name sub obj. cbn [accepts_field].
  assert (E : forall o, (fix go (l : list sfield) : bool :=
                           match l with [] => true | g :: r => accepts_field dev g o && go r end) sub
                        = forallb (fun g => accepts_field dev g o) sub).
  { intros o. induction sub as [|g r IH]; cbn; [reflexivity | rewrite IH; reflexivity]. }
  destruct (get name obj) as [[]|]; try reflexivity; apply E.
Qed.

(* developer mode only ever relaxes the lock *)
Lemma accepts_field_mono : forall f obj, accepts_field false f obj = true -> accepts_field true f obj = true.
Proof.
  intros f. induction f as [n d df k | n sub IH] using sfield_ind'; intros obj H.
  - cbn in *. apply andb_true_iff in H. destruct H as [H1 _]. rewrite H1. reflexivity.
  - assert (G : forall o, forallb (fun g => accepts_field false g o) sub = true ->
                          forallb (fun g => accepts_field true g o) sub = true).
    { clear H. intros o. induction IH as [|g r Hg _ IHr]; cbn; [auto|].
      intros Hf. apply andb_true_iff in Hf. destruct Hf as [A B].
      rewrite (Hg o A), (IHr B). reflexivity. }
    rewrite accepts_nest_unfold in *.
    destruct (get n obj) as [[]|]; try exact H; apply G; exact H.
Qed.

Lemma accepts_field_mono_any : forall dev f obj, accepts_field dev f obj = true -> accepts_field true f obj = true.
Proof. intros [] f obj H; [exact H | apply accepts_field_mono; exact H]. Qed.

(* the top-level field developer_mode is an open boolean leaf, wherever the schema mentions that name *)
Definition dev_leaf_ok_field (f : sfield) : bool :=
  match f with
  | SLeaf n developer _ k =>
      if String.eqb n "developer_mode" then negb developer && match k with KBool => true | _ => false end else true
  | SNest n _ => negb (String.eqb n "developer_mode")
  end.
Definition dev_leaf_ok (sch : schema) : bool := forallb dev_leaf_ok_field sch.

Lemma accepts_field_force : forall dev f obj,
  dev_leaf_ok_field f = true -> accepts_field dev f obj = true ->
  accepts_field true f (set "developer_mode" (JBool true) obj) = true.
Proof.
  intros dev f obj Hok H. destruct f as [n d df k | n sub].
  - cbn in Hok. cbn [accepts_field]. destruct (String.eqb n "developer_mode") eqn:E.
    + apply String.eqb_eq in E. subst n. rewrite get_set_same.
      apply andb_true_iff in Hok. destruct Hok as [_ Hk]. destruct k; try discriminate. reflexivity.
    + rewrite get_set_other by exact E.
      pose proof (accepts_field_mono_any dev (SLeaf n d df k) obj H) as H'. cbn [accepts_field] in H'. exact H'.
  - cbn in Hok. apply negb_true_iff in Hok.
    pose proof (accepts_field_mono_any dev (SNest n sub) obj H) as H'.
    rewrite accepts_nest_unfold in *. rewrite get_set_other by exact Hok. exact H'.
Qed.

Lemma sub_obj_set_other : forall k obj, String.eqb k "developer_mode" = false ->
  sub_obj k (set "developer_mode" (JBool true) obj) = sub_obj k obj.
Proof. intros k obj H. unfold sub_obj. rewrite get_set_other by exact H. reflexivity. Qed.

Lemma fieldv_set_other : forall sch obj name, String.eqb name "developer_mode" = false ->
  fieldv sch (set "developer_mode" (JBool true) obj) name = fieldv sch obj name.
Proof. intros sch obj name H. unfold fieldv. rewrite get_set_other by exact H. reflexivity. Qed.

Lemma cross_ok_force : forall sch obj, cross_ok sch (set "developer_mode" (JBool true) obj) = cross_ok sch obj.
Proof.
  intros sch obj. unfold cross_ok. rewrite !fieldv_set_other by reflexivity. rewrite sub_obj_set_other by reflexivity. reflexivity.
Qed.

(* BillingModel.to_dict's forced flag never turns an accepted tree into a rejected one *)
Lemma accepts_force_dev : forall sch st, dev_leaf_ok sch = true -> accepts sch st = true ->
  accepts sch (force_dev st) = true.
Proof.
  intros sch st Hok H. destruct st; try discriminate H. cbn [force_dev]. unfold accepts in *.
  apply andb_true_iff in H. destruct H as [H H4]. apply andb_true_iff in H. destruct H as [H H3].
  apply andb_true_iff in H. destruct H as [H1 H2].
  rewrite !sub_obj_set_other by reflexivity. rewrite cross_ok_force. rewrite H2, H3, H4, !andb_true_r.
  unfold dev_mode at 1. rewrite get_set_same.
  unfold accepts_fields in *. unfold dev_leaf_ok in Hok.
  rewrite forallb_forall in *. intros f Hf.
  apply (accepts_field_force (dev_mode l)); [apply Hok; exact Hf | apply H1; exact Hf].
Qed.

Lemma season_map_force : forall sch st, season_map sch (force_dev st) = season_map sch st.
Proof.
  intros sch st. destruct st; try reflexivity. unfold season_map, read_map. cbn [force_dev].
  rewrite sub_obj_set_other by reflexivity. reflexivity.
Qed.
Lemma weekday_map_force : forall sch st, weekday_map sch (force_dev st) = weekday_map sch st.
Proof.
  intros sch st. destruct st; try reflexivity. unfold weekday_map, read_map. cbn [force_dev].
  rewrite sub_obj_set_other by reflexivity. reflexivity.
Qed.

Lemma set_set : forall k v o, set k v (set k v o) = set k v o.
Proof.
  intros k v o. induction o as [|[k0 v0] o IH]; cbn.
  - rewrite String.eqb_refl. reflexivity.
  - destruct (String.eqb k k0) eqn:E; cbn.
    + rewrite String.eqb_refl. reflexivity.
    + rewrite E, IH. reflexivity.
Qed.
Lemma force_dev_idem : forall st, force_dev (force_dev st) = force_dev st.
Proof. intros st. destruct st; try reflexivity. cbn. rewrite set_set. reflexivity. Qed.

(* ---------------------------------------------------------------- encode / decode of the parameter part *)

Definition wf_warning (w : warning) : Prop :=
  match w_data w with JObj _ | JArr _ => True | _ => False end.

Definition wf_state (s : daily_state) : Prop :=
  Forall wf_warning (ds_dq s) /\ Forall wf_warning (ds_warnings s).

Lemma shape_string_inv : forall sh, shape_of_string (string_of_shape sh) = Some sh.
Proof. intros []; reflexivity. Qed.

Lemma string_of_shape_inj : forall a b, string_of_shape a = string_of_shape b -> a = b.
Proof.
  intros a b H. pose proof (shape_string_inv a) as Ha. rewrite H, shape_string_inv in Ha. congruence.
Qed.

Lemma opt_float_inv : forall o, as_opt_float (jopt_float o) = Some o.
Proof. intros [f|]; reflexivity. Qed.

Lemma parse_coeffs_doc : forall c, parse_coeffs (coeffs_doc c) = Some c.
Proof.
  intros [mt i hb hbeta hk cb cbeta ck]. unfold parse_coeffs, coeffs_doc, opt_field, field.
  cbn [get String.eqb Ascii.eqb Bool.eqb bind as_string as_float model_type intercept hdd_bp hdd_beta hdd_k
       cdd_bp cdd_beta cdd_k].
  rewrite shape_string_inv. cbn [bind]. rewrite !opt_float_inv. reflexivity.
Qed.

Lemma parse_tc_doc : forall tc, parse_tc (tc_doc tc) = Some tc.
Proof. intros [a b c d]. reflexivity. Qed.

Lemma parse_submodel_doc : forall sm, parse_submodel (submodel_doc sm) = Some sm.
Proof.
  intros [k c tc u]. unfold parse_submodel, submodel_doc, field.
  cbn [get String.eqb Ascii.eqb Bool.eqb bind sm_key sm_c sm_tc sm_func].
  rewrite parse_coeffs_doc. cbn [bind]. rewrite parse_tc_doc. reflexivity.
Qed.

Lemma parse_warning_doc : forall w, wf_warning w -> parse_warning (warning_doc w) = Some w.
Proof.
  intros [n d x] H. unfold wf_warning in H. cbn in H. unfold parse_warning, warning_doc. cbn.
  destruct x; try contradiction; reflexivity.
Qed.

Lemma parse_warnings_doc : forall l, Forall wf_warning l ->
  parse_warnings (Some (JArr (map warning_doc l))) = Some l.
Proof.
  intros l H. cbn. apply opt_all_map_inv. intros w Hw. apply parse_warning_doc.
  rewrite Forall_forall in H. apply H. exact Hw.
Qed.

(* ---------------------------------------------------------------- the round trip *)

Section RoundTrip.
Variable cur leg : schema.

Definition with_settings (s : daily_state) (st : json) : daily_state :=
  {| ds_subs := ds_subs s; ds_error := ds_error s; ds_tz := ds_tz s; ds_dq := ds_dq s;
     ds_warnings := ds_warnings s; ds_settings := st |}.

(* one settings class reading back what to_dict wrote: everything is restored as soon as the settings are accepted *)
Lemma one_class_to_doc : forall c c' s, wf_state s ->
  from_doc_one_class cur leg c (to_doc c' s) =
  if accepts (schema_of cur leg c) (settings_out c' (ds_settings s))
  then Some (with_settings s (settings_out c' (ds_settings s))) else None.
Proof.
  intros c c' s [Hdq Hws]. unfold from_doc_one_class, to_doc. cbn [field get String.eqb Ascii.eqb Bool.eqb bind].
  destruct (accepts (schema_of cur leg c) (settings_out c' (ds_settings s))); cbn [negb]; [|reflexivity].
  cbn [as_obj bind].
  rewrite (opt_all_map_inv parse_submodel submodel_doc) by (intros; apply parse_submodel_doc).
  cbn [bind field get String.eqb Ascii.eqb Bool.eqb as_string].
  rewrite (parse_warnings_doc _ Hdq). cbn [bind]. rewrite (parse_warnings_doc _ Hws). cbn [bind].
  reflexivity.
Qed.

Lemma with_settings_same : forall s, with_settings s (ds_settings s) = s.
Proof. intros []. reflexivity. Qed.

(* from_dict as coded (with the legacy fallback of DailyModel) on to_dict's document, in closed form *)
Lemma from_doc_to_doc : forall c s, wf_state s ->
  from_doc cur leg c (to_doc c s) =
  match c with
  | Daily => if accepts cur (ds_settings s) || accepts leg (ds_settings s) then Some s else None
  | Billing => if accepts leg (force_dev (ds_settings s)) then Some (with_settings s (force_dev (ds_settings s))) else None
  end.
Proof.
  intros c s Hwf. unfold from_doc. rewrite (one_class_to_doc c c s Hwf). destruct c; cbn [schema_of settings_out].
  - destruct (accepts cur (ds_settings s)); cbn [orb]; [rewrite with_settings_same; reflexivity|].
    rewrite (one_class_to_doc Billing Daily s Hwf). cbn [schema_of settings_out].
    destruct (accepts leg (ds_settings s)); [rewrite with_settings_same|]; reflexivity.
  - destruct (accepts leg (force_dev (ds_settings s))); reflexivity.
Qed.

Lemma to_doc_with_settings_billing : forall s,
  to_doc Billing (with_settings s (force_dev (ds_settings s))) = to_doc Billing s.
Proof. intros s. unfold to_doc, with_settings. cbn. rewrite force_dev_idem. reflexivity. Qed.

(* the full list of what the statement asks of a reloaded daily / billing model *)
Definition restores (c : mclass) (s s' : daily_state) : Prop :=
  to_doc c s' = to_doc c s /\
  (forall k T, predict_sub s' k T = predict_sub s k T) /\
  maps_of (schema_of cur leg c) s' = maps_of (schema_of cur leg c) s /\
  (* every day is routed to the same sub-model(s) and predicted identically: the routing maps are the stored ones *)
  (forall month dow T, predict_day (maps_of (schema_of cur leg c) s') s' month dow T =
                       predict_day (maps_of (schema_of cur leg c) s) s month dow T) /\
  ds_tz s' = ds_tz s /\ ds_warnings s' = ds_warnings s /\ ds_dq s' = ds_dq s.

Lemma restores_refl : forall c s, restores c s s.
Proof. intros c s. repeat split. Qed.

(* DailyModel, any profile: restored as soon as one of the two settings classes accepts the stored tree *)
Lemma daily_roundtrip_l : forall s, wf_state s ->
  accepts cur (ds_settings s) = true \/ accepts leg (ds_settings s) = true ->
  exists s', from_doc cur leg Daily (to_doc Daily s) = Some s' /\ restores Daily s s'.
Proof.
  intros s Hwf Hacc. exists s. split; [|apply restores_refl].
  rewrite (from_doc_to_doc Daily s Hwf). destruct Hacc as [H|H]; rewrite H; [|rewrite orb_true_r]; reflexivity.
Qed.

Lemma daily_roundtrip_iff : forall s, wf_state s ->
  (from_doc cur leg Daily (to_doc Daily s) = Some s <-> accepts cur (ds_settings s) || accepts leg (ds_settings s) = true).
Proof.
  intros s Hwf. rewrite (from_doc_to_doc Daily s Hwf).
  destruct (accepts cur (ds_settings s) || accepts leg (ds_settings s)); split; intros; try reflexivity; discriminate.
Qed.

Lemma billing_roundtrip_l : forall s, wf_state s -> dev_leaf_ok leg = true -> accepts leg (ds_settings s) = true ->
  exists s', from_doc cur leg Billing (to_doc Billing s) = Some s' /\ restores Billing s s'.
Proof.
  intros s Hwf Hok Hacc. exists (with_settings s (force_dev (ds_settings s))).
  rewrite (from_doc_to_doc Billing s Hwf).
  rewrite (accepts_force_dev leg _ Hok Hacc). split; [reflexivity|].
  assert (Hmaps : maps_of (schema_of cur leg Billing) (with_settings s (force_dev (ds_settings s))) =
                  maps_of (schema_of cur leg Billing) s).
  { unfold maps_of, with_settings. cbn [ds_settings]. rewrite season_map_force, weekday_map_force. reflexivity. }
  unfold restores. split; [apply to_doc_with_settings_billing|].
  split; [intros; reflexivity|]. split; [exact Hmaps|]. split; [|repeat split].
  intros month dow T. rewrite Hmaps. reflexivity.
Qed.

(* regression witness model: a reader WITHOUT the legacy fallback (the code before /repo 394645be) restores a
   DailyModel document exactly when the current class accepts its settings *)
Lemma one_class_roundtrip_iff : forall s, wf_state s ->
  (from_doc_one_class cur leg Daily (to_doc Daily s) = Some s <-> accepts cur (ds_settings s) = true) /\
  (from_doc_one_class cur leg Daily (to_doc Daily s) = None <-> accepts cur (ds_settings s) = false).
Proof.
  intros s Hwf. rewrite (one_class_to_doc Daily Daily s Hwf). cbn [schema_of settings_out].
  destruct (accepts cur (ds_settings s)).
  - rewrite with_settings_same. split; split; intros; try reflexivity; discriminate.
  - split; split; intros; try reflexivity; discriminate.
Qed.

(* ---- any document the class reads: the object it yields is a fixed point of to_dict / from_dict *)
Lemma parse_warning_wf : forall j w, parse_warning j = Some w -> wf_warning w.
Proof.
  intros j w H. unfold parse_warning in H.
  destruct (bind (field "qualified_name" j) as_string); [|discriminate]. cbn [bind] in H.
  destruct (bind (field "description" j) as_string); [|discriminate]. cbn [bind] in H.
  destruct (field "data" j) as [x|]; [|discriminate]. cbn [bind] in H.
  destruct x; try discriminate; injection H as <-; exact I.
Qed.

Lemma opt_all_forall : forall {A B} (f : A -> option B) (P : B -> Prop) (l : list A) (r : list B),
  (forall a b, f a = Some b -> P b) -> opt_all (map f l) = Some r -> Forall P r.
Proof.
  intros A B f P l. induction l as [|a l IH]; intros r H Hr; cbn in Hr.
  - injection Hr as <-. constructor.
  - destruct (f a) as [b|] eqn:E; [|discriminate]. destruct (opt_all (map f l)) as [r'|] eqn:E'; [|discriminate].
    injection Hr as <-. constructor; [apply (H a b E) | apply IH; [exact H | reflexivity]].
Qed.

Lemma parse_warnings_wf : forall j l, parse_warnings j = Some l -> Forall wf_warning l.
Proof.
  intros j l H. unfold parse_warnings in H. destruct j as [[]|]; try discriminate; try (injection H as <-; constructor).
  exact (opt_all_forall parse_warning wf_warning _ _ parse_warning_wf H).
Qed.

Lemma one_class_inv : forall c d s, from_doc_one_class cur leg c d = Some s ->
  wf_state s /\ accepts (schema_of cur leg c) (ds_settings s) = true.
Proof.
  intros c d s H. unfold from_doc_one_class in H.
  destruct (field "settings" d) as [st|]; [|discriminate]. cbn [bind] in H.
  destruct (accepts (schema_of cur leg c) st) eqn:Eacc; cbn [negb] in H; [|discriminate].
  destruct (bind (bind (field "submodels" d) as_obj) (fun l => opt_all (map parse_submodel l))); [|discriminate]. cbn [bind] in H.
  destruct (field "info" d) as [info|]; [|discriminate]. cbn [bind] in H.
  destruct (field "error" info); [|discriminate]. cbn [bind] in H.
  destruct (bind (field "baseline_timezone" info) as_string); [|discriminate]. cbn [bind] in H.
  destruct (parse_warnings (field "disqualification" info)) as [dq|] eqn:Edq; [|discriminate]. cbn [bind] in H.
  destruct (parse_warnings (field "warnings" info)) as [ws|] eqn:Ews; [|discriminate]. cbn [bind] in H.
  injection H as <-. cbn. split; [split; [exact (parse_warnings_wf _ _ Edq) | exact (parse_warnings_wf _ _ Ews)] | exact Eacc].
Qed.

Lemma reload_stable_l : forall c d s, dev_leaf_ok leg = true -> from_doc cur leg c d = Some s ->
  exists s', from_doc cur leg c (to_doc c s) = Some s' /\ restores c s s'.
Proof.
  intros c d s Hok H. unfold from_doc in H. destruct c.
  - destruct (from_doc_one_class cur leg Daily d) as [s0|] eqn:E.
    + injection H as <-. destruct (one_class_inv Daily d s0 E) as [Hwf Hacc]. apply daily_roundtrip_l; [exact Hwf | left; exact Hacc].
    + destruct (one_class_inv Billing d s H) as [Hwf Hacc]. apply daily_roundtrip_l; [exact Hwf | right; exact Hacc].
  - destruct (from_doc_one_class cur leg Billing d) as [s0|] eqn:E; [|discriminate]. injection H as <-.
    destruct (one_class_inv Billing d s0 E) as [Hwf Hacc]. exact (billing_roundtrip_l s0 Hwf Hok Hacc).
Qed.

End RoundTrip.
