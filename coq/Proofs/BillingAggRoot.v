(* C19 — the uncertainty column with its square root, over the real numbers.
   Model/BillingAgg.v keeps the squared uncertainty of a period (a rational); the code returns its square root
   (np.sqrt(np.sum(np.square(x)))).  Here: unc_of o = sqrt (a_uncsq o) is the returned value, and the
   root-sum-square of the returned values over the whole span equals the root-sum-square of the daily values. *)
From Coq Require Import ZArith QArith Reals Qreals List Lra.
From V Require Import Model.BillingAgg Proofs.BillingAggProofs.
Import ListNotations.
Open Scope R_scope.

Definition rsum (l : list R) : R := fold_right Rplus 0 l.
Definition unc_of (o : arow) : R := sqrt (Q2R (a_uncsq o)).          (* predicted_unc of an aggregated row *)
Definition rss (l : list R) : R := sqrt (rsum (map Rsqr l)).          (* root-sum-square of a column *)

Lemma Q2R_qsum : forall l, Q2R (qsum l) = rsum (map Q2R l).
Proof.
  induction l as [|x l IH]; [unfold qsum, rsum; cbn; lra|].
  rewrite (Qeq_eqR _ _ (qsum_cons x l)), Q2R_plus, IH. reflexivity.
Qed.

Lemma aggregate_uncsq_nonneg : forall k rows o, In o (aggregate k rows) -> (0 <= a_uncsq o)%Q.
Proof.
  intros k rows o Ho. unfold aggregate in Ho.
  destruct (min_month rows) as [m0|]; [|destruct Ho]. destruct (max_month rows) as [m1|]; [|destruct Ho].
  apply in_map_iff in Ho. destruct Ho as [j [E _]]. subst o. cbn [agg_row a_uncsq]. apply nansum_sq_nonneg.
Qed.

Lemma rsum_sqr_unc : forall l, (forall o, In o l -> (0 <= a_uncsq o)%Q) ->
  rsum (map Rsqr (map unc_of l)) = rsum (map Q2R (map a_uncsq l)).
Proof.
  induction l as [|o l IH]; intros H; [reflexivity|].
  cbn [map rsum fold_right]. fold (rsum (map Rsqr (map unc_of l))). fold (rsum (map Q2R (map a_uncsq l))).
  rewrite IH by (intros x Hx; apply H; right; exact Hx). f_equal.
  unfold unc_of. apply Rsqr_sqrt. replace 0 with (Q2R 0) by (unfold Q2R; cbn; lra).
  apply Qle_Rle. apply H. left. reflexivity.
Qed.

(* the root-sum-square of the aggregated uncertainty column = the root of the daily sum of squares *)
Lemma rss_conserved : forall k rows, (0 < k)%Z ->
  rss (map unc_of (aggregate k rows)) = sqrt (Q2R (sumsq (map d_unc rows))).
Proof.
  intros k rows Hk. unfold rss. f_equal.
  rewrite (rsum_sqr_unc _ (aggregate_uncsq_nonneg k rows)), <- Q2R_qsum.
  apply Qeq_eqR. apply totals_uncertainty_sq. exact Hk.
Qed.

Lemma rss_same_at_every_level : forall rows,
  rss (map unc_of (aggregate 1 rows)) = rss (map unc_of (aggregate 2 rows)).
Proof. intros. rewrite !rss_conserved by reflexivity. reflexivity. Qed.
