(* Lemmas about Model/HourlyPrepTable.v: an [accepted] table, interpreted, is the model of Model/HourlyPrep.v. *)
From Coq Require Import ZArith List Bool Lia.
From V Require Import Model.HourlyPrep Model.HourlyPrepTable Proofs.HourlyPrepProofs.
Import ListNotations.
Open Scope Z_scope.

Section ByTable.
  Variable A : Type.
  Variable is_zero : A -> bool.
  Variable lin : A -> A -> Z -> Z -> A.
  Variable est : colname -> col A -> col A.

  (* ---------------------------------------------------------------- fall-back order *)
  Lemma value_or_empty : forall x : col A, has_value A x \/ all_missing A x.
  Proof.
    induction x as [|c x IH]; [right; constructor|].
    destruct c as [v|]; [left; exists v; left; reflexivity|].
    destruct IH as [[v Hv] | Hm]; [left; exists v; right; exact Hv | right; constructor; auto].
  Qed.

  (* a column on which every remaining fall-back is idle: complete, or empty *)
  Definition settled (z : col A) : Prop := has_missing z = false \/ all_missing A z.

  Lemma after_time_settled : forall x, settled (if has_missing x then time_linear lin x else x).
  Proof.
    intros x. destruct (has_missing x) eqn:E; [|left; exact E].
    destruct (value_or_empty x) as [Hv | Hm].
    - left. apply has_missing_false. apply time_linear_complete. exact Hv.
    - right. rewrite time_linear_all_missing by exact Hm. exact Hm.
  Qed.

  Lemma fills_idle : forall rest z, forallb is_fill rest = true -> settled z ->
    fold_left (fun x f => if has_missing x then apply_fallback lin f x else x) rest z = z.
  Proof.
    induction rest as [|f rest IH]; intros z F S; [reflexivity|].
    cbn [forallb] in F. apply andb_prop in F. destruct F as [F1 F2]. cbn [fold_left].
    assert (E : (if has_missing z then apply_fallback lin f z else z) = z).
    { destruct S as [S | S]; [rewrite S; reflexivity|].
      destruct (has_missing z); [|reflexivity].
      destruct f as [d| |]; [discriminate | apply ffill_all_missing; exact S | apply bfill_all_missing; exact S]. }
    rewrite E. apply IH; assumption.
  Qed.

  Lemma model_fills_idle : forall z, settled z ->
    (let x2 := if has_missing z then ffill z else z in if has_missing x2 then bfill x2 else x2) = z.
  Proof.
    intros z [S | S]; cbn zeta.
    - rewrite S. rewrite S. reflexivity.
    - assert (E : (if has_missing z then ffill z else z) = z) by (destruct (has_missing z); [apply ffill_all_missing; exact S | reflexivity]).
      rewrite E. destruct (has_missing z); [apply bfill_all_missing; exact S | reflexivity].
  Qed.

  (* the time method (both directions) first, then ffill / bfill in any order and number: the model's fall-backs *)
  Lemma fallbacks_by_accepted : forall rest x, forallb is_fill rest = true ->
    fallbacks_by lin (FTime LBoth :: rest) x = fallbacks lin x.
  Proof.
    intros rest x F. unfold fallbacks_by, fallbacks. cbn [fold_left apply_fallback].
    rewrite (fills_idle rest _ F (after_time_settled x)).
    symmetry. apply (model_fills_idle _ (after_time_settled x)).
  Qed.

  (* ---------------------------------------------------------------- zero rule and duplicate removal commute *)
  Lemma remove_dups_from_map : forall (f : row A -> row A), (forall r, ts (f r) = ts r) ->
    forall l seen, remove_dups_from seen (map f l) = map f (remove_dups_from seen l).
  Proof.
    intros f Hf. induction l as [|r l IH]; intros seen; [reflexivity|].
    cbn [map remove_dups_from]. rewrite Hf. destruct (existsb (Z.eqb (ts r)) seen); [apply IH|].
    cbn [map]. rewrite IH. reflexivity.
  Qed.

  Lemma zero_dedup_commute : forall elec rows,
    map (zero_to_nan is_zero elec) (remove_duplicates rows) = remove_duplicates (map (zero_to_nan is_zero elec) rows).
  Proof.
    intros. unfold remove_duplicates. symmetry. apply remove_dups_from_map. intros r. reflexivity.
  Qed.

  (* ---------------------------------------------------------------- the interpreted table is the model *)
  Lemma prep_col_range_by_accepted : forall p elec lo hi rows c, accepted p = true ->
    prep_col_range_by is_zero lin est p elec lo hi rows c = prep_col_range is_zero lin est elec lo hi rows c.
  Proof.
    intros [mr fb k rs tci zc zo zk zg fh lh fq fl] elec lo hi rows c H.
    unfold accepted in H. cbn [p_min_rows p_fallbacks p_keep p_row_steps p_then_contiguous_interpolate p_zero_col p_zero_op
                              p_zero_const p_zero_guarded p_first_hour p_last_hour p_freq_minutes p_flag] in H.
    repeat (apply andb_prop in H; let H' := fresh "G" in destruct H as [H H']).
    apply Z.eqb_eq in H. subst mr.
    destruct fb as [|[[| |]| |] rest]; try discriminate.
    destruct k; try discriminate. destruct fl; try discriminate.
    unfold prep_col_range_by, prep_col_range.
    cbn [p_min_rows p_fallbacks p_keep p_row_steps p_flag]. cbn zeta.
    assert (R : fold_left (fun rs s => row_step is_zero elec KeepFirst s rs) rs rows =
                remove_duplicates (map (zero_to_nan is_zero elec) rows)).
    { destruct rs as [|[|] [|[|] [|]]]; try discriminate; cbn [fold_left row_step dedup_by]; [reflexivity | apply zero_dedup_commute]. }
    rewrite R. unfold interp_col, autocorr_stage, autocorr_stage_by, flags_by.
    rewrite fallbacks_by_accepted by assumption. reflexivity.
  Qed.

  Lemma prep_col_by_accepted : forall p elec bnds e rows c, accepted p = true ->
    prep_col_by is_zero lin est p elec bnds e rows c = prep_col is_zero lin est elec bnds e rows c.
  Proof.
    intros. unfold prep_col_by, prep_col. destruct (frame_range bnds e rows). apply prep_col_range_by_accepted. assumption.
  Qed.
End ByTable.

Lemma model_pipeline_accepted : accepted model_pipeline = true.
Proof. reflexivity. Qed.

(* tables that are NOT accepted, and why that matters: each is a change of behaviour on a concrete input *)
Definition tbl (fb : list fallback) (k : keep) (fl : flag_rule) (mr : Z) : pipeline :=
  mkpipeline mr fb k [RZero; RDedup] true Obs CmpEq 0 true 0 23 STEP fl.

Lemma keep_last_differs :
  prep_col_range_by zzero zlin id_est (tbl [FTime LBoth; FFfill; FBfill] KeepLast FlagMissingAndPresent 72) true 0 60
                    [R 0 (Some 1) None None; R 0 (Some 2) None None] Temp
  <> prep_col_range zzero zlin id_est true 0 60 [R 0 (Some 1) None None; R 0 (Some 2) None None] Temp.
Proof. vm_compute. congruence. Qed.

Lemma flag_missing_differs :
  prep_col_range_by zzero zlin id_est (tbl [FTime LBoth; FFfill; FBfill] KeepFirst FlagMissing 72) true 0 60
                    [R 0 None None None] Temp
  <> prep_col_range zzero zlin id_est true 0 60 [R 0 None None None] Temp.
Proof. vm_compute. congruence. Qed.

Lemma no_time_method_differs :
  prep_col_range_by zzero zlin id_est (tbl [FFfill; FBfill] KeepFirst FlagMissingAndPresent 72) true 0 120
                    [R 0 (Some 0) None None; R 120 (Some 4) None None] Temp
  <> prep_col_range zzero zlin id_est true 0 120 [R 0 (Some 0) None None; R 120 (Some 4) None None] Temp.
Proof. vm_compute. congruence. Qed.
