#!/bin/bash
# usage: ./run_all.sh [tier] [ids...]  — runs the registered checks one after the other, logs under $RUNALL_LOGDIR (default /var/tmp/runall/)
tier=${1:-quick}; shift
ids="$@"; [ -z "$ids" ] && ids=$(cat /verif/manifest.d/ENABLED)
L=${RUNALL_LOGDIR:-/var/tmp/runall}; mkdir -p $L
for c in $ids; do
  s=$(date +%s)
  ./check $c $tier > $L/$c.log 2>&1; rc=$?
  e=$(date +%s)
  echo "$c rc=$rc wall=$((e-s))s viol=$(grep -c '^VIOLATION' $L/$c.log) known=$(grep -c '^KNOWN-FINDING' $L/$c.log) $(grep 'done:' $L/$c.log | tail -1 | sed 's/.*done: //')"
done
