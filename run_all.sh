#!/bin/bash
# usage: ./run_all.sh [tier] [ids...]  — runs the registered checks one after the other, logs under /var/tmp/runall/
tier=${1:-quick}; shift
ids="$@"; [ -z "$ids" ] && ids=$(cat /verif/manifest.d/ENABLED)
mkdir -p /var/tmp/runall
for c in $ids; do
  s=$(date +%s)
  ./check $c $tier > /var/tmp/runall/$c.log 2>&1; rc=$?
  e=$(date +%s)
  echo "$c rc=$rc wall=$((e-s))s viol=$(grep -c '^VIOLATION' /var/tmp/runall/$c.log) known=$(grep -c '^KNOWN-FINDING' /var/tmp/runall/$c.log) $(grep 'done:' /var/tmp/runall/$c.log | tail -1 | sed 's/.*done: //')"
done
