"""C03 translator: seed / global-state plumbing of the fit paths, read from the source with `ast` (fail-closed).

Writes coq/Generated/ReproGen.v in the little data-flow language of coq/Model/ReproFlow.v:
  consumer_sites   every call that constructs / feeds a consumer of randomness (keyword random_state= / seed= / rng=, or a
                   callee imported from sklearn/scipy/numpy whose signature has such a parameter), with where the value comes from
  rng_uses         every use of a global generator (np.random.<fn>, python's random module), with its `seed is None` guard
  attr_assigns     every assignment  X._seed = ...
  bindings         for every function parameter a seed flows through: the argument at every call site
  mutable_defaults every list/dict/set default argument (and class-level mutable attribute), how the body uses it, and
                   whether every call site passes it explicitly
  default_algorithms, hourly defaults (pydantic introspection)
Anything it cannot read aborts generation (TranslatorError) -> reported by the check as a broken tie."""
import ast
import glob
import importlib
import inspect
import os
import sys

import vlib

OUT = "Generated/ReproGen.v"
RS_PARAMS = ("random_state", "seed", "rng")
# callables that only normalise a seed into a generator: the seed they receive is what matters
MUTATORS = {"append", "extend", "insert", "pop", "update", "setdefault", "clear", "remove", "sort", "reverse", "add",
            "discard", "popitem", "__setitem__"}
LOCAL_GENERATORS = {"default_rng", "RandomState", "Generator", "SeedSequence", "MT19937", "PCG64", "Philox", "SFC64",
                    "BitGenerator"}

SCAN_GLOBS = [
    "opendsm/eemeter/models/daily/*.py",
    "opendsm/eemeter/models/daily/base_models/*.py",
    "opendsm/eemeter/models/daily/utilities/*.py",
    "opendsm/eemeter/models/billing/*.py",
    "opendsm/eemeter/models/hourly/*.py",
    "opendsm/common/clustering/*.py",
    "opendsm/common/adaptive_loss.py",
    "opendsm/common/metrics.py",
    "opendsm/eemeter/common/sufficiency_criteria.py",
    "opendsm/eemeter/models/hourly_caltrack/model.py",
]
ORDER_EXTRA_GLOBS = ["opendsm/eemeter/models/hourly_caltrack/*.py", "opendsm/eemeter/common/*.py", "opendsm/common/*.py",
                     "opendsm/common/stats/*.py"]
SKIP = {"opendsm/eemeter/models/daily/plot.py", "opendsm/eemeter/models/billing/plot.py"}
# definitions outside every fit / predict path, not audited for mutable defaults (a weather download helper)
SKIP_DEFS = {"NREL_Weather_API"}


class TranslatorError(Exception):
    pass


def scanned_files():
    root = vlib.repo_root()
    out = []
    for g in SCAN_GLOBS:
        hits = sorted(glob.glob(os.path.join(root, g)))
        if not hits:
            raise TranslatorError("no file matches %s" % g)
        for p in hits:
            rel = os.path.relpath(p, root)
            if rel not in SKIP and rel not in out:
                out.append(rel)
    return out


# ------------------------------------------------------------------------------------------------ per-module facts

class Mod:
    def __init__(self, rel):
        self.rel = rel
        self.modname = rel[:-3].replace("/", ".")
        if self.modname.endswith(".__init__"):
            self.modname = self.modname[: -len(".__init__")]
        src = open(os.path.join(vlib.repo_root(), rel)).read()
        try:
            self.tree = ast.parse(src)
        except SyntaxError as e:
            raise TranslatorError("%s does not parse: %s" % (rel, e))
        self.parent = {}
        for n in ast.walk(self.tree):
            for c in ast.iter_child_nodes(n):
                self.parent[c] = n
        self.imports = {}         # local name -> dotted path
        for n in ast.walk(self.tree):
            if isinstance(n, ast.Import):
                for a in n.names:
                    self.imports[a.asname or a.name.split(".")[0]] = a.name if a.asname else a.name.split(".")[0]
            elif isinstance(n, ast.ImportFrom):
                base = n.module or ""
                if n.level:
                    pkg = self.modname.split(".")
                    if not rel.endswith("__init__.py"):
                        pkg = pkg[:-1]
                    pkg = pkg[: len(pkg) - (n.level - 1)]
                    base = ".".join(pkg + ([n.module] if n.module else []))
                for a in n.names:
                    if a.name == "*":
                        continue
                    self.imports[a.asname or a.name] = base + "." + a.name

    def qual(self, node):
        names = []
        n = node
        while n in self.parent:
            n = self.parent[n]
            if isinstance(n, (ast.FunctionDef, ast.AsyncFunctionDef, ast.ClassDef)):
                names.append(n.name)
        return ".".join(reversed(names)) or "<module>"

    def enclosing(self, node, kinds):
        n = node
        while n in self.parent:
            n = self.parent[n]
            if isinstance(n, kinds):
                return n
        return None


def dotted(node):
    parts = []
    while isinstance(node, ast.Attribute):
        parts.append(node.attr)
        node = node.value
    if isinstance(node, ast.Name):
        parts.append(node.id)
        return ".".join(reversed(parts))
    return None


def resolve_object(mod, node):
    """the Python object a callee expression denotes, through the module's imports (None when it is not an import)"""
    d = dotted(node)
    if d is None:
        return None
    head, *rest = d.split(".")
    if head not in mod.imports:
        return None
    path = mod.imports[head].split(".") + rest
    obj = None
    for i in range(len(path), 0, -1):
        try:
            obj = importlib.import_module(".".join(path[:i]))
        except Exception:  # noqa
            continue
        try:
            for a in path[i:]:
                obj = getattr(obj, a)
            return obj
        except Exception:  # noqa  (AttributeError, or a lazy sub-import that fails in this environment)
            return None
    return None


def is_pydantic(obj):
    try:
        import pydantic
        return isinstance(obj, type) and issubclass(obj, pydantic.BaseModel)
    except Exception:  # noqa
        return False


def rs_param_of(obj):
    try:
        sig = inspect.signature(obj)
    except (TypeError, ValueError):
        return None, None
    for p in RS_PARAMS:
        if p in sig.parameters:
            return p, list(sig.parameters)
    return None, None


# ------------------------------------------------------------------------------------------------ expression classifier

def is_np_random(mod, node):
    """node is the Attribute  <numpy alias>.random  or a name imported as numpy.random"""
    d = dotted(node)
    if d is None:
        return False
    head, *rest = d.split(".")
    if head not in mod.imports:
        return False
    full = ".".join([mod.imports[head]] + rest)
    return full == "numpy.random"


def global_rng_call_name(mod, node):
    """for an Attribute/Name node: the name of the global-generator function it denotes, or None"""
    if isinstance(node, ast.Attribute) and is_np_random(mod, node.value):
        return None if node.attr in LOCAL_GENERATORS else "np.random." + node.attr
    d = dotted(node)
    if d is None:
        return None
    head, *rest = d.split(".")
    if head in mod.imports:
        full = ".".join([mod.imports[head]] + rest)
        if full.startswith("numpy.random.") and full.split(".")[2] not in LOCAL_GENERATORS and len(full.split(".")) == 3:
            return "np.random." + full.split(".")[2]
        if full == "random" and not rest:
            return None
        if full.startswith("random.") and len(full.split(".")) == 2:
            return "random." + full.split(".")[1]
    return None


class FnCtx:
    def __init__(self, mod, fn):
        self.mod, self.fn = mod, fn
        self.params = []
        self.assigns = {}
        self.loopvars = set()
        if fn is not None:
            a = fn.args
            self.params = [x.arg for x in a.posonlyargs + a.args + a.kwonlyargs]
            for n in ast.walk(fn):
                if mod.enclosing(n, (ast.FunctionDef, ast.AsyncFunctionDef)) is not fn and n is not fn:
                    continue
                if isinstance(n, ast.Assign) and len(n.targets) == 1 and isinstance(n.targets[0], ast.Name):
                    self.assigns.setdefault(n.targets[0].id, []).append(n.value)
                elif isinstance(n, (ast.AugAssign, ast.AnnAssign)) and isinstance(n.target, ast.Name):
                    self.assigns.setdefault(n.target.id, []).append(None)
                elif isinstance(n, ast.For) and isinstance(n.target, ast.Name):
                    it = n.iter
                    if isinstance(it, ast.Call) and isinstance(it.func, ast.Name) and it.func.id == "range":
                        self.loopvars.add(n.target.id)
                    else:
                        self.assigns.setdefault(n.target.id, []).append(None)


def owner_of(ctx, node):
    """normalised owner of  <node>._seed : '' (the hourly settings object), 'elasticnet', 'temporal_cluster', or the text"""
    if isinstance(node, ast.Name) and node.id in ctx.assigns and len(ctx.assigns[node.id]) == 1 \
            and ctx.assigns[node.id][0] is not None and node.id not in ctx.params:
        return owner_of(ctx, ctx.assigns[node.id][0])
    d = dotted(node)
    if d is None:
        return ast.unparse(node)[:40]
    parts = d.split(".")
    if parts and parts[0] == "self":
        parts = parts[1:]
    if parts and parts[0] == "settings":
        parts = parts[1:]
    return ".".join(parts)


def classify(ctx, e, depth=0):
    """-> a term of ReproFlow.src, as a Python tuple"""
    if depth > 8:
        return ("SOther", "too deep")
    if isinstance(e, ast.Constant):
        if e.value is None:
            return ("SNone",)
        if isinstance(e.value, int) and not isinstance(e.value, bool):
            return ("SConst",)
        return ("SOther", repr(e.value)[:30])
    if isinstance(e, ast.Name):
        if e.id in ctx.loopvars:
            return ("SOther", "loop index " + e.id)
        if e.id in ctx.params and e.id not in ctx.assigns:
            return ("SParam", ctx.fn.name if ctx.fn else "<module>", e.id)
        if e.id in ctx.assigns and len(ctx.assigns[e.id]) == 1 and ctx.assigns[e.id][0] is not None \
                and e.id not in ctx.params:
            return classify(ctx, ctx.assigns[e.id][0], depth + 1)
        return ("SOther", "name " + e.id)
    if isinstance(e, ast.Attribute):
        if e.attr == "_seed":
            return ("SAttr", owner_of(ctx, e.value))
        if e.attr in ("random_state",) and isinstance(e.value, ast.Name) and e.value.id == "self":
            cls = ctx.mod.enclosing(e, ast.ClassDef)
            if cls is not None:
                return ("SParam", cls.name, "random_state")
        if e.attr == "seed":
            own = owner_of(ctx, e.value)
            if own == "":
                return ("SField",)
        return ("SOther", ast.unparse(e)[:40])
    if isinstance(e, ast.BinOp) and isinstance(e.op, ast.Add):
        for a, b in ((e.left, e.right), (e.right, e.left)):
            if (isinstance(b, ast.Name) and b.id in ctx.loopvars) or \
                    (isinstance(b, ast.Constant) and isinstance(b.value, int) and not isinstance(b.value, bool)):
                return ("SPlusIdx", classify(ctx, a, depth + 1))
        return ("SOther", ast.unparse(e)[:40])
    if isinstance(e, ast.Call):
        if global_rng_call_name(ctx.mod, e.func):
            return ("SGlobalDraw",)
        # int(x) / np.int64(x): a cast of the seed
        if len(e.args) == 1 and not e.keywords and dotted(e.func) in ("int", "np.int64", "np.uint32", "np.int32"):
            return classify(ctx, e.args[0], depth + 1)
        return ("SOther", ast.unparse(e)[:40])
    return ("SOther", ast.unparse(e)[:40])


def guard_of(mod, node):
    """GSeedNone / GSeedGiven when the node is inside the body / orelse of  `if <..>.seed is None`"""
    n = node
    while n in mod.parent:
        p = mod.parent[n]
        if isinstance(p, ast.If):
            t = p.test
            neg = False
            if isinstance(t, ast.UnaryOp) and isinstance(t.op, ast.Not):
                t, neg = t.operand, True
            if isinstance(t, ast.Compare) and len(t.ops) == 1 and isinstance(t.ops[0], (ast.Is, ast.IsNot)) \
                    and isinstance(t.comparators[0], ast.Constant) and t.comparators[0].value is None \
                    and isinstance(t.left, ast.Attribute) and t.left.attr == "seed":
                is_none_branch = isinstance(t.ops[0], ast.Is) != neg
                in_body = any(n is x for x in p.body)
                in_else = any(n is x for x in p.orelse)
                if in_body or in_else:
                    return "GSeedNone" if (in_body == is_none_branch) else "GSeedGiven"
        n = p
    return "GAlways"


def is_dead(mod, ctx, node):
    n = node
    while n in mod.parent:
        p = mod.parent[n]
        if isinstance(p, ast.If) and isinstance(p.test, ast.Name) and any(n is x for x in p.body):
            vals = ctx.assigns.get(p.test.id, [])
            if len(vals) == 1 and isinstance(vals[0], ast.Constant) and vals[0].value is False \
                    and p.test.id not in ctx.params:
                return True
        n = p
    return False


# ------------------------------------------------------------------------------------------------ extraction

def extract():
    files = scanned_files()
    root = vlib.repo_root()
    if root not in sys.path:
        sys.path.insert(0, root)
    mods = [Mod(f) for f in files]
    sites, uses, assigns, mdefaults = [], [], [], []
    ctxs = {}

    def ctx_of(mod, node):
        fn = mod.enclosing(node, (ast.FunctionDef, ast.AsyncFunctionDef))
        key = (mod.rel, id(fn))
        if key not in ctxs:
            ctxs[key] = FnCtx(mod, fn)
        return ctxs[key]

    # all function / class definitions by bare name (for bindings and call counting)
    defs = {}
    for mod in mods:
        for n in ast.walk(mod.tree):
            if isinstance(n, (ast.FunctionDef, ast.AsyncFunctionDef, ast.ClassDef)):
                defs.setdefault(n.name, []).append((mod, n))

    def calls_of(name, within_class=None):
        """every Call in the scanned files whose callee's last component is `name` (or `cls(...)` inside that class)"""
        out = []
        for mod in mods:
            for n in ast.walk(mod.tree):
                if not isinstance(n, ast.Call):
                    continue
                f = n.func
                last = f.id if isinstance(f, ast.Name) else (f.attr if isinstance(f, ast.Attribute) else None)
                if last == name:
                    out.append((mod, n))
                elif within_class and last == "cls" and isinstance(f, ast.Name):
                    c = mod.enclosing(n, ast.ClassDef)
                    if c is not None and c.name == within_class:
                        out.append((mod, n))
        return out

    for mod in mods:
        seen_rng_nodes = set()
        for n in ast.walk(mod.tree):
            # ---- global generator uses
            if isinstance(n, (ast.Attribute, ast.Name)):
                par = mod.parent.get(n)
                if isinstance(par, ast.Attribute) and par.value is n:
                    pass   # only the outermost attribute of a chain is looked at
                else:
                    nm = global_rng_call_name(mod, n)
                    if nm:
                        stmt = n
                        while stmt in mod.parent and not isinstance(stmt, ast.stmt):
                            stmt = mod.parent[stmt]
                        target = ""
                        if isinstance(stmt, ast.Assign) and len(stmt.targets) == 1 and \
                                isinstance(stmt.targets[0], ast.Attribute) and stmt.targets[0].attr == "_seed" and \
                                isinstance(stmt.value, ast.Call) and stmt.value.func is n:
                            target = "_seed"
                        uses.append({"file": mod.rel, "func": mod.qual(n), "call": nm, "guard": guard_of(mod, n),
                                     "target": target, "line": n.lineno})
            if isinstance(n, (ast.Import, ast.ImportFrom)):
                for a in n.names:
                    full = a.name if isinstance(n, ast.Import) else ((n.module or "") + "." + a.name)
                    if full == "random" or full.startswith("random."):
                        uses.append({"file": mod.rel, "func": "<import>", "call": "import " + full, "guard": "GAlways",
                                     "target": "", "line": n.lineno})
            # ---- `_seed` assignments
            if isinstance(n, ast.Assign):
                for t in n.targets:
                    if isinstance(t, ast.Attribute) and t.attr == "_seed":
                        ctx = ctx_of(mod, n)
                        assigns.append({"owner": owner_of(ctx, t.value), "guard": guard_of(mod, n),
                                        "src": classify(ctx, n.value), "file": mod.rel, "line": n.lineno})
            # ---- consumer sites
            if isinstance(n, ast.Call):
                ctx = ctx_of(mod, n)
                kw = {k.arg: k.value for k in n.keywords if k.arg}
                if any(k.arg is None for k in n.keywords):
                    # f(**something): the keywords cannot be read
                    for k in n.keywords:
                        if k.arg is None and isinstance(k.value, ast.Name):
                            vals = ctx.assigns.get(k.value.id, [])
                            for v in vals:
                                if isinstance(v, ast.Dict):
                                    for kk, vv in zip(v.keys, v.values):
                                        if isinstance(kk, ast.Constant) and kk.value in RS_PARAMS:
                                            kw[kk.value] = vv
                callee = dotted(n.func) or ast.unparse(n.func)[:40]
                last = callee.split(".")[-1]
                rs_kw = next((p for p in RS_PARAMS if p in kw), None)
                src = None
                if rs_kw:
                    src = classify(ctx, kw[rs_kw])
                else:
                    obj = resolve_object(mod, n.func)
                    if obj is not None and getattr(obj, "__module__", "") and \
                            str(getattr(obj, "__module__", "")).split(".")[0] in ("sklearn", "scipy", "numpy", "statsmodels",
                                                                                  "opendsm", "pywt"):
                        p, order = rs_param_of(obj)
                        if p and is_pydantic(obj):
                            p = None      # a settings class: its `seed` is the settings field itself (SField), not a consumer
                        if p:
                            idx = order.index(p)
                            if idx < len(n.args) and not any(isinstance(a, ast.Starred) for a in n.args):
                                src = classify(ctx, n.args[idx])
                            else:
                                src = ("SAbsent",)
                    elif isinstance(n.func, ast.Attribute) and is_np_random(mod, n.func.value) and \
                            n.func.attr in LOCAL_GENERATORS:
                        src = classify(ctx, n.args[0]) if n.args else ("SAbsent",)
                if src is not None:
                    sites.append({"file": mod.rel, "func": mod.qual(n), "callee": last, "kwargs": [k.arg or "**" for k in n.keywords],
                                  "dead": is_dead(mod, ctx, n), "src": src, "line": n.lineno})
            # ---- mutable defaults
            if isinstance(n, (ast.FunctionDef, ast.AsyncFunctionDef)) and not (
                    mod.enclosing(n, ast.ClassDef) is not None and mod.enclosing(n, ast.ClassDef).name in SKIP_DEFS):
                a = n.args
                pos = a.posonlyargs + a.args
                pairs = list(zip(pos[len(pos) - len(a.defaults):], a.defaults)) + \
                    [(x, d) for x, d in zip(a.kwonlyargs, a.kw_defaults) if d is not None]
                for arg, d in pairs:
                    if isinstance(d, (ast.List, ast.Dict, ast.Set)) or \
                            (isinstance(d, ast.Call) and dotted(d.func) in ("list", "dict", "set")):
                        mdefaults.append(mutable_default(mod, n, arg.arg, pos, calls_of))
            if isinstance(n, ast.ClassDef):
                for st in n.body:
                    val, name = None, None
                    if isinstance(st, ast.AnnAssign) and isinstance(st.target, ast.Name):
                        val, name = st.value, st.target.id
                    elif isinstance(st, ast.Assign) and len(st.targets) == 1 and isinstance(st.targets[0], ast.Name):
                        val, name = st.value, st.targets[0].id
                    if val is not None and isinstance(val, (ast.List, ast.Dict, ast.Set)) and \
                            (isinstance(val, ast.Dict) and not val.keys or not isinstance(val, ast.Dict) and not val.elts):
                        pyd = False
                        try:
                            import pydantic
                            cls = getattr(importlib.import_module(mod.modname), n.name)
                            pyd = isinstance(cls, type) and issubclass(cls, pydantic.BaseModel)
                        except Exception:  # noqa
                            pyd = False
                        mdefaults.append({"file": mod.rel, "func": n.name, "param": name, "pydantic": pyd,
                                          "usage": "UEscapes", "calls": 0, "explicit": 0, "line": st.lineno})

    # ---- bindings: chase every SParam to a fixpoint
    bindings = {}
    todo = []

    def need(src):
        if src[0] == "SParam":
            todo.append((src[1], src[2]))
        elif src[0] == "SPlusIdx":
            need(src[1])

    for s in sites:
        need(s["src"])
    for a in assigns:
        need(a["src"])
    while todo:
        f, p = todo.pop()
        if (f, p) in bindings:
            continue
        args = []
        dl = defs.get(f, [])
        if len(dl) > 1 and not all(isinstance(d[1], ast.ClassDef) for d in dl):
            # several functions of that name: keep all call sites (over-approximation)
            pass
        for cmod, call in calls_of(f, within_class=f if dl and isinstance(dl[0][1], ast.ClassDef) else None):
            cctx = ctx_of(cmod, call)
            kw = {k.arg: k.value for k in call.keywords if k.arg}
            if p in kw:
                args.append(classify(cctx, kw[p]))
                continue
            order = None
            for dmod, d in dl:
                fn = d
                if isinstance(d, ast.ClassDef):
                    fn = next((x for x in d.body if isinstance(x, ast.FunctionDef) and x.name == "__init__"), None)
                if fn is not None:
                    order = [x.arg for x in fn.args.posonlyargs + fn.args.args]
                    if order and order[0] in ("self", "cls"):
                        order = order[1:]
                    default = None
                    pos = fn.args.posonlyargs + fn.args.args
                    dmap = dict(zip([x.arg for x in pos[len(pos) - len(fn.args.defaults):]], fn.args.defaults))
                    default = dmap.get(p)
                    break
            else:
                default = None
            if order is None:
                # a class without its own __init__ in the scanned files (e.g. a subclass of an sklearn estimator)
                obj = resolve_object(cmod, call.func)
                try:
                    sig = inspect.signature(obj) if obj is not None else None
                except (TypeError, ValueError):
                    sig = None
                if sig is None:
                    args.append(("SOther", "call of %s cannot be bound" % f))
                    continue
                order = list(sig.parameters)
                dflt = sig.parameters[p].default if p in sig.parameters else inspect.Parameter.empty
                default = ast.Constant(dflt) if dflt is None or isinstance(dflt, int) else None
            if any(isinstance(a, ast.Starred) for a in call.args) or any(k.arg is None for k in call.keywords):
                args.append(("SOther", "star-args in a call of %s" % f))
                continue
            if p in order and order.index(p) < len(call.args):
                args.append(classify(cctx, call.args[order.index(p)]))
            elif default is not None:
                args.append(classify(cctx, default))
            else:
                args.append(("SAbsent",))
        bindings[(f, p)] = args
        for a in args:
            need(a)

    # ---- optimiser start vectors: obj_fcn_dec (optimize.py) writes into the x0 array it is given, so every entry point
    #      must hand over an array made for that call
    x0_sites = []
    for mod in mods:
        if mod.rel.endswith("daily/optimize.py"):
            continue
        for n in ast.walk(mod.tree):
            if isinstance(n, ast.Call):
                f = n.func
                last = f.id if isinstance(f, ast.Name) else (f.attr if isinstance(f, ast.Attribute) else None)
                if last in X0_CALLEES:
                    kw = {k.arg: k.value for k in n.keywords if k.arg}
                    arg = kw.get("x0", n.args[1] if len(n.args) > 1 else None)
                    if arg is None or any(isinstance(a, ast.Starred) for a in n.args):
                        raise TranslatorError("%s:%d call of %s: the start vector cannot be read" % (mod.rel, n.lineno, last))
                    x0_sites.append({"file": mod.rel, "func": mod.qual(n), "callee": last, "line": n.lineno,
                                     "kind": x0_kind(ctx_of(mod, n), arg)})
    if not x0_sites:
        raise TranslatorError("no construction of an optimiser found (Optimizer / InitialGuessOptimizer)")

    gwrites, osites = [], []
    for mod in mods:
        gwrites += global_writes_of(mod, ctx_of)
        osites += order_sites_of(mod)
    # the order-sensitivity table also covers the rest of the CalTRACK hourly path and the shared helpers
    for g in ORDER_EXTRA_GLOBS:
        for pth in sorted(glob.glob(os.path.join(root, g))):
            rel = os.path.relpath(pth, root)
            if rel not in files and rel not in SKIP:
                osites += order_sites_of(Mod(rel))
    nested = nested_defaults()
    algos, hourly = defaults_by_introspection()
    return {"osites": osites, "gwrites": gwrites, "nested": nested, "files": files, "sites": sites, "uses": uses, "assigns": assigns, "x0_sites": x0_sites,
            "bindings": [{"func": f, "param": p, "args": a} for (f, p), a in sorted(bindings.items())],
            "mdefaults": mdefaults, "algorithms": algos, "hourly": hourly}


GLOBAL_CONFIG_CALLS = {
    "sklearn.set_config", "numpy.seterr", "numpy.seterrcall", "numpy.random.seed", "pandas.set_option", "pandas.reset_option",
    "logging.basicConfig", "logging.disable", "os.putenv", "os.unsetenv", "os.chdir", "os.environ.update", "os.environ.setdefault",
    "os.environ.pop", "os.environ.clear", "numba.set_num_threads", "nlopt.srand", "nlopt.srand_time", "warnings.filterwarnings",
    "warnings.simplefilter", "warnings.resetwarnings", "random.seed", "sys.setrecursionlimit", "locale.setlocale",
    "matplotlib.use", "importlib.reload",
}
CONTAINER_MAKERS = {"list", "dict", "set", "defaultdict", "OrderedDict", "deque", "Counter", "collections.defaultdict",
                    "collections.OrderedDict", "collections.deque", "collections.Counter"}


def chain_root(node):
    """the Name at the bottom of a chain of attributes / subscripts / calls, and whether the chain is longer than the name"""
    depth = 0
    while isinstance(node, (ast.Attribute, ast.Subscript)):
        node = node.value
        depth += 1
    return (node.id if isinstance(node, ast.Name) else None), depth


def global_writes_of(mod, ctx_of):
    """statements that write state shared by the whole process: `global`, assignment through an imported name
    (module attribute, class attribute, module-level container of another module), mutation of a module-level container
    of this module from inside a function, calls of process-wide configuration functions"""
    import types
    out = []
    top = {}          # module-level names -> value node (None when not a simple assignment)
    for st in mod.tree.body:
        if isinstance(st, ast.Assign):
            for t in st.targets:
                if isinstance(t, ast.Name):
                    top[t.id] = st.value
        elif isinstance(st, ast.AnnAssign) and isinstance(st.target, ast.Name):
            top[st.target.id] = st.value
        elif isinstance(st, (ast.FunctionDef, ast.AsyncFunctionDef, ast.ClassDef)):
            top[st.name] = None

    def scope(n):
        return mod.qual(n) if mod.enclosing(n, (ast.FunctionDef, ast.AsyncFunctionDef)) is not None else "<import>"

    def is_local(n, name):
        fn = mod.enclosing(n, (ast.FunctionDef, ast.AsyncFunctionDef))
        while fn is not None:
            c = FnCtx(mod, fn)
            if name in c.params or name in c.assigns or name in c.loopvars:
                return True
            fn = mod.enclosing(fn, (ast.FunctionDef, ast.AsyncFunctionDef))
        return False

    def is_container(v):
        return isinstance(v, (ast.List, ast.Dict, ast.Set, ast.ListComp, ast.DictComp, ast.SetComp)) or \
            (isinstance(v, ast.Call) and dotted(v.func) in CONTAINER_MAKERS)

    def in_catch_warnings(n):
        w = n
        while w in mod.parent:
            w = mod.parent[w]
            if isinstance(w, ast.With):
                for it in w.items:
                    e = it.context_expr
                    if isinstance(e, ast.Call) and (dotted(e.func) or "").endswith("catch_warnings"):
                        return True
        return False

    def store_target(n, t):
        if isinstance(t, (ast.Tuple, ast.List)):
            for e in t.elts:
                store_target(n, e)
            return
        if isinstance(t, ast.Starred):
            store_target(n, t.value)
            return
        root, depth = chain_root(t)
        txt = ast.unparse(t)
        if depth > 0 and (root == "cls" or "__class__" in txt or txt.startswith("type(")):
            # a class attribute: shared by every instance in the process
            out.append({"file": mod.rel, "scope": scope(n), "kind": "GModuleObject", "target": txt[:60], "line": n.lineno})
            return
        if root is None or depth == 0:
            return                 # a plain name: local (or declared `global`, reported separately)
        if is_local(n, root):
            return
        if root in mod.imports:
            out.append({"file": mod.rel, "scope": scope(n), "kind": "GImported", "target": ast.unparse(t)[:60], "line": n.lineno})
        elif root in top and scope(n) != "<import>":
            out.append({"file": mod.rel, "scope": scope(n), "kind": "GModuleObject", "target": ast.unparse(t)[:60], "line": n.lineno})

    for n in ast.walk(mod.tree):
        if isinstance(n, (ast.Global, ast.Nonlocal)) and isinstance(n, ast.Global):
            out.append({"file": mod.rel, "scope": scope(n), "kind": "GGlobalStmt", "target": ",".join(n.names), "line": n.lineno})
        elif isinstance(n, ast.Assign):
            for t in n.targets:
                store_target(n, t)
        elif isinstance(n, (ast.AugAssign, ast.AnnAssign)):
            if not (isinstance(n, ast.AnnAssign) and n.value is None):
                store_target(n, n.target)
        elif isinstance(n, ast.Delete):
            for t in n.targets:
                store_target(n, t)
        elif isinstance(n, ast.Call):
            d = dotted(n.func)
            if d is None:
                continue
            head, *rest = d.split(".")
            if head in mod.imports and not is_local(n, head):
                full = ".".join([mod.imports[head]] + rest)
                if full in GLOBAL_CONFIG_CALLS:
                    if full.startswith("warnings.") and in_catch_warnings(n):
                        continue       # restored when the `with warnings.catch_warnings()` block ends
                    out.append({"file": mod.rel, "scope": scope(n), "kind": "GConfigCall", "target": full, "line": n.lineno})
                    continue
            # mutation of a container: <obj>.append(...) etc.
            if isinstance(n.func, ast.Attribute) and n.func.attr in MUTATORS:
                root, depth = chain_root(n.func.value)
                if root is None or is_local(n, root):
                    continue
                if root in mod.imports:
                    base = resolve_object(mod, n.func.value)
                    if base is None or isinstance(base, types.ModuleType) or callable(base):
                        continue       # a function of a module (np.sort, ...), not a method of a shared object
                    out.append({"file": mod.rel, "scope": scope(n), "kind": "GImported",
                                "target": ast.unparse(n.func)[:60] + "()", "line": n.lineno})
                elif root in top and scope(n) != "<import>" and (depth > 0 or is_container(top[root])):
                    out.append({"file": mod.rel, "scope": scope(n), "kind": "GModuleObject",
                                "target": ast.unparse(n.func)[:60] + "()", "line": n.lineno})
    return out


ORDERED_CONSUMERS = {"list", "tuple", "enumerate", "iter", "next", "zip", "map", "filter", "reversed", "np.array", "np.asarray",
                     "numpy.array", "numpy.asarray", "pd.Index", "pd.Series", "pd.DataFrame", "pandas.Index", "pandas.Series",
                     "dict.fromkeys", "OrderedDict", "collections.OrderedDict", "np.fromiter", "np.concatenate", "np.hstack"}
ORDER_FREE = {"sorted", "set", "frozenset", "any", "all", "len", "min", "max", "bool", "isinstance"}
SET_METHODS = {"difference", "union", "intersection", "symmetric_difference", "copy"}


def order_sites_of(mod):
    """where the iteration order of a set (it depends on the per-process hash salt for str/bytes/datetime elements) flows
    into something ordered: for-loops and list/dict comprehensions over a set, list(s), tuple(s), x.extend(s), ','.join(s),
    np.array(list(s)), s.pop(), unpacking, `lst += s`.  sorted(s), len(s), membership tests, set algebra are order-free."""
    out = []

    def fn_assigns(n):
        fn = mod.enclosing(n, (ast.FunctionDef, ast.AsyncFunctionDef))
        return FnCtx(mod, fn) if fn is not None else None

    def is_set(n, e, depth=0):
        if depth > 6:
            return False
        if isinstance(e, (ast.Set, ast.SetComp)):
            return True
        if isinstance(e, ast.NamedExpr):
            return is_set(n, e.value, depth + 1)
        if isinstance(e, ast.Call):
            d = dotted(e.func)
            if d in ("set", "frozenset"):
                return True
            if isinstance(e.func, ast.Attribute) and e.func.attr in SET_METHODS:
                return is_set(n, e.func.value, depth + 1)
            return False
        if isinstance(e, ast.BinOp) and isinstance(e.op, (ast.Sub, ast.BitOr, ast.BitAnd, ast.BitXor)):
            return is_set(n, e.left, depth + 1) or is_set(n, e.right, depth + 1)
        if isinstance(e, ast.Name):
            c = fn_assigns(n)
            if c is None or e.id in c.params:
                return False
            vals = c.assigns.get(e.id, [])
            return bool(vals) and all(v is not None and is_set(n, v, depth + 1) for v in vals)
        return False

    def rec(n, kind, e):
        out.append({"file": mod.rel, "func": mod.qual(n), "kind": kind, "text": ast.unparse(e)[:70], "line": n.lineno})

    def order_free_parent(n):
        p = mod.parent.get(n)
        return isinstance(p, ast.Call) and dotted(p.func) in ORDER_FREE and n in p.args

    for n in ast.walk(mod.tree):
        if isinstance(n, ast.For) and is_set(n, n.iter):
            rec(n, "for", n.iter)
        elif isinstance(n, (ast.ListComp, ast.DictComp, ast.GeneratorExp)):
            if any(is_set(n, g.iter) for g in n.generators) and not order_free_parent(n):
                rec(n, "comprehension", n)
        elif isinstance(n, ast.Call):
            d = dotted(n.func)
            if d in ORDERED_CONSUMERS and any(is_set(n, a) for a in n.args) and not order_free_parent(n):
                rec(n, "call", n)
            elif isinstance(n.func, ast.Attribute) and n.func.attr in ("extend", "join") and any(is_set(n, a) for a in n.args):
                rec(n, n.func.attr, n)
            elif isinstance(n.func, ast.Attribute) and n.func.attr == "pop" and not n.args and is_set(n, n.func.value):
                rec(n, "pop", n)
        elif isinstance(n, ast.AugAssign) and isinstance(n.op, ast.Add) and is_set(n, n.value):
            rec(n, "augassign", n)
        elif isinstance(n, ast.Starred) and is_set(n, n.value):
            rec(n, "star", n)
        elif isinstance(n, ast.Assign) and len(n.targets) == 1 and isinstance(n.targets[0], (ast.Tuple, ast.List)) and is_set(n, n.value):
            rec(n, "unpack", n)
    return out


X0_CALLEES = {"Optimizer", "InitialGuessOptimizer", "SciPyOptimizer", "NLoptOptimizer", "obj_fcn_dec"}


def makes_new_object(e):
    """the expression builds a new array: a call, or arithmetic with a call inside (np.array([..]) + T_min)"""
    if isinstance(e, ast.Call):
        return True
    if isinstance(e, ast.BinOp):
        return makes_new_object(e.left) or makes_new_object(e.right)
    return False


def x0_kind(ctx, e):
    if makes_new_object(e):
        return "XFresh"
    if isinstance(e, ast.Name):
        vals = ctx.assigns.get(e.id, [])
        if vals and all(v is not None and makes_new_object(v) for v in vals) and e.id not in ctx.params:
            return "XFresh"
        if e.id in ctx.params:
            return "XParam"
        if not vals:
            return "XShared"      # not a local, not a parameter: a module-level or closure object
        return "XOther"
    if isinstance(e, ast.Attribute):
        return "XShared"
    return "XOther"


def mutable_default(mod, fn, param, pos, calls_of):
    occ = []
    for n in ast.walk(fn):
        if isinstance(n, ast.Name) and n.id == param and n is not fn:
            occ.append(n)
    usage = "UUnused" if not occ else "UReadOnly"
    for n in occ:
        p = mod.parent.get(n)
        ok = False
        if isinstance(n.ctx, ast.Store):
            ok = True      # rebinding the local name does not touch the shared default object
        elif isinstance(p, ast.Attribute) and p.value is n and p.attr in ("size", "shape", "ndim") and \
                not isinstance(p.ctx, ast.Store):
            ok = True
        elif isinstance(p, ast.Call) and isinstance(p.func, ast.Name) and p.func.id in ("len", "bool", "list", "tuple", "sorted", "min", "max", "isinstance", "sum", "any", "all", "set") \
                and n in p.args:
            ok = True
        elif isinstance(p, (ast.If, ast.While, ast.IfExp)) and p.test is n:
            ok = True
        elif isinstance(p, ast.UnaryOp) and isinstance(p.op, ast.Not):
            ok = True
        elif isinstance(p, ast.Compare):
            ok = True
        elif isinstance(p, (ast.For, ast.comprehension)) and p.iter is n:
            ok = True
        elif isinstance(p, ast.Subscript) and p.value is n and isinstance(p.ctx, ast.Load):
            ok = True
        if not ok:
            usage = "UEscapes"
    name = fn.name
    cls = mod.enclosing(fn, ast.ClassDef)
    within = None
    if name == "__init__" and cls is not None:
        name, within = cls.name, cls.name
    order = [x.arg for x in pos]
    if order and order[0] in ("self", "cls"):
        order = order[1:]
    calls = calls_of(name, within_class=within)
    explicit = 0
    for cmod, c in calls:
        if any(k.arg == param for k in c.keywords) or (param in order and order.index(param) < len(c.args)):
            explicit += 1
    return {"file": mod.rel, "func": mod.qual(fn) + "." + fn.name if mod.qual(fn) != "<module>" else fn.name, "param": param,
            "pydantic": False, "usage": usage, "calls": len(calls), "explicit": explicit, "line": fn.lineno}


NESTED_MODULES = ["opendsm.eemeter.models.hourly.settings", "opendsm.eemeter.models.daily.utilities.settings",
                  "opendsm.eemeter.models.billing.settings"]


def nested_defaults():
    """every field of a settings class whose default is itself a settings object: is that object made per instance
    (default_factory, or a default that pydantic copies) or is ONE instance shared by all settings objects
    (default=X() of a frozen, hence hashable, model is not copied)?  Decided by introspection AND by building two objects."""
    import pydantic
    out = []
    for mn in NESTED_MODULES:
        try:
            m = importlib.import_module(mn)
        except Exception as e:  # noqa
            raise TranslatorError("settings module %s does not import: %r" % (mn, e))
        for name, cls in sorted(vars(m).items()):
            if not (isinstance(cls, type) and issubclass(cls, pydantic.BaseModel) and cls.__module__ == m.__name__):
                continue
            for fname, f in cls.model_fields.items():
                has_factory = f.default_factory is not None
                try:
                    a = f.get_default(call_default_factory=True)
                except Exception as e:  # noqa
                    raise TranslatorError("%s.%s: default cannot be evaluated: %r" % (name, fname, e))
                if not isinstance(a, pydantic.BaseModel):
                    continue
                # what two real objects get
                try:
                    x, y = cls(), cls()
                    shared = getattr(x, fname) is getattr(y, fname)
                except Exception:  # noqa  (a class that cannot be built without arguments: compare the raw defaults)
                    b = f.get_default(call_default_factory=True)
                    shared = a is b
                kind = "NdShared" if shared else ("NdFactory" if has_factory else "NdCopied")
                out.append({"cls": name, "field": fname, "kind": kind})
    if not any(n["field"] in ("elasticnet", "temporal_cluster") for n in out):
        raise TranslatorError("the nested hourly settings fields (elasticnet, temporal_cluster) were not found")
    return out


def defaults_by_introspection():
    import pydantic
    algos = []
    try:
        ds = importlib.import_module("opendsm.eemeter.models.daily.utilities.settings")
        hs = importlib.import_module("opendsm.eemeter.models.hourly.settings")
    except Exception as e:  # noqa
        raise TranslatorError("settings modules do not import: %r" % (e,))
    for name, cls in sorted(vars(ds).items()):
        if isinstance(cls, type) and issubclass(cls, pydantic.BaseModel) and cls.__module__ == ds.__name__:
            for fld in ("algorithm_choice", "initial_guess_algorithm_choice"):
                if fld in cls.model_fields:
                    d = cls.model_fields[fld].default
                    d = getattr(d, "value", d)
                    if not isinstance(d, str):
                        raise TranslatorError("%s.%s default is not a name: %r" % (name, fld, d))
                    algos.append((name + "." + fld, d.lower()))
    if not algos:
        raise TranslatorError("no algorithm_choice field found in the daily settings")
    B = hs.BaseHourlySettings
    try:
        seed_default = B.model_fields["seed"].default
        recl = hs.TemporalClusteringSettings.model_fields["recluster_count"].default
        sel = hs.ElasticNetSettings.model_fields["selection"].default
    except KeyError as e:
        raise TranslatorError("hourly settings field missing: %s" % e)
    sel = getattr(sel, "value", sel)
    if not isinstance(recl, int) or not (0 <= recl < 1000):
        raise TranslatorError("recluster_count default unreadable: %r" % (recl,))
    return algos, {"seed_default_is_none": seed_default is None, "recluster_default": recl, "selection_default": str(sel)}


# ------------------------------------------------------------------------------------------------ rendering

def q(s):
    return '"' + str(s).replace('"', '""') + '"'


def coq_src(s):
    k = s[0]
    if k in ("SNone", "SAbsent", "SConst", "SExternal", "SField", "SGlobalDraw"):
        return k
    if k == "SAttr":
        return "(SAttr %s)" % q(s[1])
    if k == "SParam":
        return "(SParam %s %s)" % (q(s[1]), q(s[2]))
    if k == "SPlusIdx":
        return "(SPlusIdx %s)" % coq_src(s[1])
    if k == "SOther":
        return "(SOther %s)" % q(s[1])
    raise TranslatorError("unknown src %r" % (s,))


def render(ex):
    L = ["(* GENERATED by harness/translate_repro.py from %d files of the package under verification -- do not edit. *)" % len(ex["files"]),
         "From Coq Require Import ZArith List Bool String.", "From V Require Import Model.ReproFlow.",
         "Import ListNotations.", "Open Scope string_scope.", ""]
    L.append("Definition scanned_files : list string := [\n  %s]." % ";\n  ".join(q(f) for f in ex["files"]))
    L.append("")
    L.append("Definition consumer_sites : list site := [")
    L.append(";\n".join(
        "  {| s_file := %s; s_func := %s; s_callee := %s; s_kwargs := [%s]; s_dead := %s; s_src := %s |}" % (
            q(s["file"]), q(s["func"]), q(s["callee"]), "; ".join(q(k) for k in s["kwargs"]), "true" if s["dead"] else "false",
            coq_src(s["src"])) for s in ex["sites"]))
    L.append("].\n")
    L.append("Definition rng_uses : list rng_use := [")
    L.append(";\n".join(
        "  {| u_file := %s; u_func := %s; u_call := %s; u_guard := %s; u_target := %s |}" % (
            q(u["file"]), q(u["func"]), q(u["call"]), u["guard"], q(u["target"])) for u in ex["uses"]))
    L.append("].\n")
    L.append("Definition attr_assigns : list attr_assign := [")
    L.append(";\n".join("  {| a_owner := %s; a_guard := %s; a_src := %s |}" % (q(a["owner"]), a["guard"], coq_src(a["src"]))
                        for a in ex["assigns"]))
    L.append("].\n")
    L.append("Definition bindings : list binding := [")
    L.append(";\n".join("  {| b_func := %s; b_param := %s; b_args := [%s] |}" % (
        q(b["func"]), q(b["param"]), "; ".join(coq_src(a) for a in b["args"])) for b in ex["bindings"]))
    L.append("].\n")
    L.append("Definition mutable_defaults : list mdefault := [")
    L.append(";\n".join(
        "  {| m_file := %s; m_func := %s; m_param := %s; m_pydantic := %s; m_usage := %s; m_calls := %d; m_explicit := %d |}" % (
            q(m["file"]), q(m["func"]), q(m["param"]), "true" if m["pydantic"] else "false", m["usage"], m["calls"], m["explicit"])
        for m in ex["mdefaults"]))
    L.append("].\n")
    L.append("Definition order_sites : list osite := [")
    L.append(";\n".join("  {| o_file := %s; o_func := %s; o_kind := %s; o_text := %s |}" % (
        q(o["file"]), q(o["func"]), q(o["kind"]), q(o["text"])) for o in ex["osites"]))
    L.append("].\n")
    L.append("Definition global_writes : list gwrite := [")
    L.append(";\n".join("  {| w_file := %s; w_scope := %s; w_kind := %s; w_target := %s |}" % (
        q(w["file"]), q(w["scope"]), w["kind"], q(w["target"])) for w in ex["gwrites"]))
    L.append("].\n")
    L.append("Definition nested_defaults : list (string * string * ndkind) := [")
    L.append(";\n".join("  (%s, %s, %s)" % (q(n["cls"]), q(n["field"]), n["kind"]) for n in ex["nested"]))
    L.append("].\n")
    L.append("Definition x0_sites : list (string * string * string * x0kind) := [")
    L.append(";\n".join("  (%s, %s, %s, %s)" % (q(x["file"]), q(x["func"]), q(x["callee"]), x["kind"]) for x in ex["x0_sites"]))
    L.append("].\n")
    L.append("Definition default_algorithms : list (string * string) := [%s]." % "; ".join(
        "(%s, %s)" % (q(a), q(b)) for a, b in ex["algorithms"]))
    h = ex["hourly"]
    L.append("Definition hourly_seed_default_is_none : bool := %s." % ("true" if h["seed_default_is_none"] else "false"))
    L.append("Definition hourly_recluster_default : nat := %d." % h["recluster_default"])
    L.append("Definition hourly_selection_default : string := %s." % q(h["selection_default"]))
    return "\n".join(L) + "\n"


def generate(run=None):
    ex = extract()
    text = render(ex)
    if run is not None:
        run.write_generated(OUT, text)
    else:
        p = os.path.join(vlib.COQ, OUT)
        old = open(p).read() if os.path.exists(p) else None
        if old != text:
            open(p, "w").write(text)
    return ex


if __name__ == "__main__":
    e = generate(None)
    import json
    print(json.dumps({k: (len(v) if isinstance(v, list) else v) for k, v in e.items()}, indent=1))
