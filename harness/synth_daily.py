"""Synthetic daily / billing models and reporting-data objects without fitting (DESIGN 3.7).
Shared by harness/c07.py and harness/c19.py.

* model documents: `DailyModel.from_dict` / `BillingModel.from_dict` on a hand-built parameter document
  (sub-models tidd / hdd_tidd_cdd with dyadic coefficients, breakpoints strictly inside a wide fitted range so
  that the curve is the plain three-segment one);
* data objects: either through the public data classes (stream "class") or by placing a frame with the
  data class's column layout into a bare instance (stream "injected": any NaN/inf pattern, reachable only
  through the private attribute — recorded in the evidence as such)."""
import logging
import warnings
from fractions import Fraction

import numpy as np
import pandas as pd

warnings.simplefilter("ignore")
logging.disable(logging.CRITICAL)

ZONES = ["US/Pacific", "UTC", "Europe/Berlin", "Australia/Sydney", "America/New_York", "Asia/Kolkata",
         "America/Sao_Paulo", "Pacific/Auckland"]

SEASONS = ["su", "sh", "wi"]
SEASON_NAME = {"su": "summer", "sh": "shoulder", "wi": "winter"}
SEASON_PARTITIONS = [
    [["su", "sh", "wi"]],
    [["su"], ["sh", "wi"]],
    [["su", "sh"], ["wi"]],
    [["su", "wi"], ["sh"]],
    [["su"], ["sh"], ["wi"]],
]


def dy(rng, lo, hi, den):
    """a dyadic rational k/den in [lo, hi] as a Fraction"""
    return Fraction(rng.randrange(int(lo * den), int(hi * den) + 1), den)


def gen_submodels(rng):
    """list of dicts {key, seasons, days, type, intercept, hdd_bp, hdd_beta, cdd_bp, cdd_beta, f_unc} (Fractions)"""
    subs = []
    for block in rng.choice(SEASON_PARTITIONS):
        for days in (["fw"] if rng.random() < 0.6 else ["wd", "we"]):
            kind = rng.choice(["tidd", "hdd_tidd_cdd", "hdd_tidd_cdd", "hdd_tidd_cdd"])
            hbp = dy(rng, 35, 60, 2)
            cbp = hbp + dy(rng, 1, 25, 2)
            s = {"key": days + "-" + "_".join(block), "seasons": block, "days": days, "type": kind,
                 "intercept": dy(rng, -5, 60, 4), "hdd_bp": hbp, "cdd_bp": cbp,
                 "hdd_beta": dy(rng, 0, 4, 8), "cdd_beta": dy(rng, 0, 4, 8), "f_unc": dy(rng, 0, 6, 8)}
            if kind == "tidd":
                s["hdd_beta"] = s["cdd_beta"] = Fraction(0)
            subs.append(s)
    return subs


def _settings(model_cls):
    s = model_cls().settings.model_dump()
    if model_cls.__name__.startswith("Billing"):
        s["developer_mode"] = True
    return s


_SETTINGS = {}


def build_model(kind, subs, tz):
    """kind: 'daily' | 'billing'"""
    from opendsm.eemeter import BillingModel, DailyModel
    cls = DailyModel if kind == "daily" else BillingModel
    if kind not in _SETTINGS:
        _SETTINGS[kind] = _settings(cls)
    submodels = {}
    for s in subs:
        c = {"model_type": s["type"], "intercept": float(s["intercept"]), "hdd_bp": None, "hdd_beta": None,
             "hdd_k": None, "cdd_bp": None, "cdd_beta": None, "cdd_k": None}
        if s["type"] == "hdd_tidd_cdd":
            c.update(hdd_bp=float(s["hdd_bp"]), hdd_beta=float(s["hdd_beta"]), cdd_bp=float(s["cdd_bp"]),
                     cdd_beta=float(s["cdd_beta"]))
        submodels[s["key"]] = {
            "coefficients": c,
            "temperature_constraints": {"T_min": -100.0, "T_max": 200.0, "T_min_seg": -100.0, "T_max_seg": 200.0},
            "f_unc": float(s["f_unc"])}
    doc = {"submodels": submodels,
           "info": {"error": {"wRMSE": 1.0, "RMSE": 1.0, "MAE": 1.0, "CVRMSE": 0.1, "PNRMSE": 0.1},
                    "baseline_timezone": tz, "disqualification": [], "warnings": []},
           "settings": _SETTINGS[kind]}
    return cls.from_dict(doc)


def season_maps(model):
    """month number -> season name, day-of-week number (1..7) -> 'weekday'/'weekend', as the model's settings say"""
    return dict(model.settings.season._num_dict), dict(model.settings.weekday_weekend._num_dict)


def segment_of(subs, season_name, daytype):
    """index of the sub-model that covers (season, weekday/weekend); None if none or several do"""
    hits = [i for i, s in enumerate(subs)
            if season_name in [SEASON_NAME[x] for x in s["seasons"]]
            and (s["days"] == "fw" or (s["days"] == "wd") == (daytype == "weekday"))]
    return hits[0] if len(hits) == 1 else None


def data_classes(kind, role="reporting"):
    """the data class predict() accepts for its reporting_data argument: role 'reporting' or 'baseline'"""
    from opendsm.eemeter import BillingBaselineData, BillingReportingData, DailyBaselineData, DailyReportingData
    if role == "baseline":
        return DailyBaselineData if kind == "daily" else BillingBaselineData
    return DailyReportingData if kind == "daily" else BillingReportingData


def inject(kind, frame, tz, role="reporting"):
    """a data object of the given role whose .df is `frame` (columns season, weekday_weekend, temperature[, observed])"""
    cls = data_classes(kind, role)
    o = cls.__new__(cls)
    o._df = frame
    o.tz = frame.index.tz
    o.warnings = []
    o.disqualification = []
    o.is_electricity_data = True
    return o


def layout(frame, with_obs, keep_dtype=False):
    """give a (temperature[, observed]) frame the column layout of the data classes
    (keep_dtype: leave the storage dtype of the two columns as it is instead of casting to float64)"""
    import opendsm.common.const as _const
    out = pd.DataFrame(index=frame.index)
    out["season"] = frame.index.month_name().map(_const.default_season_def)
    out["weekday_weekend"] = frame.index.day_name().map(_const.default_weekday_weekend_def)
    out["temperature"] = frame["temperature"] if keep_dtype else frame["temperature"].astype(float)
    if with_obs:
        out["observed"] = frame["observed"] if keep_dtype else frame["observed"].astype(float)
    return out


DTYPES = ["float64", "float32", "Float64", "int64", "object"]


def typed_column(values, dtype, index):
    """a Series of the given storage dtype from encoded cells ("nan" | "inf" | "-inf" | [num, den]);
    a missing cell is NaN (float64/float32), pd.NA (nullable Float64) or None (object);
    int64 needs whole finite numbers - falls back to float64 otherwise.  -> (series, dtype actually used)"""
    import numpy as np
    vals = [dec(v) for v in values]
    if dtype == "int64" and not all(v == v and abs(v) != float("inf") and float(v).is_integer() for v in vals):
        dtype = "float64"
    if dtype == "int64":
        return pd.Series([int(v) for v in vals], index=index, dtype="int64"), dtype
    if dtype == "Float64":
        return pd.Series(pd.array([pd.NA if v != v else v for v in vals], dtype="Float64"), index=index), dtype
    if dtype == "object":
        return pd.Series([None if v != v else float(v) for v in vals], index=index, dtype=object), dtype
    if dtype == "float32":
        return pd.Series(np.array(vals, dtype=np.float32), index=index), dtype
    return pd.Series(np.array(vals, dtype=float), index=index), "float64"


def to_floats(series):
    """any of the above storage dtypes -> numpy float64 array (None / pd.NA -> NaN)"""
    import numpy as np
    if str(series.dtype) in ("float64", "float32", "int64"):
        return series.to_numpy(dtype=float)
    return np.array([float("nan") if (v is None or v is pd.NA) else float(v) for v in series], dtype=float)


def local_midnights(start, n, tz, gaps=None):
    """n consecutive local calendar days from `start` (YYYY-MM-DD), minus the day offsets listed in gaps"""
    idx = pd.date_range(start=start, periods=n, freq="D", tz=tz)
    if gaps:
        keep = [i for i in range(n) if i not in gaps]
        idx = idx[keep]
    return idx


SPECIAL = {"nan": float("nan"), "inf": float("inf"), "-inf": float("-inf")}


def enc(x):
    """float -> JSON-able (number as [num, den] exact, specials as strings)"""
    x = float(x)
    if x != x:
        return "nan"
    if x in (float("inf"), float("-inf")):
        return "inf" if x > 0 else "-inf"
    fr = Fraction(x)
    return [fr.numerator, fr.denominator]


def dec(v):
    if isinstance(v, str):
        return SPECIAL[v]
    return v[0] / v[1]


def frac(v):
    return None if isinstance(v, str) else Fraction(v[0], v[1])


def index_seconds(idx):
    unit = getattr(idx, "unit", "ns")
    div = {"ns": 10**9, "us": 10**6, "ms": 10**3, "s": 1}[unit]
    return [int(t) // div for t in idx.asi8]
