"""Shared machinery of the /verif checks.

Every check (harness/cXX.py) follows DESIGN.md section 2.2:
  0  regenerate Generated/*.v (translators)               -> tie T
  1  re-check the property's theorems with the Coq kernel  -> obligations / discharged / axioms
  2  correspondence: implementation vs Gallina model (vm_compute inside coqc)
  3  property oracle on every implementation observation
  4  decide: VIOLATION (concrete) / KNOWN-FINDING / VIOLATION ... no-failing-input-found / pass
  5  write evidence/<id>.json
"""
import fcntl
import hashlib
import json
import math
import os
import random
import re
import shutil
import subprocess
import sys
import time
import traceback

VERIF = os.path.dirname(os.path.dirname(os.path.abspath(__file__)))
COQ = os.path.join(VERIF, "coq")
REPO = os.environ.get("VERIF_REPO", "/repo")


def repo_root():
    """root of the source tree under verification (/repo, or a scratch copy when VERIF_REPO is set)"""
    return REPO

LOCK = os.path.join(COQ, ".lock")
GUARD = "OPENDSM_EEMETER_VERIF"

COQ_TRUSTED = [
    "Coq 8.16.1 kernel (coqc) and its vm_compute bytecode VM; native_compute is not used",
]


# --------------------------------------------------------------------------------------
# small helpers
# --------------------------------------------------------------------------------------

def sha(obj):
    return hashlib.sha256(json.dumps(obj, sort_keys=True, default=str).encode()).hexdigest()[:16]


def fhex(x):
    """Python float -> Coq PrimFloat literal (exact)."""
    x = float(x)
    if math.isnan(x):
        return "nan"
    if math.isinf(x):
        return "infinity" if x > 0 else "neg_infinity"
    if x == 0.0:
        return "(-0)%float" if math.copysign(1.0, x) < 0 else "0%float"
    h = x.hex()
    if h.startswith("-"):
        return "(-%s)%%float" % h[1:]
    return "(%s)%%float" % h


def zlit(n):
    n = int(n)
    return "(%d)%%Z" % n if n < 0 else "%d%%Z" % n


def qlit(fr):
    """fractions.Fraction -> Coq Q literal."""
    from fractions import Fraction
    fr = Fraction(fr)
    return "(%s # %d)%%Q" % (("(%d)" % fr.numerator) if fr.numerator < 0 else str(fr.numerator), fr.denominator)


def coq_list(items):
    return "[" + "; ".join(items) + "]"


def coq_opt(x, f):
    return "None" if x is None else "(Some %s)" % f(x)


def coq_bool(b):
    return "true" if b else "false"


def coq_string(s):
    return '"' + s.replace('"', '""') + '"%string'


class Lock:
    def __init__(self, exclusive):
        self.exclusive = exclusive

    """flock on coq/.lock around everything that deletes / rebuilds .vo files (exclusive only).
    The descriptor is closed in forked children (worker pools), so an orphaned worker can never keep the lock."""
    _open = set()

    def __enter__(self):
        self.fd = os.open(LOCK, os.O_RDWR | os.O_CREAT | os.O_CLOEXEC, 0o644)
        Lock._open.add(self.fd)
        if self.exclusive:
            fcntl.flock(self.fd, fcntl.LOCK_EX)
        return self

    def __exit__(self, *a):
        try:
            if self.exclusive:
                fcntl.flock(self.fd, fcntl.LOCK_UN)
        finally:
            Lock._open.discard(self.fd)
            os.close(self.fd)


def _close_lock_fds_in_child():
    for fd in list(Lock._open):
        try:
            os.close(fd)
        except OSError:
            pass
    Lock._open.clear()


os.register_at_fork(after_in_child=_close_lock_fds_in_child)


def sh(cmd, cwd=None, timeout=3600, env=None):
    try:
        r = subprocess.run(cmd, shell=True, cwd=cwd, stdout=subprocess.PIPE, stderr=subprocess.STDOUT,
                           text=True, timeout=timeout, env=env)
        return r.returncode, r.stdout
    except subprocess.TimeoutExpired as e:
        return 124, (e.stdout or "") + "\nTIMEOUT"


FORBIDDEN = re.compile(
    r"\b(Admitted|admit|Axiom|Axioms|Parameter|Parameters|Conjecture|Conjectures|"
    r"bypass_check|Unset\s+Guard|Unset\s+Positivity|Unset\s+Universe|type-in-type|impredicative-set|Admit\s+Obligations)\b")


def forbidden_tokens():
    """grep the development for declarations that would add to the trusted base.
    `Variable`/`Hypothesis` are allowed only inside a Section (checked textually: the file must
    contain a `Section` before the first occurrence and the token `Variables`/`Hypothesis` is not used)."""
    bad = []
    for root, _, files in os.walk(COQ):
        if "/Cases" in root:
            continue
        for fn in files:
            if not fn.endswith(".v"):
                continue
            p = os.path.join(root, fn)
            txt = open(p).read()
            # strip comments (non-nested is enough for our style; nested handled by loop)
            prev = None
            while prev != txt:
                prev = txt
                txt = re.sub(r"\(\*[^*(]*(?:\*(?!\))[^*(]*|\((?!\*)[^*(]*)*\*\)", " ", txt)
            for m in FORBIDDEN.finditer(txt):
                bad.append("%s: %s" % (os.path.relpath(p, COQ), m.group(0)))
            depth = 0
            for line in txt.split("\n"):
                if re.match(r"\s*Section\s+\w+", line):
                    depth += 1
                if re.match(r"\s*End\s+\w+", line) and depth > 0:
                    depth -= 1
                if re.match(r"\s*(Variable|Variables|Hypothesis|Hypotheses|Context)\b", line) and depth == 0:
                    bad.append("%s: Variable/Context outside a Section" % os.path.relpath(p, COQ))
    return bad


def ensure_makefile():
    """_CoqProject lists every .v under Model/ Proofs/ Properties/ Generated/ (regenerated when the set changes)."""
    files = []
    for d in ("Model", "Proofs", "Properties", "Generated"):
        dd = os.path.join(COQ, d)
        if os.path.isdir(dd):
            files += sorted(os.path.join(d, f) for f in os.listdir(dd) if f.endswith(".v"))
    text = "-R . V\n-arg -w -arg -notation-overridden,-deprecated-hint-without-locality\n" + "\n".join(files) + "\n"
    cp = os.path.join(COQ, "_CoqProject")
    mk = os.path.join(COQ, "Makefile")
    old = open(cp).read() if os.path.exists(cp) else None
    if old != text or not os.path.exists(mk):
        open(cp, "w").write(text)
        sh("coq_makefile -f _CoqProject -o Makefile", cwd=COQ)


# --------------------------------------------------------------------------------------
# the run object
# --------------------------------------------------------------------------------------

class Run:
    def __init__(self, pid, argv=None, level="proof"):
        argv = sys.argv[1:] if argv is None else argv
        self.pid = pid
        self.level = level
        self.tier = os.environ.get("VERIF_TIER") or "quick"
        self.replay = None
        i = 0
        while i < len(argv):
            a = argv[i]
            if a in ("quick", "thorough"):
                self.tier = a
            elif a == "--replay":
                self.replay = argv[i + 1]
                i += 1
            i += 1
        self.seed = int(os.environ.get("VERIF_SEED", "20260926"))
        self.rng = random.Random(self.seed)
        self.t0 = time.time()
        self.violations = []       # dicts already printed
        self.known_hits = {}       # finding id -> count
        self.cov = {
            "obligations": 0, "discharged": 0, "checker_cmd": "", "trusted_base": list(COQ_TRUSTED),
            "evaluations": 0, "distinct_nontrivial": 0, "rule": "", "samples": [],
            "disagreements": 0, "axioms": [], "theorems": [], "streams": {},
        }
        self.assumptions = []
        self._distinct = set()
        self.proof_ok = True
        self.proof_log = ""
        self.corr_failures = []    # (stream, case, model_out)
        self.known = [k for k in json.load(open(os.path.join(VERIF, "known_findings.json")))["findings"]
                      if k["property"] == pid]
        extra = os.path.join(VERIF, "known_findings.d", pid + ".json")
        if os.path.exists(extra):
            self.known += [k for k in json.load(open(extra))["findings"] if k["property"] == pid]
        self.casedir = os.path.join(COQ, "Cases", "%s-%d" % (pid, os.getpid()))
        try:   # remove case directories left behind by runs of this property whose process is gone
            for d in os.listdir(os.path.join(COQ, "Cases")):
                m = re.match(r"%s-(\d+)$" % pid, d)
                if m and not os.path.exists("/proc/" + m.group(1)):
                    shutil.rmtree(os.path.join(COQ, "Cases", d), ignore_errors=True)
        except OSError:
            pass
        os.makedirs(os.path.join(VERIF, "evidence"), exist_ok=True)

    # ---------------- logging ----------------
    def log(self, *a):
        print("[%s %6.1fs]" % (self.pid, time.time() - self.t0), *a, flush=True)

    def quick(self):
        return self.tier == "quick"

    def n(self, quick, thorough):
        return quick if self.tier == "quick" else thorough

    # ---------------- step 1: proofs ----------------
    def check_proofs(self, prop_file, proof_files, generated=(), timeout=1500):
        """Delete the .vo of this property's Generated/, Proofs/ and Properties/ files and rebuild them,
        so that every lemma and theorem of the property is re-checked by the kernel on this run."""
        targets = list(generated) + list(proof_files) + [prop_file]
        with Lock(True):
            self._ensure_makefile()
            for t in targets:
                for ext in (".vo", ".vos", ".vok", ".glob"):
                    p = os.path.join(COQ, t[:-2] + ext)
                    if os.path.exists(p):
                        os.remove(p)
            cmd = "timeout %d make -j8 %s" % (timeout, prop_file[:-2] + ".vo")
            rc, out = sh(cmd, cwd=COQ, timeout=timeout + 60)
            if self.tier == "thorough" and rc == 0 and os.environ.get("VERIF_COQCHK", "1") == "1":
                lib = "V." + prop_file[:-2].replace("/", ".")
                rc2, out2 = sh("timeout 1200 coqchk -silent -o -R . V %s" % lib, cwd=COQ, timeout=1300)
                self.cov["coqchk"] = {"rc": rc2, "tail": out2[-1500:]}
                if rc2 != 0:
                    rc = rc2
                    out += "\ncoqchk failed:\n" + out2[-3000:]
        self.cov["checker_cmd"] = "cd /verif/coq && rm -f <.vo of %s> && %s%s" % (
            " ".join(targets), cmd, " && coqchk -o" if self.tier == "thorough" else "")
        src = open(os.path.join(COQ, prop_file)).read()
        names = re.findall(r"^\s*(?:Theorem|Lemma|Example|Corollary)\s+(\w+)", src, re.M)
        n_lem = 0
        for pf in proof_files:
            n_lem += len(re.findall(r"^\s*(?:Theorem|Lemma|Example|Corollary|Fact)\s+\w+",
                                    open(os.path.join(COQ, pf)).read(), re.M))
        self.cov["theorems"] = names
        self.cov["supporting_lemmas"] = n_lem
        self.cov["obligations"] = len(names)
        axioms = sorted(set(re.findall(r"^([A-Za-z_][\w.']*)\s*:", out, re.M)) - {"File", "Error", "Warning", "make"})
        # lines printed by Print Assumptions look like  "name : type"; keep only qualified names or known axioms
        axioms = [a for a in axioms if "." in a or a in ("classic", "functional_extensionality_dep", "sig_not_dec",
                                                       "sig_forall_dec", "proof_irrelevance", "JMeq_eq")]
        # primitive machine integers / floats / arrays are listed by Print Assumptions but are not axioms of ours
        prims = [a for a in axioms if re.match(r"(Uint63|PrimInt63|Sint63|PrimFloat|PrimArray|PArray|FloatOps|Int63|CPrimitives)\b", a)
                 or a.split(".")[0] in ("Uint63", "PrimInt63", "PrimFloat", "PrimArray", "PArray", "Sint63")]
        axioms = [a for a in axioms if a not in prims]
        self.cov["axioms"] = axioms
        self.cov["primitives_listed_by_print_assumptions"] = prims
        forb = forbidden_tokens()
        if forb:
            rc = 1
            out += "\nforbidden tokens: " + "; ".join(forb)
        if rc == 0:
            self.cov["discharged"] = len(names)
            self.proof_ok = True
        else:
            self.proof_ok = False
            done = len(re.findall(r"Closed under the global context|^Axioms:", out, re.M))
            self.cov["discharged"] = min(done, max(len(names) - 1, 0))
            self.cov["proof_build_failed"] = True
            self.proof_log = out[-4000:]
            self.log("PROOF BUILD FAILED:\n" + out[-2500:])
        tb = self.cov["trusted_base"]
        if axioms:
            tb.append("standard-library axioms reported by Print Assumptions: " + ", ".join(axioms))
        else:
            tb.append("Print Assumptions: every theorem of this property is closed under the global context (no axioms)")
        return self.proof_ok

    def _ensure_makefile(self):
        ensure_makefile()

    def ensure_models(self, files, timeout=1500):
        """make the given .vo (and what they depend on) if stale."""
        with Lock(True):
            self._ensure_makefile()
            rc, out = sh("timeout %d make -j8 %s" % (timeout, " ".join(f[:-2] + ".vo" for f in files)), cwd=COQ,
                         timeout=timeout + 60)
        if rc != 0:
            self.proof_ok = False
            self.proof_log += out[-3000:]
            self.log("MODEL BUILD FAILED:\n" + out[-2500:])
        return rc == 0

    # ---------------- step 0: generated files ----------------
    def write_generated(self, relpath, text):
        """write coq/<relpath> only when its content changed (so make does not rebuild dependants needlessly)."""
        p = os.path.join(COQ, relpath)
        os.makedirs(os.path.dirname(p), exist_ok=True)
        with Lock(True):
            old = open(p).read() if os.path.exists(p) else None
            if old != text:
                tmp = p + ".tmp%d" % os.getpid()
                open(tmp, "w").write(text)
                os.replace(tmp, p)
        return old != text

    # ---------------- step 2: correspondence ----------------
    def coq_cases(self, stream, imports, prelude, case_terms, check_fn, shard=400, timeout=900, case_type=None):
        """Evaluate `check_fn case` (a Gallina bool) for every term of case_terms inside coqc (vm_compute).
        Returns the sorted list of indices on which it is false, or None if Coq could not evaluate a shard.
        `prelude` is Coq text placed before the cases (shared definitions)."""
        os.makedirs(self.casedir, exist_ok=True)
        shards = [case_terms[i:i + shard] for i in range(0, len(case_terms), shard)]
        files = []
        for k, sh_terms in enumerate(shards):
            name = "cases_%s_%s_%d" % (self.pid, stream, k)
            path = os.path.join(self.casedir, name + ".v")
            with open(path, "w") as f:
                f.write("From Coq Require Import ZArith List Bool String.\nImport ListNotations.\n")
                f.write(imports + "\n")
                f.write("From V Require Import Model.CasesLib.\n")
                f.write(prelude + "\n")
                for j, t in enumerate(sh_terms):
                    f.write("Definition c%d%s := %s.\n" % (j, (" : " + case_type) if case_type else "", t))
                f.write("Definition results : list bool := %s.\n" % coq_list(
                    ["(%s c%d)" % (check_fn, j) for j in range(len(sh_terms))]))
                f.write("Eval vm_compute in (VERIF_RESULT (N.of_nat (List.length results)) (mismatches results)).\n")
            files.append(path)
        bad = []
        failed = False
        # Readers take no lock: after setup the Model/*.vo they import are never rewritten unless a source under
        # /verif changes; a shard that fails to evaluate (e.g. it raced with a rebuild) is retried once, alone.
        procs = []
        self._retry = []
        for path in files:
            procs.append((path, self._spawn_coqc(path, timeout)))
            if len(procs) >= 12:
                failed |= self._collect(procs, shard, bad, shards, retry=True)
                procs = []
        failed |= self._collect(procs, shard, bad, shards, retry=True)
        for path in self._retry:
            time.sleep(2)
            failed |= self._collect([(path, self._spawn_coqc(path, timeout))], shard, bad, shards)
        st = self.cov["streams"].setdefault(stream, {"cases": 0, "disagreements": 0})
        st["cases"] += len(case_terms)
        if failed:
            st["coq_failed"] = True
            return None
        st["disagreements"] += len(bad)
        self.cov["disagreements"] += len(bad)
        return sorted(bad)

    def _spawn_coqc(self, path, timeout):
        cmd = "ulimit -s unlimited 2>/dev/null; timeout %d coqc -q -R %s V -R %s VC -w none %s" % (
            timeout, COQ, self.casedir, path)
        return subprocess.Popen(["bash", "-c", cmd], stdout=subprocess.PIPE, stderr=subprocess.STDOUT, text=True,
                                cwd=self.casedir)

    def _collect(self, procs, shard, bad, shards, retry=False):
        failed = False
        for path, p in procs:
            out, _ = p.communicate()
            k = int(re.search(r"_(\d+)\.v$", path).group(1))
            m = re.search(r"VERIF_RESULT\s+(\d+)(?:%N)?\s+(\[[^\]]*\])", out.replace("\n", " "))
            if p.returncode != 0 or not m or int(m.group(1)) != len(shards[k]):
                if retry:
                    self._retry.append(path)
                    continue
                failed = True
                self.log("coqc failed on %s:\n%s" % (path, out[-1500:]))
                self.proof_log += "\ncases file %s did not evaluate:\n%s" % (os.path.basename(path), out[-1500:])
                continue
            for idx in re.findall(r"\d+", m.group(2)):
                bad.append(k * shard + int(idx))
        return failed

    def coq_eval(self, imports, prelude, term, timeout=300):
        """vm_compute one term and return Coq's printed answer (for diagnostics / replays)."""
        os.makedirs(self.casedir, exist_ok=True)
        path = os.path.join(self.casedir, "eval_%d.v" % int(time.time() * 1e6))
        with open(path, "w") as f:
            f.write("From Coq Require Import ZArith List Bool String.\nImport ListNotations.\n")
            f.write(imports + "\nFrom V Require Import Model.CasesLib.\n" + prelude + "\n")
            f.write("Eval vm_compute in (%s).\n" % term)
        rc, out = sh("ulimit -s unlimited 2>/dev/null; timeout %d coqc -q -R %s V -w none %s" % (timeout, COQ, path),
                     cwd=self.casedir, timeout=timeout + 30)
        return out.strip()[-3000:]

    # ---------------- coverage accounting ----------------
    def count(self, case_key, nontrivial=True, n=1):
        self.cov["evaluations"] += n
        if nontrivial:
            self._distinct.add(case_key if isinstance(case_key, (str, int, tuple)) else sha(case_key))

    def sample(self, obj, limit=6):
        if len(self.cov["samples"]) < limit:
            self.cov["samples"].append(obj)

    def dist(self, key, value):
        d = self.cov.setdefault("distribution", {}).setdefault(key, {})
        d[str(value)] = d.get(str(value), 0) + 1

    # ---------------- step 4: decisions ----------------
    def match_known(self, signature):
        """signature: dict produced by the property's classifier from a concrete violation."""
        for k in self.known:
            if k.get("status") != "known":
                continue
            if all(signature.get(a) == b for a, b in k["signature"].items()):
                return k
        return None

    def violation(self, signature, what, case, observation=None, expected=None, generator=None, kind="concrete",
                  theorem=None):
        """Report a violation unless it is a listed known finding. Returns True when it counts."""
        if kind == "concrete":
            k = self.match_known(signature)
            if k is not None:
                self.known_hits.setdefault(k["id"], {"what": k["what"], "n": 0, "first_case": case})
                self.known_hits[k["id"]]["n"] += 1
                return False
        key = sha(signature)
        for v in self.violations:
            if v["sigkey"] == key:
                v["count"] += 1
                return True
        rep = {
            "property": self.pid, "kind": kind, "seed": self.seed, "tier": self.tier, "generator": generator,
            "signature": signature, "what": what, "case": case, "implementation_observation": observation,
            "expected": expected, "theorem_or_correspondence": theorem,
            "how_to_replay": "cd /verif && ./check %s --replay <this file>" % self.pid,
        }
        d = os.path.join(VERIF, "replays", self.pid)
        os.makedirs(d, exist_ok=True)
        path = os.path.join(d, sha(rep) + ".json")
        tmp = path + ".tmp%d" % os.getpid()
        json.dump(rep, open(tmp, "w"), indent=1, default=str)
        os.replace(tmp, path)
        self.violations.append({"sigkey": key, "count": 1, "path": path, "what": what, "kind": kind})
        suffix = " no-failing-input-found" if kind != "concrete" else ""
        self.log("violation: " + what)
        print("VIOLATION property=%s replay=%s%s" % (self.pid, path, suffix), flush=True)
        return True

    def finish(self, found_concrete_for_broken_tie=False):
        """Step 4c/4d + step 5."""
        concrete = [v for v in self.violations if v["kind"] == "concrete"]
        if not self.proof_ok and not concrete:
            self.violation({"broken": "proof"}, "a theorem / model of %s no longer checks" % self.pid,
                           case={"log_tail": self.proof_log[-3000:]}, kind="no-failing-input-found",
                           theorem="coq build of the property (see log_tail)")
        if self.corr_failures and not concrete:
            self.violation({"broken": "correspondence"},
                           "model and implementation disagree (%d cases) and no input violating the property was found"
                           % len(self.corr_failures),
                           case={"first": self.corr_failures[:5]}, kind="no-failing-input-found",
                           theorem="correspondence " + ",".join(sorted({c.get("stream", "?") for c in self.corr_failures})))
        for kid, h in sorted(self.known_hits.items()):
            print("KNOWN-FINDING: property=%s %s [%s, %d occurrence(s) this run]" % (self.pid, h["what"], kid, h["n"]),
                  flush=True)
        self.cov["distinct_nontrivial"] = len(self._distinct)
        self.cov["known_findings_reproduced"] = {k: v["n"] for k, v in self.known_hits.items()}
        self.cov["correspondence_failures"] = len(self.corr_failures)
        if self.cov.get("obligations", 0) < 1 or self.cov.get("discharged", 0) < 1:
            # the theorems were not (all) re-checked on this run (translator failed closed, proof build broken): the run
            # is reported as a violation; its evidence falls back to the exploration-style keys of the schema
            self.cov["proof_status"] = {"obligations": self.cov.pop("obligations", 0), "discharged": self.cov.pop("discharged", 0),
                                        "note": "theorems not re-checked on this run"}
        ev = {
            "property_id": self.pid, "tier": self.tier, "seed": self.seed, "level": self.level,
            "coverage": self.cov, "assumptions": self.assumptions, "wall_s": round(time.time() - self.t0, 2),
            "violations": len(self.violations),
        }
        path = os.path.join(VERIF, "evidence", self.pid + ".json")
        if os.path.realpath(REPO) != "/repo" or self.replay:
            # a run against a scratch copy (seeded-change trial) or a single-case replay must not overwrite the
            # evidence of the property: evidence/<id>.json always describes a full run against /repo itself
            os.makedirs("/var/tmp/verif-evidence-scratch", exist_ok=True)
            path = os.path.join("/var/tmp/verif-evidence-scratch", self.pid + ".json")
        tmp = path + ".tmp%d" % os.getpid()
        json.dump(ev, open(tmp, "w"), indent=1, default=str)
        os.replace(tmp, path)
        # the evidence must validate against the published schema (python3-vt has jsonschema; /venv does not)
        rc, out = sh("python3-vt -c \"import json,jsonschema;jsonschema.validate(json.load(open('%s')),"
                     "json.load(open('/root/.vp/EVIDENCE.schema.json')))\"" % path, timeout=60)
        if rc != 0 and "ValidationError" in out:
            self.log("EVIDENCE DOES NOT VALIDATE:\n" + out[-1200:])
            print("[%s] evidence file invalid" % self.pid, flush=True)
            shutil.rmtree(self.casedir, ignore_errors=True)
            sys.exit(1 if self.violations else 2)
        shutil.rmtree(self.casedir, ignore_errors=True)
        self.log("done: evaluations=%d distinct=%d disagreements=%d violations=%d known=%d wall=%.1fs" % (
            self.cov["evaluations"], len(self._distinct), self.cov["disagreements"], len(self.violations),
            len(self.known_hits), time.time() - self.t0))
        sys.exit(1 if self.violations else 0)


def run_main(fn, pid):
    """wrap a check's main so that an internal crash is an alarm, not a silent pass."""
    try:
        fn()
    except SystemExit:
        raise
    except Exception:
        traceback.print_exc()
        print("[%s] harness crashed" % pid, flush=True)
        sys.exit(2)
