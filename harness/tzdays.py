"""Local-day boundaries as data (DESIGN 3.3): the models never "understand" time zones, the harness reads the
offsets from the system tz database (zoneinfo) and hands the UTC minutes of the local midnights to them.
Shared by c08.py and c09.py.  Everything is in whole minutes since the Unix epoch (UTC)."""
import datetime as dt
from functools import lru_cache
from zoneinfo import ZoneInfo

_UTC = dt.timezone.utc
_EPOCH = dt.datetime(1970, 1, 1, tzinfo=_UTC)
_EPOCH_NAIVE = dt.datetime(1970, 1, 1)

# whole-hour DST only (the properties' quantifier); fixed-offset zones with :30/:45 offsets are included
ZONES = [
    "US/Pacific", "America/New_York", "America/Chicago", "Europe/London", "Europe/Berlin", "Australia/Sydney",
    "Pacific/Auckland", "Asia/Kolkata", "America/Santiago", "Africa/Cairo", "UTC", "America/St_Johns",
    "Pacific/Chatham", "Asia/Beirut", "America/Sao_Paulo", "Asia/Tokyo", "America/Havana", "Australia/Adelaide",
]
# zones whose DST change happens at local midnight (a calendar day starts at 01:00, or 00:00-01:00 occurs twice)
MIDNIGHT_DST = {"America/Santiago", "Africa/Cairo", "Asia/Beirut", "America/Havana", "America/Sao_Paulo"}


@lru_cache(maxsize=None)
def zone(name):
    return ZoneInfo(name)


def to_dt(m):
    return _EPOCH + dt.timedelta(minutes=int(m))


def offset(m, z):
    """UTC offset (minutes) in force at UTC minute m"""
    return int(to_dt(m).astimezone(zone(z)).utcoffset().total_seconds() // 60)


def local_date(m, z):
    return to_dt(m).astimezone(zone(z)).date()


def local_minute_of_day(m, z):
    d = to_dt(m).astimezone(zone(z))
    return d.hour * 60 + d.minute


@lru_cache(maxsize=200000)
def day_start(d, z):
    """first UTC minute whose local date is d (local midnight; 01:00 when midnight does not exist;
    the first occurrence when 00:00 happens twice)"""
    base = int((dt.datetime(d.year, d.month, d.day) - _EPOCH_NAIVE).total_seconds() // 60)
    offs = {offset(base + k, z) for k in (-26 * 60, -60, 0, 60, 26 * 60)}
    cands = []
    for o in offs:
        t = base - o
        if local_date(t, z) == d and local_date(t - 1, z) < d:
            cands.append(t)
    if not cands:
        raise ValueError("no day start for %s in %s" % (d, z))
    return min(cands)


def boundaries(t_first, t_last, z, extra_after=1):
    """local midnights b_0 <= t_first < ... <= t_last < b_n (UTC minutes): the day buckets [b_j, b_j+1)
    cover every local date from that of t_first to that of t_last"""
    d = local_date(t_first, z)
    d1 = local_date(t_last, z) + dt.timedelta(days=extra_after)
    out = []
    while d <= d1:
        out.append(day_start(d, z))
        d += dt.timedelta(days=1)
    return out


def dst_changes(z, y0=2012, y1=2026):
    """UTC minutes (to the minute) at which the offset of zone z changes"""
    out = []
    t = int((dt.datetime(y0, 1, 1) - _EPOCH_NAIVE).total_seconds() // 60)
    end = int((dt.datetime(y1, 1, 1) - _EPOCH_NAIVE).total_seconds() // 60)
    prev = offset(t, z)
    while t < end:
        t2 = t + 1440
        o = offset(t2, z)
        if o != prev:
            lo, hi = t, t2
            while hi - lo > 1:
                mid = (lo + hi) // 2
                if offset(mid, z) == prev:
                    lo = mid
                else:
                    hi = mid
            out.append(hi)
            prev = o
        t = t2
    return out


_DST_CACHE = {}


def dst_changes_cached(z):
    if z not in _DST_CACHE:
        _DST_CACHE[z] = dst_changes(z)
    return _DST_CACHE[z]


def date_to_minute_utc(y, m, d):
    return int((dt.datetime(y, m, d) - _EPOCH_NAIVE).total_seconds() // 60)
