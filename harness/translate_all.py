"""Run every translator present (harness/translate_*.py) so that coq/Generated/*.v exists before a full build.
Each translator module exposes generate(run_or_None). Called by setup.sh."""
import glob
import importlib
import os
import sys

HERE = os.path.dirname(os.path.abspath(__file__))
sys.path.insert(0, HERE)


def main():
    failed = []
    for path in sorted(glob.glob(os.path.join(HERE, "translate_*.py"))):
        name = os.path.basename(path)[:-3]
        if name == "translate_all":
            continue
        try:
            importlib.import_module(name).generate(None)
            print("translated:", name)
        except Exception as e:  # a broken translator must not hide the others; the property's own check reports it
            failed.append(name)
            print("TRANSLATOR FAILED: %s: %s: %s" % (name, type(e).__name__, e))
    return 1 if failed else 0


if __name__ == "__main__":
    sys.exit(main())
