"""C03 — fitting is reproducible (PARTIAL; see coq/Properties/C03.v for what is proved and what is only sampled).

step 0  harness/translate_repro.py: seed / global-state plumbing of the source -> coq/Generated/ReproGen.v (ast, fail-closed)
step 1  coq/Properties/C03.v re-checked by the kernel (model theorems + vm_compute theorems over the regenerated tables)
step 2  correspondence by histories and schedules: the same fit is executed by harness/c03_worker.py (a fresh interpreter
        per history) twice in one process, after other families in shuffled order, after perturbing numpy's global
        generator, alone in a fresh process, in several simultaneous processes, with 1 and 8 BLAS/OpenMP threads, with the
        package imported before numpy, with a cold numba cache.  Observation = SHA-256 of to_json() and of a fixed
        prediction (+ digest of numpy's global generator and length of the shared mutable defaults after every operation).
        The Gallina model (Model/Repro.v) is run on the same histories inside coqc and says which observations must coincide.
step 3  oracle (the statement, literally): all executions of one (family, data set, settings, seed) have the same
        serialised model and the same prediction."""
import json
import os
import shutil
import subprocess
import sys
import time
from concurrent.futures import ThreadPoolExecutor

import numpy as np

import vlib
from vlib import Run, zlit, coq_list, coq_bool
import translate_repro

IMPORTS = "From V Require Import Model.Repro Model.ReproRun."
HERE = os.path.dirname(os.path.abspath(__file__))
CFG_ID = {"default": 0, "legacy": 1, "nosmooth": 2, "randsel": 3, "adaptive": 4, "recluster1": 5, "silhouette": 6, "devalpha": 7, "supp3": 8, "suppcat": 9}
SCRATCH = "/var/tmp/verif-c03-%d" % os.getpid()
HASH_SALTS = ["0", "1", "2", "random", "4242"]


# ------------------------------------------------------------------------------------------------ operations

def fit(fam, ds, cfg="default", seed=None):
    return {"op": "fit", "fam": fam, "ds": ds, "cfg": cfg, "seed": seed}


def new(cfg, seed):
    return {"op": "new", "cfg": cfg, "seed": seed}


class Prepared:
    """a history in which model objects are constructed first and used later, or used more than once
    (settings objects and the model object's own prior state are state)"""

    def __init__(self):
        self.ops, self.objs = [], []       # objs[k] = (family, cfg, seed, index within its model-side list)
        self.nh = self.nd = 0

    def new(self, seed=None, cfg="default", fam="hourly"):
        self.ops.append({"op": "new", "fam": fam, "cfg": cfg, "seed": seed})
        if fam == "hourly":
            self.objs.append((fam, cfg, seed, self.nh))
            self.nh += 1
        else:
            self.objs.append((fam, cfg, None, self.nd))
            self.nd += 1
        return len(self.objs) - 1

    def fit(self, k, ds):
        fam, cfg, seed, mi = self.objs[k]
        self.ops.append({"op": "fitobj", "obj": k, "mobj": mi, "ds": ds, "fam": fam, "cfg": cfg, "seed": seed})

    def tojson(self, k):
        self.ops.append({"op": "tojson", "obj": k, "mobj": self.objs[k][3]})

    def fromjson(self, k):
        fam, cfg, seed, mi = self.objs[k]
        self.ops.append({"op": "fromjson", "obj": k, "mobj": mi})
        self.objs.append((fam, cfg, seed, self.nh))
        self.nh += 1
        return len(self.objs) - 1

    def immediate(self, op):
        self.ops.append(op)


def tkey(op):
    return (op["fam"], op["ds"], op["cfg"], op["seed"])


def must_reproduce(op):
    """the statement speaks about this fit: every family, the hourly model only with a seed"""
    return op["op"] in ("fit", "fitobj") and (op["fam"] != "hourly" or op["seed"] is not None)


def numpy_draw(k, n):
    """what np.random.randint(0, 2**32-1, dtype=int64) returns after np.random.seed(k); np.random.random(n)
    (numpy's own generator, replayed privately: this is the table the model's SdDraw is resolved with)"""
    r = np.random.RandomState(k)
    if n:
        r.random(n)
    return int(r.randint(0, 2**32 - 1, dtype=np.int64))


# ------------------------------------------------------------------------------------------------ generator of histories

def build_jobs(run, recl_default):
    rng = run.rng
    thorough = not run.quick()
    nd = run.n(2, 6)
    dsd = [rng.randrange(1, 500000) for _ in range(nd)]
    dsb = [rng.randrange(1, 500000) for _ in range(nd)]
    dsh = [rng.randrange(1, 500000) for _ in range(nd)]
    dsc = [rng.randrange(1, 500000) for _ in range(run.n(1, 2))]
    sd = rng.randrange(3, 2**31 - 1)
    # boundary seeds: the second seed of every history is 0 (falsy!), and 1 and 2**31-1 are targets of their own, so that a
    # seed that is tested for truth, off by one, or overflows shows as a concrete pair of differing fits
    s1 = 0
    T = []
    for ds in dsd:
        T.append(fit("daily", ds))
    T.append(fit("daily", dsd[0], "legacy"))
    if thorough:
        T.append(fit("daily", dsd[1], "nosmooth"))
    for ds in dsb:
        T.append(fit("billing", ds))
    for ds in dsh:
        T.append(fit("hourly", ds, "default", sd))
    T.append(fit("hourly", dsh[0], "default", s1))
    T.append(fit("hourly", dsh[1], "default", s1))
    T.append(fit("hourly", dsh[1], "default", 1))
    T.append(fit("hourly", dsh[0], "default", 2**31 - 1))
    T.append(fit("hourly", dsh[0], "randsel", 0))           # ElasticNet(selection="random", random_state=0)
    T.append(fit("hourly", dsh[0], "randsel", sd))
    T.append(fit("hourly", dsh[1], "adaptive", sd))
    T.append(fit("hourly", dsh[0], "silhouette", sd))
    # supplemental columns: three time-series columns; two time-series + two categorical columns (their order in the
    # feature lists must not follow the hash order of a set)
    T.append(fit("hourly", dsh[0], "supp3", sd))
    T.append(fit("hourly", dsh[1], "suppcat", sd))
    if thorough:
        T.append(fit("hourly", dsh[1], "recluster1", sd))
        T.append(fit("hourly", dsh[2], "randsel", sd + 2))
    # the unseeded hourly fit after np.random.seed(k); random(n)  ==  the fit seeded with numpy's next randint
    k_un, n_un = rng.randrange(0, 2**31), rng.choice([0, 5])
    drawn = numpy_draw(k_un, n_un)
    T.append(fit("hourly", dsh[0], "default", drawn))
    CT = [fit("caltrack", ds) for ds in dsc]
    draws = [((k_un, n_un), drawn)]
    jobs = []

    def job(label, ops, threads=1, imports="numpy-first", cold=False, group=None, cache=None, stage=0, populated_by=None, hashseed=None):
        """cache: name of a PRIVATE numba cache directory (None = the shared warm one); cold=True: a private empty one;
        stage 1: the job starts when the stage-0 job of the same cache has finished (a fresh process on the cache it left)"""
        if cold and cache is None:
            cache = "cold-%d" % len(jobs)
        # every worker is a fresh interpreter with its own hash salt: 0 for the reference, then 1, 2, random, 4242, 0, ...
        salt = hashseed if hashseed is not None else ("0" if not jobs else HASH_SALTS[len(jobs) % len(HASH_SALTS)])
        jobs.append({"label": label, "ops": ops, "threads": threads, "imports": imports, "cold": cold, "group": group,
                     "cache": cache, "stage": stage, "populated_by": populated_by, "hashseed": salt})
        return jobs[-1]

    # reference: every target once, canonical order, one thread
    job("reference", list(T))
    # (i) twice in one process (two processes, to bound the length of one history)
    TW = list(T) if thorough else [fit("hourly", dsh[0], "default", s1)] + rng.sample([t for t in T if t != fit("hourly", dsh[0], "default", s1)], 7)
    half = len(TW) // 2
    for part in (TW[:half], TW[half:]):
        tw = []
        for t in part:
            tw += [t, t]
        job("twice", tw)
    # (ii) after unrelated fits / predicts of other families, shuffled; also with 8 threads
    for j in range(run.n(2, 6)):
        ops = list(T)
        rng.shuffle(ops)
        ops = ops[: run.n(9, len(ops))] if j else ops
        out = []
        for o in ops:
            x = rng.random()
            if x < 0.25 and any(p["op"] == "fit" for p in out):
                out.append({"op": "predict", "ref": rng.choice([i for i, p in enumerate(out) if p["op"] == "fit"])})
            elif x < 0.5:
                out.append({"op": "unrelated", "what": rng.choice(["pyrandom", "dataobj", "reload", "npdraw", "sort"])})
            elif x < 0.6:
                out.append(fit("hourly", rng.choice(dsh), "default", None))      # moves the global generator
            out.append(o)
        job("shuffled", out, threads=(1, 8)[j % 2])
    # (iii) after perturbing numpy's global generator
    ops = []
    for t in T:
        if rng.random() < (0.6 if run.quick() else 1.0):
            ops += [{"op": "rng", "k": rng.randrange(0, 2**31), "n": rng.choice([0, 1, 7, 100])}, t]
    ops += [{"op": "rng", "k": k_un, "n": n_un}, fit("hourly", dsh[0], "default", None)]
    # a second unseeded fit without reseeding: the generator has moved by exactly two randints (construction, to_json)
    k2 = rng.randrange(0, 2**31)
    r2 = np.random.RandomState(k2)
    d1 = int(r2.randint(0, 2**32 - 1, dtype=np.int64))
    r2.randint(0, 2**32 - 1, dtype=np.int64)        # as coded: to_json() of the unseeded model draws once more
    d2 = int(r2.randint(0, 2**32 - 1, dtype=np.int64))
    ops += [{"op": "rng", "k": k2, "n": 0}, fit("hourly", dsh[1], "default", None), fit("hourly", dsh[1], "default", None)]
    draws.append(((k2, 0), d1))
    draws.append(((k2, 0, "randint", "randint"), d2))
    jobs_extra_targets = [fit("hourly", dsh[1], "default", d2)]
    job("rng-perturbed", ops)
    jobs[0]["ops"] = jobs[0]["ops"] + jobs_extra_targets
    # (vi) models PREPARED first and fitted later: construct/construct/fit/fit in both orders, a default (unseeded) model
    #      built in between, to_json / from_json / construct+fit of ANOTHER model between constructing a model and fitting it.
    #      Every deferred fit is a target that is also fitted straight after construction in the reference history.
    A, B = dsh[0], dsh[1]
    p = Prepared()
    a, b, c = p.new(sd), p.new(s1), p.new(drawn)
    p.fit(a, A), p.fit(b, A), p.fit(c, A)
    job("prepared-batch", p.ops)
    p = Prepared()
    a, b, c = p.new(sd), p.new(s1), p.new(d2)
    p.fit(c, B), p.fit(b, B), p.fit(a, B)
    job("prepared-batch", p.ops, threads=8)
    p = Prepared()
    a = p.new(sd)
    u = p.new(None)                                   # a default model in between: its seed is a global draw
    p.fit(a, A)
    b = p.new(s1)
    p.immediate(fit("hourly", B, "default", sd))      # construct + fit + to_json of another model in between
    p.fit(b, B)
    p.fit(u, A)
    job("prepared-interleaved", p.ops)
    p = Prepared()
    x = p.new(s1)
    p.fit(x, A)
    a = p.new(sd)
    p.tojson(x)                                       # construct / to_json(other) / fit
    p.fit(a, A)
    b = p.new(sd)
    y = p.fromjson(x)                                 # construct / from_json(other) / fit
    p.fit(b, B)
    u = p.new(None)
    p.fit(u, B)
    c = p.new(s1)
    p.tojson(u)                                       # to_json of an UNSEEDED fitted model re-draws its seed
    p.fit(c, B)
    job("prepared-interleaved", p.ops)
    # (vii) RE-USING ONE MODEL OBJECT.  refit-same-object: fit(d) twice on one object; refit-after-other: fit(A) then fit(B)
    #       on one object, B = the "other building" (+25 F, 3 x usage; data set number + 1_000_000).  Every fit must equal
    #       the fit of a fresh object, which the reference history does.
    OTHER = 1000000
    p = Prepared()
    for fam, ds, cfg, z in (("daily", dsd[0], "default", None), ("billing", dsb[0], "default", None),
                            ("hourly", A, "default", sd), ("hourly", B, "adaptive", sd), ("hourly", A, "randsel", sd)):
        k = p.new(z, cfg, fam)
        p.fit(k, ds), p.fit(k, ds)
    job("refit-same-object", p.ops)
    p = Prepared()
    fresh_others = []
    for fam, ds, cfg, z in (("daily", dsd[0], "default", None), ("billing", dsb[0], "default", None),
                            ("hourly", A, "default", sd), ("hourly", B, "adaptive", sd), ("daily", dsd[1], "legacy", None)):
        k = p.new(z, cfg, fam)
        p.fit(k, ds), p.fit(k, ds + OTHER)
        if fam == "daily" and cfg == "default":
            p.fit(k, ds)                                   # ... and back again
        fresh_others.append(fit(fam, ds + OTHER, cfg, z))
        if cfg == "legacy":
            fresh_others.append(fit(fam, ds, cfg, z))
    job("refit-after-other", p.ops, threads=1)
    jobs[0]["ops"] = jobs[0]["ops"] + fresh_others
    if thorough:
        job("refit-after-other", p.ops, threads=8)
        for j in range(4):
            p = Prepared()
            seeds = [sd, s1, sd + 2, None, drawn]
            rng.shuffle(seeds)
            ks = [p.new(z, "randsel" if (z == sd + 2) else "default") for z in seeds]
            order = list(range(len(ks)))
            rng.shuffle(order)
            for i in order:
                z = seeds[i]
                ds = dsh[2] if z == sd + 2 else (A if z == drawn else rng.choice([A, B]) if z in (sd, s1) else A)
                p.fit(ks[i], ds)
            job("prepared-batch", p.ops, threads=(1, 8)[j % 2])
    # (iv) alone in a fresh process
    singles = list(T) if thorough else rng.sample(T, 5)
    for i, t in enumerate(singles):
        job("fresh-single", [t], threads=(1, 8)[i % 2])
    # (v) simultaneous identical workers, many threads each
    conc = [fit("daily", dsd[0]), fit("hourly", dsh[0], "default", sd), fit("billing", dsb[0]), fit("hourly", dsh[0], "randsel", sd)]
    if run.quick():
        conc = conc[:3]
    for c in range(run.n(4, 16)):
        job("concurrent", list(conc), threads=8, group="conc")
    # reference history again with 8 threads (every target under both pool sizes)
    job("threads8", list(reversed(T)), threads=8)
    # the package imported before numpy (the pin of hourly/model.py:26-28 then runs first)
    job("opendsm-first", [fit("hourly", dsh[0], "default", sd), fit("daily", dsd[0]), fit("billing", dsb[0])], threads=8,
        imports="opendsm-first")
    # PRIVATE numba caches.  numba freezes module-level values into the code it caches on disk, so whatever a fit wrote into
    # a module global would decide the results of later processes.  Cache "dev" is populated (cold) by a developer-profile
    # fit with non-default loss settings, followed by default fits in that process; two fresh processes then run default
    # fits on the cache it left.  Control: a cold cache populated by default fits (cold vs warm alone must not matter).
    # The effect of a frozen loss constant shows on roughly one daily data set in three (measured on seeded/C03-2), hence
    # several extra daily data sets, fitted on both private caches.
    extra = [fit("daily", rng.randrange(500000, 900000)) for _ in range(run.n(6, 12))]
    job("cold-jit", [fit("daily", dsd[1]), fit("billing", dsb[1])] + extra, cold=True)
    dev = fit("daily", dsd[0], "devalpha")
    pop = job("jit-populated-by-developer-profile", [dev, fit("daily", dsd[0])] + ([fit("daily", dsd[1]), fit("billing", dsb[0])] if thorough else []),
              cache="dev", stage=0)
    popspec = {k: pop[k] for k in ("label", "ops", "threads", "imports", "cold", "cache")}
    third = len(extra) // 3
    job("jit-reuse-developer-cache", [fit("daily", dsd[1]), fit("billing", dsb[1])] + extra[:third], cache="dev", stage=1, populated_by=popspec)
    job("jit-reuse-developer-cache", [fit("billing", dsb[0])] + extra[third:2 * third], cache="dev", stage=1, populated_by=popspec)
    job("jit-reuse-developer-cache", extra[2 * third:], cache="dev", stage=1, populated_by=popspec)
    if thorough:
        jobs[0]["ops"] = jobs[0]["ops"] + [dev]          # the developer profile itself: warm shared cache vs cold
        pop2 = job("jit-populated-by-developer-profile", [dev, fit("billing", dsb[1]), fit("daily", dsd[2])], cache="dev8", stage=0, threads=8)
        job("jit-reuse-developer-cache", [fit("daily", d) for d in dsd[:4]] + [fit("billing", d) for d in dsb[:3]] + extra[:4], cache="dev8",
            stage=1, threads=8, populated_by={k: pop2[k] for k in ("label", "ops", "threads", "imports", "cold", "cache")})
    # CalTRACK hourly: fresh with 1 and with 8 threads, and after fits of other families
    # (quick: 2 threads instead of 8 -- a LAPACK-heavy fit with 8 spinning BLAS threads on a shared machine takes minutes)
    # hash salts are chosen so that a dependence on the pool size (known: C03-K1) and one on the hash salt (C03-K2, fixed in
    # /repo 15304f59) show separately: same salt / other pool size, same pool size / other salt, same both after other fits
    for ct in CT:
        job("caltrack-fresh", [ct], threads=1, hashseed="0")
        job("caltrack-threads", [ct], threads=run.n(2, 8), hashseed="0")
        job("caltrack-other-salt", [ct], threads=1, hashseed="1")
    job("caltrack-after-others", [fit("daily", dsd[0]), fit("hourly", dsh[0], "default", sd), CT[0]], threads=1, hashseed="0")
    if thorough:
        job("caltrack-twice", [CT[0], fit("daily", dsd[0]), CT[0]], threads=1, hashseed="0")
        job("caltrack-other-salt", [CT[0]], threads=1, hashseed="random")
    return jobs, draws


# ------------------------------------------------------------------------------------------------ execution

EVENTS = {}


def run_job(args):
    idx, j, timeout = args
    env = dict(os.environ)
    for v in ("OMP_NUM_THREADS", "OPENBLAS_NUM_THREADS", "MKL_NUM_THREADS", "NUMEXPR_NUM_THREADS", "VECLIB_MAXIMUM_THREADS"):
        env[v] = str(j["threads"])
    env["PYTHONPATH"] = vlib.repo_root()
    env["PYTHONHASHSEED"] = str(j.get("hashseed") or "0")
    cache = j.get("cache")
    if cache:
        d = os.path.join(SCRATCH, "numba-%s" % cache)
        os.makedirs(d, exist_ok=True)
        env["NUMBA_CACHE_DIR"] = d
        if j.get("stage"):
            ev = EVENTS.get(cache)
            if ev is not None:
                ev.wait(timeout)
            elif j.get("populated_by"):      # replay of this job alone: populate the cache first
                run_job((idx, dict(j["populated_by"], stage=0, populated_by=None), timeout))
    t0 = time.time()
    try:
        try:
            p = subprocess.run([sys.executable, "-W", "ignore", os.path.join(HERE, "c03_worker.py")],
                               input=json.dumps({"ops": j["ops"], "imports": j["imports"]}), capture_output=True, text=True,
                               env=env, timeout=timeout)
        except subprocess.TimeoutExpired:
            return {"error": "timeout after %ds" % timeout, "wall": time.time() - t0}
    finally:
        if cache and not j.get("stage") and cache in EVENTS:
            EVENTS[cache].set()
    for line in p.stdout.splitlines():
        if line.startswith("C03RESULT "):
            r = json.loads(line[len("C03RESULT "):])
            r["wall"] = time.time() - t0
            return r
    return {"error": "worker rc=%s: %s" % (p.returncode, (p.stderr or p.stdout)[-600:]), "wall": time.time() - t0}


def execute(run, jobs):
    import threading
    os.makedirs(SCRATCH, exist_ok=True)
    par = int(os.environ.get("C03_PAR", "14"))
    timeout = run.n(900, 2400)
    EVENTS.clear()
    for j in jobs:
        if j.get("cache") and not j.get("stage") and any(k.get("cache") == j["cache"] and k.get("stage") for k in jobs):
            EVENTS[j["cache"]] = threading.Event()
    # cache-populating jobs (cold compile) first, simultaneous groups together, long jobs (CalTRACK) early, waiting jobs last
    order = sorted(range(len(jobs)), key=lambda i: (bool(jobs[i].get("stage")), not (jobs[i].get("cache") in EVENTS),
                                                    jobs[i]["group"] is None, not jobs[i]["label"].startswith("caltrack"),
                                                    -len(jobs[i]["ops"])))
    with ThreadPoolExecutor(par) as ex:
        res = list(ex.map(run_job, [(i, jobs[i], timeout) for i in order]))
    out = [None] * len(jobs)
    for i, r in zip(order, res):
        out[i] = r
    shutil.rmtree(SCRATCH, ignore_errors=True)
    return out


# ------------------------------------------------------------------------------------------------ oracle

def attribute(base, other):
    """why may `other` differ from `base` (two executions (job index, job, op index, digest) of one target)"""
    bi, bj, _, _ = base
    oi, oj, _, _ = other
    if bi == oi:
        return "same-process"
    salt = lambda j: str(j.get("hashseed") or "0")
    same_salt = salt(bj) == salt(oj) and salt(bj) != "random"
    same_thr = bj["threads"] == oj["threads"]
    if same_salt and not same_thr:
        return "blas-threads"
    if same_thr and not same_salt:
        return "hash-salt"
    if not same_thr and not same_salt:
        return "blas-threads+hash-salt"      # refined by classify_difference when the salt can be shown innocent
    return "context:" + oj["label"]


def classify_difference(obs):
    """obs: executions of ONE target whose digests are not all equal -> list of (between, base, other), one per kind of
    difference, every execution being compared with the base execution (1 thread, salt 0, earliest job).  An execution that
    differs from the base although pool size and hash salt agree is a 'context' difference; when only the salt (only the
    pool size) differs the label says so -- unless an execution with the base's salt and pool size ALSO differs, which
    shows that something else is going on and is reported as such."""
    key = lambda x: (x[1]["threads"], str(x[1].get("hashseed") or "0") != "0", x[0], x[2])
    base = min(obs, key=key)
    out = {}
    # the plainest witness first: two executions in ONE process (same pool size, same salt, same everything) that differ
    byjob = {}
    for o in sorted(obs, key=key):
        first = byjob.setdefault(o[0], o)
        if first[3] != o[3]:
            out.setdefault("same-process", (first, o))
    salt = lambda j: str(j.get("hashseed") or "0")
    for o in sorted(obs, key=key):
        if o[3] != base[3]:
            between = attribute(base, o)
            if between == "blas-threads+hash-salt":
                # the salt is innocent when some execution with the base's pool size and a non-base salt equals the base
                if any(x[3] == base[3] and x[1]["threads"] == base[1]["threads"] and salt(x[1]) != salt(base[1]) for x in obs):
                    between = "blas-threads"
            out.setdefault(between, (base, o))
    return [(k, v[0], v[1]) for k, v in out.items()]


def oracle(run, jobs, results):
    groups = {}
    for ji, (j, r) in enumerate(zip(jobs, results)):
        for oi, (op, o) in enumerate(zip(j["ops"], r["obs"])):
            if must_reproduce(op):
                groups.setdefault(tkey(op), []).append((ji, j, oi, o))
    for key, lst in sorted(groups.items(), key=lambda kv: str(kv[0])):
        fam, ds, cfg, seed = key
        errs = [(ji, j, oi, o) for ji, j, oi, o in lst if "error" in o]
        ok = [(ji, j, oi, o) for ji, j, oi, o in lst if "error" not in o]
        if errs and ok:
            ji, j, oi, o = errs[0]
            run.violation({"family": fam, "cfg": cfg, "broken": "fit raises in some contexts only", "between": "context:" + j["label"]},
                          "C03 %s fit of data set %s raised %s in context %s but succeeded elsewhere" % (fam, ds, o["error"][:80], j["label"]),
                          case={"target": list(key), "jobs": [strip(j), strip(ok[0][1])]}, observation=o,
                          expected="the same outcome in every context", generator="c03.build_jobs")
        elif errs:
            ji, j, oi, o = errs[0]
            run.corr_failures.append({"stream": "histories", "case": {"target": list(key)}, "impl": o["error"],
                                      "model": "a fit on valid data returns a model"})
        for what in ("json", "pred"):
            dig = [(ji, j, oi, o[what]) for ji, j, oi, o in ok]
            if len({d for _, _, _, d in dig}) > 1:
                for between, first, other in classify_difference(dig):
                    run.violation({"family": fam, "cfg": cfg, "differs": what, "between": between},
                                  "C03 %s (settings %s, seed %s, data set %s): %s differs between executions of the same fit [%s]: %s in '%s' (threads %d, hash salt %s) vs %s in '%s' (threads %d, hash salt %s)"
                                  % (fam, cfg, seed, ds, "to_json()" if what == "json" else "the fixed prediction", between,
                                     first[3], first[1]["label"], first[1]["threads"], first[1].get("hashseed"),
                                     other[3], other[1]["label"], other[1]["threads"], other[1].get("hashseed")),
                                  case={"target": list(key), "jobs": [strip(first[1]), strip(other[1])]},
                                  observation={"digests": sorted({"%s thr=%d salt=%s %s" % (j["label"], j["threads"], j.get("hashseed"), d) for _, j, _, d in dig})},
                                  expected="one digest", generator="c03.build_jobs")
    return groups


def strip(j):
    return {k: j.get(k) for k in ("label", "ops", "threads", "imports", "cold", "cache", "stage", "populated_by", "hashseed")}


# ------------------------------------------------------------------------------------------------ Coq emission

class Ids:
    def __init__(self):
        self.d = {}

    def __call__(self, kind, x):
        if x is None:
            return -1
        m = self.d.setdefault(kind, {})
        return m.setdefault(x, len(m))


def coq_op(op, recl_default):
    if op["op"] == "fit":
        fam, ds, cfg, seed = tkey(op)
        if fam == "daily":
            return "(FitDaily %s %s)" % (zlit(ds), zlit(CFG_ID[cfg]))
        if fam == "billing":
            return "(FitBilling %s %s)" % (zlit(ds), zlit(CFG_ID[cfg]))
        if fam == "caltrack":
            return "(FitCalTrack %s)" % zlit(ds)
        c = "{| h_id := %s; h_recluster := %d; h_silhouette := %s |}" % (
            zlit(CFG_ID[cfg]), 1 if cfg == "recluster1" else recl_default, coq_bool(cfg == "silhouette"))
        return "(FitHourly %s %s %s)" % (zlit(ds), c, "None" if seed is None else "(Some %s)" % zlit(seed))
    if op["op"] == "predict":
        return "(Predict %d)" % op["ref"]
    if op["op"] == "new" and op.get("fam", "hourly") != "hourly":
        return "(NewDB %s %s)" % ({"daily": "Daily", "billing": "Billing"}[op["fam"]], zlit(CFG_ID[op["cfg"]]))
    if op["op"] == "fitobj" and op.get("fam", "hourly") != "hourly":
        return "(FitDB %d %s)" % (op["mobj"], zlit(op["ds"]))
    if op["op"] == "new":
        cfg = op["cfg"]
        c = "{| h_id := %s; h_recluster := %d; h_silhouette := %s |}" % (
            zlit(CFG_ID[cfg]), 1 if cfg == "recluster1" else recl_default, coq_bool(cfg == "silhouette"))
        return "(NewHourly %s %s)" % (c, "None" if op["seed"] is None else "(Some %s)" % zlit(op["seed"]))
    if op["op"] == "fitobj":
        return "(FitObj %d %s)" % (op["mobj"], zlit(op["ds"]))
    if op["op"] == "tojson":
        return "(ToJson %d)" % op["mobj"]
    if op["op"] == "fromjson":
        return "(FromJson %d)" % op["mobj"]
    if op["op"] == "rng":
        # the worker does np.random.seed(k) and then, when n > 0, np.random.random(n): two model operations
        return None
    return "(Unrelated %s)" % coq_bool(op["what"] == "npdraw")


def coq_hist(idx, j, r, ids, recl_default):
    ops, obs = [], []
    pos = {}          # index of an operation in the job -> index of its model operation (rng ops expand to two)
    for i, (op, o) in enumerate(zip(j["ops"], r["obs"])):
        pos[i] = len(ops) + (1 if op["op"] == "rng" and op["n"] else 0)
        ob = "(%s, %s, %s, %s, %s)" % (zlit(ids("json", o.get("json"))), zlit(ids("noseed", o.get("json_noseed", o.get("json")))),
                                        zlit(ids("pred", o.get("pred"))), zlit(ids("rng", o["rng"])), zlit(o["shared"]))
        if op["op"] == "rng":
            ops.append("(RngSeed %s)" % zlit(op["k"]))
            if op["n"]:
                obs.append("(-1, -1, -1, -1, %s)" % zlit(o["shared"]))     # the state between seed() and random(n) is not observed
                ops.append("(RngRandom %s)" % zlit(op["n"]))
            obs.append(ob)
        elif op["op"] == "predict":
            ops.append("(Predict %d)" % pos[op["ref"]])
            obs.append(ob)
        else:
            ops.append(coq_op(op, recl_default))
            obs.append(ob)
    if j.get("cache") and j.get("stage") and j.get("populated_by"):
        first = next(o for o in j["populated_by"]["ops"] if o["op"] == "fit")
        cache = "[(%s, %s)]" % ({"daily": "Daily", "billing": "Billing", "hourly": "Hourly", "caltrack": "CalTrack"}[first["fam"]],
                                zlit(CFG_ID[first["cfg"]]))
    elif j.get("cache"):
        cache = "[]"                                                   # a private, empty cache directory
    else:
        cache = "[(Daily, 0%Z); (Billing, 0%Z); (Hourly, 0%Z)]"        # the shared warm cache of the check
    # the hash salt in effect is identified by what the worker measured (hash("opendsm") mod 2^61): equal salts, equal value
    return "Definition h%d : hist := (%s, %s, %s, %s, %s, %s, %s)." % (
        idx, zlit(idx + 1), zlit(j["threads"]), cache, zlit(r["info"].get("salt_id", 0)), zlit(ids("rng", r["info"]["rng0"])),
        coq_list(ops), coq_list(obs))


def coq_draw_table(draws):
    rows = []
    for key, val in draws:
        evs = ["EvSeed %s" % zlit(key[0])]
        if key[1]:
            evs.insert(0, "EvRandom %s" % zlit(key[1]))
        for _ in key[2:]:
            evs.insert(0, "EvRandint")
        rows.append("({| r_origin := 0; r_evs := [%s] |}, %s)" % ("; ".join(evs), zlit(val)))
    return "Definition tbl : list (rng * Z) := %s." % coq_list(rows)


# ------------------------------------------------------------------------------------------------ main

def main():
    run = Run("C03")
    run.cov["rule"] = (
        "histories (one fresh interpreter each) over targets = (family in daily/billing/hourly/CalTRACK-hourly, synthetic data set, "
        "settings profile, seed); contexts: reference, every target twice back-to-back, shuffled batches interleaved with predictions / "
        "unseeded hourly fits / data-object construction / reload / python-random / np.random draws, after np.random.seed(k)+random(n), "
        "alone in a fresh process, 4 (thorough 16) simultaneous identical workers, 1 vs 8 BLAS/OpenMP threads, package imported before "
        "numpy, cold numba cache. one evaluation = one fit executed by the implementation; distinct = (context, target); non-trivial = "
        "the fit returned a model whose digests entered the comparison")
    run.assumptions += [
        "PARTIAL: the numerical engines (NLopt, ElasticNet, bisecting k-means, PCA, wavelets, statsmodels/LAPACK, numba) are one "
        "uninterpreted function in the model; their determinism under the runtime (BLAS summation order, thread scheduling, JIT "
        "caches) is sampled by the histories run here, not proved",
        "SHA-256 (truncated to 80 bits) equality stands for equality of to_json() strings / prediction frames (bit level)",
        "numpy's MT19937 is replayed privately (np.random.RandomState) to resolve the model's symbolic draws",
        "thread counts are set through OMP/MKL/OPENBLAS_NUM_THREADS of the worker process and read back with threadpoolctl",
    ]
    run.cov["trusted_base"] += [
        "harness/c03.py, harness/c03_worker.py, harness/fitlib.py (history generator, adapter: which digests are taken, data sets)",
        "harness/translate_repro.py (ast extraction of consumer sites / global-generator uses / _seed assignments / parameter "
        "bindings / mutable defaults; pydantic and inspect.signature introspection); output shown in samples",
        "sklearn contract: PCA(n_components=ratio) uses the exact full SVD; an integer random_state makes ElasticNet / "
        "BisectingKMeans deterministic functions of their input",
    ]
    # ---- step 0: translator (extraction now, the file is written under the build lock below)
    ex = None
    try:
        ex = translate_repro.extract()
        run.sample({"translator": {"consumer_sites": [(s["file"].split("/")[-1], s["line"], s["callee"], s["src"]) for s in ex["sites"]],
                                   "rng_uses": [(u["file"].split("/")[-1], u["line"], u["call"], u["guard"]) for u in ex["uses"]],
                                   "bindings": ex["bindings"], "assigns": [(a["owner"], a["guard"], a["src"]) for a in ex["assigns"]],
                                   "mutable_defaults": [(m["func"], m["param"], m["usage"], m["calls"], m["explicit"]) for m in ex["mdefaults"]],
                                   "x0_sites": [(x["file"].split("/")[-1], x["line"], x["callee"], x["kind"]) for x in ex["x0_sites"]],
                                   "hourly": ex["hourly"], "algorithms": ex["algorithms"]}})
        run.dist("translator", "files=%d sites=%d uses=%d" % (len(ex["files"]), len(ex["sites"]), len(ex["uses"])))
    except translate_repro.TranslatorError as e:
        run.proof_ok = False
        run.proof_log += "\ntranslator (harness/translate_repro.py) could not read the source: %s" % e
        run.log("TRANSLATOR FAILED: %s" % e)
    recl_default = ex["hourly"]["recluster_default"] if ex else 3
    # ---- step 2a: the histories start now and run while the proofs are re-checked
    if run.replay:
        rep = json.load(open(run.replay))
        jobs = [dict(j, group=None) for j in rep["case"].get("jobs", [])]
        for j in jobs:
            j.setdefault("cache", "cold-replay" if j.get("cold") else None)
            j.setdefault("stage", 0)
            j.setdefault("populated_by", None)
            j.setdefault("hashseed", "0")
        draws = []
        if not jobs:
            run.log("replay file carries no jobs (a broken proof / tie): re-running the full check")
            jobs, draws = build_jobs(run, recl_default)
    else:
        jobs, draws = build_jobs(run, recl_default)
    if os.environ.get("C03_ONLY"):          # development aid: run some contexts only
        keep = os.environ["C03_ONLY"].split(",")
        jobs = [j for j in jobs if j["label"] in keep]
    run.log("%d histories, %d operations" % (len(jobs), sum(len(j["ops"]) for j in jobs)))
    bg = ThreadPoolExecutor(1)
    fut = bg.submit(execute, run, jobs)
    # ---- step 1: proofs
    if ex is not None:
        # Generated/ReproGen.v is shared: another C03 check running at the same time against another tree (VERIF_REPO) may
        # replace it between our write and our build; the build counts only if the file still holds OUR tables afterwards
        text = translate_repro.render(ex)
        for attempt in range(4):
            run.write_generated(translate_repro.OUT, text)
            run.check_proofs("Properties/C03.v", ["Proofs/ReproProofs.v", "Proofs/ReproFlowProofs.v"], generated=["Generated/ReproGen.v"])
            if open(os.path.join(vlib.COQ, translate_repro.OUT)).read() == text:
                break
            run.log("Generated/ReproGen.v was replaced by a concurrent run; rebuilding (attempt %d)" % (attempt + 2))
            run.cov["trusted_base"] = [t for t in run.cov["trusted_base"] if not t.startswith(("Print Assumptions", "standard-library axioms"))]
            time.sleep(5 + 10 * attempt)
    run.ensure_models(["Model/ReproRun.v", "Model/CasesLib.v"])
    run.log("proofs re-checked: %s" % ("ok" if run.proof_ok else "FAILED"))
    # source-level finding (refuted theorem C03_seed_reaches_every_consumer_in_source_refuted): still there?
    if ex is not None:
        for s in ex["sites"]:
            if s["callee"] == "silhouette_score" and s["src"] in (("SAbsent",), ("SNone",)) and not s["dead"]:
                run.log("source finding (not a violation of the statement on any sampled input): %s:%d silhouette_score(sample_size=..) "
                        "without random_state draws from numpy's global generator during a seeded hourly fit when "
                        "temporal_cluster.score_metric='silhouette'" % (s["file"], s["line"]))
    # ---- step 2b: collect
    results = fut.result()
    bg.shutdown()
    if os.environ.get("C03_DEBUG"):
        json.dump({"jobs": jobs, "results": results, "draws": draws}, open(os.environ["C03_DEBUG"], "w"), indent=1)
    run.log("histories executed (max wall of one history %.0fs)" % max(r.get("wall", 0) for r in results))
    dead = [(j, r) for j, r in zip(jobs, results) if "error" in r]
    if dead:
        for j, r in dead[:3]:
            run.log("worker failed in context %s: %s" % (j["label"], r["error"]))
        raise RuntimeError("%d worker process(es) did not return a result" % len(dead))
    # thread pools really had the requested size (otherwise the thread contexts test nothing)
    for j, r in zip(jobs, results):
        pools = r["info"].get("pools")
        if j["imports"] == "opendsm-first":
            run.dist("pool sizes with the package imported before numpy, environment says %d" % j["threads"], pools)
        elif pools is not None and any((n > 1) != (j["threads"] > 1) for _, n in pools):
            # (a BLAS build may cap the pool at the number of cores; what matters is single- vs multi-threaded)
            run.corr_failures.append({"stream": "histories", "case": {"label": j["label"], "threads": j["threads"]},
                                      "impl": pools, "model": "pool size = environment of the process"})
    # ---- step 3: oracle
    groups = oracle(run, jobs, results)
    # are the sampled data sets seed-sensitive at all (otherwise a leaked / swapped seed could not show)?
    per_ds = {}
    for (fam, ds, cfg, seed), lst in groups.items():
        if fam == "hourly" and cfg == "default":
            ok = [o for _, _, _, o in lst if "error" not in o]
            if ok:
                per_ds.setdefault(ds, set()).add(ok[0].get("json_noseed"))
    sens = sum(1 for v in per_ds.values() if len(v) > 1)
    run.dist("hourly data sets on which different seeds give different models", "%d of %d" % (sens, len(per_ds)))
    if per_ds and not sens:
        run.log("note: on none of the sampled hourly data sets did the seed change the model; prepared-batch contexts are blind this run")
    for j, r in zip(jobs, results):
        for op, o in zip(j["ops"], r["obs"]):
            if op["op"] in ("fit", "fitobj"):
                run.count((j["label"], j["threads"], j["imports"], op["op"]) + tkey(op), "error" not in o)
                run.dist("family/settings", "%s/%s%s" % (op["fam"], op["cfg"], "" if op["fam"] != "hourly" else ("/seeded" if op["seed"] is not None else "/unseeded")))
                run.dist("context", "%s thr=%d" % (j["label"], j["threads"]))
            else:
                run.dist("other operations", op["op"] + ":" + str(op.get("what", "")))
    for j, r in zip(jobs, results):
        run.dist("hash salt of the worker (PYTHONHASHSEED -> hash('opendsm') % 1000)", "%s -> %s" % (j.get("hashseed"), r["info"].get("hash_probe")))
    run.dist("fit seconds (max)", int(max([o["t"] for r in results for o in r["obs"]] + [0])))
    for j, r in list(zip(jobs, results))[:3]:
        run.sample({"context": j["label"], "threads": j["threads"], "ops": [(o["op"], o.get("fam"), o.get("ds"), o.get("cfg"), o.get("seed")) for o in j["ops"]][:8],
                    "digests": [(o.get("json"), o.get("pred")) for o in r["obs"]][:8], "pools": r["info"].get("pools")})
    # ---- correspondence in Coq: which observations must coincide
    ids = Ids()
    prelude = [coq_draw_table(draws)]
    for i, (j, r) in enumerate(zip(jobs, results)):
        prelude.append(coq_hist(i, j, r, ids, recl_default))
    pairs = [(a, b) for a in range(len(jobs)) for b in range(a, len(jobs))]
    terms = ["(h%d, h%d)" % p for p in pairs]
    bad = run.coq_cases("histories", IMPORTS, "\n".join(prelude), terms, "check_pair tbl", shard=run.n(60, 400), case_type="(hist * hist)%type")
    if bad is None:
        run.proof_ok = False
    else:
        for i in bad[:20]:
            a, b = pairs[i]
            run.corr_failures.append({"stream": "histories", "case": {"a": jobs[a]["label"], "b": jobs[b]["label"],
                                                                      "jobs": [strip(jobs[a]), strip(jobs[b])]},
                                      "impl": {"a": results[a]["obs"], "b": results[b]["obs"]},
                                      "model": "check_pair tbl (h%d, h%d) = false: two operations with the same symbolic result / "
                                               "generator state were observed with different digests" % (a, b)})
    run.finish()


if __name__ == "__main__":
    vlib.run_main(main, "C03")
