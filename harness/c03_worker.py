"""C03 worker: executes one history of library operations in THIS process and prints, for every operation,
what was observed (SHA-256 of to_json() and of a fixed prediction).  Started as a fresh interpreter by harness/c03.py
(`python c03_worker.py < job.json`), so that process start-up state, thread-pool sizes and import order are those of
the context under test.  Nothing here is specific to one context: the context is the job's environment + history.

job = {"ops": [op, ...], "imports": "numpy-first" | "opendsm-first"}
op  = {"op": "fit", "fam": "daily"|"billing"|"hourly"|"caltrack", "ds": int, "cfg": str, "seed": int|None}
    | {"op": "predict", "ref": index of an earlier fit op}
    | {"op": "rng", "k": int, "n": int}          np.random.seed(k) then n draws from the global generator
    | {"op": "unrelated", "what": "pyrandom"|"dataobj"|"reload"|"npdraw"|"sort"}
    | {"op": "new", "cfg": str, "seed": int|None}      construct an HourlyModel now, use it later (object number = count so far)
    | {"op": "fitobj", "obj": k, "ds": int}            fit object k (then to_json + fixed prediction, as for "fit")
    | {"op": "tojson", "obj": k}                       to_json() of the fitted object k
    | {"op": "fromjson", "obj": k}                     HourlyModel.from_json(object k .to_json()): a new object
"""
import hashlib
import json
import os
import random
import sys
import time
import warnings

warnings.simplefilter("ignore")

JOB = json.load(sys.stdin)
if JOB.get("imports") == "opendsm-first":
    import opendsm.eemeter  # noqa: F401  (before numpy: the thread pin in hourly/model.py then precedes the BLAS load)
import numpy as np  # noqa: E402
import pandas as pd  # noqa: E402

sys.path.insert(0, os.path.dirname(os.path.abspath(__file__)))
import fitlib as F  # noqa: E402

_DATA = {}


def dataset(fam, ds, extra=False):
    """deterministic in (fam, ds, extra) only; extra: the hourly frames also carry supplemental columns"""
    key = (fam, ds, extra)
    if key in _DATA:
        return _DATA[key]
    # data sets numbered 1_000_000 and up are the "other building": +25 F warmer and 3 times the usage
    other = ds >= 1000000
    rng = random.Random(1000003 * ds + {"daily": 1, "billing": 2, "hourly": 3, "caltrack": 4}[fam])
    if fam == "daily":
        d = F.daily_frame(rng, noise=rng.choice([0.03, 0.1, 0.25]), weekend=rng.choice([1.0, 0.7]))
        # a few odd days, so that the robust (adaptive-alpha) final fit has something to do: with clean data the
        # adaptive loss stays at alpha = 2 and that whole code path (numba-compiled loss functions) is not exercised
        r = np.random.default_rng(ds)
        odd = r.choice(len(d), 25, replace=False)
        col = d.columns.get_loc("observed")
        d.iloc[odd, col] = np.maximum(d.iloc[odd, col].to_numpy() + r.normal(0, 0.6 * float(d["observed"].mean()), 25), 0.5)
        r = F.daily_frame(rng, start="2023-01-01", ndays=90)
        if other:
            for fr in (d, r):
                fr["temperature"] = fr["temperature"] + 25.0
                fr["observed"] = fr["observed"] * 3.0
        out = (F.daily_baseline(d), F.daily_reporting(r))
    elif fam == "billing":
        m, t = F.billing_series(rng, noise=rng.choice([0.03, 0.1]))
        mr, tr = F.billing_series(rng, start="2023-01-10", nperiods=5)
        if other:
            m, mr, t, tr = m * 3.0, mr * 3.0, t + 25.0, tr + 25.0
        out = (F.billing_baseline(m, t), F.billing_reporting(mr, tr))
    elif fam == "hourly":
        ghi = random.Random(ds % 1000000).random() < 0.3      # (a building and its "other" variant agree on having GHI)
        h = F.hourly_frame(rng, noise=rng.choice([0.5, 0.6]), ghi=ghi)   # noisy enough for the clustering to be seed-sensitive
        hr = F.hourly_frame(rng, start="2023-02-01", ndays=21, ghi=ghi)
        if other:
            for fr in (h, hr):
                fr["temperature"] = fr["temperature"] + 20.0
                fr["observed"] = fr["observed"] * 3.0
        if extra:
            # supplemental time-series columns (wind, humidity, occupancy) and two 0/1 categorical columns, with an effect on usage
            for j, fr in enumerate((h, hr)):
                r = np.random.default_rng(7 * ds + j)
                n = len(fr)
                hod, dow = fr.index.hour.values, fr.index.dayofweek.values
                fr["wind_speed"] = 8 + 4 * np.sin(np.arange(n) / 500.0) + r.normal(0, 2, n)
                fr["humidity"] = 50 + 20 * np.cos(hod / 24 * 2 * np.pi) + r.normal(0, 5, n)
                fr["occupancy"] = np.clip(30.0 * ((dow < 5) & (np.abs(hod - 13) < 5)) + r.normal(0, 3, n), 0, None)
                fr["holiday"] = (r.random(n // 24 + 1) < 0.05).repeat(24)[:n].astype(float)
                fr["night_shift"] = ((hod >= 22) | (hod < 6)).astype(float) * (dow % 2 == 0)
                fr["observed"] = fr["observed"] * (1 + 0.01 * fr["occupancy"]) + 0.02 * fr["wind_speed"] + 0.005 * fr["humidity"] \
                    - 0.3 * fr["holiday"] + 0.2 * fr["night_shift"]
        out = (F.hourly_baseline(h), F.hourly_reporting(hr))
    else:
        h = F.hourly_frame(rng, noise=0.05, ndays=365)
        hr = F.hourly_frame(rng, start="2023-02-01", ndays=21)
        out = (("caltrack-frame", h), ("caltrack-frame", hr))
    _DATA[key] = out
    return out


def new_model(fam, cfg, seed):
    from opendsm.eemeter import DailyModel, BillingModel, HourlyModel
    if fam == "daily":
        if cfg == "legacy":
            return DailyModel(model="legacy")
        if cfg == "devalpha":
            # a developer profile with non-default loss settings (alpha_minimum is documented, default -100)
            return DailyModel(settings={"developer_mode": True, "silent_developer_mode": True, "alpha_minimum": -20.0,
                                        "alpha_selection": 1.5})
        if cfg == "nosmooth":
            return DailyModel(settings={"developer_mode": True, "silent_developer_mode": True, "smoothed_model": False})
        return DailyModel()
    if fam == "billing":
        return BillingModel()
    if fam == "hourly":
        s = {}
        if seed is not None:
            s["seed"] = seed
        if cfg == "randsel":
            s["elasticnet"] = {"selection": "random"}
        elif cfg == "adaptive":
            s["elasticnet"] = {"adaptive_weights": True, "adaptive_weight_max_iter": 3, "adaptive_weight_tol": 1e-4}
        elif cfg == "recluster1":
            s["temporal_cluster"] = {"recluster_count": 1}
        elif cfg == "silhouette":
            s["temporal_cluster"] = {"score_metric": "silhouette"}
        elif cfg == "supp3":
            s["supplemental_time_series_columns"] = ["wind_speed", "humidity", "occupancy"]
        elif cfg == "suppcat":
            s["supplemental_time_series_columns"] = ["occupancy", "humidity"]
            s["supplemental_categorical_columns"] = ["night_shift", "holiday"]
        return HourlyModel(settings=s) if s else HourlyModel()
    from opendsm.eemeter.models.hourly_caltrack import HourlyModel as CT
    return CT()


def sha(b):
    if isinstance(b, str):
        b = b.encode()
    return hashlib.sha256(b).hexdigest()[:20]


def frame_sha(df):
    h = hashlib.sha256()
    h.update(repr(list(map(str, df.columns))).encode())
    h.update(np.ascontiguousarray(df.index.asi8).tobytes())
    for c in df.columns:
        col = df[c]
        if col.dtype.kind in "fiub":
            h.update(np.ascontiguousarray(col.to_numpy()).tobytes())
        else:
            h.update(repr(list(col)).encode())
    return h.hexdigest()[:20]


def strip_seed(js):
    d = json.loads(js)
    if isinstance(d.get("settings"), dict):
        d["settings"].pop("seed", None)
    return json.dumps(d, sort_keys=True)


def rng_digest():
    st = np.random.get_state()
    return hashlib.sha256(st[1].tobytes() + repr(st[2:]).encode()).hexdigest()[:16]


def shared_defaults_len():
    """total length of the mutable defaults the code could share between calls (all must stay empty)"""
    n = 0
    try:
        from opendsm.eemeter.models.hourly_caltrack.model import CalTRACKHourlyModelResults as R
        for d in (R.__init__.__defaults__ or ()):
            if isinstance(d, (list, dict, set)):
                n += len(d)
    except Exception:  # noqa
        n += 1000
    try:
        from opendsm.eemeter.common.sufficiency_criteria import SufficiencyCriteria as S
        for f in ("disqualification", "warnings"):
            n += len(S.model_fields[f].default)
    except Exception:  # noqa
        n += 1000
    return n


def safe_pred(m, rep, **kw):
    """digest of the fixed prediction; a prediction that raises is observed as such (as coded, an hourly model fitted with
    supplemental_categorical_columns cannot predict: matmul dimension mismatch -- not the subject of C03)"""
    try:
        return frame_sha(m.predict(rep, **(kw or {"ignore_disqualification": True})))
    except Exception as e:  # noqa
        return "raised:" + type(e).__name__


def observe_hourly(m, base, rep):
    drawn = int(m.settings._seed)
    m.fit(base, ignore_disqualification=True)
    js = m.to_json()
    return {"json": sha(js), "pred": safe_pred(m, rep), "len": len(js), "json_noseed": sha(strip_seed(js)), "drawn": drawn}


EXTRA_CFGS = ("supp3", "suppcat")


def do_fit(op):
    fam = op["fam"]
    base, rep = dataset(fam, op["ds"], extra=op.get("cfg") in EXTRA_CFGS)
    if fam == "caltrack":
        from opendsm.eemeter.models.hourly_caltrack import HourlyBaselineData, HourlyReportingData
        base = HourlyBaselineData(base[1].copy(), is_electricity_data=True)
        rep = HourlyReportingData(rep[1].copy(), is_electricity_data=True)
    m = new_model(fam, op["cfg"], op.get("seed"))
    drawn = None
    if fam == "hourly":
        drawn = int(m.settings._seed)
    # (data sufficiency is not the subject here: a synthetic meter that happens to be disqualified is fitted all the same)
    kw = {} if fam == "caltrack" else {"ignore_disqualification": True}
    m.fit(base, **kw)
    js = m.to_json()
    obs = {"json": sha(js), "pred": safe_pred(m, rep, **kw) if fam == "hourly" else frame_sha(m.predict(rep, **kw)), "len": len(js)}
    if fam == "hourly":
        obs["json_noseed"] = sha(strip_seed(js))
        obs["drawn"] = drawn
    if fam == "caltrack":
        obs["nwarn"] = len(m.warnings) if hasattr(m, "warnings") else -1
    if os.environ.get("C03_KEEP_JSON"):
        obs["_json"] = js
    return m, rep, obs


def main():
    real_stdout = sys.stdout
    sys.stdout = open(os.devnull, "w")
    t0 = time.time()
    out = []
    fitted = {}
    reloadable = []
    objs = []
    rng0 = rng_digest()
    for i, op in enumerate(JOB["ops"]):
        t1 = time.time()
        try:
            if op["op"] == "fit":
                m, rep, obs = do_fit(op)
                fitted[i] = (m, rep)
                if not (op["fam"] == "hourly" and op.get("seed") is None):
                    reloadable.append(i)
            elif op["op"] == "predict":
                m, rep = fitted[op["ref"]]
                try:
                    pr = m.predict(rep, ignore_disqualification=True)
                except TypeError:
                    pr = m.predict(rep)
                obs = {"pred": frame_sha(pr)}
            elif op["op"] == "new":
                objs.append(new_model(op.get("fam", "hourly"), op["cfg"], op.get("seed")))
                obs = {}
            elif op["op"] == "fitobj":
                fam = op.get("fam", "hourly")
                base, rep = dataset(fam, op["ds"], extra=op.get("cfg") in EXTRA_CFGS)
                if fam == "hourly":
                    obs = observe_hourly(objs[op["obj"]], base, rep)
                else:
                    m = objs[op["obj"]]
                    m.fit(base, ignore_disqualification=True)
                    js = m.to_json()
                    obs = {"json": sha(js), "pred": frame_sha(m.predict(rep, ignore_disqualification=True)), "len": len(js)}
            elif op["op"] == "tojson":
                objs[op["obj"]].to_json()
                obs = {}
            elif op["op"] == "fromjson":
                m = objs[op["obj"]]
                objs.append(type(m).from_json(m.to_json()))
                obs = {}
            elif op["op"] == "rng":
                np.random.seed(op["k"])
                if op["n"]:
                    np.random.random(op["n"])
                obs = {}
            else:
                w = op["what"]
                if w == "pyrandom":
                    random.seed(i)
                    random.random()
                elif w == "npdraw":
                    np.random.random(3)
                elif w == "dataobj":
                    dataset("daily", 900 + i)
                elif w == "reload":
                    # (an unseeded hourly model is never reloaded here: its from_json draws a new seed from the global
                    #  generator, which the history would have to declare)
                    for j in reloadable[:1]:
                        m = fitted[j][0]
                        if hasattr(m, "from_json"):
                            type(m).from_json(m.to_json())
                elif w == "sort":
                    np.sort(np.random.default_rng(i).random(1000))
                obs = {}
        except Exception as e:  # noqa
            obs = {"error": type(e).__name__ + ": " + str(e)[:200]}
        obs["t"] = round(time.time() - t1, 2)
        obs["rng"] = rng_digest()
        obs["shared"] = shared_defaults_len()
        out.append(obs)
    info = {"total_s": round(time.time() - t0, 2), "rng0": rng0, "hashseed": os.environ.get("PYTHONHASHSEED"),
            "hash_probe": hash("opendsm") % 1000,
            "salt_id": hash("opendsm") % (2 ** 61)}     # identifies the hash salt in effect (equal salts => equal value)
    try:
        import threadpoolctl
        info["pools"] = sorted((d["user_api"], d["num_threads"]) for d in threadpoolctl.threadpool_info())
    except Exception:  # noqa
        info["pools"] = None
    real_stdout.write("\nC03RESULT " + json.dumps({"obs": out, "info": info}) + "\n")
    real_stdout.flush()


main()
