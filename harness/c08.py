"""C08 — usage is conserved when meter data is resampled to days.
Model: coq/Model/Resample.v; theorems: coq/Properties/C08.v; tie: correspondence (this file).

Streams (implementation call -> model function):
  asfreq      as_freq(series, "D", include_coverage=True)                -> as_freq_cum
  downsample  downsample_and_clean_daily_data(series, [])                -> downsample_and_clean
  dailyclass  DailyBaselineData / DailyReportingData (df and from_series) -> daily_class   (df['observed'] per local day)
  cleanbill   clean_billing_data(df, kind, [])  (with / without estimated) -> clean_billing / clean_billing_est
  spread      as_freq(cleaned billing series, "D")                       -> as_freq_cum (values)
  billclass   BillingBaselineData (df and from_series)                   -> billing_class (df['observed'] per local day)
  gran        compute_minimum_granularity                                -> granularity
  grid        (model only) literal 1-minute materialisation vs interval formula, executed
The oracle (functions oracle_*) is the property text in exact arithmetic (fractions); it never looks at the model."""
import datetime as dt
import json
import logging
import os
import re
import warnings
from fractions import Fraction as F

import numpy as np
import pandas as pd

import tzdays
import vlib
from vlib import Run, zlit, qlit, coq_list, coq_opt, coq_bool

warnings.simplefilter("ignore")
logging.disable(logging.CRITICAL)

IMPORTS = ("From Coq Require Import QArith Uint63.\nFrom V Require Import Model.Resample Model.ResampleRun.\n"
           "Open Scope uint63_scope.")
RTOL = F(1, 10**9)


# =====================================================================================================
# helpers
# =====================================================================================================

def fclose(a, b, tol=RTOL):
    """|a-b| <= tol*max(1,|a|,|b|) on Fractions/None"""
    if a is None or b is None:
        return a is None and b is None
    return abs(a - b) <= tol * max(1, abs(a), abs(b))


def minutes_of(idx):
    """DatetimeIndex -> list of UTC minutes"""
    i = idx.tz_convert("UTC") if idx.tz is not None else idx
    return [int(x) // 60 for x in i.as_unit("s").asi8]


def tz_index(mins, z):
    return pd.DatetimeIndex(pd.to_datetime([m * 60 for m in mins], unit="s", utc=True)).tz_convert(z)


def series_of(rs, z, name=None):
    """rs: list of (minute, Fraction|None)"""
    return pd.Series([np.nan if v is None else float(v) for _, v in rs], index=tz_index([t for t, _ in rs], z),
                     dtype=float, name=name)


def fr(x):
    """float cell -> exact Fraction / None"""
    x = float(x)
    return None if x != x else F(x)


def parse_inferred(idx):
    """pandas' inferred frequency of an index -> model constructor text"""
    try:
        s = idx.inferred_freq if len(idx) >= 3 else None
    except Exception:  # noqa
        s = None
    if s is None:
        return "NoFreq", None
    m = re.fullmatch(r"(\d*)(min|h|D|s|T|H)", s)
    if m:
        n = int(m.group(1) or 1)
        unit = {"min": 1, "T": 1, "h": 60, "H": 60, "D": 1440}.get(m.group(2))
        if unit is not None:
            return "(Fixed %s)" % zlit(n * unit), s
    m = re.fullmatch(r"(\d*)W(-[A-Z]{3})?", s)
    if m:
        # a Week offset: the unchanged code raises TypeError on it (finding C08-F6, those cases are not sent to the
        # model); with proposed-fixes/C08-2.diff it is a fixed length of n weeks
        return "(Fixed %s)" % zlit(int(m.group(1) or 1) * 7 * 1440), s
    m = re.fullmatch(r"(\d*)(B|bh|BH)", s)
    if m:
        # BusinessDay(n) / BusinessHour(n): daily rows that fall on Mon-Fri only (e.g. zero week-end days of an electricity
        # meter dropped as missing) / hourly rows inside business hours.  freq_as_timedelta reads them as n days / n hours
        # (repaired in /repo 3414f391; before it the comparison with a Timedelta raised TypeError, former C08-F9)
        return "(Fixed %s)" % zlit(int(m.group(1) or 1) * (1440 if m.group(2) == "B" else 60)), s
    m = re.fullmatch(r"(\d*)(MS|ME|M)", s)
    if m:
        return "(Months %s)" % zlit(int(m.group(1) or 1)), s
    return "OtherFreq", s


def ilit(n):
    """primitive 63-bit integer literal (uint63_scope is open in the case files)"""
    n = int(n)
    if not 0 <= n < 2 ** 62:
        raise ValueError("integer out of the uint63 literal range: %d" % n)
    return str(n)


def qvlit(x):
    """Fraction | None -> qv term of Model/ResampleRun.v"""
    if x is None:
        return "QN"
    x = F(x)
    n, d = x.numerator, x.denominator
    if d < 2 ** 62 and abs(n) < 2 ** 62:
        return "(QV %d %d)" % (n, d) if n >= 0 else "(QM %d %d)" % (-n, d)
    return "(QB (%d)%%Z %d%%positive)" % (n, d)


def coq_readings(rs):
    return "(rds %s)" % coq_list(["(%s, %s)" % (ilit(t), qvlit(v)) for t, v in rs])


def rle(xs):
    out = []
    for x in xs:
        if out and out[-1][1] == x:
            out[-1][0] += 1
        else:
            out.append([1, x])
    return out


def coq_zs(bs):
    """boundary list -> (bounds b0 [(count, day length); ...])"""
    lens = [b - a for a, b in zip(bs, bs[1:])]
    return "(bounds %s %s)" % (ilit(bs[0]), coq_list(["(%d, %d)" % (c, L) for c, L in rle(lens)]))


def coq_runs(vals):
    return coq_list(["(%d, %s)" % (c, qvlit(v)) for c, v in rle(vals)])


def coq_class(obs):
    if obs[0] == "days":
        return "(ODays %s)" % coq_runs(obs[1])
    return {"ErrBilling": "OErrBilling", "ErrType": "OErrType"}.get(obs[1])


def coq_offsets(stamps, z):
    """UTC offsets of the given stamps (tz database, data for the model's wall-clock day count)"""
    return "(offsets %s)" % coq_list(["(%s, %d)" % (ilit(t), tzdays.offset(t, z) + 1440) for t in sorted(set(stamps))])


def label_check(stamps, bs):
    """the implementation's row labels must be consecutive local midnights: returns the first label or None"""
    if not stamps:
        return bs[0]
    if stamps[0] not in bs:
        return None
    j = bs.index(stamps[0])
    return stamps[0] if list(bs[j:j + len(stamps)]) == list(stamps) else None


GRAN = {"hourly": "Hourly", "daily": "Daily", "billing_monthly": "BillingMonthly",
        "billing_bimonthly": "BillingBimonthly", "other": "OtherGran"}


# =====================================================================================================
# generators
# =====================================================================================================

def pick_anchor(rng, z):
    """a UTC minute: mostly a DST change of the zone (whole-hour), otherwise an arbitrary day 2013-2025"""
    ch = tzdays.dst_changes_cached(z)
    if ch and rng.random() < 0.75:
        return rng.choice(ch), True
    return tzdays.date_to_minute_utc(rng.randrange(2013, 2026), rng.randrange(1, 13), rng.randrange(1, 28)), False


def gen_subdaily(rng, k, quick=True):
    z = rng.choice(tzdays.ZONES)
    step = rng.choice([15, 30, 60])
    nd_opts = {15: [3, 5, 8, 10, 14], 30: [3, 5, 8, 14, 21], 60: [3, 6, 9, 14, 28, 42]}[step]
    nd = rng.choice(nd_opts)
    anchor, on_dst = pick_anchor(rng, z)
    d0 = tzdays.local_date(anchor, z) - dt.timedelta(days=rng.randrange(0, nd))
    days = [d0 + dt.timedelta(days=i) for i in range(nd + 1)]
    b = [tzdays.day_start(d, z) for d in days]          # b[i] = start of day i, b[nd] = end of the last day
    per_day = [(b[i + 1] - b[i]) // step for i in range(nd)]
    # first slot: local midnight / another slot / exactly half of the first day / half +- 1
    c = rng.random()
    if c < 0.45:
        k0 = 0
    elif c < 0.65:
        k0 = rng.randrange(0, per_day[0])
    else:
        k0 = max(0, min(per_day[0] - 1, per_day[0] // 2 + rng.choice([-1, 0, 1])))
    t0 = b[0] + k0 * step
    e = rng.randrange(0, per_day[-1])
    t_end = b[nd - 1] + e * step
    n = (t_end - t0) // step + 1
    s = rng.randrange(0, 7)
    den = 2 ** s
    slots = [("v", rng.randrange(1, 2 ** 13)) for _ in range(n)]
    elec = rng.random() < 0.4
    if elec or rng.random() < 0.4:
        # readings of exactly 0: missing for electricity, genuine readings for gas (they must stay 0)
        for _ in range(rng.randrange(0, 4)):
            slots[rng.randrange(n)] = ("v", 0)
    classes = []

    def idx_of(t):
        return (t - t0) // step

    ngaps = rng.choice([0, 1, 1, 2, 3, 4])
    for _ in range(ngaps):
        cls = rng.choice(["inside", "midnight", "whole", "half", "start", "end", "lead", "trail"])
        kind = rng.choice(["nan", "absent"])
        di = rng.randrange(0, nd)
        pd_ = per_day[di]
        if cls == "inside":
            a = idx_of(b[di]) + rng.randrange(0, pd_)
            L = rng.randrange(1, max(2, pd_ // 3))
            L = min(L, idx_of(b[di + 1]) - a)
        elif cls == "midnight":
            if di + 1 >= nd:
                continue
            a = idx_of(b[di + 1]) - rng.randrange(1, max(2, pd_ // 3))
            L = (idx_of(b[di + 1]) - a) + rng.randrange(1, max(2, per_day[di + 1] // 3))
        elif cls == "whole":
            a = idx_of(b[di])
            L = pd_ * rng.choice([1, 1, 2])
        elif cls == "half":
            L = pd_ // 2 + rng.choice([-1, 0, 0, 1])
            a = idx_of(b[di]) + rng.randrange(0, max(1, pd_ - L))
        elif cls == "start":
            a, L = 1, rng.randrange(1, max(2, pd_ // 2))
        elif cls == "end":
            L = rng.randrange(1, max(2, pd_ // 2))
            a = n - 1 - L
        elif cls == "lead":
            a, L = 0, rng.randrange(1, max(2, pd_ // 2))
        else:
            L = rng.randrange(1, max(2, pd_ // 2))
            a = n - L
        lo, hi = max(0, a), min(n, a + L)
        if lo >= hi:
            continue
        for i in range(lo, hi):
            slots[i] = (kind,)
        classes.append(cls + "/" + kind)
    present = [i for i, sl in enumerate(slots) if sl[0] == "v"]
    if len(present) < 3:
        return gen_subdaily(rng, k, quick)
    # strip absent slots at the very ends: a series starts / ends with a row
    while slots and slots[0][0] == "absent":
        slots.pop(0)
        t0 += step
    while slots and slots[-1][0] == "absent":
        slots.pop()
    return {"kind": "sub", "zone": z, "step": step, "t0": t0, "den": den, "slots": [list(x) for x in slots],
            "elec": elec, "gap_classes": classes, "on_dst": on_dst}


def gen_daily(rng, k):
    z = rng.choice(tzdays.ZONES)
    nd = rng.choice([4, 7, 10, 20, 35, 60])
    anchor, on_dst = pick_anchor(rng, z)
    d0 = tzdays.local_date(anchor, z) - dt.timedelta(days=rng.randrange(0, nd))
    den = 2 ** rng.randrange(0, 7)
    days = []
    for i in range(nd):
        r = rng.random()
        if i in (0, nd - 1) or r < 0.85:
            days.append(["v", rng.randrange(1, 2 ** 13)])
        elif r < 0.93:
            days.append(["nan"])
        else:
            days.append(["absent"])
    if rng.random() < 0.3:      # a longer hole
        a = rng.randrange(1, nd - 1)
        for i in range(a, min(nd - 1, a + rng.randrange(1, 5))):
            days[i] = [rng.choice(["nan", "absent"])]
    stamps = [tzdays.day_start(d0 + dt.timedelta(days=i), z) for i in range(nd)]
    if rng.random() < 0.4:
        for _ in range(rng.randrange(1, 3)):
            i = rng.randrange(1, nd - 1)
            if days[i][0] == "v":
                days[i] = ["v", 0]      # a day of exactly 0 usage: missing for electricity, stays 0 for gas
    return {"kind": "daily", "zone": z, "stamps": stamps, "den": den, "slots": days, "elec": rng.random() < 0.4,
            "on_dst": on_dst}


def billing_day_start(d, z):
    """local midnight of d; days whose midnight does not exist are moved on by one day"""
    t = tzdays.day_start(d, z)
    while tzdays.local_minute_of_day(t, z) != 0:
        d += dt.timedelta(days=1)
        t = tzdays.day_start(d, z)
    return d, t


def gen_billing(rng, k):
    z = rng.choice(tzdays.ZONES)
    style = rng.choice(["monthly", "monthly", "monthly", "bimonthly", "mixed", "regular", "dst-edge", "weeks"])
    n = rng.randrange(6, 15) if style != "weeks" else rng.randrange(3, 10)
    d = dt.date(rng.randrange(2012, 2025), rng.randrange(1, 13), rng.randrange(1, 29))
    lens = []
    if style == "weeks":
        # a calendar read on an exact cycle of whole weeks, always on the same weekday at local midnight (pandas infers
        # 'nW-XXX'): 4 weeks = a monthly meter, 8 / 9 weeks = a bi-monthly one whose every period is valid
        L = 7 * rng.choice([4, 8, 9, 8, 9, 5, 6, 10])
        lens = [L] * n
    elif style == "regular":
        L = rng.choice([28, 29, 30, 31, 33, 35, 42, 60, 61])
        lens = [L] * n
        if rng.random() < 0.4:
            lens[-1] = rng.choice([L, 26, 34, 40, 50])
    else:
        for i in range(n):
            r = rng.random()
            if style == "bimonthly" or (style == "mixed" and rng.random() < 0.5):
                base = rng.choice([rng.randrange(55, 67), rng.randrange(55, 67), 70, 69, 50, 36])
            else:
                base = rng.choice([rng.randrange(27, 34), rng.randrange(27, 34), rng.randrange(27, 34), 25, 35, 26, 34])
            if r < 0.14:
                base = rng.choice([1, 2, 7, 15, 20, 23, 24, 36, 37, 40, 45, 71, 72, 80])
            lens.append(base)
    dates = [d]
    for L in lens:
        dates.append(dates[-1] + dt.timedelta(days=L))
    if style == "dst-edge":
        # put a period of a critical length across a spring-forward day, or end the data on a DST day
        ch = tzdays.dst_changes_cached(z)
        if ch:
            c = tzdays.local_date(rng.choice(ch), z)
            L = rng.choice([25, 36, 71, 30])
            a = c - dt.timedelta(days=rng.randrange(1, L))
            lens = [rng.randrange(27, 34) for _ in range(3)] + [L] + [rng.randrange(27, 34) for _ in range(rng.randrange(2, 5))]
            dates = [a - dt.timedelta(days=sum(lens[:3]))]
            for L2 in lens:
                dates.append(dates[-1] + dt.timedelta(days=L2))
            if rng.random() < 0.5:
                # ... or let the data end on the day after which the clocks change
                c2 = tzdays.local_date(rng.choice([x for x in ch if x > tzdays.day_start(dates[0], z)] or ch), z)
                if c2 > dates[2]:
                    dates = [x for x in dates if x < c2 - dt.timedelta(days=24)]
                    dates.append(c2 + dt.timedelta(days=rng.choice([0, 1, 1, 2])))
    fixed = []
    for x in dates:
        x2, t = billing_day_start(x, z)
        if fixed and t <= fixed[-1][1]:
            continue
        fixed.append((x2, t))
    stamps = [t for _, t in fixed]
    den = 2 ** rng.randrange(0, 5)
    vals = []
    for i in range(len(stamps) - 1):
        r = rng.random()
        vals.append(None if r < 0.04 else rng.randrange(1, 2 ** 15))
    if style == "weeks" and rng.random() < 0.8:
        vals = [rng.randrange(1, 2 ** 15) if v is None else v for v in vals]        # fully billed
    est = [rng.random() < 0.2 for _ in vals]
    elec = rng.random() < 0.3
    if rng.random() < 0.3 and vals:
        vals[rng.randrange(len(vals))] = 0          # a bill of exactly 0: unbilled for electricity, a bill for gas
    fmt = rng.choice(["daily-temp", "daily-temp", "hourly-temp", "hourly-temp-early", "bare", "from_series", "from_series"])
    # hourly-temp-early: the hourly temperature rows start some days BEFORE the first read, at 07:00 / 18:00 / 13:00 local
    # (the meter reads stay at local midnight): the frame's first row is not at local midnight
    early = [rng.choice([1, 2, 3]), rng.choice([7, 18, 13])]
    last_value = rng.choice([None, None, rng.randrange(1, 2 ** 12)])     # value on the final row (convention: ignored)
    return {"kind": "billing", "zone": z, "stamps": stamps, "den": den, "vals": vals, "est": est, "elec": elec,
            "format": fmt, "style": style, "last_value": last_value,
            "temp_align": "utc" if rng.random() < 0.25 else "local", "early": early}


# =====================================================================================================
# views of a case
# =====================================================================================================

def sub_readings(cs, absent_as_nan=False):
    """list of (minute, Fraction|None) for a sub-daily / daily case; absent slots are left out (or NaN)"""
    out = []
    den = cs["den"]
    for i, sl in enumerate(cs["slots"]):
        t = cs["stamps"][i] if cs["kind"] == "daily" else cs["t0"] + i * cs["step"]
        if sl[0] == "v":
            out.append((t, F(sl[1], den)))
        elif sl[0] == "nan" or absent_as_nan:
            out.append((t, None))
    return out


def case_bounds(cs, rs):
    z = cs["zone"]
    return tzdays.boundaries(rs[0][0], rs[-1][0], z)


def coq_grid(cs, absent_as_nan=False):
    """compact Gallina term for the readings of a sub-daily case"""
    sl = []
    for x in cs["slots"]:
        if x[0] == "v":
            sl.append("V %d" % x[1])
        elif x[0] == "nan" or absent_as_nan:
            sl.append("NaN")
        else:
            sl.append("Absent")
    return "(grid %s %s %d %s)" % (ilit(cs["t0"]), ilit(cs["step"]), cs["den"], coq_list(sl))


# =====================================================================================================
# implementation adapters
# =====================================================================================================

def impl_asfreq(rs, z, coverage=True):
    from opendsm.eemeter.common.data_processor_utilities import as_freq
    s = series_of(rs, z)
    try:
        out = as_freq(s, "D", include_coverage=coverage)
    except Exception as e:  # noqa
        return ("err", type(e).__name__, str(e)[:200])
    if coverage:
        return ("rows", [(m, fr(v), fr(c)) for m, v, c in zip(minutes_of(out.index), out["value"], out["coverage"])])
    return ("rows", [(m, fr(v)) for m, v in zip(minutes_of(out.index), out.values)])


def impl_downsample(rs, z):
    from opendsm.eemeter.common.data_processor_utilities import downsample_and_clean_daily_data
    s = series_of(rs, z)
    try:
        out = downsample_and_clean_daily_data(s, [])
    except Exception as e:  # noqa
        return ("err", type(e).__name__, str(e)[:200])
    return ("rows", [(m, fr(v)) for m, v in zip(minutes_of(out.index), out["value"])])


def per_day(frame, bs, z):
    """df['observed'] grouped by local day: list aligned with the buckets of bs; None = no non-null value"""
    n = len(bs) - 1
    acc = [None] * n
    extra = 0
    if "observed" not in frame.columns:
        return acc, 0
    import bisect
    for m, v in zip(minutes_of(frame.index), frame["observed"].to_numpy()):
        j = bisect.bisect_right(bs, m) - 1
        if j < 0 or j >= n:
            if v == v:
                extra += 1
            continue
        if v == v:
            acc[j] = F(float(v)) if acc[j] is None else acc[j] + F(float(v))
    return acc, extra


def temp_series(t_lo, t_hi, z, step=60, align="local"):
    """an hourly temperature feed covering [t_lo, t_hi] generously (values irrelevant for C08), on the hours of the
    local clock (t_lo is a local midnight or slot) or on UTC hours (differs in zones with :30 / :45 offsets)"""
    a = (t_lo if align == "local" else t_lo - (t_lo % 60)) - 48 * 60
    n = (t_hi - a) // step + 48 * (60 // step) + 1
    mins = [a + i * step for i in range(n)]
    return pd.Series(50.0 + (np.arange(n) % 24), index=tz_index(mins, z), name="temperature")


def impl_daily_class(rs, z, elec, how):
    """how: baseline-df | reporting-df | baseline-series | reporting-series.  Returns (obs, rows_seen_by_class)"""
    from opendsm.eemeter.models.daily.data import DailyBaselineData, DailyReportingData
    cls = DailyBaselineData if how.startswith("baseline") else DailyReportingData
    rows = rs
    try:
        if how.endswith("df"):
            s = series_of(rs, z, "observed")
            df = pd.DataFrame({"observed": s, "temperature": 50.0 + (np.arange(len(s)) % 24)})
            d = cls(df, is_electricity_data=elec)
        else:
            # from_series trims NaN at the outer edges of the meter series first
            valid = [i for i, r in enumerate(rs) if r[1] is not None]
            rows = rs[valid[0]:valid[-1] + 1]
            s = series_of(rs, z, "observed")

            class Capture(cls):
                """from_series builds a frame and hands it to the constructor: the frame is observed here (that step -
                edge trimming, the billing-like branch for sparse series - is not modelled)"""
                df_in = None

                def __init__(self, df, is_electricity_data):
                    Capture.df_in = df.copy()
                    super().__init__(df, is_electricity_data)
            try:
                d = Capture.from_series(s, temp_series(rs[0][0], rs[-1][0], z), is_electricity_data=elec)
            finally:
                if Capture.df_in is not None:
                    col = Capture.df_in["observed"].to_numpy()
                    idx = minutes_of(Capture.df_in.index)
                    keep = sorted({i for i, v in enumerate(col) if v == v} | {0, len(idx) - 1})
                    rows = [(idx[i], fr(col[i])) for i in keep]
        frame = d.df
    except Exception as e:  # noqa
        name = type(e).__name__
        if name == "ValueError" and "Billing data is not allowed" in str(e):
            return ("err", "ErrBilling", str(e)[:200]), rows
        if name == "TypeError":
            return ("err", "ErrType", str(e)[:200]), rows
        return ("err", name, str(e)[:200]), rows
    bs = tzdays.boundaries(rows[0][0], rows[-1][0], z)
    vals, extra = per_day(frame, bs, z)
    if extra:
        return ("err", "rows-outside-input-days", str(extra)), rows
    return ("days", vals), rows


def billing_rows(cs):
    """the property's view: period i = [stamps[i], stamps[i+1]) billed vals[i]"""
    den = cs["den"]
    return [(cs["stamps"][i], None if v is None else F(v, den)) for i, v in enumerate(cs["vals"])]


def impl_clean_billing(rs, z, kind, est=None):
    from opendsm.eemeter.common.data_processor_utilities import clean_billing_data
    df = series_of(rs, z).to_frame("value")
    if est is not None:
        df["estimated"] = list(est)
    try:
        out = clean_billing_data(df, kind, [])
    except Exception as e:  # noqa
        return ("err", type(e).__name__, str(e)[:200])
    return ("rows", [(m, fr(v)) for m, v in zip(minutes_of(out.index), out["value"])])


def impl_billing_class(cs):
    """returns (obs, rows handed to the model, bs)"""
    from opendsm.eemeter.models.billing.data import BillingBaselineData
    z = cs["zone"]
    per = billing_rows(cs)
    t_end = cs["stamps"][-1]
    fmt = cs["format"]
    lastv = None if cs["last_value"] is None else F(cs["last_value"], cs["den"])
    end_day = tzdays.local_date(t_end, z)
    last_day_start = tzdays.day_start(end_day - dt.timedelta(days=1), z)      # the final row of a data frame is the
    rows = None
    try:                                                                        # LAST DAY of the final period
        if fmt == "from_series":
            meter = series_of(per + [(t_end, lastv)], z, "observed")
            temp = temp_series(per[0][0], t_end, z, align=cs.get("temp_align", "local"))

            class Capture(BillingBaselineData):
                """from_series builds a frame and hands it to the constructor: the frame is observed here (that step
                is not modelled), the constructor's treatment of it is what the model mirrors"""
                df_in = None

                def __init__(self, df, is_electricity_data):
                    Capture.df_in = df.copy()
                    super().__init__(df, is_electricity_data)
            try:
                d = Capture.from_series(meter, temp, is_electricity_data=cs["elec"])
            finally:
                if Capture.df_in is not None:
                    col = Capture.df_in["observed"].to_numpy()
                    idx = minutes_of(Capture.df_in.index)
                    keep = sorted({i for i, v in enumerate(col) if v == v} | {0, len(idx) - 1})
                    rows = [(idx[i], fr(col[i])) for i in keep]
        else:
            if fmt == "bare":
                idx = [t for t, _ in per] + [last_day_start]
                obs = [v for _, v in per] + [lastv]
                rows = list(zip(idx, obs))
                if len(set(idx)) != len(idx):
                    return ("skip",), None, None
                df = pd.DataFrame({"observed": [np.nan if v is None else float(v) for v in obs], "temperature": 55.0},
                                  index=tz_index(idx, z))
            else:
                bsd = tzdays.boundaries(per[0][0], last_day_start, z, extra_after=0)
                if fmt == "daily-temp":
                    idx = bsd
                elif fmt == "hourly-temp-early":
                    days_before, hour = cs.get("early", [2, 7])
                    first_day = tzdays.local_date(per[0][0], z) - dt.timedelta(days=days_before)
                    start = tzdays.day_start(first_day, z) + 60 * hour
                    idx = list(range(start, bsd[-1] + 23 * 60 + 1, 60))
                else:
                    idx = list(range(per[0][0], bsd[-1] + 23 * 60 + 1, 60))
                df = pd.DataFrame({"observed": np.nan, "temperature": 55.0}, index=tz_index(idx, z))
                look = dict(per)
                if last_day_start not in look:
                    look[last_day_start] = lastv
                pos = {t: i for i, t in enumerate(idx)}
                col = df.columns.get_loc("observed")
                for t, v in look.items():
                    if v is not None and t in pos:
                        df.iloc[pos[t], col] = float(v)
                # thin the NaN rows out for the model: non-null rows + first + last row
                rows = sorted({(t, v) for t, v in look.items() if v is not None} | {(idx[0], look.get(idx[0])),
                                                                                     (idx[-1], look.get(idx[-1]))})
            d = BillingBaselineData(df, is_electricity_data=cs["elec"])
        frame = d.df
    except Exception as e:  # noqa
        name = type(e).__name__
        if name == "TypeError":
            return ("err", "ErrType", str(e)[:200]), rows, None
        return ("err", name, str(e)[:300]), None, None
    bs = tzdays.boundaries(rows[0][0], rows[-1][0], z, extra_after=3)      # room for the closing stamp (end + 24 h)
    vals, extra = per_day(frame, bs, z)
    if extra:
        return ("err", "rows-outside-input-days", str(extra)), rows, bs
    return ("days", vals), rows, bs


# =====================================================================================================
# the property oracle: the statement in exact arithmetic
# =====================================================================================================

def day_table(cs, bs):
    """per local day of a sub-daily case: (slots the day holds, present readings, their sum, has a missing slot
    after the first present reading of the series, index)"""
    step = cs["step"]
    first_present = None
    out = []
    import bisect
    days = [{"n": (bs[j + 1] - bs[j]) // step, "present": 0, "sum": F(0), "missing_after_first": False,
             "slots_in_input": 0} for j in range(len(bs) - 1)]
    for i, sl in enumerate(cs["slots"]):
        t = cs["t0"] + i * step
        j = bisect.bisect_right(bs, t) - 1
        d = days[j]
        d["slots_in_input"] += 1
        missing = sl[0] != "v" or (cs.get("as_class") and cs["elec"] and sl[1] == 0)
        if not missing:
            if first_present is None:
                first_present = i
            d["present"] += 1
            d["sum"] += F(sl[1], cs["den"])
        elif first_present is not None:
            d["missing_after_first"] = True
    return days


def expected_day(d):
    """fully covered -> sum; more than half -> sum / coverage; half or less -> missing"""
    c = F(d["present"], d["n"])
    if c > F(1, 2):
        return d["sum"] / c
    return None


def interval_days(rows, bs):
    """the statement's reading of a series, in exact arithmetic: row i is the constant rate v_i/(t_{i+1}-t_i) on
    [t_i, t_{i+1}), the last row is open-ended.  Per bucket of bs: (minutes covered by a non-null rate, usage)"""
    import bisect
    out = [[0, F(0)] for _ in range(len(bs) - 1)]
    for (a, v), (b, _) in zip(rows, rows[1:]):
        if v is None or b <= a:
            continue
        j = max(0, bisect.bisect_right(bs, a) - 1)
        while j < len(bs) - 1 and bs[j] < b:
            ov = min(b, bs[j + 1]) - max(a, bs[j])
            if ov > 0:
                out[j][0] += ov
                out[j][1] += v * ov / (b - a)
            j += 1
    return out


def mechanism_dropna(rows, z, elec):
    """what 'drop the missing readings, then spread' (the known finding C08-F1) predicts for the data class, per
    bucket start: readings that are NaN (or zero, for electricity) are removed, each remaining reading is spread
    until the next remaining one, the bucket of the last remaining reading counts as fully covered.
    Only used to attribute a deviation that the oracle has already found."""
    eff = [(t, v) for t, v in rows if v is not None and not (elec and v == 0)]
    if len(eff) < 2:
        return {}
    bs = tzdays.boundaries(eff[0][0], eff[-1][0], z)
    acc = interval_days(eff, bs)
    out = {}
    for j, (c, u) in enumerate(acc):
        last = j == len(acc) - 1
        cov = (F(1) if c > 0 else F(0)) if last else F(c, bs[j + 1] - bs[j])
        out[bs[j]] = u / cov if (c > 0 and cov > F(1, 2)) else None
    return out


def oracle_subdaily_days(cs, bs, got, path, mech=None):
    """got: list of Fraction|None per bucket of bs.  The final day (it holds the open-ended last reading) is
    excluded.  mech: prediction of the known mechanism per bucket start (classification only).
    Returns [(signature, message)]"""
    fails = []
    days = day_table(cs, bs)
    any_missing = any(d["missing_after_first"] for d in days)
    for j, d in enumerate(days[:-1]):
        exp = expected_day(d)
        if fclose(got[j], exp):
            continue
        c = F(d["present"], d["n"])
        if exp is None:
            dev = "sparse day not missing"
        elif got[j] is None:
            dev = "covered day missing"
        elif c == 1:
            dev = "full day differs from the sum of its readings"
        else:
            dev = "partial day not scaled by 1/coverage"
        sig = {"path": path, "deviation": dev}
        if mech is not None:
            explained = any_missing and bs[j] in mech and fclose(got[j], mech[bs[j]])
            sig["cause"] = "missing-readings-dropped-before-spreading" if explained else "other"
        fails.append((sig, "%s: local day %d (%d of %d slots present, coverage %s): expected %s, got %s" % (
            path, j, d["present"], d["n"], c, None if exp is None else float(exp),
            None if got[j] is None else float(got[j]))))
    return fails


def oracle_asfreq(rows_in, bs, got, path):
    """as_freq(..., 'D', include_coverage=True) on rows as given: every local day but the final one carries the usage
    of the constant-rate intervals that fall into it, and its coverage is the covered share of its minutes; and
    nothing is invented or lost: the buckets add up to the readings of the closed intervals.
    got: {bucket start: (value, coverage)}"""
    fails = []
    acc = interval_days(rows_in, bs)
    for j, (c, u) in enumerate(acc[:-1]):
        if bs[j] not in got:
            if c > 0:
                fails.append(({"path": path, "deviation": "covered day has no row"}, "%s: local day %d has no row" % (path, j)))
            continue
        v, cov = got[bs[j]]
        ev = u if c > 0 else None
        ecov = F(c, bs[j + 1] - bs[j])
        if not fclose(v, ev) or not fclose(cov, ecov):
            full = c == bs[j + 1] - bs[j]
            fails.append(({"path": path, "deviation": "full day differs from the sum of its readings" if full
                           else "day usage / coverage differ from the interval arithmetic"},
                          "%s: local day %d: usage %s coverage %s expected, got %s / %s" % (
                              path, j, None if ev is None else float(ev), float(ecov), None if v is None else float(v),
                              None if cov is None else float(cov))))
    total_in = sum((v for _, v in rows_in[:-1] if v is not None), F(0))
    total_out = sum((v for v, _ in got.values() if v is not None), F(0))
    if not fclose(total_in, total_out):
        fails.append(({"path": path, "deviation": "total not conserved"},
                      "%s: readings total %s, daily rows total %s" % (path, float(total_in), float(total_out))))
    return fails


def oracle_conservation(rs, rows, path):
    """nothing invented or lost: the buckets add up to the closed intervals' readings"""
    total_in = sum((v for _, v in rs[:-1] if v is not None), F(0))
    total_out = sum((r[1] for r in rows if r[1] is not None), F(0))
    if not fclose(total_in, total_out):
        return [({"path": path, "deviation": "total not conserved"},
                 "%s: readings total %s, daily rows total %s" % (path, float(total_in), float(total_out)))]
    return []


def midnight_dst(stamps, z):
    """does the local day of one of the stamps start at a midnight that does not exist or happens twice?
    (pandas normalises the first and the last stamp of a series when it builds day bins, which raises there)"""
    for t in stamps:
        for extra in (0, 1):          # pandas also steps one day past the last stamp (last + freq)
            b = tzdays.day_start(tzdays.local_date(t, z) + dt.timedelta(days=extra), z)
            if tzdays.local_minute_of_day(b, z) != 0:
                return True
            if tzdays.offset(b, z) != tzdays.offset(b + 60, z) and tzdays.local_minute_of_day(b + 60, z) == 0:
                return True
    return False


def raise_signature(path, obs, edge_stamps, z):
    known = obs[1] == "ValueError" and ("nonexistent time" in obs[2] or "Cannot infer dst time" in obs[2])
    sig = {"path": path, "raised": obs[1],
           "zone_class": "midnight-dst" if (known and midnight_dst(edge_stamps, z)) else "other"}
    if obs[1] in ("ErrType", "TypeError") and "BusinessDay" in obs[2] and "Timedelta" in obs[2]:
        sig["cause"] = "index-inferred-as-business-days"
    return sig


def cal_days(z, a, b):
    return (tzdays.local_date(b, z) - tzdays.local_date(a, z)).days


def median(xs):
    s = sorted(xs)
    n = len(s)
    return s[n // 2] if n % 2 else F(s[n // 2 - 1] + s[n // 2], 2)


def oracle_offcycle(z, rs_in, rows_out, kind, path):
    """clean_billing_data: a period of < 25 or > 35/70 calendar days is dropped, every other period keeps its
    billed amount.  rs_in: (stamp, value) with the closing row last; rows_out: same stamps"""
    fails = []
    mx = 35 if kind == "billing_monthly" else 70
    out = dict(rows_out)
    for i in range(len(rs_in) - 1):
        a, v = rs_in[i]
        b = rs_in[i + 1][0]
        L = cal_days(z, a, b)
        valid = 25 <= L <= mx
        got = out.get(a, "absent")
        exp = v if valid else None
        if got == "absent" or not fclose(got, exp):
            elapsed_days = (b - a) // 1440
            sig = {"path": path, "deviation": "off-cycle rule",
                   "cause": "elapsed-days-across-spring-forward" if (elapsed_days != L and L in (25, mx + 1)) else "other",
                   "calendar_days": L if L in (25, 36, 71) else "other"}
            fails.append((sig, "%s %s: period of %d calendar days (%d whole elapsed days) billed %s -> %s" % (
                path, kind, L, elapsed_days, None if v is None else float(v),
                got if got == "absent" else (None if got is None else float(got)))))
    return fails


def oracle_billing_days(cs, bs, got, path, last_stamp=None):
    """per period of the input: valid (25..35 days) -> the days inside add up to the billed amount and none is missing;
    36..70 days (valid for a bi-monthly meter, off-cycle for a monthly one) -> conserved or dropped entirely;
    off-cycle or unbilled -> every day inside is missing.
    The cause attached to a deviation (classification of known findings only) is decided from the calendar alone."""
    import bisect
    z = cs["zone"]
    per = billing_rows(cs)
    stamps = cs["stamps"]
    lens = [cal_days(z, stamps[i], stamps[i + 1]) for i in range(len(stamps) - 1)]
    fails = []
    n = len(per)

    def unbilled_at(i):
        return per[i][1] is None or (cs["elec"] and per[i][1] == 0)
    # runs that 'drop the unbilled rows, then spread' merges: a billed period and the unbilled ones that follow it
    run_of = {}
    i = 0
    while i < n:
        if not unbilled_at(i):
            m = i
            while m + 1 < n and unbilled_at(m + 1):
                m += 1
            if m > i:
                for q in range(i, m + 1):
                    run_of[q] = (i, m)
            i = m + 1
        else:
            i += 1
    # the statement's reading of the calendar: a meter whose typical period is above 35 days is bi-monthly (36..70-day
    # periods are valid), one whose typical period is at most 30 days is monthly (they are off-cycle); in between, and
    # with unbilled periods around, it is left to the code's own rule ("either conserved or dropped")
    med_all = median(lens)
    med_body = median(lens[:-1]) if len(lens) > 1 else med_all
    kind = None
    if not any(unbilled_at(q) for q in range(n)):
        if med_all > 35 and med_body > 35:
            kind = "bimonthly"
        elif med_all <= 30 and med_body <= 30:
            kind = "monthly"
    df_final_value = cs["format"] != "from_series" and cs["last_value"] is not None \
        and not (cs["elec"] and cs["last_value"] == 0)
    last_day_len = stamps[-1] - tzdays.day_start(tzdays.local_date(stamps[-1], z) - dt.timedelta(days=1), z)
    off_hour = last_stamp is not None and (last_stamp - max(b for b in bs if b <= last_stamp)) % 60 != 0
    for i, (a, v) in enumerate(per):
        b = stamps[i + 1]
        L = lens[i]
        j0 = bisect.bisect_left(bs, a)
        j1 = bisect.bisect_left(bs, b)
        if j0 >= len(bs) or bs[j0] != a or j1 >= len(bs) or bs[j1] != b:
            continue        # not day-aligned (cannot happen with the generator)
        final = i == n - 1
        if final and df_final_value:
            continue        # a frame whose final row carries a value is outside the documented convention
        inside = got[j0:j1]
        missing_all = all(x is None for x in inside)
        total = sum((x for x in inside if x is not None), F(0))
        elapsed_days = (b - a) // 1440

        def sig(dev):
            cause = "other"
            one_day_tail = cs["format"] == "from_series" and lens[-1] == 1 and i >= n - 2
            if i in run_of:
                # the merged run is spread at one uniform rate (or dropped as a whole); the day that closes the data may
                # be cut off by the closing conventions
                k, m = run_of[i]
                ja, jb = bisect.bisect_left(bs, stamps[k]), bisect.bisect_left(bs, stamps[m + 1])
                seg = [(x, bs[ja + q + 1] - bs[ja + q]) for q, x in enumerate(got[ja:jb])]
                if m == n - 1 and seg and seg[-1][0] is None:
                    seg = seg[:-1]
                rates = [x / ln for x, ln in seg if x is not None]
                if all(x is None for x, _ in seg) or (len(rates) == len(seg) and all(fclose(r, rates[0]) for r in rates)):
                    cause = "unbilled-period-dropped-before-spreading"
            elif one_day_tail:
                cause = "one-day-final-period-from-series"
            elif elapsed_days != L and ((L == 25 and missing_all) or (L == 71 and not missing_all)):
                cause = "elapsed-days-across-spring-forward"
            elif final and last_day_len != 1440:
                cause = "final-period-ends-24h-after-a-dst-day"
            elif final and off_hour:
                cause = "frame-ends-off-the-hour"
            return {"path": path, "deviation": dev, "cause": cause}
        if unbilled_at(i):
            if not missing_all:
                fails.append((sig("unbilled period has usage"), "%s: period %d (%d days) has no bill but its days sum to %s" % (
                    path, i, L, float(total))))
            continue
        if L < 25 or L > 70:
            if not missing_all:
                fails.append((sig("off-cycle period kept"), "%s: off-cycle period %d of %d days is not dropped (days sum to %s)" % (
                    path, i, L, float(total))))
            continue
        if 25 <= L <= 35:
            if any(x is None for x in inside) or not fclose(total, v):
                fails.append((sig("valid period not conserved"), "%s: period %d of %d days billed %s, its days sum to %s (%d missing)" % (
                    path, i, L, float(v), float(total), sum(x is None for x in inside))))
            continue
        # 36..70 days: valid for a bi-monthly meter, off-cycle for a monthly one; all-or-nothing in any case
        if not missing_all and (any(x is None for x in inside) or not fclose(total, v)):
            fails.append((sig("period neither conserved nor dropped"), "%s: period %d of %d days billed %s, its days sum to %s" % (
                path, i, L, float(v), float(total))))
        elif kind == "bimonthly" and missing_all and not (elapsed_days != L and L == 71) \
                and not (final and (last_day_len != 1440 or off_hour)) and i not in run_of:
            # the calendar is unmistakably bi-monthly (typical period above 35 days): this period is valid
            fails.append((sig("valid period of a bi-monthly meter dropped"),
                          "%s: period %d of %d days billed %s of a calendar whose typical period is %s days is dropped "
                          "(all %d days missing)" % (path, i, L, float(v), float(med_all), len(inside))))
        elif kind == "monthly" and not missing_all and not (elapsed_days != L and L == 36) and i not in run_of:
            fails.append((sig("off-cycle period kept"), "%s: period %d of %d days of a calendar whose typical period is %s "
                          "days (a monthly meter) is not dropped" % (path, i, L, float(med_all))))
    return fails


# =====================================================================================================
# running the streams
# =====================================================================================================

CASE_TYPE = {
    "asfreq": "list reading * list Z * int * list (qv * qv)",
    "downsample": "list reading * list Z * int * list qv",
    "spread": "list reading * list Z * int * list (int * qv)",
    "dailyclass": "bool * inferred * list reading * list Z * class_obs",
    "billclass": "bool * list (Z * Z) * bool * inferred * list reading * list Z * class_obs",
    "cleanbill": "bool * list (Z * Z) * gran * list reading * list reading",
    "cleanbill_est": "bool * list (Z * Z) * gran * list brow * option (list reading)",
    "gran": "inferred * list int * gran * option gran",
    "grid": "list reading * int * int",
}
CHECK_FN = {"asfreq": "check_asfreq", "downsample": "check_downsample", "dailyclass": "check_daily_class",
            "cleanbill": "check_clean_billing", "cleanbill_est": "check_clean_billing_est",
            "spread": "check_asfreq_values", "billclass": "check_billing_class", "gran": "check_granularity",
            "grid": "check_grid"}
KEY_RE = re.compile(r"\bx[0-9a-f]{16}\b")


class Rec:
    """worker-side stand-in for (Run, Streams): records what a case did; the parent replays the events"""

    def __init__(self, seed):
        import random
        self.rng = random.Random(seed)
        self.events = []

    # --- Run
    def count(self, key, nontrivial=True):
        self.events.append(("count", key, nontrivial))

    def dist(self, k, v):
        self.events.append(("dist", k, v))

    def sample(self, obj):
        self.events.append(("sample", obj))

    def violation(self, sig, what, case=None, observation=None, generator=None):
        self.events.append(("violation", sig, what, case, observation, generator))

    def extra(self, k, v):
        self.events.append(("extra", k, v))

    # --- Streams
    def define(self, text):
        return text          # inlined: every shard parses only its own cases

    def add(self, stream, term, info):
        self.events.append(("add", stream, term, info))


class Streams:
    def __init__(self, run):
        self.run = run
        self.prelude = {}
        self.items = {}     # stream -> list of (term, info)

    def replay(self, events):
        run = self.run
        for e in events:
            k = e[0]
            if k == "count":
                run.count(e[1], e[2])
            elif k == "dist":
                run.dist(e[1], e[2])
            elif k == "sample":
                run.sample(e[1])
            elif k == "violation":
                run.violation(e[1], e[2], case=e[3], observation=e[4], generator=e[5])
            elif k == "extra":
                run.cov.setdefault("refuted_witnesses", {})[e[1]] = e[2]
            elif k == "define":
                self.prelude[e[1]] = e[2]
            elif k == "add":
                self.items.setdefault(e[1], []).append((e[2], e[3]))
            elif k == "crash":
                raise RuntimeError("harness crashed on a case:\n%s\ncase: %s" % (e[1], str(e[2])[:600]))

    def flush(self):
        """all streams at once (each stream's shards are separate coqc processes)"""
        from concurrent.futures import ThreadPoolExecutor
        run = self.run
        import time as _t

        def one(stream):
            lst = self.items[stream]
            shard = max(1, min(60, len(lst) // 6 + 1))
            t_s = _t.time()
            bad = run.coq_cases(stream, IMPORTS, "", [t for t, _ in lst], CHECK_FN[stream], shard=shard,
                                case_type=CASE_TYPE[stream])
            run.log("stream %s: %d cases, %.1fs" % (stream, len(lst), _t.time() - t_s))
            return stream, bad
        with ThreadPoolExecutor(max_workers=4 if run.tier == "quick" else 1) as ex:   # thorough: 12 coqc at a time
            results = list(ex.map(one, list(self.items)))
        for stream, bad in results:
            lst = self.items[stream]
            if bad is None:
                run.proof_ok = False
                continue
            for i in bad[:6]:
                term, info = lst[i]
                model = run.coq_eval(IMPORTS, "", info["model_term"]) if info.get("model_term") else None
                run.corr_failures.append({"stream": stream, "case": info["case"], "impl": info.get("impl"),
                                          "model": model})
            for i in bad[6:]:
                run.corr_failures.append({"stream": stream, "case": lst[i][1]["case"]})


def report(run, fails, cs, obs, gen):
    for sig, msg in fails:
        run.violation(sig, "C08 " + msg, case=cs, observation=obs, generator=gen)


def short(obs):
    if obs and obs[0] in ("rows", "days"):
        return [obs[0], [[None if c is None else (float(c) if isinstance(c, F) else c) for c in (r if isinstance(r, tuple) else (r,))]
                         for r in obs[1][:int(os.environ.get("C08_SHORT", "60"))]]]
    return list(obs) if obs else obs


def process_subdaily(run, st, cs):
    z = cs["zone"]
    rsA = sub_readings(cs)
    rsB = sub_readings(cs, absent_as_nan=True)
    if len(rsA) < 2:
        return
    key = vlib.sha(cs)
    run.dist("zone", z)
    run.dist("step", cs["step"])
    for g in cs["gap_classes"] or ["none"]:
        run.dist("gap_class", g)
    run.dist("dst_in_series", cs["on_dst"])
    bsA = case_bounds(cs, rsA)
    bsB = case_bounds(cs, rsB)
    gA = coq_grid(cs)
    gB = coq_grid(cs, absent_as_nan=True)
    kA = coq_zs(bsA)
    kB = coq_zs(bsB)
    gen = "c08.gen_subdaily"

    # ---- as_freq on the series as generated (NaN rows are rows, absent slots are not)
    obs = impl_asfreq(rsA, z)
    run.count(("asfreq", key))
    if obs[0] == "rows":
        first = label_check([m for m, _, _ in obs[1]], bsA)
        if first is None:
            report(run, [({"path": "as_freq", "deviation": "rows are not labelled by consecutive local midnights"},
                          "as_freq: row labels are not the local midnights of the series")], cs, short(obs), gen)
        else:
            st.add("asfreq", "(%s, %s, %s, %s)" % (gA, kA, ilit(first), coq_list(
                ["(%s, %s)" % (qvlit(v), qvlit(c)) for _, v, c in obs[1]])),
                {"case": cs, "impl": short(obs), "model_term": "as_freq_cum %s %s" % (gA, kA)})
        report(run, oracle_asfreq(rsA, bsA, {m: (v, c) for m, v, c in obs[1]}, "as_freq"), cs, short(obs), gen)
    else:
        report(run, [(raise_signature("as_freq", obs, [rsA[0][0], rsA[-1][0]], z), "as_freq raised %s: %s" % (obs[1], obs[2]))], cs, list(obs), gen)
    # ---- downsample_and_clean_daily_data on the NaN-marked series: the strict statement
    obs = impl_downsample(rsB, z)
    run.count(("downsample", key))
    if obs[0] == "rows":
        first = label_check([m for m, _ in obs[1]], bsB)
        if first is None or len(obs[1]) != len(bsB) - 1:
            report(run, [({"path": "downsample", "deviation": "row count / labels"}, "downsample: %d rows for %d local days" % (
                len(obs[1]), len(bsB) - 1))], cs, short(obs), gen)
        else:
            st.add("downsample", "(%s, %s, %s, %s)" % (gB, kB, ilit(first), coq_list([qvlit(v) for _, v in obs[1]])),
                   {"case": cs, "impl": short(obs), "model_term": "downsample_and_clean %s %s" % (gB, kB)})
        got = dict(obs[1])
        vals = [got.get(bsB[j]) for j in range(len(bsB) - 1)]
        report(run, oracle_subdaily_days(cs, bsB, vals, "downsample_and_clean_daily_data"), cs, short(obs), gen)
    else:
        report(run, [(raise_signature("downsample", obs, [rsB[0][0], rsB[-1][0]], z), "downsample_and_clean_daily_data raised %s: %s" % (
            obs[1], obs[2]))], cs, list(obs), gen)
    # ---- the data class end to end
    how = run.rng.choice(["baseline-df", "baseline-df", "reporting-df", "baseline-series", "reporting-series"])
    rs_in = rsA if run.rng.random() < 0.6 else rsB
    use_B = rs_in is rsB
    obs, rows = impl_daily_class(rs_in, z, cs["elec"], how)
    run.count(("dailyclass", how, use_B, key))
    run.dist("class_path", how)
    eff = [(t, v) for t, v in rows if v is not None and not (cs["elec"] and v == 0)]
    inf, inf_s = parse_inferred(tz_index([t for t, _ in eff], z))
    run.dist("inferred_freq", inf_s)
    bs = tzdays.boundaries(rows[0][0], rows[-1][0], z)
    case = dict(cs, how=how, absent_as_nan=use_B)
    if obs[0] == "days" or obs[1] in ("ErrBilling", "ErrType"):
        rk = coq_readings(rows) if rows is not rs_in else (gB if use_B else gA)
        bk = coq_zs(bs)
        st.add("dailyclass", "(%s, %s, %s, %s, %s)" % (coq_bool(cs["elec"]), inf, rk, bk, coq_class(obs)),
               {"case": case, "impl": short(obs),
                "model_term": "daily_class %s %s %s %s" % (coq_bool(cs["elec"]), inf, rk, bk)})
    if obs[0] == "days":
        # oracle on the days of the whole input (rows trimmed by from_series only lose all-missing edge days)
        got = dict(zip(bs[:-1], obs[1]))
        vals = [got.get(b) for b in bsB[:-1]]
        csx = dict(cs, as_class=True)
        fails = oracle_subdaily_days(csx, bsB, vals, "daily-data-class", mech=mechanism_dropna(rows, z, cs["elec"]))
        report(run, fails, case, short(obs), gen)
        run.dist("class_days_deviating", min(len(fails), 3))
        run.sample({"stream": "dailyclass", "zone": z, "step": cs["step"], "how": how, "gaps": cs["gap_classes"],
                    "days": len(vals), "first_days": [None if v is None else float(v) for v in vals[:4]]})
    else:
        report(run, [(raise_signature("daily-data-class", obs, [rows[0][0], rows[-1][0]] + [t for t, _ in eff[:1]] + [t for t, _ in eff[-1:]], z), "%s raised %s: %s" % (how, obs[1], obs[2]))],
               case, list(obs), gen)
    # ---- lemma minute_grid_eq executed on one bucket of a short window (the 1-minute grid is slow in Coq)
    if run.rng.random() < 0.08:
        j = run.rng.randrange(0, len(bsA) - 1)
        lo, hi = bsA[j], bsA[j + 1]
        sub = [r for r in rsA if lo - 1440 <= r[0] <= hi + 1440]
        if len(sub) >= 2:
            st.add("grid", "(%s, %s, %s)" % (coq_readings(sub), ilit(lo), ilit(hi)),
                   {"case": {"rs": str(sub[:5]), "lo": lo, "hi": hi}})


def process_daily(run, st, cs):
    z = cs["zone"]
    rs = sub_readings(cs)
    key = vlib.sha(cs)
    run.dist("zone", z)
    how = run.rng.choice(["baseline-df", "reporting-df", "baseline-series"])
    obs, rows = impl_daily_class(rs, z, cs["elec"], how)
    run.count(("dailyclass-daily", how, key))
    run.dist("class_path", "daily/" + how)
    eff = [(t, v) for t, v in rows if v is not None and not (cs["elec"] and v == 0)]
    inf, inf_s = parse_inferred(tz_index([t for t, _ in eff], z))
    run.dist("inferred_freq", inf_s)
    bs = tzdays.boundaries(rows[0][0], rows[-1][0], z)
    case = dict(cs, how=how)
    if obs[0] == "days" or obs[1] in ("ErrBilling", "ErrType"):
        rk = coq_readings(rows)
        bk = coq_zs(bs)
        st.add("dailyclass", "(%s, %s, %s, %s, %s)" % (coq_bool(cs["elec"]), inf, rk, bk, coq_class(obs)),
               {"case": case, "impl": short(obs),
                "model_term": "daily_class %s %s %s %s" % (coq_bool(cs["elec"]), inf, rk, bk)})
    # the statement's granularity rule: a series whose typical (median) spacing is one day is daily
    gaps = sorted(b[0] - a[0] for a, b in zip(eff, eff[1:]))
    med = median(gaps) if gaps else 1440
    # ... judged on the series as supplied as well (from_series decides on it whether the meter is billing-like)
    eff_in = [(t, v) for t, v in rs if v is not None and not (cs["elec"] and v == 0)]
    gaps_in = sorted(b[0] - a[0] for a, b in zip(eff_in, eff_in[1:]))
    _, inf_in = parse_inferred(tz_index([t for t, _ in eff_in], z))
    if gaps_in and median(gaps_in) != 1440 and inf_in is None:
        run.dist("daily_median_spacing", "input not daily by the median rule")
        return
    run.dist("daily_median_spacing", "1 day" if med == 1440 else ("<1 day" if med < 1440 else ">1 day"))
    if obs[0] == "days":
        if med != 1440 and inf_s is None:
            return          # not a daily series by the median rule (spread or aggregated; covered by the other streams)
        # daily readings pass through: each local day shows its reading, days without one are missing
        exp = {}
        for t, v in rs:
            if v is not None and not (cs["elec"] and v == 0):
                exp[t] = v
        for j, b in enumerate(bs[:-1]):
            if not fclose(obs[1][j], exp.get(b)):
                report(run, [({"path": "daily-data-class", "deviation": "daily reading changed"},
                              "daily reading of local day %d: input %s, data object %s" % (
                                  j, exp.get(b) and float(exp[b]), obs[1][j] and float(obs[1][j])))],
                       case, short(obs), "c08.gen_daily")
    elif obs[1] == "ErrBilling":
        if med == 1440 or (inf_s is not None and inf_s.endswith("D") and inf_s in ("D", "1D")):
            report(run, [({"path": "daily-data-class", "raised": "ValueError-billing", "deviation": "daily series rejected"},
                          "daily series rejected as billing data: %s" % obs[2])], case, list(obs), "c08.gen_daily")
    else:
        report(run, [(raise_signature("daily-data-class", obs, [rows[0][0], rows[-1][0]] + [t for t, _ in eff[:1]] + [t for t, _ in eff[-1:]], z), "%s raised %s: %s" % (how, obs[1], obs[2]))],
               case, list(obs), "c08.gen_daily")


def process_billing(run, st, cs):
    z = cs["zone"]
    key = vlib.sha(cs)
    per = billing_rows(cs)
    if len(per) < 3:
        return
    run.dist("zone", z)
    run.dist("billing_style", cs["style"])
    closing = (cs["stamps"][-1], None)
    rs = per + [closing]
    for L in [cal_days(z, cs["stamps"][i], cs["stamps"][i + 1]) for i in range(len(per))]:
        run.dist("period_days", "<25" if L < 25 else "25" if L == 25 else "26-34" if L < 35 else "35" if L == 35 else "36" if L == 36
                 else "37-69" if L < 70 else "70" if L == 70 else "71" if L == 71 else ">71")
    # ---- clean_billing_data, both kinds, without the estimated column
    rk = st.define(coq_readings(rs))
    cal = coq_bool(FLAGS["cal"])
    offs = coq_offsets([t for t, _ in rs], z)
    for kind in ("billing_monthly", "billing_bimonthly"):
        obs = impl_clean_billing(rs, z, kind)
        run.count(("cleanbill", kind, key))
        if obs[0] == "rows":
            st.add("cleanbill", "(%s, %s, %s, %s, %s)" % (cal, offs, GRAN[kind], rk, coq_readings(obs[1])),
                   {"case": dict(cs, call=kind), "impl": short(obs),
                    "model_term": "clean_billing %s %s %s %s" % (cal, offs, GRAN[kind], rk)})
            if obs[1]:
                report(run, oracle_offcycle(z, rs, obs[1], kind, "clean_billing_data"), dict(cs, call=kind), short(obs),
                       "c08.gen_billing")
                # ---- as_freq spreading of the cleaned series
                if kind == "billing_monthly" or run.rng.random() < 0.3:
                    o2 = impl_asfreq(obs[1], z, coverage=False)
                    run.count(("spread", kind, key))
                    bs = tzdays.boundaries(obs[1][0][0], obs[1][-1][0], z)
                    ck = st.define(coq_readings(obs[1]))
                    bk = st.define(coq_zs(bs))
                    if o2[0] == "rows":
                        first = label_check([m for m, _ in o2[1]], bs)
                        if first is None:
                            report(run, [({"path": "as_freq(billing)", "deviation": "rows are not labelled by consecutive local midnights"},
                                          "as_freq: row labels are not local midnights")], cs, short(o2), "c08.gen_billing")
                            continue
                        st.add("spread", "(%s, %s, %s, %s)" % (ck, bk, ilit(first), coq_runs([v for _, v in o2[1]])),
                               {"case": dict(cs, call="as_freq after " + kind), "impl": short(o2),
                                "model_term": "as_freq_cum %s %s" % (ck, bk)})
                        report(run, oracle_conservation(obs[1], o2[1], "as_freq(billing)"), cs, short(o2), "c08.gen_billing")
                        got = dict(o2[1])
                        import bisect
                        for i in range(len(obs[1]) - 1):
                            a, v = obs[1][i]
                            b = obs[1][i + 1][0]
                            inside = [got.get(x) for x in bs[bisect.bisect_left(bs, a):bisect.bisect_left(bs, b)]]
                            tot = sum((x for x in inside if x is not None), F(0))
                            ok = (all(x is None for x in inside) if v is None else
                                  (not any(x is None for x in inside) and fclose(tot, v)))
                            if not ok:
                                report(run, [({"path": "as_freq(billing)", "deviation": "period not conserved"},
                                              "as_freq: period %d billed %s, its days sum to %s" % (i, v and float(v), float(tot)))],
                                       cs, short(o2), "c08.gen_billing")
                    else:
                        report(run, [(raise_signature("as_freq(billing)", o2, [obs[1][0][0], obs[1][-1][0]], z), "as_freq raised %s: %s" % (o2[1], o2[2]))],
                               cs, list(o2), "c08.gen_billing")
        else:
            report(run, [({"path": "clean_billing_data", "raised": obs[1]}, "clean_billing_data raised %s: %s" % (obs[1], obs[2]))],
                   dict(cs, call=kind), list(obs), "c08.gen_billing")
    # ---- with the estimated column
    if any(cs["est"]) and run.rng.random() < 0.7:
        kind = "billing_bimonthly"
        est = list(cs["est"]) + [False]
        obs = impl_clean_billing(rs, z, kind, est=est)
        run.count(("cleanbill_est", key))
        rows_t = "(brows %s)" % coq_list(["(%s, %s, %s)" % (ilit(t), qvlit(v), coq_bool(e)) for (t, v), e in zip(rs, est)])
        if obs[0] == "rows":
            exp = "(Some %s)" % coq_readings(obs[1])
        elif obs[1] == "ValueError" and "Cannot mask" in obs[2]:
            exp = "None"
        else:
            exp = None
            report(run, [({"path": "clean_billing_data+estimated", "raised": obs[1]}, "raised %s: %s" % (obs[1], obs[2]))],
                   cs, list(obs), "c08.gen_billing")
        if exp:
            st.add("cleanbill_est", "(%s, %s, %s, %s, %s)" % (cal, offs, GRAN[kind], rows_t, exp),
                   {"case": dict(cs, call="estimated"), "impl": short(obs),
                    "model_term": "clean_billing_est %s %s %s %s" % (cal, offs, GRAN[kind], rows_t)})
        if obs[0] == "rows":
            # folding estimated reads never invents usage
            tin = sum((v for v in [x[1] for x in per] if v is not None), F(0))
            tout = sum((v for _, v in obs[1] if v is not None), F(0))
            if tout > tin + RTOL * max(1, tin):
                report(run, [({"path": "clean_billing_data+estimated", "deviation": "usage invented"},
                              "estimated folding: %s in, %s out" % (float(tin), float(tout)))], cs, short(obs), "c08.gen_billing")
    # ---- the billing data class end to end
    obs, rows, bs = impl_billing_class(cs)
    if obs[0] == "skip":
        return
    run.count(("billclass", cs["format"], key))
    run.dist("class_path", "billing/" + cs["format"])
    if rows is not None:
        eff = [(t, v) for t, v in rows if v is not None and not (cs["elec"] and v == 0)]
        inf, inf_s = parse_inferred(tz_index([t for t, _ in eff], z))
        run.dist("inferred_freq", inf_s if inf_s is None or not inf_s[0].isdigit() else "nD")
        if bs is None:
            bs = tzdays.boundaries(rows[0][0], rows[-1][0], z, extra_after=3)
        weekly_error = obs[0] == "err" and obs[1] == "ErrType" and "Week" in obs[2]
        if (obs[0] == "days" or obs[1] == "ErrType") and not weekly_error:
            rk2 = st.define(coq_readings(rows))
            bk2 = st.define(coq_zs(bs))
            last = rows[-1][0]
            fb = max(b for b in bs if b <= last)
            offs2 = coq_offsets([t for t, _ in rows] + [fb + (last - fb) % 60 + 1440], z)
            st.add("billclass", "(%s, %s, %s, %s, %s, %s, %s)" % (cal, offs2, coq_bool(cs["elec"]), inf, rk2, bk2, coq_class(obs)),
                   {"case": cs, "impl": short(obs),
                    "model_term": "billing_class %s %s %s %s %s %s" % (cal, offs2, coq_bool(cs["elec"]), inf, rk2, bk2)})
    if obs[0] == "days":
        report(run, oracle_billing_days(cs, bs, obs[1], "billing-data-class", last_stamp=rows[-1][0]), cs, short(obs),
               "c08.gen_billing")
        run.sample({"stream": "billclass", "zone": z, "format": cs["format"], "periods": len(per),
                    "days": len(obs[1]), "non_null_days": sum(v is not None for v in obs[1])})
    else:
        if obs[1] == "ErrType":
            billed = [t for t, v in per if v is not None and not (cs["elec"] and v == 0)]
            _, inf_in = parse_inferred(tz_index(billed + ([cs["stamps"][-1]] if cs["format"] == "from_series" else []), z))
            _, inf_in2 = parse_inferred(tz_index(billed, z))
            _, inf_in3 = parse_inferred(tz_index(list(cs["stamps"]), z))      # from_series looks at the whole meter index
            weekly = "Week" in obs[2] and any(re.match(r"\d*W", x or "") for x in (inf_in, inf_in2, inf_in3))
            sig = {"path": "billing-data-class", "raised": "TypeError",
                   "cause": "regular-cycle-inferred-as-weekly" if weekly else "other"}
        else:
            sig = raise_signature("billing-data-class", obs, [cs["stamps"][0], cs["stamps"][-1] - 1440, cs["stamps"][-1], cs["stamps"][-1] + 1440], z)
        report(run, [(sig, "BillingBaselineData (%s) raised %s: %s" % (cs["format"], obs[1], obs[2]))], cs, list(obs), "c08.gen_billing")


def process_gran(run, st, rng, n):
    """compute_minimum_granularity on irregular indices (median rule) and regular ones"""
    from opendsm.eemeter.common.data_processor_utilities import compute_minimum_granularity
    for k in range(n):
        z = rng.choice(tzdays.ZONES)
        t = tzdays.day_start(dt.date(rng.randrange(2014, 2025), rng.randrange(1, 13), rng.randrange(1, 28)), z)
        m = rng.randrange(1, 12)
        style = rng.choice(["hours", "days", "months", "mixed", "regular", "weekdays", "officehours"])
        ts = [t]
        for _ in range(m):
            if style == "hours":
                d = rng.choice([15, 30, 60, 60, 120, 1440])
            elif style == "days":
                d = rng.choice([1440, 1440, 1440, 2880, 1380, 1500, 720])
            elif style == "months":
                d = rng.choice([25, 30, 31, 35, 36, 60, 70, 71, 90]) * 1440 + rng.choice([0, 0, 60, -60])
            elif style == "regular":
                d = None
            else:
                d = rng.choice([60, 1440, 30 * 1440, 61 * 1440, 35 * 1440, 70 * 1440])
            ts.append(ts[-1] + (d if d else 0))
        if style == "regular":
            d = rng.choice([15, 30, 60, 120, 1440, 2 * 1440, 30 * 1440, 31 * 1440, 60 * 1440])
            ts = [t + i * d for i in range(m + 1)]
        if style in ("weekdays", "officehours"):
            # rows on Mon-Fri only / on 09:00-16:00 of Mon-Fri only: pandas infers BusinessDay / BusinessHour
            z = "UTC"
            d0 = dt.date(rng.randrange(2014, 2025), rng.randrange(1, 13), rng.randrange(1, 28))
            days = [d0 + dt.timedelta(days=i) for i in range(rng.randrange(5, 25))]
            days = [d for d in days if d.weekday() < 5]
            if style == "weekdays":
                ts = [tzdays.day_start(d, z) for d in days]
            else:
                ts = [tzdays.day_start(d, z) + 60 * h for d in days for h in range(9, 17)]
        dflt = rng.choice(["daily", "billing_bimonthly", "other"])
        idx = tz_index(ts, z)
        inf, inf_s = parse_inferred(idx)
        try:
            got = compute_minimum_granularity(idx.copy(), dflt)
            exp = "(Some %s)" % GRAN[got]
        except TypeError:
            got, exp = "TypeError", "None"
        run.count(("gran", vlib.sha(ts), dflt), nontrivial=len(ts) > 1)
        st.add("gran", "(%s, %s, %s, %s)" % (inf, coq_list([ilit(x) for x in ts]), GRAN[dflt], exp),
               {"case": {"ts": ts, "zone": z, "default": dflt, "inferred": inf_s}, "impl": got,
                "model_term": "granularity %s (map zi %s) %s" % (inf, coq_list([ilit(x) for x in ts]), GRAN[dflt])})


# =====================================================================================================
# main
# =====================================================================================================

def replay_refuted(run):
    """the witnesses of the ..._refuted theorems of Properties/C08.v on the implementation (the findings)"""
    from opendsm.eemeter.models.daily.data import DailyBaselineData
    # sparse_day: two full hourly days, one day of 24 NaN hours, one more day (UTC, so every day has 24 slots)
    t0 = 28401120          # 2024-01-01 00:00 UTC
    cs = {"kind": "sub", "zone": "UTC", "step": 60, "t0": t0, "den": 1, "elec": False, "gap_classes": ["whole/nan"],
          "on_dst": False, "slots": [["v", 2]] * 24 + [["nan"]] * 24 + [["v", 2]] * 25}
    rs = sub_readings(cs)
    obs, rows = impl_daily_class(rs, "UTC", False, "baseline-df")
    run.count(("refuted-witness", "sparse_day"))
    if obs[0] == "days":
        bs = tzdays.boundaries(rs[0][0], rs[-1][0], "UTC")
        fails = oracle_subdaily_days(dict(cs, as_class=True), bs, obs[1], "daily-data-class",
                                     mech=mechanism_dropna(rows, "UTC", False))
        report(run, fails, dict(cs, how="baseline-df", witness="C08_sparse_day_class_refuted"), short(obs), "c08.replay_refuted")
        # the witness goes through the correspondence too: model (= the theorem's wit_vals) against the implementation
        eff = [(t, v) for t, v in rows if v is not None]
        inf, _ = parse_inferred(tz_index([t for t, _ in eff], "UTC"))
        run.add("dailyclass", "(false, %s, %s, %s, %s)" % (inf, coq_grid(cs), coq_zs(bs), coq_class(obs)),
                {"case": dict(cs, how="baseline-df", witness="C08_sparse_day_class_refuted"), "impl": short(obs),
                 "model_term": "daily_class false %s %s %s" % (inf, coq_grid(cs), coq_zs(bs))})
        run.extra("sparse_day_class", {"day_1_value": None if obs[1][1] is None else float(obs[1][1]), "expected": None})


def main():
    run = Run("C08")
    run.cov["rule"] = (
        "sub-daily series: 15/30/60-minute slots on the local clock over 3-42 days around a DST change (75 %) in 18 zones "
        "(whole-hour DST, incl. midnight-DST zones and :30/:45 offsets), first slot at local midnight / another slot / exactly "
        "half a day +-1, gaps of 8 placement classes (inside a day, across midnight, whole days, exactly half a day +-1 slot, "
        "after the first / before the last reading, leading, trailing) marked NaN or absent, readings of exactly 0 for "
        "electricity (missing) and gas (genuine readings that must stay 0); each series "
        "goes through as_freq, downsample_and_clean_daily_data and one data-class constructor (df / from_series, baseline / "
        "reporting). daily series 4-60 days with NaN/absent days. billing calendars of 6-14 periods, 25-35 / 36-70 day cycles "
        "with off-cycle reads (1-24, 36-45, 71-80 days) and boundary lengths 24/25/35/36/70/71, regular cycles, periods of "
        "critical length across a spring-forward day, data ending on a DST day, unbilled periods, estimated flags; through "
        "clean_billing_data (both kinds), as_freq, BillingBaselineData (daily-temp / hourly-temp / bare frame, hourly frame whose "
        "first row lies 1-3 days before the first read at 07:00 / 18:00 / 13:00 local, from_series). "
        "distinct = (stream, case hash); non-trivial = at least two readings")
    run.assumptions += [
        "pandas (resample on a tz-aware index, asfreq/ffill, inferred_freq) is re-specified in Model/Resample.v and tied by "
        "the correspondence only; local-day boundaries come from the tz database (zoneinfo) as data",
        "monthly vs bi-monthly is whatever compute_minimum_granularity says (median day-count rule); the oracle only demands "
        "that 36-70 day periods are either conserved or dropped entirely and that 25-35 day periods are always conserved",
        "DataFrame input of the billing class: the final row is the last DAY of the final period (documented convention); "
        "from_series: the final row closes the final period",
        "electricity: zero readings are missing (documented behaviour of the data classes)",
        "values are dyadic rationals with <= 20 significant bits; implementation results are compared within 1e-9 relative",
        "correspondence is sampled: agreement is established on the cases run",
    ]
    run.cov["trusted_base"] += ["harness/c08.py, harness/tzdays.py (generators, adapters, per-local-day canonicalisation, oracle)",
                                "harness/translate_resample.py (ast extraction of the coverage tests, the off-cycle window, the "
                                "granularity tables; fail-closed)",
                                "pandas semantics re-specified in Model/Resample.v; tz database"]
    # step 0: translator (constants, comparison operators, granularity tables read off the source with ast)
    gen = None
    try:
        import translate_resample
        gen = translate_resample.generate(run, which=("resample",))
        run.cov["translated"] = {"downsample": str(gen["downsample"]), "window": str(gen["window"]),
                                 "granularity": str(gen["granularity"])}
    except Exception as e:  # noqa  - fail closed: a source the translator no longer recognises is a broken tie
        run.proof_ok = False
        run.proof_log += "translator failed: %s: %s" % (type(e).__name__, e)
        run.log("TRANSLATOR FAILED: %s: %s" % (type(e).__name__, e))
    run.check_proofs("Properties/C08.v", ["Proofs/ResampleProofs.v", "Proofs/ResampleGenProofs.v"],
                     generated=["Generated/ResampleGen.v"])
    run.log("theorems re-checked: %d/%d" % (run.cov["discharged"], run.cov["obligations"]))
    run.ensure_models(["Model/ResampleRun.v", "Model/CasesLib.v"])
    run.log("models built")
    st = Streams(run)
    jobs = []
    scale = float(os.environ.get("VERIF_SCALE", "1"))      # development aid only

    def nn(pair):
        return max(1, int(run.n(*pair) * scale))
    if run.replay:
        rep = json.load(open(run.replay))
        jobs.append(("case", rep["case"]))
    else:
        corpus = os.path.join(vlib.VERIF, "corpus", "C08.json")
        if os.path.exists(corpus):
            jobs += [("case", c) for c in json.load(open(corpus))]
        for k in range(nn(N_SUB)):
            jobs.append(("case", gen_subdaily(run.rng, k)))
        for k in range(nn(N_DAILY)):
            jobs.append(("case", gen_daily(run.rng, k)))
        for k in range(nn(N_BILL)):
            jobs.append(("case", gen_billing(run.rng, k)))
        ng = nn(N_GRAN)
        for k in range(0, ng, 50):
            jobs.append(("gran", min(50, ng - k)))
        jobs.append(("refuted", None))
    jobs = [(i, run.seed, kind, payload) for i, (kind, payload) in enumerate(jobs)]
    import multiprocessing as mp
    warm_imports()
    flags = probe()
    FLAGS["cal"] = flags["cal"]           # inherited by the forked workers
    run.cov["model_variant"] = flags
    run.log("probe: %s" % {"cal": flags["cal"]})
    if gen is not None and bool(gen["window"]["wall_clock"]) != bool(flags["cal"]):
        # the translator (what the source says) and the probe (what the code does) must name the same variant
        run.corr_failures.append({"stream": "variant", "case": {"probe": flags, "translated_wall_clock": gen["window"]["wall_clock"]},
                                  "impl": "probe", "model": "Generated/ResampleGen.v gen_day_count_wall_clock"})
    nproc = int(os.environ.get("VERIF_PROCS", "14"))
    if len(jobs) == 1 or nproc <= 1:
        results = map(work, jobs)
        for ev in results:
            st.replay(ev)
    else:
        # expensive cases first (15-minute series dominate the 1-minute grid cost)
        order = sorted(jobs, key=lambda j: -job_cost(j))
        with mp.get_context("fork").Pool(nproc) as pool:
            res = {}
            for i, ev in pool.imap_unordered(work_indexed, order, chunksize=1):
                res[i] = ev
        for i in sorted(res):
            st.replay(res[i])
    run.log("implementation done: %d evaluations" % run.cov["evaluations"])
    st.flush()
    run.finish()


N_SUB = (110, 2000)
N_DAILY = (25, 500)
N_BILL = (70, 1200)
N_GRAN = (150, 2000)


def warm_imports():
    import opendsm.eemeter.common.data_processor_utilities  # noqa
    import opendsm.eemeter.models.daily.data  # noqa
    import opendsm.eemeter.models.billing.data  # noqa


def job_cost(job):
    _, _, kind, payload = job
    if kind != "case":
        return 5
    if payload["kind"] == "sub":
        return len(payload["slots"]) * payload["step"] / 60.0 * (3 if payload["step"] == 15 else 1)
    if payload["kind"] == "billing":
        return 400
    return 50


FLAGS = {"cal": False}


def probe():
    """does clean_billing_data count whole elapsed days (code as it is) or days on the local wall clock (repaired,
    proposed-fixes/C08-1.diff)?  US/Pacific 2024-03-01 -> 2024-03-26 is 25 calendar days, 24 d 23 h of elapsed time."""
    z = "US/Pacific"
    st = [tzdays.day_start(dt.date(*d), z) for d in [(2024, 2, 1), (2024, 3, 1), (2024, 3, 26), (2024, 4, 25)]]
    obs = impl_clean_billing([(st[0], F(100)), (st[1], F(250)), (st[2], F(300)), (st[3], None)], z, "billing_monthly")
    kept = obs[0] == "rows" and dict(obs[1]).get(st[1]) == F(250)
    return {"cal": bool(kept), "probe": str(obs)[:200]}


def work_indexed(job):
    return job[0], work(job)


def work(job):
    i, seed, kind, payload = job
    rec = Rec(vlib.sha([seed, i]))
    try:
        if kind == "case":
            cs = {k: v for k, v in payload.items() if k not in ("how", "absent_as_nan", "call", "witness", "as_class")}
            if cs["kind"] == "sub":
                process_subdaily(rec, rec, cs)
            elif cs["kind"] == "daily":
                process_daily(rec, rec, cs)
            else:
                process_billing(rec, rec, cs)
        elif kind == "gran":
            process_gran(rec, rec, rec.rng, payload)
        else:
            replay_refuted(rec)
    except Exception:  # noqa  - a crash of the harness on one case is an alarm, not a skip
        import traceback
        rec.events.append(("crash", traceback.format_exc()[-1500:], payload))
    return rec.events


if __name__ == "__main__":
    vlib.run_main(main, "C08")
