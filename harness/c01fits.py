"""C01: real fitted models of the four families (daily, billing, hourly, CalTRACK hourly) — jobs for a process pool.
Each job builds a synthetic meter (fitlib), fits with the constructor profile it names, then
  * runs the statement's observations on the implementation against itself (c01lib.roundtrip_obs),
  * reads the fitted object's attributes into a plain "state" (the input of the Coq to_doc), and
  * returns the documents the implementation wrote (first and second generation)."""
import copy
import json
import random
import time
import traceback

import numpy as np
import pandas as pd

import fitlib
import c01lib
from c01lib import quiet, jsonify, warn_list

SOUTH = c01lib.SOUTH

DAILY_PROFILES = {
    # name: (base, user settings)
    "current": ("current", None),
    "legacy": ("legacy", None),
    "current-dev": ("current", {"developer_mode": True, "silent_developer_mode": True, "allow_smooth_model": False,
                                "split_selection": {"allow_separate_weekday_weekend": False}}),
    "legacy-dev": ("legacy", {"developer_mode": True, "silent_developer_mode": True, "segment_minimum_count": 8}),
    "legacy-season": ("legacy", {"season": SOUTH, "weekday_weekend": {"friday": "weekend"}}),
    "current-season": ("current", {"season": SOUTH, "weekday_weekend": {"friday": "weekend", "sunday": "weekday"}}),
    "current-unc": ("current", {"uncertainty_alpha": 0.2}),
    # a building without cooling: the fit is heating-only (hdd_tidd: negative stored hdd_beta)
    "legacy-heating": ("legacy", {"developer_mode": True, "silent_developer_mode": True, "full_model": "c_hdd_tidd"}),
    # a re-mapped weekday with usage that follows the map: the fit separates weekday and weekend sub-models
    "current-weekday": ("current", {"weekday_weekend": {"friday": "weekend", "monday": "weekend"}}),
}
BILLING_PROFILES = {
    "billing": None,
    "billing-season": {"season": SOUTH},
    "billing-dev": {"developer_mode": True, "silent_developer_mode": True, "segment_minimum_count": 8},
}
_NOEDGE = {"include_edge_bins": False, "edge_bin_rate": None, "edge_bin_percent": None}
HOURLY_PROFILES = {
    # name: (settings, solar data?)
    "default": (None, False),
    "default-solar": (None, True),
    "explicit-solar": ({"train_features": ["temperature", "ghi"]}, True),
    "robust": ({"scaling_method": "robustscaler"}, False),
    "no-edge-bins": ({"temperature_bin": dict(_NOEDGE)}, False),
    "adaptive": ({"elasticnet": {"adaptive_weights": True, "adaptive_weight_max_iter": 5, "adaptive_weight_tol": 1e-4}}, False),
    "seeded": ({"seed": 7, "temperature_bin": {"bin_width": 9.5, "edge_bin_rate": 1.5}}, True),
    "float-width": ({"temperature_bin": {"bin_width": 12.0}}, False),
    # settings.train_features in another order than the sorted feature order the model fits and stores its scalers in
    "reversed-solar": ({"train_features": ["ghi", "temperature"]}, True),
    "solar-inserted": ("HourlySolarSettings(train_features=['temperature'])", True),     # the validator inserts ghi at position 0
    "supplemental": ({"train_features": ["feature_col", "ghi"], "scaling_method": "robustscaler"}, "feature_col"),
    # supplemental columns whose NAMES have upper-case letters, blanks, mixed case: they must come back verbatim
    # (settings.train_features itself is a list[str] of a BaseSettings class and is lower-cased at construction, so
    #  mixed-case names can only enter as supplemental columns)
    "supplemental-names": ({"supplemental_time_series_columns": ["Humidity", " wind ", "Dew Point"],
                            "scaling_method": "robustscaler"}, "names"),
    # with a supplemental categorical column as well (predict raises for the original AND the reloaded model alike on
    # such a model -- the documents and reloaded attributes are still compared)
    "supplemental-categorical": ({"supplemental_time_series_columns": ["Humidity"], "supplemental_categorical_columns": ["Occ Flag"]}, "names"),
}


def _stretch(df, lo, hi):
    """same index, temperatures swept linearly from lo to hi (outside any fitted range)"""
    out = df.copy()
    out["temperature"] = np.linspace(lo, hi, len(out))
    return out


def pick_zone(job, rng):
    """the baseline zone spec of a job: fixed by the plan (quick tier) or drawn, 30% from the special tzinfo kinds"""
    if job.get("tz"):
        return job["tz"]
    if rng.random() < 0.3:
        return rng.choice(c01lib.SPECIAL_ZONES)
    return rng.choice(c01lib.ZONES)


def tz_sets(spec, make):
    """reporting sets in other spellings / implementations of the baseline zone, an alias and a different zone:
    the fitted model (tzinfo object) and the reloaded one (string) must decide alike.  make(tzinfo) -> data object"""
    return [("tz: %s (%s)" % (label, v), (lambda v=v: make(c01lib.tz_of(v)))) for label, v in c01lib.tz_variants(spec)]


def _reindex(obj, tz):
    out = obj.copy()
    out.index = out.index.tz_convert(tz)
    return out


# ----------------------------------------------------------------------------------------------------- daily / billing

def daily_state_of(m, native):
    """attributes of a DailyModel / BillingModel -> plain state.  native: read the fit results (m.model), otherwise
    the stored parameter objects of a reloaded model"""
    subs = []
    if native:
        for key, sm in m.model.items():
            subs.append([key, jsonify(sm.named_coeffs.model_dump()),
                         {"T_min": float(sm.T_min), "T_max": float(sm.T_max), "T_min_seg": float(sm.T_min_seg),
                          "T_max_seg": float(sm.T_max_seg)}, float(sm.f_unc)])
        err = jsonify(m.error)
    else:
        for key, sp in m.params.submodels.items():
            subs.append([key, jsonify(sp.coefficients.model_dump()), {k: float(v) for k, v in sp.temperature_constraints.items()},
                         float(sp.f_unc)])
        err = jsonify(m.params.info.get("error"))
    return {"subs": subs, "error": err, "tz": str(m.baseline_timezone), "dq": warn_list(m.disqualification),
            "warnings": warn_list(m.warnings), "settings": jsonify(m.settings.model_dump())}


def job_daily(job):
    from opendsm.eemeter import DailyModel
    rng = random.Random(job["seed"])
    base, st = DAILY_PROFILES[job["profile"]]
    spec = pick_zone(job, rng)
    tz = c01lib.tz_of(spec)
    noise = rng.choice([0.03, 0.03, 0.6])              # 0.6: a poor fit -> CVRMSE disqualification stored in the model
    weekend = rng.choice([1.0, 1.4])
    heating = job["profile"].endswith("heating")
    df = fitlib.daily_frame(rng, tz=tz, noise=0.03 if heating else noise, weekend=1.0 if heating else weekend,
                            bh=1.2 if heating else rng.choice([1.2, 0.0, 0.6]), bc=0.0 if heating else rng.choice([0.8, 0.0]))
    rep = fitlib.daily_frame(rng, tz=tz, start="2023-01-01", ndays=rng.choice([90, 200]))
    if st and "weekday_weekend" in st and job["profile"] == "current-weekday":
        # usage follows the model's own day map (Fri-Mon weekend), so that the wd/we split is the one selected
        df = fitlib.daily_frame(rng, tz=tz, noise=0.03, weekend=1.0)
        wk = dict(zip(c01lib.DAYS, c01lib.DEFAULT_WEEK))
        wk.update(st["weekday_weekend"])
        we = [i for i, d in enumerate(c01lib.DAYS) if wk[d] == "weekend"]
        df.loc[df.index.dayofweek.isin(we), "observed"] *= 1.6
        rep = fitlib.daily_frame(rng, tz=tz, start="2023-01-01", ndays=200)
    with quiet():
        m = DailyModel(model=base, settings=copy.deepcopy(st)).fit(fitlib.daily_baseline(df.copy()), ignore_disqualification=True)
    sets = [("continuation", lambda: fitlib.daily_reporting(rep.copy())),
            ("outside-range", lambda: fitlib.daily_reporting(_stretch(rep, -45.0, 135.0))),
            ("baseline", lambda: fitlib.daily_baseline(df.copy()))]
    sets += tz_sets(spec, lambda z: fitlib.daily_reporting(_reindex(rep.iloc[:40], z)))
    state = daily_state_of(m, True)
    obs, js, m2, js2 = c01lib.roundtrip_obs(DailyModel, m, sets, {"ignore_disqualification": True})
    return {"state": state, "js": js, "obs": obs, "shapes": [s[1]["model_type"] for s in state["subs"]],
            "keys": [s[0] for s in state["subs"]], "developer_mode": bool(m.settings.developer_mode), "base": base, "zone": spec}


def job_billing(job):
    from opendsm.eemeter import BillingModel
    rng = random.Random(job["seed"])
    st = BILLING_PROFILES[job["profile"]]
    spec = pick_zone(job, rng)
    tz = c01lib.tz_of(spec)
    meter, temp = fitlib.billing_series(rng, tz=tz, noise=rng.choice([0.03, 0.5]))
    rmeter, rtemp = fitlib.billing_series(rng, tz=tz, start="2023-01-10", nperiods=6)
    with quiet():
        m = BillingModel(settings=copy.deepcopy(st)).fit(fitlib.billing_baseline(meter, temp), ignore_disqualification=True)
    sets = [("continuation", lambda: fitlib.billing_reporting(rmeter, rtemp)),
            ("outside-range", lambda: fitlib.billing_reporting(rmeter, pd.Series(np.linspace(-45.0, 135.0, len(rtemp)), index=rtemp.index))),
            ("baseline", lambda: fitlib.billing_baseline(meter, temp))]
    sets += tz_sets(spec, lambda z: fitlib.billing_reporting(_reindex(rmeter, z), _reindex(rtemp, z)))
    state = daily_state_of(m, True)
    obs, js, m2, js2 = c01lib.roundtrip_obs(BillingModel, m, sets, {"ignore_disqualification": True})
    # aggregated predictions go through the same reloaded parameters: one more observation
    try:
        a = m.predict(fitlib.billing_reporting(rmeter, rtemp), aggregation="monthly", ignore_disqualification=True)
        b = m2.predict(fitlib.billing_reporting(rmeter, rtemp), aggregation="monthly", ignore_disqualification=True) if m2 is not None else None
        if b is not None:
            obs["predict"].append({"set": "monthly-aggregation", "kinds": ["ok", "ok"], "n": int(len(a)), "n_pred": int(len(a)),
                                   "identical": c01lib.frame_sig(a) == c01lib.frame_sig(b), "diff_cols": ["aggregated"]})
    except Exception as e:
        obs.setdefault("notes", []).append("monthly aggregation: %s" % type(e).__name__)
    return {"state": state, "js": js, "obs": obs, "shapes": [s[1]["model_type"] for s in state["subs"]],
            "keys": [s[0] for s in state["subs"]], "developer_mode": bool(m.settings.developer_mode), "base": "billing", "zone": spec}


# ----------------------------------------------------------------------------------------------------- hourly

def hourly_state_of(m):
    """the attributes HourlyModel.to_dict reads -> plain state"""
    from opendsm.eemeter.models.hourly import settings as hs
    fs, ys = m._feature_scaler, m._y_scaler
    if m.settings.scaling_method == hs.ScalingChoice.STANDARDSCALER:
        loc, yloc = fs.mean_, ys.mean_
    else:
        loc, yloc = fs.center_, ys.center_
    bm = m.baseline_metrics
    return {
        "settings": jsonify(m.settings.model_dump()),
        "clusters": [[int(x) for x in row] for row in m._df_temporal_clusters.reset_index().values.tolist()],
        "bin_edges": None if m._T_bin_edges is None else [float(x) for x in m._T_bin_edges],
        "edge_coeffs": None if m._T_edge_bin_coeffs is None else
        [[k if isinstance(k, (int, np.integer)) and not isinstance(k, bool) else repr(k), [[kk, float(vv)] for kk, vv in v.items()]]
         for k, v in m._T_edge_bin_coeffs.items()],
        "ts_features": list(m._ts_features), "cat_features": list(m._categorical_features),
        "loc": [float(x) for x in np.atleast_1d(loc)], "scale": [float(x) for x in np.atleast_1d(fs.scale_)],
        "y": [float(np.squeeze(yloc)), float(np.squeeze(ys.scale_))],
        "coef": [[float(x) for x in row] for row in np.atleast_2d(m._model.coef_)],
        "intercept": [float(x) for x in np.atleast_1d(m._model.intercept_)],
        "metrics": jsonify(bm.model_dump()) if bm is not None else None,
        "warnings": warn_list(m.warnings), "dq": warn_list(m.disqualification), "error": jsonify(m.error),
        "tz": str(m.baseline_timezone), "version": str(m.version),
    }


def job_hourly(job):
    from opendsm.eemeter import HourlyModel
    rng = random.Random(job["seed"])
    st, solar = HOURLY_PROFILES[job["profile"]]
    spec = pick_zone(job, rng)
    tz = c01lib.tz_of(spec)
    noise = rng.choice([0.05, 0.05, 1.5])                # 1.5: poor fit -> disqualification
    hf = fitlib.hourly_frame(rng, tz=tz, ndays=rng.choice([365, 200]), ghi=True, noise=noise)
    rf = fitlib.hourly_frame(rng, tz=tz, start="2023-01-15", ndays=rng.choice([30, 75]), ghi=True)
    if not solar:
        hf, rf = hf[["observed", "temperature"]], rf[["observed", "temperature"]]
    if solar == "feature_col":
        for fr in (hf, rf):
            fr["feature_col"] = np.sin(np.arange(len(fr)) / 17.0) + 0.1 * (fr.index.hour.values % 5)
    if solar == "names":
        for fr in (hf, rf):
            n = np.arange(len(fr))
            fr["Dew Point"] = fr["temperature"].values - 8 + 3 * np.sin(n / 41.0)
            fr["Humidity"] = 50 + 20 * np.sin(n / 31.0)
            fr[" wind "] = 5 + np.cos(n / 11.0)
            fr["Occ Flag"] = (fr.index.hour.values >= 8).astype(float)
    if isinstance(st, str):
        from opendsm.eemeter.models.hourly import settings as hs
        st = hs.HourlySolarSettings(train_features=["temperature"])
    with quiet():
        m = HourlyModel(settings=copy.deepcopy(st)).fit(fitlib.hourly_baseline(hf.copy()), ignore_disqualification=True)
    state = hourly_state_of(m)
    sets = [("continuation", lambda: fitlib.hourly_reporting(rf.copy())),
            ("outside-range", lambda: fitlib.hourly_reporting(_stretch(rf, -45.0, 135.0))),
            ("baseline", lambda: fitlib.hourly_baseline(hf.copy()))]
    sets += tz_sets(spec, lambda z: fitlib.hourly_reporting(_reindex(rf.iloc[:24 * 8], z)))
    obs, js, m2, js2 = c01lib.roundtrip_obs(HourlyModel, m, sets, {"ignore_disqualification": True}, snapshot=hourly_state_of)
    state2 = obs.pop("_state2", None)
    return {"state": state, "state2": state2, "js": js, "js2": js2, "obs": obs, "zone": spec, "solar": bool(solar), "n_coef": sum(len(r) for r in state["coef"]),
            "feature_order": [list(state["settings"].get("train_features") or []), list(state["ts_features"])]}


# ----------------------------------------------------------------------------------------------------- CalTRACK hourly

def caltrack_state_of(m):
    """the attributes the CalTRACK wrapper's to_dict reads -> plain state"""
    res = m.model
    mod = res.model

    def metrics(d):
        if d is None:
            return None
        return [[k, ("native" if hasattr(v, "json") else "reloaded"),
                 jsonify(v.json()) if hasattr(v, "json") else jsonify({a: getattr(v, a) for a in vars(v)})] for k, v in d.items()]

    def warns(ws):
        return {"typed": all(not isinstance(w, dict) for w in ws), "items": warn_list(ws)}

    return {
        "status": res.status, "method_name": res.method_name,
        "segments": [{"name": s.segment_name, "formula": s.formula,
                      "params": [[k, float(v)] for k, v in dict(s.model_params).items()], "warnings": warns(s.warnings)}
                     for s in mod.segment_models],
        "lookup_keys": list(mod.model_lookup.keys()),
        "lookup_targets": [None if v is None else v.segment_name for v in mod.model_lookup.values()],
        "prediction_segment_type": mod.prediction_segment_type,
        "mapping": None if mod.prediction_segment_name_mapping is None else [[k, v] for k, v in mod.prediction_segment_name_mapping.items()],
        "processor": mod.prediction_feature_processor.__name__,
        "occupancy": mod.occupancy_lookup.to_json(orient="split"),
        "occ_bins": mod.occupied_temperature_bins.to_json(orient="split"),
        "unocc_bins": mod.unoccupied_temperature_bins.to_json(orient="split"),
        "segment_type": mod.segment_type,
        "unc": [[("int", int(k)) if isinstance(k, (int, np.integer)) and not isinstance(k, bool) else ("str", str(k)), jsonify(v)]
                for k, v in m._autocorr_unc_vars.items()],
        "warnings": warns(res.warnings), "metadata": jsonify(res.metadata), "settings": jsonify(res.settings),
        "totals": metrics(res.totals_metrics), "avgs": metrics(res.avgs_metrics),
    }


CALTRACK_PROFILES = {
    # name: (baseline rows kept, reporting start) -- reporting data always carries metered usage
    "caltrack": ("full year", "2023-01-15"),
    # short / gapped baselines leave calendar months without rows: their uncertainty statistics are NaN
    "caltrack-4weeks": ("4 weeks", "2023-05-20"),
    "caltrack-11months": ("11 months", "2023-11-10"),
    "caltrack-gap": ("month-long gap", "2023-04-15"),
}


def job_caltrack(job):
    from opendsm.eemeter.models.hourly_caltrack.wrapper import HourlyModel as CTModel
    rng = random.Random(job["seed"])
    tz = rng.choice(c01lib.ZONES)          # the CalTRACK wrapper stores no timezone and has no guard
    kind, rstart = CALTRACK_PROFILES[job["profile"]]
    hf = fitlib.hourly_frame(rng, tz=tz, ndays=365)
    if kind == "4 weeks":
        hf = hf.iloc[24 * 150: 24 * 178]
    elif kind == "11 months":
        hf = hf.iloc[: 24 * 334]
    elif kind == "month-long gap":
        hf = hf[hf.index.month != 5]
    rf = fitlib.hourly_frame(rng, tz=tz, start=rstart, ndays=rng.choice([45, 75]))
    with quiet():
        m = CTModel().fit(fitlib.caltrack_baseline(hf.copy()))
    state = caltrack_state_of(m)
    rf_noobs = rf.copy()
    rf_noobs["observed"] = np.nan
    sets = [("continuation", lambda: fitlib.caltrack_reporting(rf.copy())),
            ("outside-range", lambda: fitlib.caltrack_reporting(_stretch(rf, -45.0, 135.0))),
            ("no-observed", lambda: fitlib.caltrack_reporting(rf_noobs.copy()))]
    obs, js, m2, js2 = c01lib.roundtrip_obs(CTModel, m, sets, {}, snapshot=caltrack_state_of)
    state2 = obs.pop("_state2", None)
    nan_months = [k[1] for k, v in state["unc"] if any(isinstance(x, float) and x != x for x in v.values())]
    return {"state": state, "state2": state2, "js": js, "js2": js2, "obs": obs, "nan_months": nan_months}


JOBS = {"daily": job_daily, "billing": job_billing, "hourly": job_hourly, "caltrack": job_caltrack}


def run_job(job):
    t0 = time.time()
    try:
        out = JOBS[job["family"]](job)
    except Exception as e:
        out = {"crash": "%s: %s" % (type(e).__name__, str(e)[:300]), "trace": traceback.format_exc()[-1500:]}
    out["job"] = job
    out["seconds"] = round(time.time() - t0, 2)
    return out
