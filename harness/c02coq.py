"""C02: Gallina case terms for the three correspondences (hourly state machine, store of frames, fit lists)."""
import numpy as np

from vlib import zlit, coq_list, coq_bool
import c02lib as L

CLS_TAG = {"DailyBaselineData": "DailyB", "DailyReportingData": "DailyR", "BillingBaselineData": "BillingB",
           "BillingReportingData": "BillingR", "HourlyBaselineData": "HourlyB", "HourlyReportingData": "HourlyR",
           "HourlyCaltrackBaselineData": "CaltrackB", "HourlyCaltrackReportingData": "CaltrackR"}
FEATURE_ID = {"temperature": 1, "ghi": 2}
WARN_ID = {"eemeter.potential_model_mismatch": 77}


def feat_id(n):
    if n not in FEATURE_ID:
        FEATURE_ID[n] = 10 + len(FEATURE_ID)
    return FEATURE_ID[n]


def warn_id(n):
    if n not in WARN_ID:
        WARN_ID[n] = 100 + len(WARN_ID)
    return WARN_ID[n]


def nat(n):
    return "%d%%nat" % int(n)


def coq_table(rows):
    return coq_list(["((%s, %s), %s)" % (zlit(m), zlit(w), "None" if v is None else "(Some %s)" % zlit(v)) for m, w, v in rows])


# ------------------------------------------------------------------ hourly state machine

_DSUM = {}


def dsum_of(name, fam, profile, late):
    key = (name, late, profile == "supp")
    if key in _DSUM:
        return _DSUM[key]
    o = L.OBJ[name]
    df = L.private_frame(o["obj"])
    combos = sorted(set(zip(df.index.month.tolist(), df.index.dayofweek.tolist())))
    observed = "observed" in df.columns and not bool(df["observed"].isnull().all())
    cols = [feat_id(c) for c in df.columns if c in ("temperature", "ghi", "occ")]
    supp = [feat_id("occ")] if (profile == "supp" and "occ" in df.columns) else []
    t = "{| ds_id := %s; ds_combos := %s; ds_observed := %s; ds_columns := %s; ds_supp := %s; ds_late_exc := %s |}" % (
        zlit(L.OBJ_ORDER[fam].index(name)), coq_list(["(%s, %s)" % (zlit(a), zlit(b)) for a, b in combos]),
        coq_bool(observed), coq_list([zlit(c) for c in cols]), coq_list([zlit(c) for c in supp]), coq_bool(late))
    _DSUM[key] = (t, combos, observed, cols)
    return _DSUM[key]


def hourly_case(job, res, flags):
    """(term, None) or (None, reason)"""
    fam, profile = job["fam"], job["profile"]
    h0 = res.get("h0")
    if not h0 or "error" in h0:
        return None, "initial state not readable"
    cur = h0
    ops, obs = [], []
    classes = {}
    for rec in res["trace"]:
        hs = rec.get("hstate")
        if not hs or "error" in hs:
            return None, "state not readable after step"
        if rec["op"][0] == "predict":
            name = rec["dataset"]
            raised = str(rec["pred"]).startswith("EXC")
            ts_now = [feat_id(x) for x in cur["ts"]]
            # the numeric stage raises on this data set (oracle): a fresh model raises too, and not for a feature
            # the data lacks (that case is modelled)
            ref = L.REF.get((fam, profile, "fitted", name), "")
            _, combos, observed, cols = dsum_of(name, fam, profile, False)
            missing_feat = any(f not in cols for f in ts_now)
            supp_new = flags["hourly"]["extends_features"] and profile == "supp" and feat_id("occ") in cols and feat_id("occ") not in ts_now
            late = ref.startswith("EXC") and not missing_feat and not supp_new
            dterm, combos, observed, cols = dsum_of(name, fam, profile, late)
            # label oracle: what the implementation gave to the combinations the table did not know
            before = {(m, w): v for m, w, v in cur["table"]}
            after = {(m, w): v for m, w, v in hs["table"]}
            fills = []
            if flags["hourly"]["assigns_back"] and observed and not missing_feat:
                for c in combos:
                    if before.get(c) is None and after.get(c) is not None:
                        fills.append((c[0], c[1], after[c]))
            ops.append("(CPredict %s %s)" % (dterm, coq_table(fills)))
            if raised:
                pred = "(Some None)"
            else:
                k = classes.setdefault((name, rec["pred"]), len(classes))
                pred = "(Some (Some %s))" % zlit(k)
        else:
            ops.append("COther")
            pred = "None"
        obs.append("{| o_table := %s; o_ts := %s; o_warnings := %s; o_pred := %s |}" % (
            coq_table(hs["table"]), coq_list([zlit(feat_id(x)) for x in hs["ts"]]),
            coq_list([zlit(warn_id(x)) for x in hs["warnings"]]), pred))
        cur = hs
    s0 = "{| clusters := %s; ts_features := %s; warnings := %s; hidden := 0%%Z |}" % (
        coq_table(h0["table"]), coq_list([zlit(feat_id(x)) for x in h0["ts"]]),
        coq_list([zlit(warn_id(x)) for x in h0["warnings"]]))
    return "(current_hcfg, %s, %s, %s)" % (s0, coq_list(ops), coq_list(obs)), None


# ------------------------------------------------------------------ store of frames

def frame_term(flags_, ver):
    return "{| has_obs := %s; zeros := %s; dtcol := %s; ver := %s |}" % (
        coq_bool(flags_["has_obs"]), coq_bool(flags_["zeros"]), coq_bool(flags_["dtcol"]), zlit(ver))


def store_case(job, res):
    fam = job["fam"]
    names = L.OBJ_ORDER[fam]
    init = []
    loc = {}
    for i, n in enumerate(names):
        init.append("{| own := Obj %s; val := %s |}" % (CLS_TAG[L.OBJ[n]["cls"]],
                                                        frame_term({"has_obs": True, "zeros": False, "dtcol": False}, 1000 + i)))
        loc["O:" + n] = i
    nloc = len(names)
    sops, sobs = [], []
    ver = [5000]

    def key_loc(k):
        p = k.split(":")
        if p[0] == "O":
            return loc.get("O:" + p[1]) if "frame" in p[2:] else None
        if p[0] == "L":
            return loc.get("L:" + p[1]) if "frame" in p[2:] else None
        if p[0] == "R":
            return loc.get("R:" + p[1]) if len(p) == 2 else None
        if p[0] == "H":
            return loc.get("H:" + p[1])
        return None

    for rec in res["trace"]:
        kind = rec["op"][0]
        changed = sorted({l for l in (key_loc(k) for k in rec["changed"]) if l is not None})
        if kind == "construct":
            changed = None           # the new caller frames get their locations below
        if rec.get("skipped") or kind in ("to_json", "reload", "use_other"):
            sops.append("(SFit %s)" % nat(0)); sobs.append((changed, 0)); continue
        if kind == "predict":
            o = loc["O:" + rec["dataset"]]
            if "new_hand" in rec:
                sops.append("(SPredict %s)" % nat(o)); sobs.append((changed, 1))
                loc["H:%d" % rec["new_hand"]] = nloc; nloc += 1
            else:
                sops.append("(SFit %s)" % nat(o)); sobs.append((changed, 0))
        elif kind == "fit_other":
            sops.append("(SFit %s)" % nat(loc.get("O:" + rec.get("dataset", ""), 0))); sobs.append((changed, 0))
        elif kind == "construct":
            spec = rec["spec"]
            if "exc" in rec or "new_local" not in rec:
                return None, "constructor raised"
            rl = []
            for r, src in zip(rec["new_raws"], spec["src"]):
                if r is None:
                    rl.append(None)
                    continue
                ver[0] += 1
                sops.append("(SNew %s)" % frame_term(L.tpl_flags(L.TPL[src]), ver[0])); sobs.append(([], 1))
                loc["R:%d" % r] = nloc; rl.append(nloc); nloc += 1
            tag = CLS_TAG[spec["cls"]]
            if spec["ctor"] == "init":
                sops.append("(SInit %s %s %s)" % (tag, coq_bool(spec["elec"]), nat(rl[0])))
            else:
                sops.append("(SSeries %s %s %s %s)" % (tag, coq_bool(spec["elec"]),
                                                        "None" if rl[0] is None else "(Some %s)" % nat(rl[0]), nat(rl[1])))
            changed = sorted({l for l in (key_loc(k) for k in rec["changed"]) if l is not None})
            sobs.append((changed, 1))
            loc["L:%d" % rec["new_local"]] = nloc; nloc += 1
        elif kind == "df":
            t = rec["target"]
            o = loc["O:" + t[2:]] if t.startswith("O:") else loc[t]
            sops.append("(SDf %s %s)" % ({"df": "ADf", "billing_df": "ABillingDf"}.get(rec.get("attr", "df"), "AOther"), nat(o)))
            if rec["alias"]:
                loc["H:%d" % rec["new_hand"]] = o
                sobs.append((changed, 0))
            else:
                loc["H:%d" % rec["new_hand"]] = nloc; nloc += 1
                sobs.append((changed, 1))
        elif kind == "mutate":
            l = loc[rec["target"]]
            ver[0] += 1
            sops.append("(SMutate %s %s)" % (nat(l), zlit(ver[0]))); sobs.append((changed, 0))
        else:
            return None, "unknown operation"
    term = "(current_classes, %s, %s, %s)" % (
        coq_list(init), coq_list(sops),
        coq_list(["(%s, %s)" % (coq_list([nat(x) for x in c]), nat(n)) for c, n in sobs]))
    return term, None


# ------------------------------------------------------------------ several model objects in one process

MCLS = {"Daily": "MDaily", "Billing": "MBilling", "Hourly": "MHourly"}
_FITID = {}


def fit_id(name):
    return _FITID.setdefault(name, 1 + len(_FITID))


def objects_case(job, res):
    """only for histories whose object under test was fitted in the worker and used without a copy ("live")"""
    fam = job["fam"]
    if job["lineage"] != "live" or fam not in MCLS:
        return None
    ops = ["(WNew %s)" % MCLS[fam], "(WFit %s %s)" % (nat(0), zlit(fit_id(L.MODELS[(fam, job["profile"])]["base"])))]
    exp = [[], []]
    n_others = 0
    for rec in res["trace"]:
        kind = rec["op"][0]
        if kind == "reload":
            break                      # the object is replaced by one restored from its document
        changed = ([0] if rec.get("js_changed") else []) + [k + 1 for k, _ in rec.get("others_changed", [])]
        if kind == "fit_other" and "new_other" in rec:
            ofam = rec["new_other"]["fam"]
            if ofam not in MCLS:
                return None
            n_others += 1
            ops += ["(WNew %s)" % MCLS[ofam], "(WFit %s %s)" % (nat(n_others), zlit(fit_id(rec["new_other"]["data"])))]
            exp += [[], sorted(changed)]
        elif kind == "use_other" and not rec.get("skipped"):
            ops.append("(WPredict %s)" % nat(1 + rec["op"][1] % max(1, n_others)))
            exp.append(sorted(changed))
        elif kind == "predict":
            ops.append("(WPredict %s)" % nat(0)); exp.append(sorted(changed))
        else:
            ops.append("(WStore %s)" % nat(0)); exp.append(sorted(changed))
    return "(current_sharing, %s, %s)" % (coq_list(ops), coq_list([coq_list([nat(x) for x in e]) for e in exp]))


# ------------------------------------------------------------------ driver

def correspondence(run, jobs, results, flags):
    imports = ("From V Require Import Model.Gate Model.HourlyState Model.HourlyStateRun Model.Store Model.StoreRun "
               "Model.Objects Model.ObjectsRun Generated.C02Gen.")
    hterms, hkept, sterms, skept, fterms, fkept, oterms, okept = [], [], [], [], [], [], [], []
    for job, res in zip(jobs, results):
        case = {"fam": job["fam"], "profile": job["profile"], "lineage": job["lineage"], "ops": [list(map(str, o)) for o in job["ops"]]}
        if job["fam"] == "Hourly":
            t, why = hourly_case(job, res, flags)
            if t is None:
                run.corr_failures.append({"stream": "hourly_state", "case": case, "model": why})
            else:
                hterms.append(t); hkept.append((case, res))
        t = objects_case(job, res)
        if t is not None:
            oterms.append(t); okept.append((case, res))
        t, why = store_case(job, res)
        if t is None:
            run.corr_failures.append({"stream": "store", "case": case, "model": why})
        else:
            sterms.append(t); skept.append((case, res))
        if job["fam"] in ("Daily", "Billing", "Hourly"):
            for rec in res["trace"]:
                ofam = rec.get("other_family", job["fam"])
                if rec["op"][0] == "fit_other" and rec.get("fit") == "Fitted" and ofam in ("Daily", "Billing", "Hourly"):
                    if not isinstance(rec.get("model_dq"), int):
                        continue
                    poor = rec["model_dq"] > rec["data_dq_before"]
                    fterms.append("(%s, %s, %s, (%s, %s))" % (
                        "current_fit_copies %s" % ofam, coq_bool(poor), nat(rec["data_dq_before"]),
                        nat(rec["data_dq"]), nat(rec["model_dq"])))
                    fkept.append((case, rec))
                    run.dist("fit of another meter", "poor fit" if poor else "acceptable fit")
    for stream, terms, kept, fn, ty in [
            ("hourly_state", hterms, hkept, "check_hourly", "(hcfg * hstate * list cop * list hobs)%type"),
            ("store", sterms, skept, "check_store", "(list (dclass * ccfg) * list cell * list sop * list sobs)%type"),
            ("fit_lists", fterms, fkept, "check_fit_lists", "(bool * bool * nat * (nat * nat))%type"),
            ("objects", oterms, okept, "check_objects", "(list (mclass * option mclass) * list wop * list (list nat))%type")]:
        if not terms:
            continue
        bad = run.coq_cases(stream, imports, "", terms, fn, shard=25, case_type=ty)
        if bad is None:
            run.proof_ok = False
            continue
        for i in bad:
            case, res = kept[i]
            run.corr_failures.append({"stream": stream, "case": case, "term": terms[i][:3000],
                                      "impl": ([{k: v for k, v in r.items() if k in ("op", "changed", "pred", "hstate", "dataset", "alias")}
                                                for r in res["trace"]] if isinstance(res, dict) and "trace" in res else res)})
            if stream == "objects":
                run.corr_failures[-1]["impl"] = [{k: v for k, v in r.items() if k in ("op", "js_changed", "others_changed", "new_other")}
                                                 for r in res["trace"]]
            if stream == "hourly_state" and len(run.cov.setdefault("model_eval", [])) < 2:
                run.cov["model_eval"].append(run.coq_eval(
                    imports, "", "let '(cfg, s0, ops, obs) := %s in map (fun x => (clusters (fst x), warnings (fst x), snd x)) (trace cfg s0 ops)"
                    % terms[i])[-1500:])
