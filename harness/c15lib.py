"""C15 — generator of buildings that follow the model family, and the worker that fits one of them with the real
DailyModel / BillingModel (run in worker processes by harness/c15.py).

Everything is a pure function of a JSON-able `spec` (explicit integer seeds), so a case replays exactly.

The family (properties.jsonl C15, transcribed):
  base load 5-50, slopes 0.3-3 per degree F, heating balance point 45-58 F, cooling balance point 64-75 F,
  shapes heating-only / cooling-only / both / flat, same behaviour on all days of the week and in all seasons,
  at most 1 % multiplicative noise, "balance points well inside the temperature range, at least a month of days in
  each active regime": read here as  >= 30 baseline days strictly colder than the heating balance point (when the
  building heats), >= 30 strictly hotter than the cooling balance point (when it cools) and >= 30 days in the
  temperature-independent regime (so no balance point sits at an end of the temperature range)."""
import math
import random

import numpy as np
import pandas as pd

SHAPES = ("both", "heat", "cool", "flat")
ZONES = ["US/Pacific", "America/New_York", "America/Chicago", "UTC", "Europe/Berlin", "Europe/London",
         "Australia/Sydney", "Pacific/Auckland", "Asia/Kolkata", "Asia/Tokyo", "America/St_Johns",
         "Australia/Adelaide", "America/Denver", "Europe/Helsinki"]
NOISE_KINDS = ("uniform", "normal_clipped", "two_point", "none")
MIN_REGIME_DAYS = 30
EPS = 0.01              # the statement's noise level
NRMSE_LIMIT = 0.05      # the statement's thresholds
LOAD_LIMIT = 0.05


# ------------------------------------------------------------------ the generating curve

def g_curve(spec, T):
    T = np.asarray(T, dtype=float)
    return spec["base"] + spec["bh"] * np.maximum(spec["bph"] - T, 0.0) + spec["bc"] * np.maximum(T - spec["bpc"], 0.0)


def weather(clim, seed, ndays, doy0, shift=0.0):
    """daily mean temperatures (F): annual sinusoid + AR(1) day-to-day anomalies"""
    r = np.random.default_rng(seed)
    doy = doy0 + np.arange(ndays)
    e = r.normal(0.0, 1.0, ndays)
    a = np.empty(ndays)
    rho = clim["rho"]
    a[0] = e[0]
    s = math.sqrt(1.0 - rho * rho)
    for i in range(1, ndays):
        a[i] = rho * a[i - 1] + s * e[i]
    return clim["mean"] + shift + clim["amp"] * np.sin((doy - clim["phase"]) / 365.25 * 2 * np.pi) + clim["sd"] * a


def noise_factors(kind, seed, n):
    r = np.random.default_rng(seed)
    if kind == "uniform":
        e = r.uniform(-EPS, EPS, n)
    elif kind == "normal_clipped":
        e = np.clip(r.normal(0.0, EPS / 2.5, n), -EPS, EPS)
    elif kind == "two_point":
        e = r.choice([-EPS, EPS], n)
    else:
        e = np.zeros(n)
    return 1.0 + e


def regime_days(spec, T):
    T = np.asarray(T)
    cold = int(np.sum(T < spec["bph"])) if spec["bh"] > 0 else None
    hot = int(np.sum(T > spec["bpc"])) if spec["bc"] > 0 else None
    lo = spec["bph"] if spec["bh"] > 0 else -np.inf
    hi = spec["bpc"] if spec["bc"] > 0 else np.inf
    flat = int(np.sum((T >= lo) & (T <= hi)))
    return {"cold": cold, "hot": hot, "flat": flat}


def in_family(spec, T):
    rd = regime_days(spec, T)
    return all(v is None or v >= MIN_REGIME_DAYS for v in rd.values())


def start_doy(start):
    return pd.Timestamp(start).dayofyear - 1


def baseline_temps(spec):
    return weather(spec["clim"], spec["wseed"], spec["ndays"], start_doy(spec["start"]))


def second_year(spec):
    """a different weather year: the next 365 days of the same climate, another draw, mean shifted by spec['shift2']"""
    start2 = (pd.Timestamp(spec["start"]) + pd.Timedelta(days=spec["ndays"] + spec.get("gap2", 0))).strftime("%Y-%m-%d")
    T2 = weather(spec["clim"], spec["wseed2"], 365, start_doy(start2), spec["shift2"])
    return start2, T2


def gen_spec(rng, kind="daily", shape=None, tz=None, noise=None):
    """draw one building + weather + noise; rejection on the family's regime-day condition"""
    for _ in range(2000):
        sh = shape or rng.choice(SHAPES)
        spec = {
            "kind": kind, "shape": sh,
            "base": round(rng.uniform(5, 50), 3),
            "bh": round(rng.uniform(0.3, 3), 4) if sh in ("both", "heat") else 0.0,
            "bc": round(rng.uniform(0.3, 3), 4) if sh in ("both", "cool") else 0.0,
            "bph": round(rng.uniform(45, 58), 2), "bpc": round(rng.uniform(64, 75), 2),
            "tz": tz or rng.choice(ZONES),
            "start": "%d-%02d-%02d" % (rng.choice([2019, 2020, 2021, 2022]), rng.randrange(1, 13), rng.randrange(1, 29)),
            "ndays": 365,
            "noise": noise or rng.choice(NOISE_KINDS), "nseed": rng.randrange(2**31),
            "wseed": rng.randrange(2**31), "wseed2": rng.randrange(2**31),
            "shift2": round(rng.uniform(-3, 3), 2),
        }
        if kind == "billing":
            # a year of monthly bills: 28-33 day periods, 333-365 days in total (the data class wants 329-365)
            per = []
            while sum(per) + 33 <= 365:
                per.append(rng.randrange(28, 34))
            spec["periods"] = per
            spec["ndays"] = sum(per)
        for _ in range(30):
            spec["clim"] = {"mean": round(rng.uniform(48, 70), 2), "amp": round(rng.uniform(12, 26), 2),
                            "phase": round(rng.uniform(95, 125), 1), "sd": round(rng.uniform(3, 7), 2),
                            "rho": round(rng.uniform(0.5, 0.85), 2)}
            if in_family(spec, baseline_temps(spec)):
                return spec
    raise RuntimeError("generator could not draw a building of the family")


# corners of the family on which the fit is known to be most fragile (found by running the parameter grid against
# deliberately damaged copies of the package: regularisation x1000, balance-point search skipped, smoothing forced on,
# narrowed intercept bounds); the unchanged code recovers all of them with NRMSE < 2.5 %
SENTINELS = [
    # (shape, parameters, window for the mean squared load  mean((g(T) - base)^2)  of the baseline year, or None)
    ("both", dict(base=5.0, bh=1.0, bph=52.0, bc=0.3, bpc=69.0), None),     # small base load, weak cooling
    ("cool", dict(base=5.0, bh=0.0, bph=52.0, bc=3.0, bpc=69.0), None),     # small base load, steep cooling
    ("cool", dict(base=5.0, bh=0.0, bph=58.0, bc=1.0, bpc=64.0), None),
    ("both", dict(base=5.0, bh=3.0, bph=45.0, bc=3.0, bpc=64.0), None),     # steep on both sides of a wide band
    ("cool", dict(base=20.0, bh=0.0, bph=58.0, bc=3.0, bpc=64.0), None),
    ("both", dict(base=20.0, bh=1.0, bph=58.0, bc=1.0, bpc=64.0), None),    # narrow temperature-independent band
    ("both", dict(base=50.0, bh=3.0, bph=58.0, bc=3.0, bpc=64.0), None),
    ("both", dict(base=12.0, bh=0.4, bph=57.0, bc=2.8, bpc=65.0), None),    # cooling slope 7 x the heating slope
    ("both", dict(base=12.0, bh=2.8, bph=57.0, bc=0.4, bpc=65.0), None),    # and the mirror image
    # a weak load on barely more than a month of days: losing it costs 6-8 % NRMSE, and it is what an
    # over-regularised initial fit erases first
    ("cool", dict(base=5.0, bh=0.0, bph=50.0, bc=0.3, bpc=75.0), (0.09, 0.16)),
    ("cool", dict(base=5.0, bh=0.0, bph=50.0, bc=0.3, bpc=75.0), (0.09, 0.16)),
    ("cool", dict(base=5.0, bh=0.0, bph=50.0, bc=0.3, bpc=75.0), (0.09, 0.16)),
    ("heat", dict(base=5.0, bh=0.3, bph=45.0, bc=0.0, bpc=70.0), (0.09, 0.16)),
    # the opposite corner: highest base load x lowest slopes (slope below 1 % of the base load per degree) with a long
    # season, so that the load is nevertheless 7 % or more of mean usage (RMS): what a "negligible slope" pruning that
    # compares a per-degree slope with the base load erases
    ("heat", dict(base=50.0, bh=0.4, bph=58.0, bc=0.0, bpc=70.0), (14.0, 1e9)),
    ("cool", dict(base=50.0, bh=0.0, bph=50.0, bc=0.4, bpc=64.0), (14.0, 1e9)),
    ("heat", dict(base=46.0, bh=0.36, bph=56.0, bc=0.0, bpc=70.0), (12.0, 1e9)),
]


def sentinel_specs(rng, kind="daily", noises=NOISE_KINDS):
    out = []
    for j, (sh, params, window) in enumerate(SENTINELS):
        for _try in range(3000):
            s = gen_spec(rng, kind, shape=sh, noise=noises[j % len(noises)])
            s.update(params)
            T = baseline_temps(s)
            if not in_family(s, T):
                continue
            if window is not None:
                sig = float(np.mean((g_curve(s, T) - s["base"]) ** 2))
                if not (window[0] <= sig <= window[1]):
                    continue
            out.append(s)
            break
        else:
            raise RuntimeError("no weather year of the family for sentinel %r" % (params,))
    return out


def grid_specs(rng, kind, per_cell=1):
    """the parameter grid of the thorough tier: corners and centres of the stated ranges x shapes"""
    out = []
    for sh in SHAPES:
        for base in (5.0, 20.0, 50.0):
            for slope in (0.3, 1.0, 3.0):
                for bph, bpc in ((45.0, 64.0), (45.0, 75.0), (58.0, 64.0), (58.0, 75.0), (52.0, 69.0)):
                    if sh == "flat" and (slope != 1.0 or (bph, bpc) != (52.0, 69.0)):
                        continue
                    for _ in range(per_cell):
                        for _try in range(40):
                            s = gen_spec(rng, kind, shape=sh)
                            s.update(base=base, bph=bph, bpc=bpc)
                            if s["bh"] > 0:
                                s["bh"] = slope
                            if s["bc"] > 0:
                                s["bc"] = slope if sh != "both" else round(rng.choice([0.3, 1.0, 3.0]), 4)
                            if in_family(s, baseline_temps(s)):
                                out.append(s)
                                break
    return out


# ------------------------------------------------------------------ data objects

def build_daily(spec):
    idx = pd.date_range(spec["start"], periods=spec["ndays"], freq="D", tz=spec["tz"])
    T = baseline_temps(spec)
    y = g_curve(spec, T) * noise_factors(spec["noise"], spec["nseed"], spec["ndays"])
    df = pd.DataFrame({"observed": y, "temperature": T}, index=idx)
    start2, T2 = second_year(spec)
    idx2 = pd.date_range(start2, periods=len(T2), freq="D", tz=spec["tz"])
    df2 = pd.DataFrame({"temperature": T2, "observed": np.nan}, index=idx2)
    return df, df2


def build_billing(spec):
    """daily usage of the generating curve summed into billing periods of 28-33 days (stamped at the period start,
    NaN-terminated), with hourly temperatures that are constant over each local day (= the generating daily
    temperature, so the daily mean the data class computes is that temperature)"""
    tz = spec["tz"]
    bounds = [0]
    for p in spec["periods"]:
        bounds.append(bounds[-1] + p)
    nd = bounds[-1]
    s = dict(spec, ndays=nd)
    T = baseline_temps(s)
    start2, T2 = second_year(s)
    Tall = np.concatenate([T, T2])
    dall = pd.date_range(spec["start"], periods=len(Tall) + 1, freq="D", tz=tz)      # local midnights
    y = g_curve(spec, T) * noise_factors(spec["noise"], spec["nseed"], nd)
    daily = pd.Series(y, index=dall[:nd])
    vals = [float(y[a:b].sum()) for a, b in zip(bounds[:-1], bounds[1:])] + [np.nan]
    meter = pd.Series(vals, index=dall[bounds], name="observed")
    hidx = pd.date_range(dall[0], dall[-1], freq="h", inclusive="left")
    pos = np.searchsorted(dall.asi8, hidx.asi8, side="right") - 1
    temp = pd.Series(Tall[np.clip(pos, 0, len(Tall) - 1)], index=hidx, name="temperature")
    b2 = list(range(nd, nd + 361, 30))
    meter2 = pd.Series([np.nan] * len(b2), index=dall[b2], name="observed")
    return meter, temp, meter2, daily, nd


# ------------------------------------------------------------------ the worker

def _f(x):
    return None if x is None else float(x)


def _rows(pr, spec, obs_col=True):
    ok = pr["predicted"].notna() & pr["temperature"].notna()
    pr = pr[ok]
    out = {"T": [float(v) for v in pr["temperature"].values],
           "pred": [float(v) for v in pr["predicted"].values],
           "heat": [float(v) for v in pr["heating_load"].values],
           "cool": [float(v) for v in pr["cooling_load"].values],
           "split": [str(v) for v in pr["model_split"].values],
           "dropped": int((~ok).sum())}
    if obs_col:
        out["obs"] = [float(v) for v in pr["observed"].values]
    return out


def _hook(res, seg, nmin):
    """what the OptimizedResult hook kept of one optimiser call + the data the box was built from"""
    b = getattr(res, "_verif_bnds", None)
    # does the stored (read-back) model reproduce the values the optimiser scored?  (cause H of DESIGN section 6:
    # the raw vector is re-ordered before the smoothing transformation on read-back, after it when scoring)
    try:
        rb = res.eval(np.asarray(res.T, dtype=float))[0]
        rgap = float(np.max(np.abs(np.asarray(rb) - np.asarray(res.model))))
    except Exception:  # noqa
        rgap = None
    cid = list(getattr(res, "_verif_coef_id", []) or [])
    run_key = {7: "hdd_tidd_cdd_smooth", 5: "hdd_tidd_cdd", 4: "c_hdd_tidd_smooth", 3: "c_hdd_tidd", 1: "tidd"}.get(len(cid))
    # key = the model the optimiser was run on (what the recorded box belongs to); stored_key = after reduce_model
    return {"key": run_key, "stored_key": res.model_key, "readback_gap": rgap,
            "x_reduced": [float(v) for v in np.asarray(res.x, dtype=float)], "coef_id": list(getattr(res, "_verif_coef_id", []) or []),
            "bnds": None if b is None else [[float(v) for v in row] for row in np.asarray(b)],
            "x_raw": None if getattr(res, "_verif_x_raw", None) is None else [float(v) for v in res._verif_x_raw],
            "T": [float(v) for v in seg["temperature"].values], "obs": [float(v) for v in seg["observed"].values],
            "nmin": int(nmin), "loss_alpha": _f(getattr(res, "loss_alpha", None))}


def fit_case(spec):
    """fit the real model on the generated building; returns a JSON-able observation (never raises)"""
    import json
    import logging
    import time
    import warnings
    warnings.simplefilter("ignore")
    logging.disable(logging.CRITICAL)
    t0 = time.time()
    out = {"ok": False}
    try:
        if spec["kind"] == "daily":
            from opendsm.eemeter import DailyBaselineData, DailyModel, DailyReportingData
            df, df2 = build_daily(spec)
            bd = DailyBaselineData(df, is_electricity_data=True)
            rd = DailyReportingData(df2, is_electricity_data=True)
            model = DailyModel()
        else:
            from opendsm.eemeter import BillingBaselineData, BillingModel, BillingReportingData
            meter, temp, meter2, daily, nd = build_billing(spec)
            bd = BillingBaselineData.from_series(meter, temp, is_electricity_data=True)
            rd = BillingReportingData.from_series(meter2, temp, is_electricity_data=True)
            model = BillingModel()
            out["daily_truth"] = {"index": [int(t.value) for t in daily.index], "y": [float(v) for v in daily.values]}
        out["data_dq"] = sorted(w.qualified_name for w in bd.disqualification)
        out["data_warnings"] = sorted(w.qualified_name for w in bd.warnings)
        t1 = time.time()
        model.fit(bd, ignore_disqualification=True)
        out["fit_s"] = round(time.time() - t1, 2)
        out["model_dq"] = sorted(w.qualified_name for w in model.disqualification)
        doc = json.loads(model.to_json())
        out["submodels"] = doc["submodels"]
        out["best_combination"] = model.best_combination
        out["error"] = {k: float(v) for k, v in model.error.items()}
        pr = model.predict(bd, ignore_disqualification=True)
        out["base"] = _rows(pr, spec)
        if spec["kind"] == "billing":
            # the day each row belongs to, to line the period-average `observed` up with the daily truth
            out["base"]["index"] = [int(t.value) for t in pr.index[pr["predicted"].notna() & pr["temperature"].notna()]]
        pr2 = model.predict(rd, ignore_disqualification=True)
        out["year2"] = _rows(pr2, spec, obs_col=False)
        # reload stage: the model restored from its own document must recover the building just as well
        out["reload"] = {}
        import contextlib
        import io
        for how in ("json", "dict"):
            try:
                with contextlib.redirect_stdout(io.StringIO()):      # the settings constructor prints a developer-mode notice
                    restored = type(model).from_json(model.to_json()) if how == "json" else type(model).from_dict(model.to_dict())
                rb = restored.predict(bd, ignore_disqualification=True)
                r2 = restored.predict(rd, ignore_disqualification=True)
                out["reload"][how] = {"base": _rows(rb, spec), "year2": _rows(r2, spec, obs_col=False)}
            except Exception as e:  # noqa
                out["reload"][how] = {"exception": "%s: %s" % (type(e).__name__, e)}
        # the 7-vector full_model is called with, per stored sub-model (as DailyModel._predict_submodel builds it)
        from opendsm.eemeter.models.daily.base_models.full_model import get_full_model_x
        from opendsm.eemeter.models.daily.utilities.base_model import get_smooth_coeffs
        out["xeff"] = {}
        for key, sm in model.params.submodels.items():
            tc = sm.temperature_constraints
            x = get_full_model_x(sm.coefficients.model_key, sm.coefficients.to_np_array(), tc["T_min"], tc["T_max"],
                                 tc["T_min_seg"], tc["T_max_seg"])
            if sm.coefficients.model_key == "hdd_tidd_cdd_smooth":
                hb, hk, cb, ck = get_smooth_coeffs(x[0], x[2], x[3], x[5])
                x = [hb, x[1], hk, cb, x[4], ck, x[6]]
            out["xeff"][key] = [float(v) for v in x]
        out["final_bounds_scalar"] = _f(model.settings.final_bounds_scalar)
        out["alpha_final_type"] = None if model.settings.alpha_final_type is None else str(getattr(model.settings.alpha_final_type, "value", model.settings.alpha_final_type))
        nmin = model.settings.segment_minimum_count
        out["final"] = {}
        out["initial"] = {}
        for comp, res in model.model.items():
            seg = model._meter_segment(comp)
            out["final"][comp] = _hook(res, seg, nmin)
            out["initial"][comp] = _hook(model.fit_components[comp], seg, nmin)
        out["ok"] = True
    except Exception as e:  # noqa
        import traceback
        out["exception"] = "%s: %s" % (type(e).__name__, e)
        out["traceback"] = traceback.format_exc()[-1500:]
    out["wall_s"] = round(time.time() - t0, 2)
    return out


def fit_many(specs, workers):
    """fit every spec in its own worker process (numba cache shared through NUMBA_CACHE_DIR)"""
    import concurrent.futures as cf
    import multiprocessing as mp
    if workers <= 1 or len(specs) <= 1:
        return [fit_case(s) for s in specs]
    ctx = mp.get_context("spawn")
    with cf.ProcessPoolExecutor(max_workers=workers, mp_context=ctx) as ex:
        return list(ex.map(fit_case, specs, chunksize=1))
