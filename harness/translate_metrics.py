"""Translator for C16: regenerates coq/Generated/MetricsGen.v from the source of the metrics code.

Only *declarative* content is translated (python `ast`, nothing is executed):
  * `_safe_divide`: the default of min_denominator, the shape of the guard (`denominator <= min_denominator`, optionally
    `and numerator > K * min_denominator`) and K;
  * `BaselineMetrics._min_denominator`, the ddof of ColumnMetrics.variance, the quantile levels of ColumnMetrics.iqr,
    the floors of ddof / ddof_autocorr (`if x < A: x = B`), the lag of the residual autocorrelation, the n' fallback;
  * which computed field of BaselineMetrics hands which numerator and denominator to `_safe_divide`;
  * `ReportingMetrics.total_savings_uncertainty`: the hourly factor, the daily and billing polynomial coefficients,
    the constant K of `(1 + K / n_prime)`, and the defaults of confidence_level and t_tail;
  * `DailyModel._get_error_metrics`: the quantile levels of PNRMSE.
Numeric literals are searched inside the named functions, the surrounding arithmetic is NOT matched (it is tied by
the correspondence), so that a behaviour-preserving rewrite of a formula does not break the translation.
Fail-closed: a literal that is missing or occurs more than once, an unknown `_safe_divide` operand or an unrecognised
guard raises TranslateError (reported by the check as a broken tie)."""
import ast
import os
from fractions import Fraction

import vlib

MET = "opendsm/common/metrics.py"
DAILY = "opendsm/eemeter/models/daily/model.py"
HOURLY = "opendsm/eemeter/models/hourly/model.py"


class TranslateError(Exception):
    pass


def _parse(rel):
    path = os.path.join(vlib.repo_root(), rel)
    return ast.parse(open(path).read(), filename=path)


def _find(body, kind, name):
    for n in body:
        if isinstance(n, kind) and getattr(n, "name", None) == name:
            return n
    raise TranslateError("%s %s not found" % (kind.__name__, name))


def _stmts(fn):
    """statements of a function without docstring / comments"""
    return [s for s in fn.body if not (isinstance(s, ast.Expr) and isinstance(s.value, ast.Constant) and isinstance(s.value.value, str))]


def _src(node):
    return ast.unparse(node)


def _num(node):
    """a numeric literal (int / float, possibly negated) as an exact decimal Fraction of its source text"""
    if isinstance(node, ast.UnaryOp) and isinstance(node.op, ast.USub):
        return -_num(node.operand)
    if isinstance(node, ast.Constant) and isinstance(node.value, (int, float)) and not isinstance(node.value, bool):
        return Fraction(repr(node.value))
    raise TranslateError("not a numeric literal: %s" % _src(node))


def _single_return(fn):
    st = _stmts(fn)
    if len(st) != 1 or not isinstance(st[0], ast.Return):
        raise TranslateError("%s: expected a single return statement" % fn.name)
    return st[0].value


def safe_divide(tree):
    fn = _find(tree.body, ast.FunctionDef, "_safe_divide")
    args = [a.arg for a in fn.args.args]
    if args != ["numerator", "denominator", "min_denominator"] or len(fn.args.defaults) != 1:
        raise TranslateError("_safe_divide: unexpected signature")
    default = _num(fn.args.defaults[0])
    st = _stmts(fn)
    if len(st) != 2 or not isinstance(st[0], ast.If) or st[0].orelse or _src(st[1]) != "return numerator / denominator" \
            or [_src(s) for s in st[0].body] != ["return None"]:
        raise TranslateError("_safe_divide: unexpected body")
    test = _src(st[0].test)
    if test == "denominator <= min_denominator":
        return default, "Repaired", Fraction(0)
    t = st[0].test
    if isinstance(t, ast.BoolOp) and isinstance(t.op, ast.And) and len(t.values) == 2 and _src(t.values[0]) == "denominator <= min_denominator":
        c = t.values[1]
        if isinstance(c, ast.Compare) and _src(c.left) == "numerator" and len(c.ops) == 1 and isinstance(c.ops[0], ast.Gt) \
                and isinstance(c.comparators[0], ast.BinOp) and isinstance(c.comparators[0].op, ast.Mult) \
                and _src(c.comparators[0].right) == "min_denominator":
            return default, "AsCoded", _num(c.comparators[0].left)
    raise TranslateError("_safe_divide: unrecognised guard: %s" % test)


ATTR = {"self.mae": "NMae", "self.mbe": "NMbe", "self.rmse": "NRmse", "self.rmse_adj": "NRmseAdj", "self.rmse_autocorr_adj": "NRmseAutocorrAdj",
        "self.observed.mean": "DObservedMean", "self.observed.iqr": "DObservedIqr"}
RATIOS = ["nmae", "pnmae", "nmbe", "pnmbe", "cvrmse", "cvrmse_adj", "cvrmse_autocorr_adj", "pnrmse", "pnrmse_adj", "pnrmse_autocorr_adj"]


def ratio_table(cls):
    out = []
    for name in RATIOS:
        call = _single_return(_find(cls.body, ast.FunctionDef, name))
        if not (isinstance(call, ast.Call) and _src(call.func) == "_safe_divide" and len(call.args) == 3 and not call.keywords
                and _src(call.args[2]) == "self._min_denominator"):
            raise TranslateError("BaselineMetrics.%s is not _safe_divide(<num>, <den>, self._min_denominator)" % name)
        num, den = _src(call.args[0]), _src(call.args[1])
        if num not in ATTR or den not in ATTR:
            raise TranslateError("BaselineMetrics.%s: unknown operand %s / %s" % (name, num, den))
        out.append((name, ATTR[num], ATTR[den]))
    return out


def _numlists(node, length):
    """every list / tuple literal of `length` numeric constants below `node`"""
    out = []
    for n in ast.walk(node):
        if isinstance(n, (ast.List, ast.Tuple)) and len(n.elts) == length:
            try:
                out.append([_num(e) for e in n.elts])
            except TranslateError:
                pass
    return out


def _keyword(node, name):
    """the numeric values given to keyword `name` in calls below `node`"""
    out = []
    for n in ast.walk(node):
        if isinstance(n, ast.Call):
            for k in n.keywords:
                if k.arg == name:
                    out.append(_num(k.value))
    return out


def _one(values, what):
    if len(values) != 1:
        raise TranslateError("%s: expected exactly one occurrence, found %d" % (what, len(values)))
    return values[0]


def _floor(fn, var):
    """`if <var> < A: <var> = B` inside fn -> (A, B)"""
    found = []
    for n in ast.walk(fn):
        if isinstance(n, ast.If) and isinstance(n.test, ast.Compare) and _src(n.test.left) == var and len(n.test.ops) == 1 \
                and isinstance(n.test.ops[0], ast.Lt):
            asg = [x for x in n.body if isinstance(x, ast.Assign) and _src(x.targets[0]) == var]
            if len(asg) == 1 and not n.orelse:
                found.append((_num(n.test.comparators[0]), _num(asg[0].value)))
    return _one(found, "%s: floor of %s" % (fn.name, var))


def baseline_shapes(tree):
    """constants and the ratio table only: the arithmetic itself is tied by the correspondence, so that a
    behaviour-preserving rewrite of a formula does not break the translation"""
    col = _find(tree.body, ast.ClassDef, "ColumnMetrics")
    bm = _find(tree.body, ast.ClassDef, "BaselineMetrics")
    var_ddof = _one(_keyword(_find(col.body, ast.FunctionDef, "variance"), "ddof"), "ColumnMetrics.variance: ddof=")
    iqr_levels = _one(_numlists(_find(col.body, ast.FunctionDef, "iqr"), 2), "ColumnMetrics.iqr: quantile levels")
    ddof_floor = _floor(_find(bm.body, ast.FunctionDef, "ddof"), "_ddof")
    ddof_ac_floor = _floor(_find(bm.body, ast.FunctionDef, "ddof_autocorr"), "_ddof_autocorr")
    npf = _find(bm.body, ast.FunctionDef, "n_prime")
    lag = _one(_keyword(npf, "lag"), "BaselineMetrics.n_prime: lag=")
    fb = [n for n in ast.walk(npf) if isinstance(n, ast.If) and "isfinite" in _src(n.test)]
    if len(fb) != 1 or len(fb[0].body) != 1 or not isinstance(fb[0].body[0], ast.Assign):
        raise TranslateError("BaselineMetrics.n_prime: non-finite fallback not recognised")
    fallback = _num(fb[0].body[0].value)
    mind = None
    for s in bm.body:
        if isinstance(s, (ast.AnnAssign, ast.Assign)) and _src(s.target if isinstance(s, ast.AnnAssign) else s.targets[0]) == "_min_denominator":
            mind = _num(s.value)
    if mind is None:
        raise TranslateError("BaselineMetrics._min_denominator not found")
    return {"var_ddof": var_ddof, "iqr_levels": iqr_levels, "ddof_floor": ddof_floor, "ddof_ac_floor": ddof_ac_floor, "lag": lag,
            "nprime_fallback": fallback, "min_denominator": mind, "ratios": ratio_table(bm)}


def reporting_shapes(tree):
    rm = _find(tree.body, ast.ClassDef, "ReportingMetrics")
    fn = _find(rm.body, ast.FunctionDef, "total_savings_uncertainty")
    out = {}
    coefs = _numlists(fn, 3)
    if len(coefs) != 2:
        raise TranslateError("total_savings_uncertainty: expected two lists of three polynomial coefficients, found %d" % len(coefs))
    # which list belongs to which frequency: the `if self.data_frequency == 'daily'` branch holds the daily one
    daily_if = [n for n in ast.walk(fn) if isinstance(n, ast.If) and _src(n.test) in ("self.data_frequency == 'daily'", "self.data_frequency == \"daily\"")]
    if len(daily_if) != 1 or len(_numlists(ast.Module(body=daily_if[0].body, type_ignores=[]), 3)) != 1 \
            or len(_numlists(ast.Module(body=daily_if[0].orelse, type_ignores=[]), 3)) != 1:
        raise TranslateError("total_savings_uncertainty: daily / billing coefficient branches not recognised")
    out["daily_coefs"] = _numlists(ast.Module(body=daily_if[0].body, type_ignores=[]), 3)[0]
    out["billing_coefs"] = _numlists(ast.Module(body=daily_if[0].orelse, type_ignores=[]), 3)[0]
    hourly_if = [n for n in ast.walk(fn) if isinstance(n, ast.If) and _src(n.test) == "self.data_frequency == 'hourly'"]
    if len(hourly_if) != 1:
        raise TranslateError("total_savings_uncertainty: hourly branch not recognised")
    hf = [_num(n.left) for n in ast.walk(ast.Module(body=hourly_if[0].body, type_ignores=[]))
          if isinstance(n, ast.BinOp) and isinstance(n.op, ast.Mult) and isinstance(n.left, ast.Constant)]
    out["hourly_factor"] = _one(hf, "total_savings_uncertainty: hourly factor")
    # approximation factor: ... * (1 + K / n_prime)
    ks = [_num(n.left) for n in ast.walk(fn) if isinstance(n, ast.BinOp) and isinstance(n.op, ast.Div) and _src(n.right) == "n_prime"
          and isinstance(n.left, ast.Constant)]
    out["approx_const"] = _one(ks, "total_savings_uncertainty: constant over n_prime")
    for s in rm.body:
        if isinstance(s, ast.AnnAssign) and _src(s.target) in ("confidence_level", "t_tail") and isinstance(s.value, ast.Call):
            kw = {k.arg: k.value for k in s.value.keywords}
            if "default" in kw:
                out[_src(s.target)] = _num(kw["default"])
    if "confidence_level" not in out or "t_tail" not in out:
        raise TranslateError("ReportingMetrics: defaults of confidence_level / t_tail not found")
    return out


def daily_shapes():
    tree = _parse(DAILY)
    cls = _find(tree.body, ast.ClassDef, "DailyModel")
    fn = _find(cls.body, ast.FunctionDef, "_get_error_metrics")
    return {"pn_levels": _one(_numlists(fn, 2), "DailyModel._get_error_metrics: quantile levels")}


def hourly_shapes():
    return {}


def q(fr):
    return vlib.qlit(fr)


def generate(run):
    tree = _parse(MET)
    default, policy, factor = safe_divide(tree)
    b = baseline_shapes(tree)
    r = reporting_shapes(tree)
    d = daily_shapes()
    hourly_shapes()
    lines = [
        "(* GENERATED by harness/translate_metrics.py from %s, %s, %s -- do not edit. *)" % (MET, DAILY, HOURLY),
        "From Coq Require Import ZArith QArith List.",
        "From V Require Import Model.Metrics.",
        "Import ListNotations.",
        "Open Scope Q_scope.",
        "",
        "Inductive ratio_num := NMae | NMbe | NRmse | NRmseAdj | NRmseAutocorrAdj.",
        "Inductive ratio_den := DObservedMean | DObservedIqr.",
        "Inductive ratio_field := Fnmae | Fpnmae | Fnmbe | Fpnmbe | Fcvrmse | Fcvrmse_adj | Fcvrmse_autocorr_adj | Fpnrmse | Fpnrmse_adj | Fpnrmse_autocorr_adj.",
        "",
        "(* _safe_divide *)",
        "Definition gen_safe_divide_default_min : Q := %s." % q(default),
        "Definition gen_safe_divide_policy : policy := %s." % policy,
        "Definition gen_safe_divide_numerator_factor : Q := %s.   (* 0 when the guard does not look at the numerator *)" % q(factor),
        "(* BaselineMetrics *)",
        "Definition gen_min_denominator : Q := %s." % q(b["min_denominator"]),
        "Definition gen_variance_ddof : Q := %s." % q(b["var_ddof"]),
        "Definition gen_iqr_levels : Q * Q := (%s, %s)." % (q(b["iqr_levels"][0]), q(b["iqr_levels"][1])),
        "Definition gen_ddof_floor : Q * Q := (%s, %s).            (* if ddof < fst then snd *)" % (q(b["ddof_floor"][0]), q(b["ddof_floor"][1])),
        "Definition gen_ddof_autocorr_floor : Q * Q := (%s, %s)." % (q(b["ddof_ac_floor"][0]), q(b["ddof_ac_floor"][1])),
        "Definition gen_autocorr_lag : Q := %s." % q(b["lag"]),
        "Definition gen_nprime_fallback : Q := %s." % q(b["nprime_fallback"]),
        "Definition gen_ratio_table : list (ratio_field * ratio_num * ratio_den) :=",
        "  [%s]." % "; ".join("(F%s, %s, %s)" % t for t in b["ratios"]),
        "(* ReportingMetrics.total_savings_uncertainty *)",
        "Definition gen_hourly_factor : Q := %s." % q(r["hourly_factor"]),
        "Definition gen_daily_coefs : list Q := [%s]." % "; ".join(q(c) for c in r["daily_coefs"]),
        "Definition gen_billing_coefs : list Q := [%s]." % "; ".join(q(c) for c in r["billing_coefs"]),
        "Definition gen_approx_const : Q := %s." % q(r["approx_const"]),
        "Definition gen_confidence_default : Q := %s." % q(r["confidence_level"]),
        "Definition gen_t_tail_default : Q := %s." % q(r["t_tail"]),
        "(* DailyModel._get_error_metrics *)",
        "Definition gen_daily_pnrmse_levels : Q * Q := (%s, %s)." % (q(d["pn_levels"][0]), q(d["pn_levels"][1])),
        "",
    ]
    text = "\n".join(lines)
    if run is not None:
        run.write_generated("Generated/MetricsGen.v", text)
    else:
        p = os.path.join(vlib.COQ, "Generated", "MetricsGen.v")
        os.makedirs(os.path.dirname(p), exist_ok=True)
        if not os.path.exists(p) or open(p).read() != text:
            open(p, "w").write(text)
    return text


if __name__ == "__main__":
    print(generate(None))
