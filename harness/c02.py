"""C02 — using a model or a data object never changes it (no hidden side effects).
Models: coq/Model/HourlyState.v (hourly model as a state machine), coq/Model/Store.v (caller-owned frames, data objects,
hand-outs as locations; list ownership in fit), coq/Model/Objects.v (several model objects in one process, class-level shared
state), coq/Model/Gate.v (daily/billing/hourly life cycle, shared with C04);
theorems: coq/Properties/C02.v; tie: flags read from the source (harness/translate_c02.py -> Generated/C02Gen.v) and a
correspondence over operation HISTORIES executed on the real classes with real fits (this file)."""
import json
import multiprocessing as mp
import os
import sys
import time
import warnings

import vlib
from vlib import Run, zlit, coq_list, coq_opt, coq_bool
import c02lib as L
import translate_c02 as T

warnings.simplefilter("ignore")
IMPORTS = "From V Require Import Model.Gate Model.HourlyState Model.HourlyStateRun Model.Store Model.StoreRun Model.Objects Model.ObjectsRun Generated.C02Gen."
NOCOQ = os.environ.get("C02_NOCOQ") == "1"


# ------------------------------------------------------------------ histories

def ix(fam, name):
    return L.OBJ_ORDER[fam].index(name)


def have(fam, name):
    return name in L.OBJ_ORDER.get(fam, [])


def spec_ix(fam, name):
    return L.SPECS[fam].index(L.OBJ[name]["spec"])


def systematic(fam, profile):
    """histories every run contains (they reach the central cells of the statement)"""
    P = {"Daily": "D.rep_", "Billing": "B.rep_", "Hourly": "H.rep_", "Caltrack": "C.rep_"}[fam]
    small = {"Daily": "1week", "Billing": "1period", "Hourly": "1week", "Caltrack": "1week"}[fam]
    mid = {"Daily": "1month", "Billing": "3periods", "Hourly": "1month", "Caltrack": "1month"}[fam]
    big = {"Daily": "fullyear", "Billing": "12periods", "Hourly": "fullyear", "Caltrack": "fullyear"}[fam]
    sfx = "_ghi" if profile == "ghi" else ""
    p = lambda n: ("predict", ix(fam, P + n + sfx if have(fam, P + n + sfx) else P + n))
    out = []
    # a short reporting set first, then the long one, stored and reloaded in between
    out.append(("fitted", [p(small), p(big), p(small), ("to_json",), p(mid), ("reload",), p(big), p(small)]))
    out.append(("reloaded", [p(small + "_noobs") if have(fam, P + small + "_noobs") and not sfx else p(small),
                             p(big), ("fit_other", 0, "default"), p(big), p(mid)]))
    if fam == "Hourly" and profile == "default":
        g = lambda n: ("predict", ix(fam, P + n + "_ghi"))
        out.append(("fitted", [g("1week"), g("1week"), p("1weekb_noobs"), p("partialyear_noobs"), p("fullyear_noobs"),
                               p("partialyear_noobs")]))
        out.append(("reloaded", [p("1day"), p("1month_noobs"), p("partialyear"), p("1day"), p("fullyear")]))
    if profile == "default" and fam in ("Daily", "Billing", "Hourly"):
        # SEVERAL model objects alive in one process: the object under test is fitted here (no copy), other objects fit
        # other meters (of the same family and, daily <-> billing, of the family that shares the implementation),
        # predict, are stored; every object's to_json() must stay what it was
        cross = {"Daily": "Billing", "Billing": "Daily"}.get(fam)
        ops = [("to_json",), ("fit_other", 0, "default"), p(mid), ("to_json",), ("fit_other", 1, "lowthr"), ("use_other", 0, 1),
               p(small), ("reload",), p(mid)]
        out.append(("live", ops))
        if cross:
            out.append(("live", [p(small), ("fit_other", 0, "default", cross), p(small), ("use_other", 0, 0),
                                 ("fit_other", 1, "default"), ("use_other", 1, 2), ("to_json",), p(mid)]))
        out.append(("fitted", [("fit_other", 0, "default"), ("fit_other", 1, "default"), ("use_other", 0, 0), p(small),
                               ("use_other", 1, 1)]))
    if fam == "Billing" and profile == "default":
        # the second frame accessor of the billing classes and the model that reads its input through it
        b0 = ("O", ix(fam, "B.other1"))
        r0 = ("O", ix(fam, P + mid))
        out.append(("fitted", [("df", b0, 1), ("df", r0, 1), ("fit_other", 0, "weighted"), ("use_other", 0, 1), ("use_other", 0, 3),
                               ("df", b0, 1), ("df", r0, 1), ("mutate", "H", 0, 1), ("mutate", "H", 1, 0), ("df", b0, 1), ("df", r0, 0),
                               p(mid)]))
        out.append(("live", [("fit_other", 1, "weighted"), ("use_other", 0, 0), p(small), ("df", ("O", ix(fam, P + small)), 1),
                             ("mutate", "H", 1, 2), p(small)]))
    if fam == "Hourly" and profile == "partial":
        # order independence: one index, different / absent usage, months the baseline never saw
        A, B, N = (("predict", ix(fam, n)) for n in ("H.rep_augnov", "H.rep_augnov_alt", "H.rep_augnov_noobs"))
        return [("fitted", [A, N, B, A]), ("fitted", [N, A, B, N]), ("reloaded", [B, A, N]), ("live", [B, N, A]),
                ("fitted", [p("1week"), A, ("to_json",), p("fullyear"), N, B])]
    if profile == "default" and fam in ("Daily", "Billing", "Caltrack"):
        out.append(("fitted", [p(mid + "_noobs"), p(mid), p(mid + "_noobs"), p(mid)]))
        out.append(("reloaded", [p(mid), p(mid + "_noobs"), p(mid)]))
    if fam == "Hourly" and profile == "suppcat":
        f1, f2 = ("predict", ix(fam, "H.rep_1weekb_flag")), ("predict", ix(fam, "H.rep_1month_flag"))
        out.append(("fitted", [f1, f2, f1, ("to_json",), ("reload",), f2, f1]))
        out.append(("live", [f2, ("fit_other", 0, "default"), f2, f1]))
        # reporting data WITHOUT the categorical column the model was fitted with
        out.append(("fitted", [f1, p("1weekb"), f1]))
        return out
    if fam == "Hourly" and profile == "supp":
        q = ("predict", ix(fam, "H.rep_1weekb_occ"))
        out.append(("fitted", [p("1weekb"), q, p("1weekb"), ("to_json",), p("fullyear")]))
        out.append(("reloaded", [p("fullyear"), q, q, p("fullyear")]))
    if profile == "default":
        # data objects: every constructor once, hand-outs, caller mutations
        ops = []
        for k in range(len(L.SPECS[fam])):
            ops.append(("construct", k))
        out.append(("fitted", ops[:12]))
        if len(ops) > 12:
            out.append(("fitted", ops[12:24]))
        k0 = spec_ix(fam, P + small)
        out.append(("fitted", [("construct", k0), ("df", ("L", 0)), ("df", ("L", 0)), ("mutate", "H", 0, 0), ("mutate", "R", 0, 0),
                               ("df", ("L", 0)), ("mutate", "H", 1, 1), ("mutate", "R", 1, 2), ("df", ("L", 0))]))
        out.append(("fitted", [p(mid), ("df", ("O", ix(fam, P + mid))), ("mutate", "H", 0, 0), ("mutate", "H", 1, 2), p(mid),
                               ("mutate", "H", 2, 4), ("df", ("O", ix(fam, P + mid))), p(mid)]))
        # writes through the numpy buffers of what was handed out (copy-on-write does not intercept them)
        out.append(("fitted", [("df", ("O", ix(fam, P + mid))), ("mutate", "H", 0, 5), ("df", ("O", ix(fam, P + mid))), p(mid),
                               ("mutate", "H", 2, 5), ("mutate", "H", 1, 5), p(mid), ("to_json",), ("df", ("O", ix(fam, P + mid)))]))
        # fits of other meters (a poor fit among them: the poor-fit disqualification must not reach the data object)
        nb = len([n for n in L.OBJ_ORDER[fam] if L.OBJ[n]["role"] == "baseline"]) - 1
        noisy = [i for i, n in enumerate([n for n in L.OBJ_ORDER[fam] if L.OBJ[n]["role"] == "baseline" and
                                         n != L.MAIN_BASE[fam]]) if n.endswith("noisy")]
        if fam != "Caltrack":
            out.append(("fitted", [p(small), ("fit_other", noisy[0] if noisy else 0, "lowthr"), p(small),
                                   ("fit_other", noisy[0] if noisy else 0, "lowthr"), p(mid)]))
    return out


def random_history(rng, fam, profile, maxlen=9):
    names = L.OBJ_ORDER[fam]
    n = rng.randrange(3, maxlen)
    ops = []
    nfit = 0
    preds = [i for i, nm in enumerate(names)]
    if fam == "Hourly" and profile == "ghi":
        preds = [i for i, nm in enumerate(names) if L.OBJ[nm]["ghi"]] * 3 + preds[:3]
    if fam == "Hourly" and profile == "suppcat":
        preds = [i for i, nm in enumerate(names) if nm.endswith("_flag")] * 3 + preds[:2]
    if fam == "Hourly" and profile == "partial":
        preds = [i for i, nm in enumerate(names) if "augnov" in nm] * 3 + preds[:4]
    for _ in range(n):
        x = rng.random()
        if x < 0.5:
            ops.append(("predict", rng.choice(preds)))
        elif x < 0.58:
            ops.append(("to_json",))
        elif x < 0.66:
            ops.append(("reload",))
        elif x < 0.72 and nfit < 2 and fam not in ("Caltrack",):
            cross = {"Daily": "Billing", "Billing": "Daily"}.get(fam)
            o = ("fit_other", rng.randrange(4), rng.choice(["default", "lowthr"] + (["weighted"] if fam == "Billing" else [])))
            if cross and o[2] != "weighted" and rng.random() < 0.3:
                o = o + (cross,)
            ops.append(o)
            nfit += 1
        elif x < 0.75:
            ops.append(("use_other", rng.randrange(3), rng.randrange(8)))
        elif x < 0.80:
            ops.append(("construct", rng.randrange(len(L.SPECS[fam]))))
        elif x < 0.90:
            ops.append(("df", (rng.choice(["O", "O", "L"]), rng.randrange(len(names))), rng.randrange(3)))
        else:
            ops.append(("mutate", rng.choice(["H", "H", "R"]), rng.randrange(6), rng.randrange(len(L.MUTATIONS))))
    lin = rng.choice(["fitted", "reloaded"])
    if fam in ("Daily", "Billing", "Hourly") and profile == "default" and rng.random() < (0.5 if fam == "Billing" else 0.25):
        lin = "live"                           # costs a fit (daily ~3 s, hourly ~1.5 s, billing ~0.1 s)
    return lin, ops


def by_name(fam, ops):
    """corpus histories name their data sets; the executor works with positions"""
    out = []
    for o in ops:
        o = list(o)
        if o[0] == "predict" and isinstance(o[1], str):
            o[1] = ix(fam, o[1])
        elif o[0] == "construct" and isinstance(o[1], str):
            o[1] = spec_ix(fam, o[1])
        elif o[0] == "df":
            k, n = o[1]
            o[1] = (k, ix(fam, n) if isinstance(n, str) else n)
        elif o[0] == "fit_other" and isinstance(o[1], str):
            ofam = o[3] if len(o) > 3 else fam
            bases = [n for n in L.OBJ_ORDER[ofam] if L.OBJ[n]["role"] == "baseline" and n != L.MAIN_BASE[fam]]
            o[1] = bases.index(o[1])
        out.append(tuple(o))
    return out


def canon(job):
    return {"fam": job["fam"], "profile": job["profile"], "lineage": job["lineage"], "ops": [list(o) for o in job["ops"]]}


def tup(ops):
    out = []
    for o in ops:
        o = list(o)
        if o[0] == "df":
            o[1] = tuple(o[1])
        out.append(tuple(o))
    return out


# ------------------------------------------------------------------ pool helpers

def _child(conn, fn, job):
    try:
        conn.send(("ok", fn(job)))
    except BaseException as e:  # noqa
        import traceback
        conn.send(("exc", "%s: %s\n%s" % (type(e).__name__, e, traceback.format_exc()[-1500:])))
    finally:
        conn.close()


def frun(fn, jobs, procs=14, timeout=900, retries=2):
    """run fn(job) for every job, each in a process forked from this one (so a history cannot leave damage behind for the
    next one), at most `procs` at a time.  A child that dies without an answer (killed by the OOM killer, a crash in
    native code) or exceeds the timeout is started again; after `retries` failures the run is aborted loudly —
    a silent hang or a silently missing history would be worse."""
    from multiprocessing.connection import wait
    ctx = mp.get_context("fork")
    results = [None] * len(jobs)
    tries = [0] * len(jobs)
    todo = list(range(len(jobs)))[::-1]
    active = {}                                 # conn -> (index, process, start)
    while todo or active:
        while todo and len(active) < procs:
            i = todo.pop()
            r, w = ctx.Pipe(duplex=False)
            p = ctx.Process(target=_child, args=(w, fn, jobs[i]))
            p.daemon = True
            p.start()
            w.close()
            active[r] = (i, p, time.time())
        ready = wait(list(active), timeout=5)
        now = time.time()
        for r in list(active):
            i, p, t0 = active[r]
            done = failed = False
            if r in ready:
                try:
                    tag, val = r.recv()
                    if tag == "ok":
                        results[i] = val
                        done = True
                    else:
                        raise RuntimeError("worker raised: " + val)
                except EOFError:
                    failed = True               # died without an answer
            elif now - t0 > timeout:
                p.kill()
                failed = True
            if done or failed:
                r.close()
                p.join(5)
                del active[r]
            if failed:
                tries[i] += 1
                if tries[i] > retries:
                    raise RuntimeError("a worker process died %d times on job %d" % (tries[i], i))
                todo.append(i)
    return results


def chunked(fn_name, jobs, n):
    return [(fn_name, jobs[i::n]) for i in range(n) if jobs[i::n]]


def run_many(arg):
    fn_name, items = arg
    fn = getattr(L, fn_name)
    return [fn(x) for x in items]


def pmap(fn, jobs, procs=14, isolate=False):
    """isolate=True: one fork per job; otherwise the jobs are dealt to `procs` forks"""
    if not jobs:
        return []
    if isolate:
        return frun(fn, jobs, procs)
    n = min(procs, len(jobs))
    parts = frun(run_many, chunked(fn.__name__, jobs, n), procs)
    out = [None] * len(jobs)
    for i, part in enumerate(parts):
        for k, r in enumerate(part):
            out[i + k * n] = r
    return out


def run_chunk(chunk):
    """histories of one worker; when a history damaged a shared data object the rest of the chunk is left to the parent"""
    out = []
    for k, job in enumerate(chunk):
        r = L.run_history(job)
        out.append(r)
        if r.get("damaged"):
            break                  # the parent runs the rest of the chunk in fresh forks
    return out


def shrink(job, sig, run, seconds=40):
    """remove operations (chunks first, then single ones) while the same signature is still reported"""
    ops = list(job["ops"])
    t0 = time.time()
    n = max(1, len(ops) // 2)
    while len(ops) > 1 and time.time() - t0 < seconds:
        cands = []
        for i in range(0, len(ops), n):
            c = ops[:i] + ops[i + n:]
            if c:
                cands.append(dict(job, ops=c))
        # the shortest histories first: a single operation on its own
        if n == 1 or len(ops) <= 4:
            cands += [dict(job, ops=[o]) for o in ops]
        res = pmap(L.run_history, cands, isolate=True)
        hit = [c for c, r in zip(cands, res) if any(s == sig for s, _, _ in r["fails"])]
        if hit:
            ops = min(hit, key=lambda c: len(c["ops"]))["ops"]
            n = max(1, min(n, len(ops) // 2))
        elif n > 1:
            n = n // 2
        else:
            break
    return dict(job, ops=ops)


# ------------------------------------------------------------------ main

def main():
    run = Run("C02")
    run.cov["rule"] = (
        "histories of 3-12 operations on one fitted model object per family (daily, billing, hourly with/without GHI, CalTRACK "
        "hourly), started from the fitted object, from from_json, or fitted in the worker itself and used without any copy "
        "('live') with up to 3 OTHER model objects of the same family (daily<->billing: also of the other one) alive in the "
        "process, fitted on other meters, predicting and being stored in between; every object's to_json() is compared "
        "before/after every operation: {predict(A_i) over reporting sets of 1 day / 1 week / 1 month / "
        "partial year / full year, with and without observed, with and without GHI; to_json/to_dict; to_json+from_json; fit of "
        "another meter by another model object (also a poor fit); construction of a data object from caller-owned frames/series "
        "(frame constructors, from_series, zero readings, datetime column, freq-less index); .df access; in-place mutation of a "
        "handed-out frame, of a prediction result, of a frame that was passed to a constructor}. After every operation: to_json() "
        "of the model, digests (bit level) of every caller-owned frame/series, of every data object's private frame, warnings and "
        "disqualifications, of every frame handed out, and the prediction. distinct = (family, profile, lineage, op list); "
        "non-trivial = contains a predict after another operation")
    run.assumptions += [
        "view-versus-copy inside pandas is runtime behaviour: the models state ownership (who may write which location), the "
        "harness observes the effect of real in-place writes on the real objects",
        "the numeric fit and the numeric prediction are not modelled; predictions are compared bit for bit between histories",
        "correspondence is sampled: agreement is established on the histories run",
    ]
    run.cov["trusted_base"] += [
        "harness/c02.py, harness/c02lib.py (histories, digests, adapter), harness/translate_c02.py (which statements of the source "
        "assign model attributes on the predict path / write into constructor arguments / hand out the private frame)",
        "Model/HourlyState.v re-specifies reindex / unstack+ffill+bfill+stack of pandas on the temporal-cluster table; the "
        "nearest-profile label choice is an oracle (contract: a label already present in the table), read from the implementation",
    ]
    flags = T.generate(run if not NOCOQ else False)
    run.cov["source_flags"] = flags
    ok = True
    if not NOCOQ:
        for attempt in range(3):
            ok = run.check_proofs("Properties/C02.v", ["Proofs/HourlyStateProofs.v", "Proofs/StoreProofs.v", "Proofs/SideEffectProofs.v",
                                                       "Proofs/ObjectsProofs.v"],
                                  generated=["Generated/C02Gen.v"])
            # other checks / builders run make in the same tree: a dependency that was being rebuilt by them at that
            # moment shows up as a missing or inconsistent .vo, not as a failed proof; build again
            if ok or not any(t in run.proof_log for t in ("Cannot find a physical path", "inconsistent assumptions",
                                                          "Cannot load", "No rule to make target", "bad magic")):
                break
            run.log("build disturbed by a concurrent make, retrying")
            time.sleep(5 + 10 * attempt)
            run.proof_log = ""
        run.ensure_models(["Generated/C02Gen.v", "Model/HourlyStateRun.v", "Model/StoreRun.v", "Model/ObjectsRun.v", "Model/CasesLib.v"])
    t0 = time.time()
    problems = L.build_world(run.seed)
    run.log("world built in %.1fs (%d data objects)" % (time.time() - t0, len(L.OBJ)))
    for p in problems:
        run.violation({"family": p["fam"], "call": p["spec"]["cls"], "broken": "constructor raised", "got": p["exc"].split(":")[0]},
                      "C02 setup: %s(%s) raised %s" % (p["spec"]["cls"], p["name"], p["exc"]), case=p, generator="c02lib.build_world")
    # every frame-valued public attribute found on the live objects must be one the translator classified
    CT = {v["python"]: v["accessors"] for v in flags["classes"].values()}
    seen_acc = {}
    for n, o in L.OBJ.items():
        seen_acc.setdefault(o["cls"], set()).update(L.accessors_of(o["obj"]))
    run.cov["frame_accessors"] = {c: {a: CT.get(c, {}).get(a, "NOT CLASSIFIED") for a in sorted(v)} for c, v in seen_acc.items()}
    for c, v in seen_acc.items():
        for a_ in v:
            if a_ not in CT.get(c, {}):
                run.corr_failures.append({"stream": "accessors", "case": {"class": c, "accessor": a_},
                                          "model": "a frame is handed out through an attribute the translator did not classify"})
    # main fits (parallel, pickled back); fall back to fitting in the parent
    keys = [(f, p) for f in L.FAMS for p in L.PROFILES[f]]
    import pickle
    for key, blob, js, jr, base in pmap(L.fit_job, keys):
        if blob is not None:
            L.MODELS[key] = {"obj": pickle.loads(blob), "json": js, "json_reloaded": jr, "base": base}
        else:
            L.MODELS[key] = L.fit_main(*key)
    run.log("main models fitted")
    # histories
    jobs = []
    if run.replay:
        rep = json.load(open(run.replay))
        cs = [rep["case"]] if "fam" in rep["case"] else [x["case"] for x in rep["case"].get("first", []) if "fam" in x.get("case", {})]
        for c in cs:
            ops = [[int(x) if isinstance(x, str) and x.lstrip("-").isdigit() else x for x in o] for o in c["ops"]]
            ops = [[o[0], tuple(o[1][1:-1].replace("'", "").split(", ")) if (o[0] == "df" and isinstance(o[1], str)) else o[1]] + list(o[2:])
                   if len(o) > 1 else o for o in ops]
            ops = [[o[0], (o[1][0], int(o[1][1]))] + list(o[2:]) if o[0] == "df" else o for o in ops]
            jobs.append({"fam": c["fam"], "profile": c["profile"], "lineage": c["lineage"], "ops": tup(ops)})
    else:
        cpath = os.path.join(vlib.VERIF, "corpus", "C02.json")
        if os.path.exists(cpath):
            for c in json.load(open(cpath)):
                try:
                    jobs.append({"fam": c["fam"], "profile": c["profile"], "lineage": c["lineage"],
                                 "ops": by_name(c["fam"], c["ops"]), "corpus": True})
                except (KeyError, ValueError, IndexError) as e:
                    run.log("corpus entry skipped (%s): %s" % (e, c.get("note")))
        for fam, prof in keys:
            for lin, ops in systematic(fam, prof):
                jobs.append({"fam": fam, "profile": prof, "lineage": lin, "ops": ops})
            for _ in range(run.n(3, 300) if fam != "Caltrack" else run.n(2, 100)):
                lin, ops = random_history(run.rng, fam, prof, maxlen=run.n(9, 21))
                jobs.append({"fam": fam, "profile": prof, "lineage": lin, "ops": ops})
    # reference predictions on fresh copies (fitted object / reloaded object) for every data set some history predicts
    need = set()
    for job in jobs:
        names = L.OBJ_ORDER[job["fam"]]
        for o in job["ops"]:
            if o[0] == "predict":
                # the lineage the object can have at that point; "fitted" always (the hourly correspondence asks whether the
                # numeric stage raises on the data set, and shrinking may remove a reload)
                lins = {"fitted"} | ({"reloaded"} if (job["lineage"] == "reloaded" or any(x[0] == "reload" for x in job["ops"])) else set())
                for lin in lins:
                    need.add((job["fam"], job["profile"], lin, names[o[1] % len(names)]))
        for n in names:                       # the hourly correspondence asks whether the numeric stage raises on a data set
            if job["fam"] == "Hourly" and (job["fam"], job["profile"], "fitted", n) in need:
                pass
    for job, d in pmap(L.ref_job, sorted(need)):
        L.REF[job] = d
    nexc = sum(1 for v in L.REF.values() if v.startswith("EXC"))
    run.log("reference predictions: %d (%d raise)" % (len(L.REF), nexc))
    nw = min(14, len(jobs))
    chunks = [jobs[i::nw] for i in range(nw)]
    parts = frun(run_chunk, chunks, procs=nw, timeout=run.n(900, 3000))
    results = [None] * len(jobs)
    for i, part in enumerate(parts):
        for k, r in enumerate(part):
            results[i + k * nw] = r
    rest = [i for i, r in enumerate(results) if r is None]
    for i, r in zip(rest, pmap(L.run_history, [jobs[i] for i in rest], isolate=True)):
        results[i] = r
    run.log("%d histories executed" % len(jobs))
    reported = set()
    # a run in which a family never predicts proves nothing; an exception that is no designed outcome is a defect
    okpred = {}
    for job, res in zip(jobs, results):
        for rec in res["trace"]:
            if rec["op"][0] == "predict":
                k = (job["fam"], job["profile"])
                okpred.setdefault(k, 0)
                okpred[k] += 0 if str(rec["pred"]).startswith("EXC") else 1
    for k, n in sorted(okpred.items()):
        if n == 0 and not run.replay:
            run.corr_failures.append({"stream": "vacuity", "case": {"fam": k[0], "profile": k[1]},
                                      "model": "no prediction of this family/profile succeeded in the whole run"})
    for (fam, prof, lin, name), d in sorted(L.REF.items()):
        if d.startswith("EXC:") and d.split(":")[1] not in ("ValueError",):
            run.violation({"family": fam, "call": L.model_class(fam).__name__ + ".predict", "broken": "a fresh model raises",
                           "got": d.split(":")[1]},
                          "C02 %s: predict(%s) on a fresh %s copy raises %s" % (fam, name, lin, d.split(":")[1]),
                          case={"fam": fam, "profile": prof, "lineage": lin, "ops": [["predict", L.OBJ_ORDER[fam].index(name)]]},
                          generator="c02 reference predictions")
    for job, res in zip(jobs, results):
        ops = job["ops"]
        kinds = [o[0] for o in ops]
        nontriv = any(k == "predict" for k in kinds[1:])
        run.count((job["fam"], job["profile"], job["lineage"], repr(ops)), nontriv)
        run.dist("family/profile/lineage", (job["fam"], job["profile"], job["lineage"]))
        for rec in res["trace"]:
            run.dist("operation", rec["op"][0] + (" (skipped)" if rec.get("skipped") else ""))
            if "to_dict_shared" in rec:
                run.dist("informational, beyond the statement: to_dict() outputs containing a container the model keeps",
                         (job["fam"], "shared" if rec["to_dict_shared"] else "independent"))
            if rec["op"][0] == "predict":
                o = L.OBJ[rec["dataset"]]
                run.dist("predict span/observed/ghi", (o["span"], "obs" if o["observed"] else "no obs", "ghi" if o["ghi"] else "-"))
                run.dist("predict outcome", "raises" if str(rec["pred"]).startswith("EXC") else
                         ("equals fresh copy" if rec["pred"] == rec["ref"] else "differs from fresh copy"))
        for sig, msg, step in res["fails"]:
            case = dict(canon(job), step=step)
            if run.match_known(sig) is None and vlib.sha(sig) not in reported and len(reported) < 4:
                reported.add(vlib.sha(sig))
                run.log("shrinking a history of %d operations for %s" % (len(ops), sig))
                small = shrink(job, sig, run)
                case = dict(canon(small), step=None, shrunk_from=len(ops))
            run.violation(sig, "C02 %s: %s" % (job["fam"], msg), case=case,
                          observation=[{k: v for k, v in r.items() if k != "hstate"} for r in res["trace"]][: (step + 1)],
                          expected="no observable change", generator="c02.systematic/random_history")
        run.sample({"family": job["fam"], "profile": job["profile"], "lineage": job["lineage"], "ops": [list(map(str, o)) for o in ops],
                    "findings": [m for _, m, _ in res["fails"]][:3]})
    if not NOCOQ:
        import c02coq
        c02coq.correspondence(run, jobs, results, flags)
    run.finish()


if __name__ == "__main__":
    vlib.run_main(main, "C02")
