#!/venv/bin/python
"""usage: mark_fixed.py <finding id> <commit>  — move a known finding from known_findings.d/<prop>.json to known_findings.json as `fixed`"""
import json, sys, os
V = os.path.dirname(os.path.dirname(os.path.abspath(__file__)))
fid, commit = sys.argv[1], sys.argv[2]
prop = fid.split("-")[0]
p = os.path.join(V, "known_findings.d", prop + ".json")
d = json.load(open(p))
k = json.load(open(os.path.join(V, "known_findings.json")))
hit = [f for f in d["findings"] if f["id"] == fid]
assert hit, "no such finding"
f = hit[0]
d["findings"] = [x for x in d["findings"] if x["id"] != fid]
f["status"] = "fixed"; f["commit"] = commit
f["what"] = "fixed: property=%s %s %s" % (prop, commit, f["what"][:700])
k["findings"] = [x for x in k["findings"] if x["id"] != fid] + [f]
json.dump(d, open(p, "w"), indent=1); json.dump(k, open(os.path.join(V, "known_findings.json"), "w"), indent=1)
print("fixed:", fid, commit)
