"""Fail-closed translator for C20: reads, from opendsm/eemeter/common/transform.py, the semantics-bearing sites of
get_baseline_data / get_reporting_data and of their two warning helpers, and writes coq/Generated/WindowsGen.v:

  * how the day counts are added to the limits (timedelta(days=..) on which operand, with which sign),
  * the label slices that cut the windows (which bound, inclusive label slicing),
  * the comparison operators of the overshoot tolerance test and of the four gap warnings (and which operands),
  * the form of the max_days / limit guards (`is not None`, never truthiness),
  * the nearest-boundary lookup method, the blanking of the final row, the two empty-selection errors,
  * that the limits are normalised to pd.Timestamp on entry.

Properties/C20.v proves that these facts are the ones Model/Windows.v embodies (C20_source_facts_are_the_modelled_ones and
the lemmas that spell each fact out on the model's functions).  The sites are found anywhere in the function body (no
dependence on statement order or on comments); anything that does not have the expected shape raises TranslatorError."""
import ast
import os
import sys

HERE = os.path.dirname(os.path.abspath(__file__))
sys.path.insert(0, HERE)
import vlib  # noqa: E402

OUT = "Generated/WindowsGen.v"
SRC = "opendsm/eemeter/common/transform.py"


class TranslatorError(Exception):
    pass


def u(n):
    return ast.unparse(n)


def _fn(tree, name):
    for n in tree.body:
        if isinstance(n, ast.FunctionDef) and n.name == name:
            return n
    raise TranslatorError("function %s not found in %s" % (name, SRC))


CMP = {ast.Lt: "CLt", ast.LtE: "CLe", ast.Gt: "CGt", ast.GtE: "CGe"}


def _day_arith(fn):
    """all  X +/- timedelta(days=Y)  in the function, except the +-1 day guards around Timestamp.min/max"""
    out = []
    for n in ast.walk(fn):
        if isinstance(n, ast.BinOp) and isinstance(n.right, ast.Call) and u(n.right.func) in ("timedelta", "datetime.timedelta"):
            kw = {k.arg: u(k.value) for k in n.right.keywords}
            if n.right.args or set(kw) != {"days"}:
                raise TranslatorError("%s: day arithmetic is not timedelta(days=...): %s" % (fn.name, u(n)))
            if "Timestamp.m" in u(n.left):
                continue
            if not isinstance(n.op, (ast.Add, ast.Sub)):
                raise TranslatorError("%s: unexpected operator in %s" % (fn.name, u(n)))
            out.append((u(n.left), "Minus" if isinstance(n.op, ast.Sub) else "Plus", kw["days"]))
        elif isinstance(n, ast.Call) and u(n.func).split(".")[-1] in ("DateOffset", "Timedelta", "to_timedelta", "relativedelta"):
            raise TranslatorError("%s: day arithmetic through %s" % (fn.name, u(n)))
    return sorted(out)


def _slices(fn):
    out = []
    for n in ast.walk(fn):
        if isinstance(n, ast.Subscript) and isinstance(n.slice, ast.Slice) and isinstance(n.value, ast.Name):
            if n.slice.step is not None:
                raise TranslatorError("%s: stepped slice %s" % (fn.name, u(n)))
            out.append((n.value.id, u(n.slice.lower) if n.slice.lower else "", u(n.slice.upper) if n.slice.upper else ""))
        if isinstance(n, ast.Attribute) and n.attr in ("loc", "iloc", "truncate", "between_time", "query") and n.attr != "iloc":
            raise TranslatorError("%s: window cut through .%s" % (fn.name, n.attr))
    return sorted(set(out))


def _compares(fn):
    out = []
    for n in ast.walk(fn):
        if isinstance(n, ast.Compare) and len(n.ops) == 1 and type(n.ops[0]) in CMP:
            out.append((u(n.left), CMP[type(n.ops[0])], u(n.comparators[0])))
    return sorted(out)


def _if_tests(fn, needle):
    return sorted(u(n.test) for n in ast.walk(fn) if isinstance(n, ast.If) and needle in u(n.test))


def _warning_conditions(fn):
    """[(test, qualified_name)] of the if-blocks that append a warning"""
    out = []
    for n in fn.body:
        if isinstance(n, ast.If):
            names = [k.value.value for c in ast.walk(n) if isinstance(c, ast.Call) for k in c.keywords
                     if k.arg == "qualified_name" and isinstance(k.value, ast.Constant)]
            if len(names) != 1 or n.orelse:
                raise TranslatorError("%s: unrecognised warning block under `%s`" % (fn.name, u(n.test)))
            out.append((u(n.test), names[0].split(".")[-1]))
    return out


def extract():
    tree = ast.parse(open(os.path.join(vlib.repo_root(), SRC)).read())
    gb, gr = _fn(tree, "get_baseline_data"), _fn(tree, "get_reporting_data")
    wb, wr = _fn(tree, "_make_baseline_warnings"), _fn(tree, "_make_reporting_warnings")
    ex = {}
    # ---- the limits enter the computation as given (after the pd.Timestamp normalisation), through no helper
    allowed = {"ValueError", "timedelta", "NoBaselineDataError", "NoReportingDataError",
               "_make_baseline_warnings", "_make_reporting_warnings"}
    for fn, exp in ((gb, ["end_limit = end", "start_target = start"]), (gr, ["end_target = end", "start_limit = start"])):
        got = sorted(u(n) for n in ast.walk(fn) if isinstance(n, ast.Assign) and isinstance(n.value, ast.Name)
                     and n.value.id in ("start", "end"))
        if got != exp:
            raise TranslatorError("%s: the requested limits are taken over as %s" % (fn.name, got))
        for n in ast.walk(fn):
            if isinstance(n, ast.Call) and isinstance(n.func, ast.Name) and n.func.id not in allowed:
                raise TranslatorError("%s: call of %s(...) is not part of the modelled computation" % (fn.name, n.func.id))
    # ---- day arithmetic
    if _day_arith(gb) != sorted([("end_limit", "Minus", "n_days_billing_period_overshoot"), ("end_limit", "Minus", "max_days")]):
        raise TranslatorError("get_baseline_data: day arithmetic is %s" % _day_arith(gb))
    if _day_arith(gr) != [("start_limit", "Plus", "max_days")]:
        raise TranslatorError("get_reporting_data: day arithmetic is %s" % _day_arith(gr))
    ex["day_unit"] = "ElapsedDays"          # timedelta(days=n) on a pd.Timestamp: n * 86400 s of elapsed time
    # ---- limits normalised to pd.Timestamp (otherwise timedelta arithmetic on datetime.datetime is wall-clock)
    for fn in (gb, gr):
        norm = sorted(u(n) for n in ast.walk(fn) if isinstance(n, ast.Assign) and isinstance(n.value, ast.Call)
                      and u(n.value.func) == "pd.Timestamp" and len(n.targets) == 1 and u(n.targets[0]) == u(n.value.args[0]))
        if norm != ["end = pd.Timestamp(end)", "start = pd.Timestamp(start)"]:
            raise TranslatorError("%s: the limits are not normalised to pd.Timestamp on entry (%s)" % (fn.name, norm))
    ex["limits_normalised"] = True
    # ---- slices
    if _slices(gb) != sorted([("data", "", "end_limit"), ("data_before_end_limit", "start_limit", "")]):
        raise TranslatorError("get_baseline_data: slices are %s" % _slices(gb))
    if _slices(gr) != sorted([("data", "start_limit", ""), ("data_after_start_limit", "", "end_limit")]):
        raise TranslatorError("get_reporting_data: slices are %s" % _slices(gr))
    ex["slices_inclusive_labels"] = True    # label slicing of a sorted DatetimeIndex includes both bounds
    # ---- comparisons
    if _compares(gb) != [("end_limit - timedelta(days=n_days_billing_period_overshoot)", "CLt", "data_end")]:
        raise TranslatorError("get_baseline_data: comparisons are %s" % _compares(gb))
    ex["overshoot_tolerance_cmp"] = "CLt"
    if _compares(gr):
        raise TranslatorError("get_reporting_data: unexpected comparisons %s" % _compares(gr))
    wcb, wcr = _warning_conditions(wb), _warning_conditions(wr)
    exp_b = [("not end_inf and data_end < end_limit", "gap_at_baseline_end"), ("not start_inf and start_limit < data_start", "gap_at_baseline_start")]
    exp_r = [("not end_inf and data_end < end_limit", "gap_at_reporting_end"), ("not start_inf and start_limit < data_start", "gap_at_reporting_start")]
    if sorted(wcb) != sorted(exp_b):
        raise TranslatorError("_make_baseline_warnings: %s" % wcb)
    if sorted(wcr) != sorted(exp_r):
        raise TranslatorError("_make_reporting_warnings: %s" % wcr)
    ex["gap_end_cmp"] = "CLt"       # data_end  <  end_limit
    ex["gap_start_cmp"] = "CLt"     # start_limit  <  data_start
    # which values the helpers are called with: the limits as MOVED by the options, and the range of the whole input
    for fn, helper in ((gb, "_make_baseline_warnings"), (gr, "_make_reporting_warnings")):
        calls = [u(n) for n in ast.walk(fn) if isinstance(n, ast.Call) and u(n.func) == helper]
        if calls != ["%s(end_inf, start_inf, data_start, data_end, start_limit, end_limit)" % helper]:
            raise TranslatorError("%s: %s is called as %s" % (fn.name, helper, calls))
        ds = sorted(u(n) for n in ast.walk(fn) if isinstance(n, ast.Assign) and u(n.targets[0]) in ("data_end", "data_start")
                    and u(n.value).startswith("data.index."))
        if ds != ["data_end = data.index.max()", "data_start = data.index.min()"]:
            raise TranslatorError("%s: data_start/data_end handed to the warnings are %s" % (fn.name, ds))
    ex["warnings_use_moved_limits"] = True
    # ---- guards on max_days / the limits: `is not None`, never truthiness
    gb_md = _if_tests(gb, "max_days")
    gr_md = _if_tests(gr, "max_days")
    if gb_md != sorted(["max_days is not None", "not end_inf and max_days is not None"]):
        raise TranslatorError("get_baseline_data: max_days guards are %s" % gb_md)
    if gr_md != sorted(["max_days is not None", "not start_inf and max_days is not None"]):
        raise TranslatorError("get_reporting_data: max_days guards are %s" % gr_md)
    for fn in (gb, gr):
        lim = sorted(t for t in (_if_tests(fn, "start") + _if_tests(fn, "end")) if "max_days" not in t and "inf" not in t
                     and "limit" not in t and "target" not in t)
        if sorted(set(lim)) != ["end is None", "end is not None", "start is None", "start is not None"]:
            raise TranslatorError("%s: limit guards are %s" % (fn.name, sorted(set(lim))))
    ex["max_days_guard_is_not_none"] = True
    # ---- ignore-gap tests
    ig_b = _if_tests(gb, "ignore_billing_period_gap_for_day_count")
    if ig_b != ["ignore_billing_period_gap_for_day_count and (n_days_billing_period_overshoot is None or end_limit - "
                "timedelta(days=n_days_billing_period_overshoot) < data_end)"]:
        raise TranslatorError("get_baseline_data: ignore-gap test is %s" % ig_b)
    if _if_tests(gr, "ignore_billing_period_gap_for_day_count") != ["ignore_billing_period_gap_for_day_count"]:
        raise TranslatorError("get_reporting_data: ignore-gap test is %s" % _if_tests(gr, "ignore_billing_period_gap_for_day_count"))
    # ---- nearest lookup, blanking, errors
    for fn, tgt in ((gb, "start_target"), (gr, "end_target")):
        gi = [u(n) for n in ast.walk(fn) if isinstance(n, ast.Call) and u(n.func).endswith(".index.get_indexer")]
        if len(gi) != 1 or ("[%s], method='nearest')" % tgt) not in gi[0]:
            raise TranslatorError("%s: boundary lookup is %s" % (fn.name, gi))
    ex["boundary_lookup"] = "Nearest"
    for fn, var, err in ((gb, "baseline_data", "NoBaselineDataError"), (gr, "reporting_data", "NoReportingDataError")):
        bl = [u(n) for n in ast.walk(fn) if isinstance(n, ast.Assign) and ".iloc[" in u(n.targets[0])]
        if bl != ["%s.iloc[-1] = np.nan" % var]:
            raise TranslatorError("%s: blanking is %s" % (fn.name, bl))
        raises = sorted((u(n.test), u(n.body[0])) for n in ast.walk(fn) if isinstance(n, ast.If) and len(n.body) == 1
                        and isinstance(n.body[0], ast.Raise) and err in u(n.body[0]))
        first = "data_before_end_limit.empty" if fn is gb else "data_after_start_limit.empty"
        if raises != sorted([(first, "raise %s()" % err), ("%s.dropna().empty" % var, "raise %s()" % err)]):
            raise TranslatorError("%s: empty-selection errors are %s" % (fn.name, raises))
    ex["blank_last_row"] = True
    ex["empty_is_all_rows_incomplete"] = True   # dropna().empty: every row has a missing cell
    return ex


def render(ex):
    b = lambda x: "true" if x else "false"  # noqa: E731
    return "\n".join([
        "(* GENERATED by harness/translate_windows.py from the source of /repo on every run - do not edit. *)",
        "From V Require Import Model.WindowsSrc.", "",
        "Definition gen_wsrc : wsrc :=",
        "  {| w_day_unit := %s;" % ex["day_unit"],
        "     w_limits_normalised := %s;" % b(ex["limits_normalised"]),
        "     w_slices_inclusive := %s;" % b(ex["slices_inclusive_labels"]),
        "     w_overshoot_tolerance_cmp := %s;" % ex["overshoot_tolerance_cmp"],
        "     w_gap_end_cmp := %s;" % ex["gap_end_cmp"],
        "     w_gap_start_cmp := %s;" % ex["gap_start_cmp"],
        "     w_warnings_use_moved_limits := %s;" % b(ex["warnings_use_moved_limits"]),
        "     w_max_days_guard_is_not_none := %s;" % b(ex["max_days_guard_is_not_none"]),
        "     w_boundary_lookup := %s;" % ex["boundary_lookup"],
        "     w_blank_last_row := %s;" % b(ex["blank_last_row"]),
        "     w_empty_is_all_rows_incomplete := %s |}." % b(ex["empty_is_all_rows_incomplete"]), ""])


def generate(run):
    text = render(extract())
    if run is not None:
        run.write_generated(OUT, text)
    else:
        p = os.path.join(vlib.COQ, OUT)
        os.makedirs(os.path.dirname(p), exist_ok=True)
        if not os.path.exists(p) or open(p).read() != text:
            open(p, "w").write(text)
    return text


if __name__ == "__main__":
    print(generate(None))
