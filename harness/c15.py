"""C15 — a building that follows the model is recovered by the fit.                         LEVEL: partial

Model: coq/Model/Recovery.v (+ Model/DailyCurve.v); theorems: coq/Properties/C15.v; tie: this file.

The optimiser has no Gallina model, so convergence is sampled: for every generated building of the stated family the
real DailyModel / BillingModel is fitted (worker processes), and
  * the property ORACLE — the statement's inequalities, literally, on the implementation's predict() columns against
    the generating function — decides violations;
  * inside coqc (vm_compute, binary64 instance of the model text) the STORED JSON parameters are evaluated on the same
    temperatures, the generator is evaluated, the aggregates are recomputed and the inequalities decided again:
    check_fit must agree with what the implementation returned and with the oracle's verdicts;
  * the box the optimiser was given (kept by the OptimizedResult hook) is compared with the box Model/Recovery.v builds
    from the same temperatures and usage (check_initial_box / check_final_box), and the feasibility of the generating
    parameters for that box is evaluated (C15_generator_in_box is about exactly this box);
  * the certificate  SSE(fit,y) <= SSE(truth,y) + s  is measured and written into the evidence together with the
    bound C15_rmse_from_certificate derives from it;
  * param_gap (C15_out_of_sample_from_parameters: a sup-norm bound over a temperature range computed from the stored
    parameters) is evaluated for every fitted model, by the harness on the implementation's own 7-vectors and by Coq on
    the stored documents, compared, and reported.
Known findings are attributed by cause: billing (regression dilution) and, through the OptimizedResult hook, crossed
balance points whose read-back differs from the scored curve."""
import json
import os
import time
import warnings

import numpy as np

import c15lib as L
import vlib
from vlib import Run, coq_bool, coq_list, fhex

warnings.simplefilter("ignore")

IMPORTS = ("From Coq Require Import PrimFloat.\n"
           "From V Require Import Model.Num Model.NumF Model.DailyCurve Model.DailyCurveRun Model.Recovery Model.RecoveryRun.")

COQ_SHAPE = {"hdd_tidd_cdd_smooth": "HddTiddCddSmooth", "hdd_tidd_cdd": "HddTiddCdd", "hdd_tidd_smooth": "HddTiddSmooth",
             "tidd_cdd_smooth": "TiddCddSmooth", "hdd_tidd": "HddTidd", "tidd_cdd": "TiddCdd", "tidd": "Tidd"}
COQ_KEY = {"hdd_tidd_cdd_smooth": "KFullSmooth", "hdd_tidd_cdd": "KFull", "c_hdd_tidd_smooth": "KCSmooth",
           "c_hdd_tidd": "KC", "tidd": "KTidd"}
GEN_KEY = {"both": "hdd_tidd_cdd", "heat": "c_hdd_tidd", "cool": "c_hdd_tidd", "flat": "tidd"}
FIELDS = ["hdd_bp", "hdd_beta", "hdd_k", "cdd_bp", "cdd_beta", "cdd_k"]


# ------------------------------------------------------------------ the oracle (statement, literally)

def metrics(spec, o, stage=None):
    """the numbers of the statement from the implementation's columns (stage: None = the fitted model,
    'json' / 'dict' = the model restored from to_json() / to_dict())"""
    src = o if stage is None else o["reload"][stage]
    b, y2 = src["base"], src["year2"]
    T, pred, obs = np.array(b["T"]), np.array(b["pred"]), np.array(b["obs"])
    g = L.g_curve(spec, T)
    T2, p2 = np.array(y2["T"]), np.array(y2["pred"])
    g2 = L.g_curve(spec, T2)
    m = {
        "n_in": len(T), "n_out": len(T2),
        "mse_in": float(np.mean((pred - g) ** 2)), "mean_in": float(np.mean(obs)),
        "mse_out": float(np.mean((p2 - g2) ** 2)), "mean_out": float(np.mean(g2)),
        "heat_in": float(np.sum(b["heat"])), "cool_in": float(np.sum(b["cool"])), "use_in": float(np.sum(obs)),
        "heat_out": float(np.sum(y2["heat"])), "cool_out": float(np.sum(y2["cool"])), "use_out": float(np.sum(g2)),
        "sse_fy": float(np.sum((pred - obs) ** 2)), "sse_gy": float(np.sum((g - obs) ** 2)),
    }
    m["nrmse_in"] = float(np.sqrt(m["mse_in"]) / m["mean_in"])
    m["nrmse_out"] = float(np.sqrt(m["mse_out"]) / m["mean_out"])
    lim = L.NRMSE_LIMIT
    # decided without the square root, exactly as Model/Recovery.v nrmse_ok / load_ok
    m["nrmse_in_ok"] = bool(m["mse_in"] <= (lim * m["mean_in"]) * (lim * m["mean_in"]))
    m["nrmse_out_ok"] = bool(m["mse_out"] <= (lim * m["mean_out"]) * (lim * m["mean_out"]))
    ll = L.LOAD_LIMIT
    m["heat_in_ok"] = bool(m["heat_in"] <= ll * m["use_in"])
    m["cool_in_ok"] = bool(m["cool_in"] <= ll * m["use_in"])
    m["heat_out_ok"] = bool(m["heat_out"] <= ll * m["use_out"])
    m["cool_out_ok"] = bool(m["cool_out"] <= ll * m["use_out"])
    # the certificate and the proved bound
    n = m["n_in"]
    s = max(0.0, m["sse_fy"] - m["sse_gy"])
    m["s_over_n"] = s / n
    m["rmse_fg"] = float(np.sqrt(m["mse_in"]))
    m["rmse_yg"] = float(np.sqrt(m["sse_gy"] / n))
    m["rms_g"] = float(np.sqrt(np.mean(g ** 2)))
    m["cert_bound"] = 2 * m["rmse_yg"] + float(np.sqrt(s / n))
    m["cert_bound_nrmse"] = m["cert_bound"] / m["mean_in"]
    m["noise_bound_holds"] = bool(spec["kind"] != "daily" or m["rmse_yg"] <= L.EPS * m["rms_g"] * (1 + 1e-12))
    return m


def oracle(spec, o, m):
    """list of (signature, message); empty = the statement holds on this building"""
    sig0 = {"model": spec["kind"], "shape": spec["shape"], "temperature_dependent": spec["shape"] != "flat"}
    if not o["ok"]:
        sig = dict(sig0, failure="fit_raised", exception=o["exception"].split(":")[0])
        if spec["shape"] == "flat" and spec["noise"] == "none" and sig["exception"] == "AttributeError":
            sig["finding_class"] = "constant-meter-no-combination"
        return [(sig, "fitting a building of the family raised %s" % o["exception"])]
    fails = []

    # cause attribution through the hook (cause H of DESIGN section 6): a two-sided smooth fit whose optimiser vector has
    # CROSSED balance points (cdd_bp < hdd_bp) with non-zero smoothing, and whose stored (read-back) curve differs from the
    # curve the optimiser scored by more than 1 % of mean usage
    def crossed_readback(h):
        x = h.get("x_raw")
        return (h.get("key") == "hdd_tidd_cdd_smooth" and x is not None and len(x) == 7 and x[3] < x[0]
                and (x[2] != 0 or x[5] != 0) and h.get("readback_gap") is not None
                and h["readback_gap"] > 0.01 * m["mean_in"])
    readback_broken = any(crossed_readback(h) for part in ("initial", "final") for h in o[part].values())

    # second attributed cause (D16 / pinned_readback of DESIGN C12): fit_c_hdd_tidd pinned the balance point of a one-sided
    # final fit to T_min / T_max (recorded row with equal ends) and the stored curve (balance point moved to T_*_seg by
    # reduce_model) differs from the scored one by more than 1 % of mean usage
    def pinned_readback(h):
        b = h.get("bnds")
        return (h.get("key") == "c_hdd_tidd" and b is not None and len(b) == 3 and b[0][0] == b[0][1]
                and h.get("readback_gap") is not None and h["readback_gap"] > 0.01 * m["mean_in"])
    pinned_broken = any(pinned_readback(h) for h in o["final"].values())

    # third attributed cause: the optimiser stays in a local optimum "shifted, steeper, smoothed hinge" on a noise-free
    # meter at the steep corner of the family (a slope of at least half the base load per degree): ONE unsplit two-sided
    # smooth sub-model whose stored smoothing fraction is >= 0.05 on a side where the generator has a sharp hinge, with
    # that side's balance point more than 1 F off, although the generating point has zero error
    def smoothed_local_optimum():
        if spec["kind"] != "daily" or spec["noise"] != "none" or spec["shape"] != "both" or len(o["submodels"]) != 1:
            return False
        if max(spec["bh"], spec["bc"]) < 0.5 * spec["base"]:
            return False
        c = list(o["submodels"].values())[0]["coefficients"]
        if c["model_type"] != "hdd_tidd_cdd_smooth":
            return False
        heat = c["hdd_k"] is not None and c["hdd_k"] >= 0.05 and abs(c["hdd_bp"] - spec["bph"]) > 1.0
        cool = c["cdd_k"] is not None and c["cdd_k"] >= 0.05 and abs(c["cdd_bp"] - spec["bpc"]) > 1.0
        return heat or cool
    local_optimum = smoothed_local_optimum()

    def cls(failure):
        s = dict(sig0, failure=failure)
        if spec["kind"] == "billing" and failure.startswith("nrmse") and spec["shape"] != "flat":
            s["finding_class"] = "billing-dilution"
        elif readback_broken:
            s["finding_class"] = "crossed-balance-points-readback"
        elif pinned_broken:
            s["finding_class"] = "pinned-balance-point-readback"
        elif local_optimum and failure.startswith("nrmse"):
            s["finding_class"] = "noise-free-smoothed-local-optimum"
        elif (spec["kind"] == "daily" and spec["noise"] == "none" and len(o["submodels"]) > 1 and m["nrmse_in_ok"]
              and failure in ("nrmse_second_year", "spurious_heating_load", "spurious_cooling_load")):
            s["finding_class"] = "noise-free-seasonal-split"
        return s
    criteria(spec, m, cls, fails, "")
    # ---- reload stage: the same criteria on the model restored from its document, and fitted-vs-restored agreement
    reported = {f[0]["failure"] for f in fails}
    for how in ("json", "dict"):
        r = o.get("reload", {}).get(how)
        if r is None:
            continue
        label = "to_%s/from_%s" % (how, how)

        def rcls(failure, how=how):
            s = cls(failure)
            s["stage"] = "restored_" + how
            return s
        if "exception" in r:
            fails.append((dict(sig0, failure="reload_raised", stage="restored_" + how, exception=r["exception"].split(":")[0]),
                          "the fitted model cannot be restored and used through %s: %s" % (label, r["exception"])))
            continue
        worst = 0.0
        for part in ("base", "year2"):
            for col in ("pred", "heat", "cool"):
                a, b2 = np.array(o[part][col]), np.array(r[part][col])
                if a.shape != b2.shape:
                    worst = float("inf")
                else:
                    worst = max(worst, float(np.max(np.abs(a - b2) / np.maximum(1.0, np.abs(a)))) if len(a) else 0.0)
        if worst > 1e-9:
            fails.append((dict(sig0, failure="restored_model_differs", stage="restored_" + how),
                          "the model restored through %s predicts differently from the fitted one (relative difference %.3g)" % (label, worst)))
            rfails = []
            criteria(spec, metrics(spec, o, how), rcls, rfails, " [model restored through %s]" % label)
            # a failure the fitted model shows as well is the same finding; report what the restored model adds
            fails += [f for f in rfails if f[0]["failure"] not in reported]
    return fails


def criteria(spec, m, cls, fails, where):
    """the statement's inequalities on one set of predict() columns"""
    if not m["nrmse_in_ok"]:
        fails.append((cls("nrmse_baseline"), "NRMSE against the generating curve on the baseline = %.4f > 0.05%s" % (m["nrmse_in"], where)))
    if not m["nrmse_out_ok"]:
        fails.append((cls("nrmse_second_year"), "NRMSE against the generating curve on a different weather year = %.4f > 0.05%s" % (m["nrmse_out"], where)))
    if spec["bh"] == 0:
        if not m["heat_in_ok"]:
            fails.append((cls("spurious_heating_load"), "heating load %.4f of usage on the baseline, generator has none%s" % (m["heat_in"] / m["use_in"], where)))
        if not m["heat_out_ok"]:
            fails.append((cls("spurious_heating_load"), "heating load %.4f of usage on the second year, generator has none%s" % (m["heat_out"] / m["use_out"], where)))
    if spec["bc"] == 0:
        if not m["cool_in_ok"]:
            fails.append((cls("spurious_cooling_load"), "cooling load %.4f of usage on the baseline, generator has none%s" % (m["cool_in"] / m["use_in"], where)))
        if not m["cool_out_ok"]:
            fails.append((cls("spurious_cooling_load"), "cooling load %.4f of usage on the second year, generator has none%s" % (m["cool_out"] / m["use_out"], where)))
    return fails


# ------------------------------------------------------------------ Coq terms

def fopt(x):
    return "None" if x is None else "(Some %s)" % fhex(x)


def coq_sub(sm):
    c, tc = sm["coefficients"], sm["temperature_constraints"]
    return "(mkc %s %s %s, mktc %s %s %s %s)" % (
        COQ_SHAPE[c["model_type"]], fhex(c["intercept"]), " ".join(fopt(c[f]) for f in FIELDS),
        fhex(tc["T_min"]), fhex(tc["T_max"]), fhex(tc["T_min_seg"]), fhex(tc["T_max_seg"]))


def coq_building(spec):
    return "(mkb %s %s %s %s %s)" % (fhex(spec["base"]), fhex(spec["bh"]), fhex(spec["bph"]), fhex(spec["bc"]), fhex(spec["bpc"]))


def coq_fit_case(spec, o, m):
    keys = list(o["submodels"].keys())
    idx = {k: i for i, k in enumerate(keys)}
    b, y2 = o["base"], o["year2"]
    base = coq_list(["(%d%%nat, %s, %s, %s, %s, %s)" % (idx[s], fhex(t), fhex(y), fhex(p), fhex(h), fhex(c))
                     for s, t, y, p, h, c in zip(b["split"], b["T"], b["obs"], b["pred"], b["heat"], b["cool"])])
    year2 = coq_list(["(%d%%nat, %s, %s, %s, %s)" % (idx[s], fhex(t), fhex(p), fhex(h), fhex(c))
                      for s, t, p, h, c in zip(y2["split"], y2["T"], y2["pred"], y2["heat"], y2["cool"])])
    sent = ("{| s_mse_in := %s; s_mean_in := %s; s_mse_out := %s; s_mean_out := %s; s_heat_in := %s; s_cool_in := %s; "
            "s_use_in := %s; s_heat_out := %s; s_cool_out := %s; s_use_out := %s; s_sse_fy := %s; s_sse_gy := %s; "
            "s_nrmse_in_ok := %s; s_nrmse_out_ok := %s; s_heat_in_ok := %s; s_cool_in_ok := %s; s_heat_out_ok := %s; "
            "s_cool_out_ok := %s |}") % tuple(
        [fhex(m[k]) for k in ("mse_in", "mean_in", "mse_out", "mean_out", "heat_in", "cool_in", "use_in", "heat_out",
                              "cool_out", "use_out", "sse_fy", "sse_gy")] +
        [coq_bool(m[k]) for k in ("nrmse_in_ok", "nrmse_out_ok", "heat_in_ok", "cool_in_ok", "heat_out_ok", "cool_out_ok")])
    return "(%s, %s, %s, %s, %s)" % (coq_building(spec), coq_list([coq_sub(o["submodels"][k]) for k in keys]), base, year2, sent)


def coq_rows(bnds):
    return coq_list(["(%s, %s)" % (fhex(a), fhex(b)) for a, b in bnds])


def coq_floats(xs):
    return coq_list([fhex(x) for x in xs])


def coq_box_case(h):
    return "(%s, %d%%nat, %s, %s, %s)" % (COQ_KEY[h["key"]], h["nmin"], coq_floats(h["T"]), coq_floats(h["obs"]), coq_rows(h["bnds"]))


def param_gap(spec, x, tlo, thi):
    """Model/Recovery.v param_gap (with free_bp) on the implementation's own 7-vector"""
    hbp, hbeta, hk, cbp, cbeta, ck, icpt = x
    bph = spec["bph"] if spec["bh"] != 0 else hbp - hk
    bpc = spec["bpc"] if spec["bc"] != 0 else cbp + ck
    pos = lambda a: a if a > 0 else 0.0
    heat = abs(spec["bh"] - hbeta) * pos(bph - tlo) + hbeta * abs(bph - (hbp - hk)) + hbeta * hk
    cool = abs(spec["bc"] - cbeta) * pos(thi - bpc) + cbeta * abs(bpc - (cbp + ck)) + cbeta * ck
    return abs(icpt - spec["base"]) + heat + cool


def rgaps_of(o):
    return [h["readback_gap"] for part in ("initial", "final") for h in o[part].values() if h.get("readback_gap") is not None]


def gen_raw(spec):
    if spec["shape"] == "both":
        return [spec["bph"], spec["bh"], spec["bpc"], spec["bc"], spec["base"]]
    if spec["shape"] == "heat":
        return [spec["bph"], -spec["bh"], spec["base"]]
    if spec["shape"] == "cool":
        return [spec["bpc"], spec["bc"], spec["base"]]
    return [spec["base"]]


# ------------------------------------------------------------------ main

def make_specs(run):
    specs = []
    if run.replay:
        rep = json.load(open(run.replay))
        case = rep["case"]
        if "spec" in case:
            return [case["spec"]]
        # a broken-tie replay lists the first disagreeing cases
        out = []
        for c in case.get("first", []):
            sp = c.get("case", {}).get("spec")
            if sp is not None and sp not in out:
                out.append(sp)
        return out
    corpus = os.path.join(vlib.VERIF, "corpus", "C15.json")
    if os.path.exists(corpus):
        specs += json.load(open(corpus))
    rng = run.rng
    if run.quick():
        zones = rng.sample(L.ZONES, len(L.ZONES))
        # the fragile corners of the family, one random building per shape, two billing meters
        # (exactly noise-free meters are left to the corpus and to the thorough tier)
        specs += L.sentinel_specs(rng, "daily", noises=L.NOISE_KINDS[:3])
        plan = [("daily", sh) for sh in L.SHAPES] + [("billing", "flat"), ("billing", None)]
        for k, (kind, sh) in enumerate(plan):
            specs.append(L.gen_spec(rng, kind, shape=sh, tz=zones[k % len(zones)], noise=L.NOISE_KINDS[k % 3]))
    else:
        n_daily = int(os.environ.get("C15_THOROUGH_DAILY", "2"))
        specs += L.sentinel_specs(rng, "daily")
        specs += L.sentinel_specs(rng, "daily")
        specs += L.grid_specs(rng, "daily", per_cell=n_daily)
        for _ in range(80):
            specs.append(L.gen_spec(rng, "daily"))
        for sh in L.SHAPES:
            for _ in range(10):
                specs.append(L.gen_spec(rng, "billing", shape=sh))
    return specs


def main():
    run = Run("C15")
    run.cov["rule"] = (
        "buildings of the stated family: base 5-50, slopes 0.3-3 /F, heating balance 45-58 F, cooling balance 64-75 F, "
        "heating-only / cooling-only / both / flat, one curve for all days; weather = annual sinusoid (mean 48-70 F, "
        "amplitude 12-26 F) + AR(1) anomalies, accepted when >= 30 baseline days are colder than the heating balance point, "
        ">= 30 hotter than the cooling one and >= 30 in the temperature-independent regime; multiplicative noise <= 1 % "
        "(uniform / clipped normal / +-1 % two-point / none); 16 time zones, any start month; second weather year = the "
        "following 365 days of the same climate, other draw, mean shifted by -3..+3 F; daily meters through DailyModel, "
        "monthly bills (28-33 day periods) through BillingModel. corpus first (the two known-finding buildings); quick: the "
        "11 fragile corners of the family (c15lib.SENTINELS: small base load, steep or weak slopes, narrow flat band, a weak load "
        "on barely a month of days) with fresh weather / zone / noise, one random building per shape, two billing meters; "
        "thorough: the corners + the grid corners-and-centres of the parameter ranges x shapes + random buildings + billing. "
        "distinct = building hash; non-trivial = the fit produced a model")
    run.assumptions += [
        "PARTIAL: the optimiser (NLopt DIRECT + SBPLX), the adaptive-loss elastic-net objective and the split selection "
        "have no Gallina model; recovery is decided per sampled building, not proved for all buildings",
        "the reading of 'well inside the temperature range, at least a month of days in each active regime' stated in the rule",
        "NRMSE = RMSE(predicted, generating curve) / mean usage of the same days (observed usage on the baseline, generated "
        "usage on the second year); a load is compared with 5 % of the usage summed over the same days",
        "own binary64 exp (1e-12 relative) for smoothed sub-models; aggregates compared within 1e-6 (summation order)",
        "the row -> sub-model routing is read from predict()'s model_split column (routing itself is C13)",
    ]
    run.cov["trusted_base"] += [
        "harness/c15.py, harness/c15lib.py (generator of buildings and weather, oracle, canonicalisation)",
        "oracle: NLopt / numba objective / split selection are not modelled (sampled)",
        "hook OPENDSM_EEMETER_VERIF=1: OptimizedResult keeps the bounds it was given (_verif_bnds)",
        "numpy.quantile / numpy.partition re-specified in Model/Recovery.v (tied by the box correspondence)",
    ]
    specs = make_specs(run)
    for s in specs:
        fam = L.in_family(s, L.baseline_temps(s))
        if not fam and not run.replay:
            raise RuntimeError("generator produced a building outside the family: %r" % s)
    workers = int(os.environ.get("C15_WORKERS", "12" if run.quick() else "16"))
    run.log("fitting %d buildings in %d worker processes" % (len(specs), workers))
    # the fits run in worker processes while the kernel re-checks the theorems
    import concurrent.futures as cf
    import multiprocessing as mp
    ex = cf.ProcessPoolExecutor(max_workers=min(workers, max(1, len(specs))), mp_context=mp.get_context("spawn"))
    futs = [ex.submit(L.fit_case, s) for s in specs]
    run.check_proofs("Properties/C15.v", ["Proofs/RecoveryProofs.v"])
    run.log("theorems re-checked: %s" % run.proof_ok)
    # Properties/C15.v imports Model/RecoveryRun.v and Model/CasesLib.v, so the build above has made them
    if not all(os.path.exists(os.path.join(vlib.COQ, f)) for f in ("Model/RecoveryRun.vo", "Model/CasesLib.vo")):
        run.ensure_models(["Model/RecoveryRun.v", "Model/CasesLib.v"])
    obs = [f.result() for f in futs]
    ex.shutdown()
    run.log("fits done")

    fit_cases, final_cases, initial_cases, inbox_cases, gap_cases, fromini_cases = [], [], [], [], [], []
    cert = []
    for spec, o in zip(specs, obs):
        key = vlib.sha(spec)
        run.count(key, nontrivial=o["ok"])
        run.dist("model", spec["kind"])
        run.dist("shape", spec["shape"])
        run.dist("zone", spec["tz"])
        run.dist("noise", spec["noise"])
        m = metrics(spec, o) if o["ok"] else None
        for sig, msg in oracle(spec, o, m):
            run.violation(sig, "C15 %s/%s: %s" % (spec["kind"], spec["shape"], msg), case={"spec": spec},
                          observation={"metrics": m, "submodels": o.get("submodels"), "best_combination": o.get("best_combination"),
                                       "exception": o.get("exception"), "traceback": o.get("traceback")},
                          expected="NRMSE <= 0.05 on the baseline and on the second year; no load above 5 % of usage where the generator has none",
                          generator="c15lib.gen_spec")
        if not o["ok"]:
            continue
        if o["data_dq"]:
            run.dist("data_disqualified", ",".join(o["data_dq"]))
        types = sorted({v["coefficients"]["model_type"] for v in o["submodels"].values()})
        run.dist("fitted_types", "+".join(types))
        run.dist("n_submodels", len(o["submodels"]))
        run.dist("nrmse_baseline", "<0.1%" if m["nrmse_in"] < 1e-3 else "<1%" if m["nrmse_in"] < 1e-2 else "<5%" if m["nrmse_in"] <= 0.05 else ">5%")
        run.dist("nrmse_second_year", "<0.1%" if m["nrmse_out"] < 1e-3 else "<1%" if m["nrmse_out"] < 1e-2 else "<5%" if m["nrmse_out"] <= 0.05 else ">5%")
        fit_cases.append((coq_fit_case(spec, o, m), spec, o, m))
        # boxes
        gkey = GEN_KEY[spec["shape"]]
        gin = None
        for comp, h in o["final"].items():
            if h["bnds"] is None or h["key"] not in COQ_KEY:
                run.corr_failures.append({"stream": "final_box", "case": {"spec": spec, "component": comp},
                                          "impl": h["key"], "model": "the hook recorded no bounds / unknown model key"})
                continue
            final_cases.append((coq_box_case(h), spec, comp, h))
            if h["key"] == gkey and len(o["final"]) == 1:
                raw = gen_raw(spec)
                b = h["bnds"]
                gin = all(min(lo, hi) <= v <= max(lo, hi) for (lo, hi), v in zip(b, raw)) and len(b) == len(raw)
                inbox_cases.append(("(%s, %s, %s)" % (coq_building(spec), coq_box_case(h), coq_bool(gin)), spec, comp, h))
        # the final box recomputed from the initial fit's reduced result (fit_final_model.get_bnds); no row taken over
        near_ok = None
        if o.get("alpha_final_type") is not None and o.get("final_bounds_scalar") is not None:
            sc = o["final_bounds_scalar"]
            for comp, h in o["final"].items():
                hi = o["initial"].get(comp)
                if h["bnds"] is None or h["key"] not in COQ_KEY or hi is None:
                    continue
                if hi["stored_key"] != h["key"] or len(hi["x_reduced"]) != len(h["bnds"]):
                    run.corr_failures.append({"stream": "final_from_initial", "case": {"spec": spec, "component": comp},
                                              "impl": {"initial_key": hi["stored_key"], "final_key": h["key"]},
                                              "model": "the final fit did not run on the model class the initial fit was reduced to"})
                    continue
                fromini_cases.append(("(%s, %d%%nat, %s, %s, %s, %s, %s)" % (
                    COQ_KEY[h["key"]], h["nmin"], coq_floats(h["T"]), coq_floats(h["obs"]), fhex(sc),
                    coq_floats(hi["x_reduced"]), coq_rows(h["bnds"])), spec, comp, dict(h, x_reduced=hi["x_reduced"], scalar=sc)))
                if h["key"] == gkey and len(o["final"]) == 1:
                    # hypothesis initial_near of C15_generator_in_box_from_initial_fit, measured
                    raw = gen_raw(spec)
                    idx = {"hdd_tidd_cdd": [1, 3], "c_hdd_tidd": [1], "tidd": []}[gkey]
                    near_ok = all((abs(raw[i]) <= 10 * sc) if hi["x_reduced"][i] == 0 else
                                  (abs(raw[i] - hi["x_reduced"][i]) <= abs(hi["x_reduced"][i]) * sc) for i in idx)
        run.dist("generator_near_initial_fit", "n/a (other key or split)" if near_ok is None else str(near_ok))
        for comp, h in o["initial"].items():
            if h["bnds"] is not None and h["key"] is not None and len(h["bnds"]) == 7:
                initial_cases.append(("(%s, %s, %s)" % (coq_floats(h["T"]), coq_floats(h["obs"]), coq_rows(h["bnds"])), spec, comp, h))
        run.dist("generator_in_final_box", "n/a (other key or split)" if gin is None else str(gin))
        # distance in parameter space -> bound on every weather year between tlo and thi (C15_out_of_sample_from_parameters)
        allT = o["base"]["T"] + o["year2"]["T"]
        tlo, thi = float(min(allT)) - 10.0, float(max(allT)) + 10.0
        keys = list(o["submodels"].keys())
        gap = max(param_gap(spec, o["xeff"][k], tlo, thi) for k in keys)
        gap_cases.append(("(%s, %s, %s, %s, %s)" % (coq_building(spec), coq_list([coq_sub(o["submodels"][k]) for k in keys]),
                                                     fhex(tlo), fhex(thi), fhex(gap)), spec, None, {"gap": gap, "tlo": tlo, "thi": thi, "xeff": o["xeff"]}))
        c = {"model": spec["kind"], "shape": spec["shape"], "nrmse_in": m["nrmse_in"], "nrmse_out": m["nrmse_out"],
             "rmse_fit_vs_truth": m["rmse_fg"], "rmse_noise": m["rmse_yg"], "s_over_n": m["s_over_n"],
             "sqrt_s_over_n_nrmse": float(np.sqrt(m["s_over_n"])) / m["mean_in"],
             "certificate_bound_nrmse": m["cert_bound_nrmse"], "generator_in_final_box": gin,
             "max_readback_gap_over_mean": (max(rgaps_of(o)) / m["mean_in"]) if rgaps_of(o) else None,
             "param_gap": gap, "param_gap_over_base_load": gap / spec["base"], "param_gap_range_F": [tlo, thi],
             "fit_s": o["fit_s"], "types": types}
        cert.append(c)
        if spec["kind"] == "daily":
            run.sample({"spec": {k: spec[k] for k in ("shape", "base", "bh", "bph", "bc", "bpc", "tz", "noise", "start")},
                        "fitted": {k: v["coefficients"] for k, v in o["submodels"].items()}, "measured": c})
        if not m["noise_bound_holds"]:
            raise RuntimeError("generator broke its own noise bound (harness bug): %r" % spec)

    # ---- Coq: stored parameters, generator, aggregates, verdicts; boxes (one round of coqc)
    items = []          # (term, stream, payload), grouped by building so that every shard gets a similar load
    by_spec = {}
    for t, spec, o, m in fit_cases:
        by_spec.setdefault(vlib.sha(spec), []).append(("(AFit %s)" % t, "fit", (spec, o, m)))
    for stream, cases, ctor in (("final_box", final_cases, "AFinalBox"), ("initial_box", initial_cases, "AInitialBox"),
                                ("gen_in_box", inbox_cases, "AGenInBox"), ("param_gap", gap_cases, "AGap"),
                                ("final_from_initial", fromini_cases, "AFinalFromInitial")):
        for t, spec, comp, h in cases:
            by_spec.setdefault(vlib.sha(spec), []).append(("(%s %s)" % (ctor, t), stream, (spec, comp, h)))
    for k in by_spec:
        items += by_spec[k]
    shard = max(1, -(-len(items) // 12)) if run.quick() else 24
    run.log("evaluating %d cases inside coqc (%d per file)" % (len(items), shard))
    bad = run.coq_cases("all", IMPORTS, "", [it[0] for it in items], "check_any", shard=shard, case_type="anycase")
    del run.cov["streams"]["all"]
    for _, stream, _ in items:
        st = run.cov["streams"].setdefault(stream, {"cases": 0, "disagreements": 0})
        st["cases"] += 1
    if bad is None:
        run.proof_ok = False
        bad = []
    for i in bad:
        term, stream, payload = items[i]
        run.cov["streams"][stream]["disagreements"] += 1
        if stream == "fit":
            spec, o, m = payload
            expl = run.coq_eval(IMPORTS, "Definition cs : fitcase := %s." % term[len("(AFit "):-1], "explain_fit cs") if len(bad) <= 3 else None
            run.corr_failures.append({"stream": "fit", "case": {"spec": spec}, "impl": {"metrics": m, "submodels": o["submodels"]},
                                      "model": expl})
        else:
            spec, comp, h = payload
            if stream == "param_gap":
                run.corr_failures.append({"stream": stream, "case": {"spec": spec}, "impl": h,
                                          "model": "Model/RecoveryRun.v fit_gap differs from the gap computed on the implementation's 7-vectors"})
                continue
            run.corr_failures.append({"stream": stream, "case": {"spec": spec, "component": comp},
                                      "impl": {"key": h["key"], "coef_id": h["coef_id"], "bnds": h["bnds"], "nmin": h["nmin"],
                                               "T_sorted_ends": sorted(h["T"])[:12] + sorted(h["T"])[-12:],
                                               "obs_quantiles": [float(q) for q in np.quantile(h["obs"], [0.01, 0.25, 0.75, 0.99])]},
                                      "model": "Model/Recovery.v disagrees with the recorded box (%s)" % stream})
    run.log("coq evaluation done: %d disagreements" % len(bad))

    # ---- evidence: the measured certificate
    if cert:
        daily = [c for c in cert if c["model"] == "daily"]
        run.cov["certificate"] = {
            "what": "SSE(fit,y) <= SSE(truth,y) + s measured on every fit; C15_rmse_from_certificate then gives "
                    "RMSE(fit,truth) <= 2 RMSE(y,truth) + sqrt(s/n)",
            "daily_fits": len(daily),
            "daily_with_s_zero": sum(1 for c in daily if c["s_over_n"] == 0.0),
            "daily_max_sqrt_s_over_n_over_mean_usage": max([0.0] + [c["sqrt_s_over_n_nrmse"] for c in daily]),
            "daily_max_nrmse_baseline": max([0.0] + [c["nrmse_in"] for c in daily]),
            "daily_max_nrmse_second_year": max([0.0] + [c["nrmse_out"] for c in daily]),
            "daily_max_certificate_bound_nrmse": max([0.0] + [c["certificate_bound_nrmse"] for c in daily]),
            "generator_in_final_box": {str(k): sum(1 for c in cert if c["generator_in_final_box"] is k) for k in (True, False, None)},
            "out_of_sample_from_parameters": {
                "what": "C15_out_of_sample_from_parameters: a fitted model whose param_gap (sup-norm distance from the generating "
                        "curve over [coldest day - 10 F, hottest day + 10 F], evaluated from the stored parameters) is <= 5 % of "
                        "the base load satisfies the NRMSE half of the statement on EVERY weather year inside that range",
                "daily_fits_with_gap_below_5pct_of_base_load": sum(1 for c in daily if c["param_gap_over_base_load"] <= 0.05),
                "daily_fits": len(daily),
                "daily_max_gap_over_base_load": max([0.0] + [c["param_gap_over_base_load"] for c in daily]),
            },
            "rows": cert[:400],
        }
    run.finish()


if __name__ == "__main__":
    vlib.run_main(main, "C15")
