"""C02 translator: which side-effecting statements does the source contain?

Read from the abstract syntax of the package under verification (vlib.repo_root()):
  * HourlyModel: the attributes of `self` that are assigned / mutated on the predict path of a fitted model
    (predict -> _predict -> _prepare_features -> ...; branches guarded by `not self.is_fitted` are the fit path)
      -> assigns_back (self._df_temporal_clusters = ...), appends_warning (self.warnings.append),
         extends_features (self._ts_features.append)
  * every data class: does the frame constructor / from_series write into its argument before re-binding the name to a
    copy (followed through self.m(arg) / super().m(arg) / cls(arg)); is `.df` a property returning `<...>.copy()`
  * DailyModel.fit / HourlyModel.fit: are the data object's warning/disqualification lists copied (list(...))
The result is written to coq/Generated/C02Gen.v and returned as a dict.  Fail-closed: a shape that is not recognised raises."""
import ast
import inspect
import os
import textwrap

import vlib

MUTATORS = {"append", "extend", "insert", "remove", "pop", "popitem", "clear", "update", "sort", "reverse", "setdefault", "add", "discard",
            "appendleft", "extendleft", "__setitem__", "__delitem__"}
CLASSES = [("DailyB", "DailyBaselineData"), ("DailyR", "DailyReportingData"), ("BillingB", "BillingBaselineData"),
           ("BillingR", "BillingReportingData"), ("HourlyB", "HourlyBaselineData"), ("HourlyR", "HourlyReportingData"),
           ("CaltrackB", "HourlyCaltrackBaselineData"), ("CaltrackR", "HourlyCaltrackReportingData")]


class Unrecognised(Exception):
    pass


def fn_ast(fn):
    fn = getattr(fn, "__func__", fn)
    src = textwrap.dedent(inspect.getsource(fn))
    node = ast.parse(src).body[0]
    if not isinstance(node, (ast.FunctionDef,)):
        raise Unrecognised("not a function: %r" % fn)
    return node


def is_self_attr(node, name=None):
    return (isinstance(node, ast.Attribute) and isinstance(node.value, ast.Name) and node.value.id == "self"
            and (name is None or node.attr == name))


def fitted_guard(test):
    """+1: `self.is_fitted`, -1: `not self.is_fitted`, 0: a test that does not look at is_fitted.
    Fail closed: a compound test that mentions self.is_fitted cannot be decided here"""
    if is_self_attr(test, "is_fitted"):
        return 1
    if isinstance(test, ast.UnaryOp) and isinstance(test.op, ast.Not) and is_self_attr(test.operand, "is_fitted"):
        return -1
    if isinstance(test, ast.Compare) and len(test.ops) == 1 and is_self_attr(test.left, "is_fitted") \
            and isinstance(test.comparators[0], ast.Constant) and isinstance(test.comparators[0].value, bool):
        v = test.comparators[0].value
        if isinstance(test.ops[0], (ast.Is, ast.Eq)):
            return 1 if v else -1
        if isinstance(test.ops[0], (ast.IsNot, ast.NotEq)):
            return -1 if v else 1
    if any(is_self_attr(n, "is_fitted") for n in ast.walk(test)):
        raise Unrecognised("cannot decide the guard `%s` for a fitted model" % ast.unparse(test))
    return 0


# ------------------------------------------------------------------ predict path of the hourly model

def predict_path_writes(cls, entry="predict"):
    """set of (kind, attribute[, method]) written on `self` when `entry` runs on a fitted model"""
    writes = set()
    seen = set()

    def visit_method(name):
        if name in seen:
            return
        seen.add(name)
        fn = None
        for k in cls.__mro__:
            if name in k.__dict__:
                fn = k.__dict__[name]
                break
        if fn is None or not callable(getattr(fn, "__func__", fn)):
            return
        visit_function(fn_ast(fn))

    def visit_function(node):
        nested = {n.name: n for n in node.body if isinstance(n, ast.FunctionDef)}
        walk(node.body, nested)

    def exprs(node, nested):
        for sub in ast.walk(node):
            if isinstance(sub, ast.Call):
                f = sub.func
                if isinstance(f, ast.Attribute) and is_self_attr(f.value) and f.attr in MUTATORS:
                    writes.add(("mutate", f.value.attr, f.attr))
                if isinstance(f, ast.Attribute) and any(
                        kw.arg == "inplace" and not (isinstance(kw.value, ast.Constant) and kw.value.value is False)
                        for kw in sub.keywords):
                    base = f.value
                    while isinstance(base, (ast.Subscript, ast.Attribute)) and not is_self_attr(base):
                        base = base.value
                    if is_self_attr(base):
                        writes.add(("mutate", base.attr, f.attr + "(inplace)"))
                if isinstance(f, ast.Attribute) and isinstance(f.value, ast.Name) and f.value.id == "self":
                    visit_method(f.attr)
                if isinstance(f, ast.Name) and f.id in nested:
                    n = nested.pop(f.id)
                    visit_function(n)

    def targets(t):
        if isinstance(t, (ast.Tuple, ast.List)):
            for e in t.elts:
                yield from targets(e)
        else:
            yield t

    def walk(stmts, nested):
        """returns True when, for a fitted model, control certainly leaves the statement list before its end
        (`if self.is_fitted: return` / `continue` / `break` / `raise`): what follows in that list — the rest of the
        function, or of the loop body for `continue` — is not on the fitted path"""
        for st in stmts:
            if isinstance(st, ast.FunctionDef):
                continue
            if isinstance(st, ast.If):
                g = fitted_guard(st.test)
                if g == 1:
                    if walk(st.body, nested):
                        return True
                    continue
                if g == -1:
                    if walk(st.orelse, nested):
                        return True
                    continue
                exprs(st.test, nested)
                walk(st.body, nested)
                walk(st.orelse, nested)
                continue
            if isinstance(st, (ast.For, ast.While)):
                exprs(st.iter if isinstance(st, ast.For) else st.test, nested)
                walk(st.body, nested)
                walk(st.orelse, nested)
                continue
            if isinstance(st, ast.With):
                for it in st.items:
                    exprs(it.context_expr, nested)
                walk(st.body, nested)
                continue
            if isinstance(st, ast.Try):
                walk(st.body, nested)
                for h in st.handlers:
                    walk(h.body, nested)
                walk(st.orelse, nested)
                walk(st.finalbody, nested)
                continue
            if isinstance(st, ast.Return):
                if st.value is not None:
                    exprs(st.value, nested)
                return True
            if isinstance(st, (ast.Continue, ast.Break)):
                return True
            if isinstance(st, ast.Raise):
                if st.exc is not None:
                    exprs(st.exc, nested)
                return True
            if isinstance(st, (ast.Assign, ast.AugAssign, ast.AnnAssign, ast.Delete)):
                tl = st.targets if isinstance(st, (ast.Assign, ast.Delete)) else [st.target]
                for t0 in tl:
                    for t in targets(t0):
                        if is_self_attr(t):
                            writes.add(("augassign" if isinstance(st, ast.AugAssign) else "assign", t.attr))
                            continue
                        # self.x[k] = v, self.x[k][j] = v, self.x.attr = v, self.x.loc[...] = v, self.x.iloc/.at/.iat[...] = v:
                        # a store into something reachable from self
                        base, depth = t, 0
                        while isinstance(base, (ast.Subscript, ast.Attribute)) and not is_self_attr(base):
                            base = base.value
                            depth += 1
                        if depth > 0 and is_self_attr(base):
                            writes.add(("store", base.attr))
            exprs(st, nested)
        return False

    visit_method(entry)
    return writes, sorted(seen)


# ------------------------------------------------------------------ does a function write into its argument

def root_name(node):
    while isinstance(node, (ast.Attribute, ast.Subscript)):
        node = node.value
    return node.id if isinstance(node, ast.Name) else None


def arg_writes(cls, owner, fname, pname, depth=0):
    """list of descriptions of writes that reach the object bound to parameter `pname` of `owner.fname`"""
    if depth > 6:
        raise Unrecognised("call chain too deep at %s.%s" % (owner.__name__, fname))
    fn = owner.__dict__[fname]
    node = fn_ast(fn)
    params = [a.arg for a in node.args.args]
    if pname not in params:
        raise Unrecognised("%s.%s has no parameter %s" % (owner.__name__, fname, pname))
    aliases = {pname}
    found = []

    def resolve(call):
        """(owner class, function name) of self.m(...), super().m(...), cls(...)"""
        f = call.func
        if isinstance(f, ast.Attribute) and isinstance(f.value, ast.Name) and f.value.id in ("self", "cls"):
            for k in cls.__mro__:
                if f.attr in k.__dict__:
                    return k, f.attr, 1
            return None
        if (isinstance(f, ast.Attribute) and isinstance(f.value, ast.Call) and isinstance(f.value.func, ast.Name)
                and f.value.func.id == "super"):
            mro = list(cls.__mro__)
            for k in mro[mro.index(owner) + 1:]:
                if f.attr in k.__dict__:
                    return k, f.attr, 1
            return None
        if isinstance(f, ast.Name) and f.id == "cls":
            for k in cls.__mro__:
                if "__init__" in k.__dict__:
                    return k, "__init__", 1
        return None

    def calls(node_):
        for sub in ast.walk(node_):
            if not isinstance(sub, ast.Call):
                continue
            f = sub.func
            if isinstance(f, ast.Attribute) and root_name(f) in aliases:
                for kw in sub.keywords:
                    if kw.arg == "inplace" and isinstance(kw.value, ast.Constant) and kw.value.value is True:
                        found.append("%s.%s: %s.%s(inplace=True)" % (owner.__name__, fname, root_name(f), f.attr))
            passed = [(i, a.id) for i, a in enumerate(sub.args) if isinstance(a, ast.Name) and a.id in aliases]
            passed_kw = [(kw.arg, kw.value.id) for kw in sub.keywords
                         if isinstance(kw.value, ast.Name) and kw.value.id in aliases and kw.arg]
            if passed or passed_kw:
                r = resolve(sub)
                if r is not None:
                    k, m, skip = r
                    cal = fn_ast(k.__dict__[m])
                    cparams = [a.arg for a in cal.args.args][skip:]
                    for i, _ in passed:
                        if i < len(cparams):
                            found.extend(arg_writes(cls, k, m, cparams[i], depth + 1))
                    for kwname, _ in passed_kw:
                        if kwname in cparams:
                            found.extend(arg_writes(cls, k, m, kwname, depth + 1))

    def walk(stmts, conditional):
        for st in stmts:
            if isinstance(st, (ast.FunctionDef, ast.ClassDef)):
                continue
            if isinstance(st, ast.If):
                calls(st.test)
                walk(st.body, True)
                walk(st.orelse, True)
                continue
            if isinstance(st, (ast.For, ast.While, ast.With, ast.Try)):
                for field in ("body", "orelse", "finalbody"):
                    walk(getattr(st, field, []) or [], True)
                for h in getattr(st, "handlers", []) or []:
                    walk(h.body, True)
                continue
            if isinstance(st, (ast.Assign, ast.AnnAssign, ast.AugAssign)):
                value = st.value
                tl = st.targets if isinstance(st, ast.Assign) else [st.target]
                if value is not None:
                    calls(value)
                for t0 in tl:
                    ts = t0.elts if isinstance(t0, (ast.Tuple, ast.List)) else [t0]
                    for t in ts:
                        if isinstance(t, (ast.Subscript, ast.Attribute)) and root_name(t) in aliases:
                            found.append("%s.%s: store into %s" % (owner.__name__, fname, ast.unparse(t)))
                        elif isinstance(t, ast.Name):
                            if isinstance(st, ast.AugAssign):
                                if t.id in aliases:
                                    found.append("%s.%s: in-place operator on %s" % (owner.__name__, fname, t.id))
                            elif isinstance(value, ast.Name) and value.id in aliases:
                                aliases.add(t.id)
                            elif t.id in aliases and not conditional:
                                aliases.discard(t.id)          # re-bound to a new object (a copy, a derived frame)
                continue
            calls(st)

    walk(node.body, False)
    return found


def df_kind(cls):
    """'copy' / 'alias' / 'attribute' for the way `.df` is handed out"""
    for k in cls.__mro__:
        if "df" in k.__dict__:
            p = k.__dict__["df"]
            if not isinstance(p, property):
                raise Unrecognised("%s.df is neither a property nor an instance attribute" % cls.__name__)
            node = fn_ast(p.fget)
            kinds = set()
            for sub in ast.walk(node):
                if isinstance(sub, ast.Return) and sub.value is not None:
                    v = sub.value
                    if isinstance(v, ast.Constant) and v.value is None:
                        continue
                    if isinstance(v, ast.Call) and isinstance(v.func, ast.Attribute) and v.func.attr in ("copy", "deepcopy"):
                        kinds.add("copy")
                    elif is_self_attr(v) or isinstance(v, ast.Name):
                        kinds.add("alias")
                    else:
                        raise Unrecognised("%s.df returns %s" % (cls.__name__, ast.unparse(v)))
            if kinds == {"copy"}:
                return "copy"
            if "alias" in kinds:
                return "alias"
            raise Unrecognised("%s.df: no return recognised" % cls.__name__)
    return "attribute"


def _returns_kind(cls, fn, what):
    node = fn_ast(fn)
    kinds = set()
    for sub in ast.walk(node):
        if isinstance(sub, ast.Return) and sub.value is not None:
            v = sub.value
            if isinstance(v, ast.Constant) and v.value is None:
                continue
            if isinstance(v, ast.Call) and isinstance(v.func, ast.Attribute) and v.func.attr in ("copy", "deepcopy"):
                deep = [kw.value for kw in v.keywords if kw.arg == "deep"] + (list(v.args[:1]) if v.func.attr == "copy" else [])
                if deep and not (isinstance(deep[0], ast.Constant) and deep[0].value is True):
                    # copy(deep=False) (or a deep flag that is not literally True): a new frame object over the SAME value
                    # buffers.  Copy-on-write keeps pandas-level writes apart; a write through numpy goes through
                    kinds.add("shallow")
                else:
                    kinds.add("copy")
            elif is_self_attr(v) or isinstance(v, ast.Name):
                kinds.add("alias")
            else:
                raise Unrecognised("%s.%s returns %s" % (cls.__name__, what, ast.unparse(v)))
    if kinds == {"copy"}:
        return "copy"
    if "alias" in kinds:
        return "alias"
    if kinds and kinds <= {"copy", "shallow"}:
        return "shallow"
    raise Unrecognised("%s.%s: no return recognised" % (cls.__name__, what))


def frame_accessors(cls):
    """every public attribute / property of a data class through which a frame is handed out (named df or *_df, or
    annotated as returning a DataFrame / Series), with the way it hands out:
       'copy'      a property whose every return is <...>.copy()
       'alias'     a property returning a stored frame itself
       'cached'    functools.cached_property (whatever it returns is built once and then handed out again and again)
       'attribute' a plain instance attribute set in __init__
    plus the public properties that are not frame-valued by that criterion (listed in the evidence)"""
    import functools
    out, other = {}, []

    def frame_name(n, fn=None):
        if n == "df" or n.endswith("_df"):
            return True
        ann = str(getattr(fn, "__annotations__", {}).get("return", "")) if fn is not None else ""
        return "DataFrame" in ann or "Series" in ann

    for k in cls.__mro__:
        if k is object:
            continue
        for n, v in k.__dict__.items():
            if n.startswith("_") or n in out:
                continue
            if isinstance(v, property):
                if frame_name(n, v.fget):
                    out[n] = _returns_kind(cls, v.fget, n)
                else:
                    other.append(n)
            elif isinstance(v, functools.cached_property):
                if frame_name(n, v.func):
                    out[n] = "cached"
                else:
                    other.append(n)
            elif not callable(v) and not isinstance(v, (classmethod, staticmethod)) and frame_name(n):
                raise Unrecognised("%s.%s is a class-level %s" % (cls.__name__, n, type(v).__name__))
    for k in cls.__mro__:
        if "__init__" in k.__dict__ and k is not object:
            for sub in ast.walk(fn_ast(k.__dict__["__init__"])):
                if isinstance(sub, (ast.Assign, ast.AnnAssign)):
                    for t in (sub.targets if isinstance(sub, ast.Assign) else [sub.target]):
                        if is_self_attr(t) and not t.attr.startswith("_") and frame_name(t.attr) and t.attr not in out:
                            out[t.attr] = "attribute"
    return out, sorted(set(other))


def fit_copies(cls):
    """are data.warnings / data.disqualification copied when fit() takes them over"""
    node = fn_ast(next(k for k in cls.__mro__ if "fit" in k.__dict__).__dict__["fit"])
    param = [a.arg for a in node.args.args][1]
    res = {}
    for sub in ast.walk(node):
        if isinstance(sub, ast.Assign) and len(sub.targets) == 1 and is_self_attr(sub.targets[0]) \
                and sub.targets[0].attr in ("warnings", "disqualification"):
            v = sub.value
            src = [n for n in ast.walk(v) if isinstance(n, ast.Attribute) and isinstance(n.value, ast.Name)
                   and n.value.id == param and n.attr == sub.targets[0].attr]
            if not src:
                continue
            if isinstance(v, ast.Attribute):
                res[sub.targets[0].attr] = False           # the very list of the data object
            elif isinstance(v, ast.Call) or isinstance(v, (ast.BinOp, ast.ListComp, ast.List)):
                res[sub.targets[0].attr] = True
            else:
                raise Unrecognised("%s.fit: %s" % (cls.__name__, ast.unparse(sub)))
    if not res:
        for sub in ast.walk(node):          # `return super().fit(...)`: the parent's fit does it
            if (isinstance(sub, ast.Call) and isinstance(sub.func, ast.Attribute) and sub.func.attr == "fit"
                    and isinstance(sub.func.value, ast.Call) and isinstance(sub.func.value.func, ast.Name)
                    and sub.func.value.func.id == "super"):
                owner = next(k for k in cls.__mro__ if "fit" in k.__dict__)
                mro = list(cls.__mro__)
                for k in mro[mro.index(owner) + 1:]:
                    if "fit" in k.__dict__:
                        return fit_copies(k)
    if set(res) != {"warnings", "disqualification"}:
        raise Unrecognised("%s.fit does not take over warnings and disqualification in a recognised way" % cls.__name__)
    return res["warnings"] and res["disqualification"]


MUTABLE_CALLS = {"dict", "list", "set", "defaultdict", "OrderedDict", "Counter", "deque", "bytearray"}


def class_level_mutables(cls):
    """{attribute: defining class} for mutable containers created at class scope (dict/list/set displays, comprehensions,
    dict()/list()/set()/defaultdict()/... calls) anywhere in the MRO (the most derived definition wins)"""
    out = {}
    for k in reversed([k for k in cls.__mro__ if k is not object]):
        try:
            node = ast.parse(textwrap.dedent(inspect.getsource(k))).body[0]
        except (OSError, TypeError):
            continue
        if not isinstance(node, ast.ClassDef):
            raise Unrecognised("source of %s is not a class" % k.__name__)
        for st in node.body:
            tl, v = [], None
            if isinstance(st, ast.Assign):
                tl, v = st.targets, st.value
            elif isinstance(st, ast.AnnAssign) and st.value is not None:
                tl, v = [st.target], st.value
            for t in tl:
                if not isinstance(t, ast.Name):
                    continue
                mutable = isinstance(v, (ast.Dict, ast.List, ast.Set, ast.DictComp, ast.ListComp, ast.SetComp)) or (
                    isinstance(v, ast.Call) and ((isinstance(v.func, ast.Name) and v.func.id in MUTABLE_CALLS) or
                                                 (isinstance(v.func, ast.Attribute) and v.func.attr in MUTABLE_CALLS)))
                if mutable:
                    out[t.id] = k
                else:
                    out.pop(t.id, None)           # re-defined as something immutable further down the hierarchy
    return out


def shared_class_state(cls):
    """class-level mutable attributes that instance methods of the class (whole MRO) mutate IN PLACE through `self`
    (self.a[...] = / del self.a[...] / self.a.append(...) / self.a[...] += ...) and that no __init__ of the MRO re-binds
    per instance (self.a = ...).  Returns {attribute: (defining class name, [sites])}"""
    cand = class_level_mutables(cls)
    if not cand:
        return {}
    rebound = set()
    sites = {}
    for k in cls.__mro__:
        if k is object:
            continue
        for name, fn in k.__dict__.items():
            f = getattr(fn, "__func__", fn)
            if isinstance(fn, (classmethod, staticmethod)) or not inspect.isfunction(f):
                continue
            try:
                node = fn_ast(f)
            except (OSError, TypeError, Unrecognised):
                continue
            for sub in ast.walk(node):
                if isinstance(sub, (ast.Assign, ast.AugAssign, ast.AnnAssign, ast.Delete)):
                    tl = sub.targets if isinstance(sub, (ast.Assign, ast.Delete)) else [sub.target]
                    for t0 in tl:
                        for t in (t0.elts if isinstance(t0, (ast.Tuple, ast.List)) else [t0]):
                            if is_self_attr(t) and t.attr in cand and name == "__init__" and isinstance(sub, (ast.Assign, ast.AnnAssign)):
                                rebound.add(t.attr)
                            base = t
                            depth = 0
                            while isinstance(base, (ast.Subscript, ast.Attribute)) and not is_self_attr(base):
                                base = base.value
                                depth += 1
                            if depth > 0 and is_self_attr(base) and base.attr in cand:
                                sites.setdefault(base.attr, []).append("%s.%s: %s" % (k.__name__, name, ast.unparse(t)))
                elif isinstance(sub, ast.Call) and isinstance(sub.func, ast.Attribute) and sub.func.attr in MUTATORS \
                        and is_self_attr(sub.func.value) and sub.func.value.attr in cand:
                    sites.setdefault(sub.func.value.attr, []).append("%s.%s: self.%s.%s(...)" % (
                        k.__name__, name, sub.func.value.attr, sub.func.attr))
    return {a: (cand[a].__name__, v) for a, v in sites.items() if a not in rebound}


# writes into `self` on the fitted-predict path of HourlyModel that are either modelled (they have a flag of their own) or
# cannot change an output; anything else sets writes_other_state
MODELLED_WRITES = {
    ("assign", "_df_temporal_clusters"): "flag assigns_back",
    ("mutate", "warnings", "append"): "flag appends_warning",
    ("mutate", "_ts_features", "append"): "flag extends_features",
}
HARMLESS_WRITES = {
    ("assign", "_ts_features"): "re-bound to the sorted copy of the same list (_sort_features); to_json shows it",
    ("assign", "_categorical_features"): "rebuilt from the fitted cluster/bin counts on every call to the same value; to_json shows it",
    ("mutate", "_categorical_features", "extend"): "part of that rebuild (temperature-bin columns)",
    ("mutate", "_categorical_features", "append"): "part of that rebuild (supplemental categorical columns present in the data)",
    ("assign", "_ts_feature_norm"): "derived from _ts_features on every call; read only within the call",
    ("mutate", "_ts_feature_norm", "append"): "part of that derivation",
    ("mutate", "_ts_feature_norm", "remove"): "part of that derivation",
    ("assign", "_processed_meter_data_full"): "diagnostic copy of the frame of this call; never read back by fit/predict/to_json",
    ("assign", "_processed_meter_data"): "diagnostic copy of the frame of this call; never read back by fit/predict/to_json",
    ("assign", "_T_edge_bin_coeffs"): "only when the attribute is None, i.e. never for a fitted or restored model",
}


def flags():
    from opendsm import eemeter as E
    root = os.path.realpath(vlib.repo_root())
    src = os.path.realpath(inspect.getsourcefile(E.HourlyModel))
    if not src.startswith(root):
        raise Unrecognised("the package imported (%s) is not the tree under verification (%s)" % (src, root))
    w, methods = predict_path_writes(E.HourlyModel)
    if "_add_categorical_features" not in methods or "_prepare_features" not in methods:
        raise Unrecognised("predict path of HourlyModel not recognised: %s" % methods)
    out = {
        "hourly": {
            "writes_other_state": any(x not in MODELLED_WRITES and x not in HARMLESS_WRITES for x in w),
            "assigns_back": ("assign", "_df_temporal_clusters") in w,
            "appends_warning": any(x[0] in ("mutate", "augassign") and x[1] == "warnings" for x in w),
            "extends_features": any(x[0] == "mutate" and x[1] == "_ts_features" and x[2] in ("append", "extend", "insert")
                                    for x in w),
            "writes_on_predict_path": sorted("%s %s" % (x[0], ".".join(x[1:])) for x in w),
            "other_state_writes": sorted("%s %s" % (x[0], ".".join(x[1:])) for x in w
                                         if x not in MODELLED_WRITES and x not in HARMLESS_WRITES),
            "harmless_writes": {("%s %s" % (x[0], ".".join(x[1:]))): HARMLESS_WRITES[x] for x in sorted(w) if x in HARMLESS_WRITES},
            "methods_on_predict_path": methods,
        },
        "classes": {},
        "fit_copies": {"Daily": fit_copies(E.DailyModel), "Billing": fit_copies(E.BillingModel), "Hourly": fit_copies(E.HourlyModel)},
    }
    # model classes: per-fit state kept in a class-level container that instances fill in place
    out["sharing"] = {}
    tags = {"DailyModel": "MDaily", "BillingModel": "MBilling", "HourlyModel": "MHourly"}
    for mname, tag in tags.items():
        sh = shared_class_state(getattr(E, mname))
        root = None
        if sh:
            owners = sorted({v[0] for v in sh.values()})
            root = tags.get(owners[0], tag)          # the class that defines the container (BillingModel inherits DailyModel's)
        out["sharing"][tag] = {"python": mname, "root": root,
                               "attributes": {a: {"defined_in": v[0], "mutated_at": v[1][:4]} for a, v in sh.items()}}
    for tag, name in CLASSES:
        cls = getattr(E, name)
        owner = next(k for k in cls.__mro__ if "__init__" in k.__dict__)
        iw = arg_writes(cls, owner, "__init__", [a.arg for a in fn_ast(owner.__dict__["__init__"]).args.args][1])
        fs_owner = next((k for k in cls.__mro__ if "from_series" in k.__dict__), None)
        sw = []
        if fs_owner is not None:                 # the hourly classes have no from_series
            fsn = fn_ast(fs_owner.__dict__["from_series"])
            for p in [a.arg for a in fsn.args.args][1:3]:
                sw += arg_writes(cls, fs_owner, "from_series", p)
        acc, other_props = frame_accessors(cls)
        if "df" not in acc:
            raise Unrecognised("%s has no frame accessor `df`" % name)
        out["classes"][tag] = {"python": name, "init_writes_arg": bool(iw), "series_writes_arg": bool(sw),
                               "df": acc["df"], "accessors": acc, "other_public_properties": other_props,
                               "init_writes": iw, "series_writes": sw}
    return out


def coq_text(fl):
    b = vlib.coq_bool
    h = fl["hourly"]
    lines = ["(* GENERATED by harness/translate_c02.py from the source of the package — do not edit. *)",
             "From Coq Require Import List Bool ZArith.",
             "From V Require Import Model.Gate Model.HourlyState Model.Store Model.Objects.",
             "Import ListNotations.",
             "",
             "(* assignments to self.<attribute> on the predict path of a fitted HourlyModel: %s *)" % "; ".join(
                 h["writes_on_predict_path"]),
             "Definition current_hcfg : hcfg :=",
             "  {| assigns_back := %s; appends_warning := %s; extends_features := %s; writes_other_state := %s |}.  (* other: %s *)" % (
                 b(h["assigns_back"]), b(h["appends_warning"]), b(h["extends_features"]), b(h["writes_other_state"]),
                 "; ".join(h["other_state_writes"]) or "none"),
             "",
             "Definition current_classes : list (dclass * ccfg) := ["]
    rows = []
    for tag, name in CLASSES:
        c = fl["classes"][tag]
        acc = c["accessors"]
        others = [k for n, k in acc.items() if n not in ("df", "billing_df")]
        rows.append("  (%s, {| init_writes_arg := %s; series_writes_arg := %s;\n        handout_copies := fun a => match a with ADf => %s | ABillingDf => %s | AOther => %s end |})  (* %s: %s *)" % (
            tag, b(c["init_writes_arg"]), b(c["series_writes_arg"]), b(acc["df"] in ("copy", "shallow")),
            b(acc.get("billing_df", "copy") in ("copy", "shallow")), b(all(k in ("copy", "shallow") for k in others)), name,
            ", ".join("%s %s" % (n, k) for n, k in sorted(acc.items()))))
    lines.append(";\n".join(rows))
    lines.append("].")
    lines.append("")
    lines.append("(* class-level mutable attributes that instance methods fill in place: %s *)" % (
        "; ".join("%s.%s" % (v["python"], a) for v in fl["sharing"].values() for a in v["attributes"]) or "none"))
    lines.append("Definition current_sharing : list (mclass * option mclass) := [%s]." % "; ".join(
        "(%s, %s)" % (tag, "None" if v["root"] is None else "Some %s" % v["root"]) for tag, v in fl["sharing"].items()))
    lines.append("")
    lines.append("Definition current_fit_copies (f : family) : bool :=")
    lines.append("  match f with Daily => %s | Billing => %s | Hourly => %s end." % (
        b(fl["fit_copies"]["Daily"]), b(fl["fit_copies"]["Billing"]), b(fl["fit_copies"]["Hourly"])))
    return "\n".join(lines) + "\n"


def generate(run=None):
    fl = flags()
    text = coq_text(fl)
    if run is False:
        return fl                       # development mode: flags only
    if run is not None:
        run.write_generated("Generated/C02Gen.v", text)
    else:
        p = os.path.join(vlib.COQ, "Generated", "C02Gen.v")
        old = open(p).read() if os.path.exists(p) else None
        if old != text:
            open(p, "w").write(text)
    return fl


if __name__ == "__main__":
    import json
    print(json.dumps(generate(None), indent=1))
