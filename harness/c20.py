"""C20 — baseline and reporting windows never leak across the intervention.
Model: coq/Model/Windows.v; theorems: coq/Properties/C20.v; tie: correspondence (this file)."""
import copy
import random
import json
import warnings
from datetime import timedelta

import numpy as np
import pandas as pd

import vlib
from vlib import Run, zlit, coq_list, coq_opt, coq_bool

warnings.simplefilter("ignore")
DAY = 86400 * 10**9

IMPORTS = "From V Require Import Model.Windows Model.WindowsRun."


# ------------------------------------------------------------------ generators

def gen_index(rng, kind, n):
    """timestamps in ns (UTC), strictly increasing"""
    t0 = 1_600_000_000 * 10**9 + rng.randrange(0, 400) * DAY
    if kind == "hourly":
        step = [3600 * 10**9] * n
    elif kind == "daily":
        step = [DAY] * n
    elif kind == "billing":
        step = [rng.randrange(25, 36) * DAY for _ in range(n)]
    else:  # irregular (gaps)
        step = [rng.choice([1, 1, 1, 2, 5, 40]) * DAY for _ in range(n)]
    out = [t0]
    for s in step[:-1]:
        out.append(out[-1] + s)
    return out[:n]


def gen_dataset(rng, k):
    kind = rng.choice(["hourly", "daily", "billing", "irregular"])
    n = rng.choice([0, 1, 2, 3, 5, 8, 13, 20, 30, 48])
    if k < 4:
        n = [0, 1, 2, 14][k]
    idx = gen_index(rng, kind, n) if n else []
    ncol = rng.choice([1, 1, 2])
    pnan = rng.choice([0.0, 0.1, 0.5, 1.0])
    rows = []
    for i, t in enumerate(idx):
        cells = [None if rng.random() < pnan else (1000 * (c + 1) + i) for c in range(ncol)]
        rows.append((t, cells))
    tz = rng.choice(["UTC", "US/Pacific", "Europe/Berlin", "Australia/Sydney"])
    ds = {"kind": kind, "rows": rows, "ncol": ncol, "tz": tz, "series": ncol == 1 and rng.random() < 0.7}
    # representation dimensions (the model sees the same instants and values whatever they are)
    r2 = random.Random(rng.random())
    ds["unit"] = r2.choice(["ns", "ns", "us", "ms", "s"])
    ds["dtype"] = r2.choice(["float64", "float64", "float32", "int64", "object"])
    ds["stamp"] = r2.choice(["ts", "ts", "py"])
    # the zone the requested limits are WRITTEN in (same instants): the data's own zone or another one
    ds["stamp_tz"] = r2.choice([None, None, "UTC", "Asia/Tokyo", "America/Los_Angeles", "Asia/Kolkata"])
    return ds


def cut_instants(rng, rows):
    if not rows:
        return [1_600_000_000 * 10**9]
    ts = [r[0] for r in rows]
    c = []
    for t in rng.sample(ts, min(3, len(ts))) + [ts[0], ts[-1]]:
        c += [t, t - 1, t + 1]
    for _ in range(2):
        i = rng.randrange(len(ts))
        hi = ts[i + 1] if i + 1 < len(ts) else ts[i] + 3 * DAY
        c.append(rng.randrange(ts[i], hi + 1))
    c += [ts[0] - rng.randrange(1, 50) * DAY, ts[-1] + rng.randrange(1, 50) * DAY, ts[-1] + 400 * DAY, ts[0] - 400 * DAY]
    return c


def span_days(rows):
    return max(1, (rows[-1][0] - rows[0][0]) // DAY) if rows else 1


def gen_calls(rng, ds, ncalls):
    rows = ds["rows"]
    calls = []
    cuts = cut_instants(rng, rows)
    sp = span_days(rows)
    for _ in range(ncalls):
        which = rng.choice(["baseline", "reporting"])
        cut = rng.choice(cuts)
        md = rng.choice([None, 1, 30, 365, 400, max(1, sp // 2), max(1, sp // 3), sp, 2, 3, 0, 0])
        if len(rows) >= 2 and rng.random() < 0.15:
            # a row lying EXACTLY max_days from the limit (the boundary itself; across a clock change this is where
            # wall-clock and elapsed day counts part)
            i, j = sorted(rng.sample(range(len(rows)), 2))
            if (rows[j][0] - rows[i][0]) % DAY == 0:
                md = (rows[j][0] - rows[i][0]) // DAY
                cut = rows[j][0] if which == "baseline" else rows[i][0]
        other = None
        if md is None and rng.random() < 0.6:
            other = rng.choice(cuts)
        elif md is not None and rng.random() < 0.03:
            other = rng.choice(cuts)           # invalid combination -> ValueError
        nocut = rng.random() < 0.07
        c = {"which": which, "cut": None if nocut else cut, "other": other, "max_days": md,
             "overshoot": rng.random() < 0.4, "ignore_gap": rng.random() < 0.35,
             "n_over": rng.choice([None, None, 0, 1, 5, 40]) if which == "baseline" else None}
        calls.append(c)
    return calls


# ------------------------------------------------------------------ implementation adapter

def build_frame(ds):
    idx = pd.DatetimeIndex(pd.to_datetime([r[0] for r in ds["rows"]], utc=True)).tz_convert(ds["tz"])
    cols = {"c%d" % c: [np.nan if r[1][c] is None else float(r[1][c]) for r in ds["rows"]] for c in range(ds["ncol"])}
    df = pd.DataFrame(cols, index=idx, dtype=float)
    unit = ds.get("unit", "ns")
    if unit != "ns":
        df.index = df.index.as_unit(unit)
    dt = ds.get("dtype", "float64")
    if dt == "float32":
        df = df.astype("float32")
    elif dt == "object":
        df = df.astype(object)
    elif dt == "int64" and not df.isna().any().any() and len(df):
        df = df.astype("int64")
    return df["c0"] if ds["series"] else df


def stamp(ns, tz, how="ts"):
    if ns is None:
        return None
    t = pd.Timestamp(ns, unit="ns", tz="UTC").tz_convert(tz)
    if how == "py" and ns % 1000 == 0:
        return t.to_pydatetime()            # a plain datetime.datetime carrying the same instant
    return t


def run_impl(ds, call):
    from opendsm.eemeter.common import transform
    data = build_frame(ds)
    before = data.copy(deep=True)
    tz = ds.get("stamp_tz") or ds["tz"]
    how = ds.get("stamp", "ts")
    try:
        if call["which"] == "baseline":
            out, warns = transform.get_baseline_data(
                data, start=stamp(call["other"], tz, how), end=stamp(call["cut"], tz, how), max_days=call["max_days"],
                allow_billing_period_overshoot=call["overshoot"], n_days_billing_period_overshoot=call["n_over"],
                ignore_billing_period_gap_for_day_count=call["ignore_gap"])
        else:
            out, warns = transform.get_reporting_data(
                data, start=stamp(call["cut"], tz, how), end=stamp(call["other"], tz, how), max_days=call["max_days"],
                allow_billing_period_overshoot=call["overshoot"],
                ignore_billing_period_gap_for_day_count=call["ignore_gap"])
    except Exception as e:  # noqa
        obs = {"kind": "err", "cls": type(e).__name__}
    else:
        fr = out.to_frame() if isinstance(out, pd.Series) else out
        rows = []
        for t, vals in zip(fr.index.asi8 if hasattr(fr.index, "asi8") else [], fr.to_numpy()):
            rows.append([int(t), [None if (v != v) else int(v) for v in vals]])
        # pandas 3 may store the index in a coarser unit than ns
        unit = getattr(fr.index, "unit", "ns")
        mult = {"ns": 1, "us": 10**3, "ms": 10**6, "s": 10**9}[unit]
        rows = [[t * mult, c] for t, c in rows]
        names = sorted(w.qualified_name.split(".")[-1] for w in warns)
        obs = {"kind": "ok", "rows": rows, "warn_end": any(n.startswith("gap_at") and n.endswith("_end") for n in names),
               "warn_start": any(n.startswith("gap_at") and n.endswith("_start") for n in names), "names": names,
               "same_type": type(out) is type(data)}
    obs["input_untouched"] = bool(data.equals(before) and data.index.equals(before.index))
    return obs


# ------------------------------------------------------------------ property oracle (statement, literally)

def oracle(ds, call, obs):
    """returns list of (signature, message); empty = the statement holds on this call"""
    rows = ds["rows"]
    ts = [r[0] for r in rows]
    cut, other, md = call["cut"], call["other"], call["max_days"]
    base = call["which"] == "baseline"
    fails = []
    sig0 = {"call": "get_%s_data" % call["which"]}
    if not obs["input_untouched"]:
        fails.append((dict(sig0, broken="input modified"), "the input frame was modified"))
    if md is not None and other is not None:
        if obs["kind"] != "err" or obs["cls"] != "ValueError":
            fails.append((dict(sig0, broken="invalid arguments accepted"), "max_days together with start/end must be rejected"))
        return fails
    if obs["kind"] == "err":
        dedicated = "NoBaselineDataError" if base else "NoReportingDataError"
        if obs["cls"] != dedicated:
            fails.append((dict(sig0, broken="wrong exception", raised=obs["cls"], overshoot=call["overshoot"]),
                          "raised %s instead of returning data or raising %s" % (obs["cls"], dedicated)))
            return fails
        # the dedicated error is only legitimate for an empty selection; the widest selection the
        # statement allows is everything on the requested side of the cut within the limits
        lo, hi = (other, cut) if base else (cut, other)
        cand = [r for r in rows if (lo is None or r[0] >= lo) and (hi is None or r[0] <= hi)]
        if md is not None and not call["overshoot"] and not call["ignore_gap"] and cut is not None:
            cand = [r for r in cand if (r[0] >= cut - md * DAY if base else r[0] <= cut + md * DAY)]
            if any(all(c is not None for c in r[1]) for r in cand):
                fails.append((dict(sig0, broken="spurious empty error"), "dedicated error although the window holds data"))
        elif not any(all(c is not None for c in r[1]) for r in cand) or md is not None:
            pass  # with overshoot / ignore-gap the boundary moves; model correspondence decides
        else:
            fails.append((dict(sig0, broken="spurious empty error"), "dedicated error although the window holds data"))
        return fails
    out = obs["rows"]
    ots = [r[0] for r in out]
    if not out:
        fails.append((dict(sig0, broken="empty frame returned"), "an empty selection must raise the dedicated error"))
        return fails
    if not obs["same_type"]:
        fails.append((dict(sig0, broken="type changed"), "returned object has another type than the input"))
    # contiguous slice, values unchanged apart from the blanked final row
    if ots[0] not in ts:
        fails.append((dict(sig0, broken="foreign timestamp"), "row not from the input"))
        return fails
    i0 = ts.index(ots[0])
    seg = rows[i0:i0 + len(out)]
    if [r[0] for r in seg] != ots:
        fails.append((dict(sig0, broken="not contiguous"), "returned rows are not a contiguous slice of the input"))
    else:
        for (t, c), (t2, c2) in zip(seg[:-1], out[:-1]):
            if list(c) != list(c2):
                fails.append((dict(sig0, broken="value changed"), "a value differs from the input at %d" % t))
                break
        if any(c is not None for c in out[-1][1]):
            fails.append((dict(sig0, broken="last row not blanked"), "final row is not blanked"))
    # no leak across the cut
    if cut is not None:
        if base and max(ots) > cut:
            fails.append((dict(sig0, broken="leak"), "baseline row after the requested end"))
        if (not base) and min(ots) < cut:
            fails.append((dict(sig0, broken="leak"), "reporting row before the requested start"))
    if other is not None:
        if base and min(ots) < other and not call["overshoot"]:
            fails.append((dict(sig0, broken="leak-start"), "baseline row before the requested start"))
        if (not base) and max(ots) > other and not call["overshoot"]:
            fails.append((dict(sig0, broken="leak-end"), "reporting row after the requested end"))
    # max_days
    if md is not None and cut is not None:
        side = [t for t in ts if (t <= cut if base else t >= cut)]
        eff = cut
        if call["ignore_gap"] and side:
            moved = max(side) if base else min(side)
            if base and call["n_over"] is not None and not (cut - call["n_over"] * DAY < moved):
                moved = cut
            eff = moved
        target = eff - md * DAY if base else eff + md * DAY
        if not call["overshoot"]:
            if base and min(ots) < target:
                fails.append((dict(sig0, broken="too early"), "baseline row earlier than max_days before the end"))
            if (not base) and max(ots) > target:
                fails.append((dict(sig0, broken="too late"), "reporting row later than max_days after the start"))
            # nothing inside the window may be lost either
            want = [t for t in side if (t >= target if base else t <= target)]
            if want != ots:
                fails.append((dict(sig0, broken="window truncated"), "rows inside the window are missing"))
        elif not side:
            # a non-empty selection although no row lies on the permitted side of the limit: reported as a leak above
            pass
        else:
            best = min(abs(t - target) for t in side)
            edge = min(ots) if base else max(ots)
            if abs(edge - target) != best:
                fails.append((dict(sig0, broken="not nearest boundary"), "window edge is not the reading nearest to the max_days boundary"))
    # warnings
    req_end = cut if base else other
    req_start = other if base else cut
    gap_end = req_end is not None and max(ts) < req_end
    gap_start = req_start is not None and req_start < min(ts)
    # which option moved the compared limit onto the data (the only way the code is known to drop a gap warning)
    end_mover = ("ignore_billing_period_gap_for_day_count" if call["ignore_gap"] else None) if base else \
                ("allow_billing_period_overshoot" if call["overshoot"] else None)
    start_mover = ("allow_billing_period_overshoot" if call["overshoot"] else None) if base else \
                  ("ignore_billing_period_gap_for_day_count" if call["ignore_gap"] else None)
    if obs["warn_end"] != gap_end:
        fails.append((dict(sig0, broken="end-gap warning", warning="missing" if gap_end else "spurious",
                           limit_moved_by=end_mover if gap_end else None),
                      "gap at the requested end %s" % ("not reported" if gap_end else "reported without a gap")))
    if obs["warn_start"] != gap_start:
        fails.append((dict(sig0, broken="start-gap warning", warning="missing" if gap_start else "spurious",
                           limit_moved_by=start_mover if gap_start else None),
                      "gap at the requested start %s" % ("not reported" if gap_start else "reported without a gap")))
    return fails


# ------------------------------------------------------------------ Coq terms

def coq_rows(rows):
    return coq_list(["(%s, %s)" % (zlit(t), coq_list([coq_opt(c, zlit) for c in cells])) for t, cells in rows])


def coq_result(obs):
    if obs["kind"] == "err":
        if obs["cls"] in ("NoBaselineDataError", "NoReportingDataError"):
            return "ErrNoData"
        if obs["cls"] == "ValueError":
            return "ErrValue"
        return None
    return "(Ok %s %s %s)" % (coq_rows(obs["rows"]), coq_bool(obs["warn_end"]), coq_bool(obs["warn_start"]))


def coq_case(dname, call, obs):
    res = coq_result(obs)
    if res is None:
        return None
    if call["which"] == "baseline":
        o = "{| b_start := %s; b_end := %s; b_max_days := %s; b_overshoot := %s; b_n_over := %s; b_ignore_gap := %s |}" % (
            coq_opt(call["other"], zlit), coq_opt(call["cut"], zlit), coq_opt(call["max_days"], zlit),
            coq_bool(call["overshoot"]), coq_opt(call["n_over"], zlit), coq_bool(call["ignore_gap"]))
    else:
        o = "{| r_start := %s; r_end := %s; r_max_days := %s; r_overshoot := %s; r_ignore_gap := %s |}" % (
            coq_opt(call["cut"], zlit), coq_opt(call["other"], zlit), coq_opt(call["max_days"], zlit),
            coq_bool(call["overshoot"]), coq_bool(call["ignore_gap"]))
    return "(%s, %s, %s)" % (o, dname, res)


def model_output(run, ds, call):
    fn = "get_baseline_data" if call["which"] == "baseline" else "get_reporting_data"
    term = coq_case("d", call, {"kind": "err", "cls": "ValueError"})
    return run.coq_eval(IMPORTS, "Definition d : list row := %s." % coq_rows(ds["rows"]),
                        "let '(o, d, _) := %s in %s o d" % (term, fn))


# ------------------------------------------------------------------ main

def classify(call, obs):
    key = [call["which"], call["max_days"] is not None, call["overshoot"], call["ignore_gap"], call["cut"] is None,
           call["other"] is not None, obs["kind"], obs.get("cls"), obs.get("warn_end"), obs.get("warn_start")]
    return tuple(key)


def process(run, items):
    """items: list of (ds, call). Runs impl, oracle, then the model comparison in Coq."""
    per_kind = {"baseline": [], "reporting": []}
    datasets = {}
    for ds, call in items:
        obs = run_impl(ds, call)
        nontrivial = bool(ds["rows"])
        run.count((vlib.sha(ds["rows"]), vlib.sha(call)), nontrivial)
        run.dist("outcome", obs["kind"] if obs["kind"] == "ok" else obs["cls"])
        run.dist("branch", classify(call, obs)[:6])
        run.dist("representation", "%s/%s/%s" % (ds.get("unit"), ds.get("dtype"), ds.get("stamp")))
        run.dist("zone of the requested limits", "data zone" if not ds.get("stamp_tz") or ds["stamp_tz"] == ds["tz"] else "other zone")
        run.dist("index_kind", ds["kind"])
        for sig, msg in oracle(ds, call, obs):
            run.violation(sig, "C20 %s: %s" % (call["which"], msg), case={"dataset": ds, "call": call},
                          observation=obs, generator="c20.gen")
        dkey = vlib.sha(ds["rows"])
        datasets[dkey] = ds
        term = coq_case("d_" + dkey, call, obs)
        if term is None:
            run.corr_failures.append({"stream": call["which"], "case": {"dataset": ds, "call": call},
                                      "impl": obs, "model": "outcome outside the model's alphabet"})
            continue
        per_kind[call["which"]].append((term, ds, call, obs))
        if obs["kind"] == "ok":
            run.sample({"call": call, "n_input_rows": len(ds["rows"]), "index_kind": ds["kind"],
                        "returned_rows": len(obs["rows"]), "warnings": obs["names"]})
    prelude = "\n".join("Definition d_%s : list row := %s." % (k, coq_rows(d["rows"])) for k, d in datasets.items())
    for which, lst in per_kind.items():
        if not lst:
            continue
        bad = run.coq_cases(which, IMPORTS, prelude, [t[0] for t in lst], "check_" + which, shard=400)
        if bad is None:
            run.proof_ok = False
            continue
        for i in bad[:10]:
            _, ds, call, obs = lst[i]
            run.corr_failures.append({"stream": which, "case": {"dataset": ds, "call": call}, "impl": obs,
                                      "model": model_output(run, ds, call)})
        for i in bad[10:]:
            run.corr_failures.append({"stream": which, "case": {"dataset": lst[i][1], "call": lst[i][2]}})


def main():
    run = Run("C20")
    run.cov["rule"] = ("datasets: hourly/daily/billing/irregular indices of 0-48 rows, 1-2 columns, NaN density 0/0.1/0.5/1, "
                       "4 time zones, Series or DataFrame; calls: cut on / +-1 ns around / between / far outside timestamps, "
                       "max_days in {None,1,2,3,30,365,400,span fractions}, all overshoot / ignore-gap / n_days combinations, "
                       "explicit opposite limit, invalid combinations. distinct = (dataset hash, call hash); "
                       "non-trivial = non-empty dataset")
    run.assumptions += [
        "index sorted and duplicate free (what the data classes hand to these functions); pandas label slicing and "
        "get_indexer(nearest) are re-specified in Model/Windows.v and tied by the correspondence only",
        "max_days is counted from the effective end/start: the requested one, or the last/first reading on that side when "
        "ignore_billing_period_gap_for_day_count applies (the option's documented meaning)",
        "correspondence is sampled: agreement is established on the cases run",
    ]
    run.cov["trusted_base"] += ["harness/c20.py (generator, adapter, canonicalisation)", "pandas semantics re-specified in Model/Windows.v", "harness/translate_windows.py (ast, fail-closed: day arithmetic, slices, comparison operators, max_days guards, boundary lookup, blanking, empty-selection errors of transform.py) tied by C20_source_facts_are_the_modelled_ones"]
    # step 0: translator (semantics-bearing sites of the two functions and their warning helpers, regenerated every run)
    import translate_windows
    gen_ok = True
    try:
        ex = translate_windows.extract()
        run.write_generated(translate_windows.OUT, translate_windows.render(ex))
        run.cov["source_facts"] = ex
    except translate_windows.TranslatorError as e:
        gen_ok = False
        run.proof_ok = False
        run.proof_log += "translator failed (fail-closed): %s" % e
        run.log("TRANSLATOR FAILED: %s" % e)
    if gen_ok:
        run.check_proofs("Properties/C20.v", ["Proofs/WindowsProofs.v", "Proofs/WindowsSrcProofs.v"], generated=["Generated/WindowsGen.v"])
    run.ensure_models(["Model/WindowsRun.v", "Model/CasesLib.v"])
    items = []
    if run.replay:
        rep = json.load(open(run.replay))
        items.append((rep["case"]["dataset"], rep["case"]["call"]))
    else:
        corpus = vlib.os.path.join(vlib.VERIF, "corpus", "C20.json")
        if vlib.os.path.exists(corpus):
            for c in json.load(open(corpus)):
                items.append((c["dataset"], c["call"]))
        nds = run.n(100, 1500)
        for k in range(nds):
            ds = gen_dataset(run.rng, k)
            for call in gen_calls(run.rng, ds, 30):
                items.append((ds, call))
    for ds, _ in items:
        ds["rows"] = [(int(t), list(c)) for t, c in ds["rows"]]
    process(run, items)
    run.finish()


if __name__ == "__main__":
    vlib.run_main(main, "C20")
