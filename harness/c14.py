"""C14 — approved-method settings are locked unless developer mode is explicit.
Model: coq/Model/Settings.v (+ SettingsRun.v); generated trees: coq/Generated/SettingsGen.v (harness/translate_settings.py);
theorems: coq/Properties/C14.v; tie: translator + correspondence (this file).

Streams (every case = one real constructor call; observation = accepted + model_dump() / rejected + reason):
  defaults   every settings class and every model constructor without arguments (complete dump)
  single     every leaf of every tree x alternative values (valid / boundary / coercible / invalid type, range, enum)
             x developer_mode absent/False/True x key case/whitespace variants x class vs model constructor
  object     nested settings objects (declared class, subclass, foreign class) and top-level objects
  multi      2-4 fields at once (cross-field validators), mostly in developer mode
  names      DailyModel(model=<spelling variants>)
  stored     build -> to_dict / to_json -> from_json : recorded settings == built settings, reload
  hourly_stored  the same for HourlyModel, with real fits on data carrying a supplemental time-series column, dict and
             (reused) settings-object input: settings after fit == recorded == reloaded == as built (oracle only)
  oracle     inputs outside the model's alphabet (numeric strings, tuples, NaN/inf): property oracle only
The oracle is the statement, literally, evaluated on what the implementation did, against /verif/approved_settings.json."""
import contextlib
import io
import itertools
import json
import logging
import math
import os
import warnings
from fractions import Fraction

import vlib
from vlib import Run
import translate_settings as ts

warnings.simplefilter("ignore")
logging.disable(logging.CRITICAL)

IMPORTS = ("From Coq Require Import QArith.\n"
           "From V Require Import Model.Settings Model.SettingsRun Generated.SettingsGen.\n"
           "Open Scope string_scope.")
CASE_T = "(ctor * input * expect)%type"
STORED_T = "(ctor * input * list (list string * jv) * expect)%type"

VARIANTS = ["exact", "upper", "spaces", "mixed"]
LOCKED = ts.LOCKED_FAMILIES
HOURLY = ["BaseHourlySettings", "HourlySolarSettings", "HourlyNonSolarSettings"]
FAMILY_CTORS = {
    "DailySettings": [{"c": "class", "cls": "DailySettings"}, {"c": "DailyModel", "model": "current"}],
    "DailyLegacySettings": [{"c": "class", "cls": "DailyLegacySettings"}, {"c": "DailyModel", "model": "legacy"},
                            {"c": "BillingModel"}],
    "BillingSettings": [{"c": "class", "cls": "BillingSettings"}, {"c": "BillingWeightedModel"}],
    "BaseHourlySettings": [{"c": "class", "cls": "BaseHourlySettings"}, {"c": "HourlyModel"}],
    "HourlySolarSettings": [{"c": "class", "cls": "HourlySolarSettings"}],
    "HourlyNonSolarSettings": [{"c": "class", "cls": "HourlyNonSolarSettings"}],
}
NOARG_CTORS = {
    "DailyModel()": {"c": "DailyModel", "model": "current"},
    "DailyModel(model='legacy')": {"c": "DailyModel", "model": "legacy"},
    "BillingModel()": {"c": "BillingModel"},
    "BillingWeightedModel()": {"c": "BillingWeightedModel"},
    "HourlyModel()": {"c": "HourlyModel"},
}


# ------------------------------------------------------------------ implementation side

class Impl:
    def __init__(self):
        BaseSettings, top = ts.import_repo()
        from opendsm.eemeter.models.daily.utilities import settings as ds
        from opendsm.eemeter.models.billing import settings as bs
        from opendsm.eemeter.models.hourly import settings as hs
        self.cls = {}
        for mod in (ds, bs, hs):
            for n, o in vars(mod).items():
                if isinstance(o, type) and issubclass(o, BaseSettings) and o is not BaseSettings:
                    self.cls[o.__name__] = o
        import opendsm.eemeter as ee
        from opendsm.eemeter.models.billing import BillingWeightedModel
        self.DailyModel, self.BillingModel, self.HourlyModel = ee.DailyModel, ee.BillingModel, ee.HourlyModel
        self.BillingWeightedModel = BillingWeightedModel
        import pydantic
        self.pydantic = pydantic


class InnerFailure(Exception):
    pass


def materialise(impl, v):
    if isinstance(v, dict):
        if "__inst__" in v:
            kw = materialise(impl, v["kwargs"])
            try:
                with contextlib.redirect_stdout(io.StringIO()):
                    return impl.cls[v["__inst__"]](**kw)
            except Exception as e:
                raise InnerFailure("%s: %s" % (type(e).__name__, e))
        return {k: materialise(impl, x) for k, x in v.items()}
    if isinstance(v, list):
        return [materialise(impl, x) for x in v]
    if isinstance(v, dict) is False and isinstance(v, (tuple,)):
        return tuple(materialise(impl, x) for x in v)
    if isinstance(v, str) and v.startswith("__float__:"):
        return float(v.split(":", 1)[1])
    return v


def canon(v):
    """model_dump() -> canonical plain value: enum -> value, numbers -> Fraction, keys sorted"""
    import enum
    if isinstance(v, enum.Enum):
        return v.value
    if v is None or isinstance(v, (bool, str, Fraction)):
        return v
    if isinstance(v, int):
        return Fraction(v)
    if isinstance(v, float):
        if v != v or abs(v) == float("inf"):
            return "__float__:%r" % v
        return Fraction(v)
    if isinstance(v, dict):
        return {k: canon(v[k]) for k in sorted(v)}
    if isinstance(v, (list, tuple)):
        return [canon(x) for x in v]
    if hasattr(v, "item"):
        return canon(v.item())
    return "__repr__:%r" % (v,)


def jsonable(v):
    if isinstance(v, Fraction):
        return int(v) if v.denominator == 1 else float(v)
    if isinstance(v, dict):
        return {k: jsonable(x) for k, x in v.items()}
    if isinstance(v, (list, tuple)):
        return [jsonable(x) for x in v]
    return v


def build(impl, ctor, inp):
    """the real constructor call -> (settings object, model or None)"""
    kind = inp["kind"]
    if kind == "none":
        st = None
    elif kind == "dict":
        st = materialise(impl, inp["doc"])
    else:
        kw = materialise(impl, inp["doc"])
        try:
            with contextlib.redirect_stdout(io.StringIO()):
                st = impl.cls[inp["cls"]](**kw)
        except Exception as e:
            raise InnerFailure("%s: %s" % (type(e).__name__, e))
    c = ctor["c"]
    if c == "class":
        if kind == "obj":
            raise InnerFailure("class constructors take keyword arguments only")
        o = impl.cls[ctor["cls"]](**(st or {}))
        return o, None
    if c == "DailyModel":
        m = impl.DailyModel(model=ctor["model"]) if kind == "none" else impl.DailyModel(model=ctor["model"], settings=st)
    elif c == "BillingModel":
        m = impl.BillingModel() if kind == "none" else impl.BillingModel(settings=st)
    elif c == "BillingWeightedModel":
        m = impl.BillingWeightedModel() if kind == "none" else impl.BillingWeightedModel(settings=st)
    elif c == "HourlyModel":
        m = impl.HourlyModel() if kind == "none" else impl.HourlyModel(settings=st)
    else:
        raise ValueError(c)
    return m.settings, m


def classify_error(impl, e):
    if isinstance(e, impl.pydantic.ValidationError):
        errs = e.errors()
        if len(errs) == 1 and tuple(errs[0]["loc"]) == () and errs[0]["type"] == "value_error":
            return "RDeveloper" if "Developer mode is not enabled" in errs[0]["msg"] else "RCross"
        return "RField"
    if isinstance(e, TypeError):
        return "RType"
    return "RCrash"


def run_impl(impl, ctor, inp):
    try:
        with contextlib.redirect_stdout(io.StringIO()):
            s, m = build(impl, ctor, inp)
    except InnerFailure as e:
        return {"kind": "inner", "msg": str(e)[:200]}, None
    except Exception as e:
        return {"kind": "err", "cls": type(e).__name__, "reason": classify_error(impl, e), "msg": str(e)[:300]}, None
    return {"kind": "ok", "cls": type(s).__name__, "dump": canon(s.model_dump())}, m


def fake_fit(m):
    """the state `fit` leaves behind as far as the stored settings are concerned, without running the optimiser:
    the real `_create_params_from_fit_model` / `to_dict` / `to_json` / `from_json` do the rest"""
    m.model = {}
    m.baseline_timezone = "UTC"
    m.warnings = []
    m.disqualification = []
    m.params = m._create_params_from_fit_model()
    m.is_fitted = True
    return m


def run_stored(impl, ctor, inp):
    obs, m = run_impl(impl, ctor, inp)
    if obs["kind"] != "ok" or m is None:
        return obs
    try:
        with contextlib.redirect_stdout(io.StringIO()):
            fake_fit(m)
            doc = m.to_dict()
            js = m.to_json()
        obs["stored"] = canon(doc["settings"])
        obs["stored_json_same"] = canon(json.loads(js)["settings"]) == obs["stored"]
    except Exception as e:
        obs["store_error"] = "%s: %s" % (type(e).__name__, str(e)[:200])
        return obs
    try:
        with contextlib.redirect_stdout(io.StringIO()):
            m2 = type(m).from_json(js)
        obs["reload"] = {"kind": "ok", "cls": type(m2.settings).__name__, "dump": canon(m2.settings.model_dump())}
    except Exception as e:
        obs["reload"] = {"kind": "err", "cls": type(e).__name__, "reason": classify_error(impl, e), "msg": str(e)[:300]}
    return obs


# ------------------------------------------------------------------ helpers on plain values

def norm_s(s):
    return s.lower().strip()


def get_path(d, path):
    for k in path:
        if not isinstance(d, dict) or k not in d:
            return KeyError
        d = d[k]
    return d


def pdiff(a, b, rpath=()):
    """mirror of SettingsRun.jdiff"""
    if isinstance(a, dict) and isinstance(b, dict):
        if list(a) == list(b):
            out = []
            for k in a:
                out += pdiff(a[k], b[k], rpath + (k,))
            return out
        return [(list(rpath), a)]
    return [] if peq(a, b) else [(list(rpath), a)]


def peq(a, b):
    if isinstance(a, bool) or isinstance(b, bool):
        return isinstance(a, bool) and isinstance(b, bool) and a == b
    return type(a) == type(b) and a == b if not isinstance(a, (list, dict)) else (
        isinstance(b, type(a)) and len(a) == len(b) and (
            all(peq(x, y) for x, y in zip(a, b)) if isinstance(a, list)
            else list(a) == list(b) and all(peq(a[k], b[k]) for k in a)))


def vary_key(k, variant):
    if variant == "upper":
        return k.upper()
    if variant == "spaces":
        return "  " + k + " "
    if variant == "mixed":
        return "\t" + "".join(c.upper() if i % 2 else c for i, c in enumerate(k)) + " "
    return k


def nest(path, value, variant="exact"):
    d = value
    for k in reversed(path):
        d = {vary_key(k, variant): d}
    return d


def merge(a, b):
    """deep merge of override documents (b wins)"""
    out = dict(a)
    for k, v in b.items():
        if k in out and isinstance(out[k], dict) and isinstance(v, dict) and "__inst__" not in v and "__inst__" not in out[k]:
            out[k] = merge(out[k], v)
        else:
            out[k] = v
    return out


# ------------------------------------------------------------------ Coq terms

SHARED = {}      # frequent strings (field, class and enum names) are defined once in the prelude of a cases file


def set_shared(words):
    SHARED.clear()
    for w in sorted(set(words)):
        if len(w) >= 3 and all(32 <= ord(c) < 127 for c in w):
            SHARED[w] = "s%d" % len(SHARED)


def shared_prelude():
    return "\n".join('Definition %s : string := "%s".' % (i, w.replace('"', '""')) for w, i in SHARED.items())


def cstr(s):
    if s in SHARED:
        return SHARED[s]
    return '"' + s.replace('"', '""') + '"'


def in_alphabet(v):
    if v is None or isinstance(v, bool):
        return True
    if isinstance(v, int):
        return True
    if isinstance(v, float):
        return v == v and abs(v) != float("inf")
    if isinstance(v, Fraction):
        return True
    if isinstance(v, str):
        return all(32 <= ord(c) < 127 or c == "\t" for c in v) and not v.startswith("__")
    if isinstance(v, list):
        return all(in_alphabet(x) for x in v)
    if isinstance(v, dict):
        if "__inst__" in v:
            return in_alphabet(v["kwargs"])
        return all(isinstance(k, str) and in_alphabet(k) and in_alphabet(x) for k, x in v.items())
    return False


def cjv(v):
    if v is None:
        return "JNull"
    if isinstance(v, bool):
        return "(JBool %s)" % ("true" if v else "false")
    if isinstance(v, (int, float, Fraction)):
        return "(JNum %s)" % vlib.qlit(Fraction(v))
    if isinstance(v, str):
        return "(JStr %s)" % cstr(v)
    if isinstance(v, list):
        return "(JList [%s])" % "; ".join(cjv(x) for x in v)
    if isinstance(v, dict):
        if "__inst__" in v:
            return "(JInst %s %s)" % (cstr(v["__inst__"]), ckvs(v["kwargs"]))
        return "(JObj %s)" % ckvs(v)
    raise ValueError(v)


def ckvs(d):
    return "[" + "; ".join("(%s, %s)" % (cstr(k), cjv(x)) for k, x in d.items()) + "]"


def cctor(c):
    if c["c"] == "class":
        return "(CClass %s)" % cstr(c["cls"])
    if c["c"] == "DailyModel":
        return "(CDailyModel %s)" % cstr(c["model"])
    return {"BillingModel": "CBillingModel", "BillingWeightedModel": "CBillingWeighted", "HourlyModel": "CHourlyModel"}[c["c"]]


def cinput(i):
    if i["kind"] == "none":
        return "InNone"
    if i["kind"] == "dict":
        return "(InDict %s)" % ckvs(i["doc"])
    return "(InObj %s %s)" % (cstr(i["cls"]), ckvs(i["doc"]))


def cdiff(diff):
    return "[" + "; ".join("([%s], %s)" % ("; ".join(cstr(k) for k in p), cjv(v)) for p, v in diff) + "]"


def cexpect(obs, defaults):
    if obs["kind"] == "err":
        return "(EReject %s)" % obs["reason"]
    if obs["cls"] not in defaults:
        return None
    return "(EAccept %s %s)" % (cstr(obs["cls"]), cdiff(pdiff(obs["dump"], defaults[obs["cls"]])))


# ------------------------------------------------------------------ alternatives (from the FROZEN domains)

def num(x):
    return int(x) if float(x).is_integer() and abs(x) < 2**53 and isinstance(x, int) else x


def in_dom_bounds(dom, x):
    lo, hi = dom.get("lo"), dom.get("hi")
    if lo is not None and (x <= lo[0] if lo[1] else x < lo[0]):
        return False
    if hi is not None and (x >= hi[0] if hi[1] else x > hi[0]):
        return False
    return True


def alts(dom, default, opts=None, name="", thorough=False):
    """[(value, tag, why)]: tag valid | invalid | coerce (lax conversion, no oracle claim) | cross (field-valid, a
    cross-field rule decides)"""
    b, out = dom["b"], []

    def add(v, tag, why=""):
        out.append((v, tag, why))

    add(None, "valid" if dom["optional"] else "invalid", "None for a non-optional field")
    if b == "BBool":
        add(True, "valid"); add(False, "valid")
        add(1, "coerce"); add(0, "coerce"); add(" Yes ", "coerce"); add("off", "coerce"); add(1.0, "coerce")
        add(2, "invalid", "2 is not a boolean"); add("maybe", "invalid", "not a boolean word")
        add([], "invalid", "list for a boolean"); add(0.5, "invalid", "0.5 is not a boolean")
    elif b in ("BFloat", "BInt"):
        d = default if isinstance(default, (int, float)) and not isinstance(default, bool) else 1
        cands = [d, d + 1, d - 1, 0, 1, -1, 3, 7]
        if b == "BFloat":
            cands += [d + 0.5, d * 0.5, d * 2, 0.25, -0.125]
        for bd in (dom.get("lo"), dom.get("hi")):
            if bd is not None:
                cands += [bd[0], bd[0] - 1, bd[0] + 1]
                if b == "BFloat":
                    cands += [bd[0] - 0.125, bd[0] + 0.125]
        seen = set()
        for x in cands:
            if b == "BInt":
                x = int(x)
            key = (float(x))
            if key in seen:
                continue
            seen.add(key)
            add(x, "valid" if in_dom_bounds(dom, x) else "invalid", "outside the bounds")
        if b == "BInt":
            add(6.5, "invalid", "non-integral number for an integer")
            add(7.0, "coerce" if in_dom_bounds(dom, 7) else "invalid", "outside the bounds")
        add(True, "coerce" if in_dom_bounds(dom, 1) else "invalid", "outside the bounds")
        add("abc", "invalid", "word for a number"); add([1], "invalid", "list for a number")
        add({"a": 1}, "invalid", "dict for a number")
    elif b == "BStr":
        for o in (opts or []):
            add(o, "valid")
        if opts:
            add(" " + opts[0].upper() + "  ", "valid")
            add(opts[-1].title(), "valid")
        add("hot", "invalid", "not one of the options"); add(3, "invalid", "number for a string")
        add(["summer"], "invalid", "list for a string")
    elif b == "BEnum":
        vals = dom["vals"]
        pick = vals if thorough or len(vals) <= 4 else [vals[0], vals[len(vals) // 2], vals[-1]]
        if isinstance(default, str) and default not in pick:
            pick = pick + [default]
        for v in pick:
            add(v, "valid")
        add("  " + pick[0].upper() + " ", "valid"); add(pick[-1].title() + "\t", "valid")
        add("nonsense", "invalid", "not a member"); add(5, "invalid", "number for an enum")
        add(True, "invalid", "boolean for an enum"); add([vals[0]], "invalid", "list for an enum")
    elif b == "BFloatOrLit":
        lit = dom["lit"]
        add(lit, "valid"); add(" " + lit.upper() + " ", "valid")
        for x in (2, 1.5, -200, 3.5, 0, -100, 2.0):
            add(x, "cross")
        add(True, "coerce"); add("other", "invalid", "neither a number nor the literal")
        add([1.0], "invalid", "list for a number")
    elif b == "BListFloat":
        for x in ([1.0, 2.0], [1, 2], [1.5], [0.0, 1.0], [1.0, -1.0], [], [1.0, 2.0, 3.0], [1.4, 0.89], [0.125, 8]):
            add(x, "cross")
        add([1, True], "coerce"); add(["a"], "invalid", "word in a list of numbers")
        add("x", "invalid", "string for a list"); add(3, "invalid", "number for a list")
    elif b == "BListStr":
        if opts:
            add(list(reversed(opts)), "valid")
            add(list(opts) + ["extra"], "invalid", "an option name the split components cannot represent")
            add([" " + opts[0].upper()] + [o.title() + " " for o in opts[1:]], "valid")
            add(list(opts[:-1]), "invalid", "a default entry is no longer an option")
            add(["hot", "cold"], "invalid", "the default entries are not options")
            add([], "invalid", "the default entries are not options")
        else:
            for x in (["temperature"], ["ghi"], ["GHI ", "x"], ["temperature", "ghi"], ["a", "b"], []):
                add(x, "cross")
        add([1, 2], "invalid", "numbers in a list of strings"); add("summer", "invalid", "string for a list")
        add(3, "invalid", "number for a list")
    elif b == "BListAny":
        add(["a"], "valid"); add([1, "B "], "valid"); add([], "valid")
        add("x", "invalid", "string for a list"); add(3, "invalid", "number for a list"); add({"a": 1}, "invalid", "dict for a list")
    else:
        raise ValueError(b)
    return out


def normalised_value(dom, v):
    """what a valid override must look like in the dump"""
    b = dom["b"]
    if v is None or isinstance(v, bool):
        return v
    if isinstance(v, (int, float)):
        return Fraction(v)
    if isinstance(v, str):
        return norm_s(v)
    if isinstance(v, list):
        if b == "BListStr":
            return [norm_s(x) if isinstance(x, str) else x for x in v]
        return [Fraction(x) if isinstance(x, (int, float)) and not isinstance(x, bool) else x for x in v]
    return v


# ------------------------------------------------------------------ approved file access

class Approved:
    def __init__(self, doc):
        self.doc = doc
        self.rows = {c: [dict(r, path=r["path"].split("."), default=canon(ts.plain_json(r["default"])))
                         for r in rows] for c, rows in doc["families"].items()}
        self.open = [p.split(".") for p in doc["open_fields"]]

    def is_open(self, path):
        for o in self.open:
            if o == list(path) or (o[-1] == "*" and o[:-1] == list(path[:-1]) and len(path) == len(o)):
                return True
        return False

    def options_of(self, cls, path):
        """default `options` of the nested object a string field belongs to (season / weekday maps)"""
        if len(path) < 2:
            return None
        for r in self.rows[cls]:
            if r["path"] == list(path[:-1]) + ["options"]:
                return [x for x in jsonable(r["default"])]
        return None


# ------------------------------------------------------------------ case generation

def dm_doc(dm, silent):
    d = {}
    if dm != "absent":
        d["developer_mode"] = dm
        if dm is True and silent:
            d["silent_developer_mode"] = True
    return d


def gen_defaults(ap):
    cases = []
    for cls in ts.TOP_CLASSES:
        for inp in ({"kind": "none"}, {"kind": "dict", "doc": {}}):
            cases.append({"stream": "defaults", "ctor": {"c": "class", "cls": cls}, "input": inp,
                          "meta": {"family": cls, "noarg": True, "input_kind": "dict"}})
    for label, ctor in NOARG_CTORS.items():
        for inp in ({"kind": "none"}, {"kind": "dict", "doc": {}}):
            cases.append({"stream": "defaults", "ctor": ctor, "input": inp,
                          "meta": {"family": ap.doc["constructors"][label], "noarg": True, "label": label, "input_kind": "dict"}})
    return cases


def claim_for(ap, fam, path, tag, dom, v):
    if tag == "invalid":
        return "invalid"
    if tag == "valid" and fam in LOCKED and ap.is_open(path):
        return "open-valid"
    return None


FULL_IN_QUICK = ["DailySettings", "BaseHourlySettings"]    # the other trees share almost every field with these


def gen_single(ap, run):
    """thorough: the full cross product.  quick: every leaf x every alternative x every developer_mode value on the
    daily and the base hourly tree, every leaf x a seeded third of the alternatives on the other four trees, one
    (key variant, constructor) per case in rotation, plus all variants x constructors for one changing value per leaf"""
    cases = []
    thorough = not run.quick()
    counter = run.rng.randrange(1000)
    for fam in ts.TOP_CLASSES:
        ctors = FAMILY_CTORS[fam]
        dms = ["absent", False, True] if fam in LOCKED else ["absent"]
        for r in ap.rows[fam]:
            path, dom, default = r["path"], r["domain"], jsonable(r["default"])
            opts = ap.options_of(fam, path)
            al = alts(dom, default, opts=opts, name=path[-1], thorough=thorough)
            first_change = True
            must = run.rng.randrange(len(al))
            for ai, (v, tag, why) in enumerate(al):
                if not thorough and fam not in FULL_IN_QUICK and ai != must and run.rng.random() > 0.28 \
                        and not (first_change and tag in ("valid", "coerce", "cross") and not peq(canon(v), canon(default))):
                    continue
                for dm in dms:
                    if path == ["developer_mode"] and dm != "absent":
                        continue
                    if not thorough and tag == "invalid" and dm is False:
                        continue
                    combos = [(VARIANTS[counter % 4], ctors[(counter // 4) % len(ctors)])]
                    changes = tag in ("valid", "coerce", "cross") and not peq(canon(v), canon(default))
                    if thorough or (first_change and changes and (dm == "absent" or (dm is True and fam in FULL_IN_QUICK))):
                        combos = list(itertools.product(VARIANTS, ctors))
                    counter += 1
                    for variant, ctor in combos:
                        doc = merge(dm_doc(dm, counter % 2 == 0), nest(path, v, variant))
                        if ctor["c"] == "HourlyModel" and path == ["train_features"] and variant == "exact" \
                                and not (v is None or isinstance(v, list)):
                            continue   # `"ghi" in features` on a non-list: outside the alphabet (oracle stream)
                        cases.append({"stream": "single", "ctor": ctor, "input": {"kind": "dict", "doc": doc},
                                      "meta": {"family": fam, "path": path, "tag": tag, "why": why, "dm": dm,
                                               "variant": variant, "input_kind": "dict",
                                               "claim": claim_for(ap, fam, path, tag, dom, v),
                                               "value": v, "expect_value": jsonable(normalised_value(dom, v)),
                                               "excluded": path == ["silent_developer_mode"]}})
                if tag in ("valid", "coerce", "cross") and not peq(canon(v), canon(default)):
                    first_change = False
    return cases


NESTED_CLASSES = ["Split_Selection_Definition", "Split_Selection_Legacy_Definition", "Season_Definition",
                  "Weekday_Weekend_Definition", "TemperatureBinSettings", "TemporalClusteringSettings", "ElasticNetSettings"]


def gen_object(ap, info, run):
    cases = []
    classes = info["classes"]
    for fam in ts.TOP_CLASSES:
        ctors = FAMILY_CTORS[fam]
        for f in classes[fam]["fields"]:
            if f["kind"] != "node":
                continue
            for inner in NESTED_CLASSES:
                if inner not in classes:
                    continue
                same_family = f["cls"] in classes[inner]["ancestors"] or inner in classes[f["cls"]]["ancestors"]
                kwlist = [{}]
                if same_family:
                    for g in classes[inner]["fields"][:: (1 if not run.quick() else 3)]:
                        dom = ts.domain_of(g)
                        opts = None
                        if dom["b"] in ("BStr", "BListStr"):
                            o = [x for x in classes[inner]["fields"] if x["name"] == "options"]
                            opts = jsonable(o[0]["default"]) if o else None
                        for v, tag, why in alts(dom, jsonable(g["default"]), opts=opts):
                            if tag == "valid" and not peq(canon(v), canon(jsonable(g["default"]))):
                                kwlist.append({g["name"]: v})
                                break
                elif run.quick() and fam not in ("DailySettings", "BaseHourlySettings"):
                    continue
                for kw in kwlist:
                    for dm in (["absent", True] if fam in LOCKED else ["absent"]):
                        for ctor in ctors:
                            if ctor["c"] == "HourlyModel":
                                pass
                            doc = merge(dm_doc(dm, True), {f["name"]: {"__inst__": inner, "kwargs": kw}})
                            kind = "object" if inner == f["cls"] else (
                                "subclass-object" if f["cls"] in classes[inner]["ancestors"] else "foreign-object")
                            cases.append({"stream": "object", "ctor": ctor, "input": {"kind": "dict", "doc": doc},
                                          "meta": {"family": fam, "path": [f["name"]], "dm": dm, "input_kind": kind,
                                                   "inner": inner, "claim": None}})
    # top-level objects
    for cls in HOURLY:
        for kw in ({}, {"cvrmse_threshold": 2.5}, {"train_features": ["ghi"]}, {"seed": 7, "elasticnet": {"alpha": 0.5}}):
            cases.append({"stream": "object", "ctor": {"c": "HourlyModel"}, "input": {"kind": "obj", "cls": cls, "doc": kw},
                          "meta": {"family": cls, "input_kind": "top-object", "claim": None}})
    for ctor, cls in (({"c": "DailyModel", "model": "current"}, "DailySettings"), ({"c": "DailyModel", "model": "legacy"}, "DailyLegacySettings"),
                      ({"c": "BillingModel"}, "DailyLegacySettings"), ({"c": "BillingWeightedModel"}, "BillingSettings")):
        for kw in ({}, {"uncertainty_alpha": 0.25}):
            cases.append({"stream": "object", "ctor": ctor, "input": {"kind": "obj", "cls": cls, "doc": kw},
                          "meta": {"family": cls, "input_kind": "top-object", "claim": None}})
    return cases


TARGETED = [
    {"alpha_final": None}, {"alpha_final": None, "alpha_final_type": None},
    {"alpha_final": None, "alpha_final_type": None, "final_bounds_scalar": None},
    {"alpha_final_type": None, "final_bounds_scalar": None}, {"final_bounds_scalar": None},
    {"final_bounds_scalar": 0}, {"final_bounds_scalar": -1, "initial_step_percentage": 5},
    {"alpha_final": -150, "alpha_minimum": -200}, {"alpha_final": -150}, {"alpha_final": 2.5}, {"alpha_final": 2},
    {"initial_step_percentage": None}, {"initial_step_percentage": None, "algorithm_choice": "scipy_slsqp"},
    {"initial_step_percentage": None, "algorithm_choice": None}, {"initial_step_percentage": 0.5},
    {"initial_step_percentage": 0.5625}, {"initial_step_percentage": 0},
    {"split_selection": {"reduce_splits_num_std": None}}, {"split_selection": {"reduce_splits_num_std": [1.0]}},
    {"alpha_selection": 5, "split_selection": {"reduce_splits_num_std": [1.0]}},
    {"alpha_selection": 5, "final_bounds_scalar": -1},
    {"Alpha_Selection": 1, "alpha_selection": 2}, {"alpha_selection": 2, "ALPHA_SELECTION ": 1},
    {"unknown_key": 3}, {"season": {"unknown": "x"}}, {"season": {"options": ["hot", "cold"]}},
]
HOURLY_TARGETED = [
    {"temperature_bin": None}, {"temperature_bin": {"method": "equal_bin_width", "n_bins": 5, "bin_width": None,
                                                    "include_edge_bins": False, "edge_bin_rate": None, "edge_bin_percent": None}},
    {"temperature_bin": {"method": "equal_sample_count", "n_bins": 5}}, {"temperature_bin": {"n_bins": 5}},
    {"temperature_bin": {"bin_width": None}}, {"temperature_bin": {"include_edge_bins": False}},
    {"temperature_bin": {"include_edge_bins": False, "edge_bin_rate": None, "edge_bin_percent": None}},
    {"temperature_bin": {"edge_bin_rate": 0.5}}, {"temperature_bin": {"edge_bin_rate": None}},
    {"elasticnet": {"adaptive_weights": True}}, {"elasticnet": {"adaptive_weights": True, "adaptive_weight_max_iter": 10, "adaptive_weight_tol": 0.0001}},
    {"elasticnet": {"adaptive_weight_max_iter": 10}}, {"temporal_cluster": {"wavelet_name": "DB3 "}},
    {"temporal_cluster": {"wavelet_name": "nowavelet"}}, {"temporal_cluster": {"wavelet_mode": "Symmetric"}},
    {"temporal_cluster": {"wavelet_mode": "nomode"}}, {"train_features": ["ghi"]}, {"train_features": ["GHI"]},
    {"Train_Features": ["ghi"]}, {"train_features": ["temperature"]}, {"train_features": ["x", "y"]}, {"train_features": []},
    {"train_features": None}, {"TRAIN_FEATURES ": ["ghi", "temperature"]},
]


def gen_multi(ap, run):
    cases = []
    rng = run.rng
    for fam in LOCKED:
        for t in TARGETED:
            for dm in ("absent", True):
                for ctor in FAMILY_CTORS[fam]:
                    cases.append({"stream": "multi", "ctor": ctor, "input": {"kind": "dict", "doc": merge(dm_doc(dm, True), t)},
                                  "meta": {"family": fam, "dm": dm, "input_kind": "dict", "claim": None}})
    for fam in HOURLY:
        for t in HOURLY_TARGETED:
            for ctor in FAMILY_CTORS[fam]:
                cases.append({"stream": "multi", "ctor": ctor, "input": {"kind": "dict", "doc": t},
                              "meta": {"family": fam, "dm": "absent", "input_kind": "dict", "claim": None}})
    # ways around the lock: a changed developer leaf together with every other spelling of "not developer mode"
    dodges = [{"silent_developer_mode": True}, {"developer_mode": False, "silent_developer_mode": True},
              {"developer_mode": "false"}, {"developer_mode": 0}, {"Developer_Mode ": " No "}, {"developer_mode": None},
              {"silent_developer_mode": "yes", "developer_mode": "off"}]
    for fam in LOCKED:
        for r in ap.rows[fam]:
            if not r["locked"]:
                continue
            if run.quick() and fam != "DailySettings" and rng.random() > 0.34:
                continue
            default = jsonable(r["default"])
            ch = [a for a in alts(r["domain"], default, opts=ap.options_of(fam, r["path"]))
                  if a[1] == "valid" and not peq(canon(a[0]), canon(default))]
            if not ch:
                continue
            v = rng.choice(ch)[0]
            for dg in dodges:
                ctor = rng.choice(FAMILY_CTORS[fam])
                cases.append({"stream": "multi", "ctor": ctor, "input": {"kind": "dict", "doc": merge(dg, nest(r["path"], v))},
                              "meta": {"family": fam, "dm": "dodge", "input_kind": "dict", "claim": None, "path": r["path"]}})
    n = run.n(600, 20000)
    fams = ts.TOP_CLASSES
    for _ in range(n):
        fam = rng.choice(fams)
        rows = ap.rows[fam]
        k = rng.choice([2, 2, 3, 4])
        doc = {}
        variant = rng.choice(VARIANTS + ["exact", "exact"])
        for r in rng.sample(rows, k):
            al = alts(r["domain"], jsonable(r["default"]), opts=ap.options_of(fam, r["path"]))
            good = [a for a in al if a[1] != "invalid"]
            v = rng.choice(good if (good and rng.random() < 0.85) else al)[0]
            doc = merge(doc, nest(r["path"], v, variant))
        dm = rng.choice([True, True, True, "absent", False]) if fam in LOCKED else "absent"
        doc = merge(dm_doc(dm, True), doc)
        ctor = rng.choice(FAMILY_CTORS[fam])
        tf = doc.get("train_features", None)
        if ctor["c"] == "HourlyModel" and not (tf is None or isinstance(tf, list)):
            ctor = FAMILY_CTORS[fam][0]
        cases.append({"stream": "multi", "ctor": ctor, "input": {"kind": "dict", "doc": doc},
                      "meta": {"family": fam, "dm": dm, "input_kind": "dict", "claim": None, "variant": variant}})
    return cases


def gen_names():
    cases = []
    for name in ["current", "default", "legacy", "Current", " DEFAULT ", "Leg acy", "LEGACY", "le_gacy", "other", "", "cur_rent", "legacy."]:
        for doc in (None, {"uncertainty_alpha": 0.25}, {"alpha_selection": 1}):
            inp = {"kind": "none"} if doc is None else {"kind": "dict", "doc": doc}
            cases.append({"stream": "names", "ctor": {"c": "DailyModel", "model": name}, "input": inp,
                          "meta": {"family": None, "input_kind": "dict", "claim": None}})
    return cases


MONTHS = ["january", "february", "march", "april", "may", "june", "july", "august", "september", "october", "november", "december"]
D17_DOC = {"season": dict({"options": ["hot", "cold"]}, **{m: ("hot" if i in (5, 6, 7, 8) else "cold") for i, m in enumerate(MONTHS)})}


def gen_stored(run):
    cases = []
    docs = [None, {"uncertainty_alpha": 0.25}, {"season": {"march": "winter"}, "weekday_weekend": {"friday": "weekend"}},
            {"developer_mode": True, "silent_developer_mode": True, "alpha_selection": 1, "split_selection": {"criteria": "aic"}},
            {"developer_mode": True, "silent_developer_mode": True}, {" Uncertainty_Alpha ": 0.5}]
    for ctor in ({"c": "DailyModel", "model": "current"}, {"c": "DailyModel", "model": "legacy"}, {"c": "BillingModel"},
                 {"c": "BillingWeightedModel"}):
        for d in docs:
            inp = {"kind": "none"} if d is None else {"kind": "dict", "doc": d}
            cases.append({"stream": "stored", "ctor": ctor, "input": inp, "meta": {"input_kind": "dict", "claim": None}})
    return cases


def gen_oracle_only(ap, run):
    cases = []
    for fam in LOCKED:
        for r in ap.rows[fam]:
            dom, default = r["domain"], jsonable(r["default"])
            extra = []
            if dom["b"] in ("BFloat", "BInt", "BFloatOrLit"):
                d = default if isinstance(default, (int, float)) and not isinstance(default, bool) else 1
                extra += [str(d + 1), " %s " % (d + 1), "__float__:nan", "__float__:inf", "__float__:-inf", "1e1"]
            if dom["b"] in ("BListFloat", "BListStr", "BListAny"):
                extra += [("__tuple__",)]
            for v in extra:
                for dm in ("absent", True):
                    val = (1.0, 2.0) if v == ("__tuple__",) else v
                    doc = merge(dm_doc(dm, True), nest(r["path"], val))
                    cases.append({"stream": "oracle", "ctor": FAMILY_CTORS[fam][0], "input": {"kind": "dict", "doc": doc},
                                  "meta": {"family": fam, "path": r["path"], "dm": dm, "input_kind": "dict", "claim": None}})
    for v in ("ghi", True, 3, {"ghi": 1}):
        cases.append({"stream": "oracle", "ctor": {"c": "HourlyModel"}, "input": {"kind": "dict", "doc": {"train_features": v}},
                      "meta": {"family": "BaseHourlySettings", "input_kind": "dict", "claim": None}})
    return cases


# ------------------------------------------------------------------ the property oracle (statement, literally)

def sig_ctor(ctor):
    return ctor["c"] if ctor["c"] != "class" else "settings class"


def oracle(ap, case, obs):
    """-> [(signature, message)]"""
    fails = []
    ctor, meta = case["ctor"], case["meta"]
    s0 = {"call": sig_ctor(ctor)}
    if obs["kind"] == "ok":
        cls = obs["cls"]
        dump = obs["dump"]
        # (1) constructed without arguments: exactly the approved constants
        if meta.get("noarg"):
            want_cls = meta["family"]
            if cls != want_cls:
                fails.append((dict(s0, broken="default", field="<settings class>", family=want_cls),
                              "%s builds %s, the approved family is %s" % (meta.get("label", cls), cls, want_cls)))
            rows = ap.rows.get(want_cls, [])
            have = {tuple(p) for p, _ in flat_paths(dump)}
            for r in rows:
                if r.get("excluded"):
                    continue
                got = get_path(dump, r["path"])
                if got is KeyError:
                    if tuple(r["path"]) != ("silent_developer_mode",):
                        fails.append((dict(s0, broken="default", field=".".join(r["path"]), family=want_cls),
                                      "approved constant %s is missing from the settings" % ".".join(r["path"])))
                elif not peq(got, r["default"]):
                    fails.append((dict(s0, broken="default", field=".".join(r["path"]), family=want_cls),
                                  "%s: default %s is %r, approved %r" % (want_cls, ".".join(r["path"]), jsonable(got), jsonable(r["default"]))))
            extra = have - {tuple(r["path"]) for r in rows}
            for p in sorted(extra):
                fails.append((dict(s0, broken="default", field=".".join(p), family=want_cls),
                              "%s has a setting %s that is not in the approved list" % (want_cls, ".".join(p))))
        # (2) the lock: accepted without developer mode => every approved developer-only constant is untouched
        rows = ap.rows.get(cls)
        if rows and any(r["locked"] for r in rows) and dump.get("developer_mode") is not True:
            for r in rows:
                if not r["locked"]:
                    continue
                got = get_path(dump, r["path"])
                if got is KeyError or not peq(got, r["default"]):
                    fails.append((dict(s0, broken="lock", field=".".join(r["path"]), family=cls, input=meta.get("input_kind")),
                                  "developer-only %s = %r accepted without developer_mode=True (approved %r)"
                                  % (".".join(r["path"]), None if got is KeyError else jsonable(got), jsonable(r["default"]))))
        # (3) / (4)
        if meta.get("claim") == "invalid":
            fails.append((dict(s0, broken="invalid accepted", field=".".join(meta["path"]), family=meta["family"], why=meta.get("why")),
                          "invalid value %r for %s accepted (%s)" % (meta.get("value"), ".".join(meta["path"]), meta.get("why"))))
        if meta.get("claim") == "open-valid" and not meta.get("excluded"):
            got = get_path(dump, meta["path"])
            if got is KeyError or not peq(got, canon(meta["expect_value"])):
                fails.append((dict(s0, broken="open field not applied", field=".".join(meta["path"]), family=meta["family"],
                                   key_variant=meta.get("variant")),
                              "non-developer %s = %r accepted but the settings hold %r"
                              % (".".join(meta["path"]), meta.get("value"), None if got is KeyError else jsonable(got))))
    elif obs["kind"] == "err":
        if meta.get("noarg"):
            fails.append((dict(s0, broken="default", field="<construction>", family=meta["family"]),
                          "construction without arguments raised %s" % obs["cls"]))
        if meta.get("claim") == "open-valid":
            fails.append((dict(s0, broken="open field rejected", field=".".join(meta["path"]), family=meta["family"],
                               key_variant=meta.get("variant")),
                          "valid non-developer %s = %r rejected (%s)" % (".".join(meta["path"]), meta.get("value"), obs["cls"])))
    return fails


def flat_paths(d, pre=()):
    out = []
    for k, v in d.items():
        if isinstance(v, dict):
            out += flat_paths(v, pre + (k,))
        else:
            out.append((pre + (k,), v))
    return out


def oracle_stored(case, obs):
    fails = []
    ctor = case["ctor"]
    call = ctor["c"]
    profile = ctor.get("model", "")
    if obs["kind"] != "ok" or "stored" not in obs:
        if "store_error" in obs:
            fails.append(({"call": call + ".to_dict", "broken": "store failed"}, "to_dict/to_json raised %s" % obs["store_error"]))
        return fails
    built = obs["dump"]
    d = pdiff(obs["stored"], built)
    family = "billing" if call.startswith("Billing") else "daily"
    for p, v in d:
        fails.append(({"call": call + ".to_dict", "broken": "recorded != built", "field": ".".join(p), "profile": profile,
                       "family": family},
                      "%s: recorded %s = %r, the model was built with %r" % (call, ".".join(p), jsonable(v), jsonable(get_path(built, p)))))
    if not obs.get("stored_json_same", True):
        fails.append(({"call": call + ".to_json", "broken": "to_json != to_dict"}, "to_json and to_dict record different settings"))
    rl = obs["reload"]
    if rl["kind"] == "err":
        fails.append(({"call": call + ".from_json", "broken": "reload rejected", "profile": profile, "raised": rl["cls"],
                       "reason": rl["reason"]},
                      "%s(model=%r): the stored model cannot be reloaded: %s %s" % (call, profile, rl["cls"], rl["msg"][:120])))
    else:
        for p, v in pdiff(rl["dump"], built):
            fails.append(({"call": call + ".from_json", "broken": "reloaded != built", "field": ".".join(p), "profile": profile,
                           "family": family},
                          "%s: after reload %s = %r, built with %r" % (call, ".".join(p), jsonable(v), jsonable(get_path(built, p)))))
    return fails


HOURLY_STORED_DOCS = [
    None,
    {"train_features": ["temperature"], "supplemental_time_series_columns": ["occupancy"], "seed": 7},
    {"cvrmse_threshold": 2.5, "Elasticnet": {"ALPHA": 0.5}},
    {"train_features": ["temperature"], "seed": 7},
    {"supplemental_time_series_columns": ["occupancy"]},
    {"temperature_bin": {"bin_width": 8}, "scaling_method": " RobustScaler "},
    {"train_features": ["temperature", "occupancy"], "supplemental_time_series_columns": ["occupancy", "absent_column"]},
    {"temporal_cluster": {"recluster_count": 2}, "min_daily_training_hours": 10},
]
# (settings class, kwargs): one settings object handed to two models in a row, as a caller running many meters does
HOURLY_STORED_OBJECTS = [
    ("HourlyNonSolarSettings", {"train_features": ["temperature"], "supplemental_time_series_columns": ["occupancy"], "seed": 7}),
    ("BaseHourlySettings", {"train_features": ["temperature"], "supplemental_time_series_columns": ["occupancy"]}),
    ("BaseHourlySettings", {"supplemental_time_series_columns": ["occupancy"]}),
]


def hourly_frame_with_supplement(seed):
    import random
    import numpy as np
    import fitlib
    df = fitlib.hourly_frame(random.Random(seed), ndays=120)
    hour = df.index.hour.to_numpy()
    occ = ((hour >= 8) & (hour <= 18) & (df.index.dayofweek.to_numpy() < 5)).astype(float)
    df["occupancy"] = occ + np.random.default_rng(seed).normal(0, 0.05, len(df))
    df["observed"] = df["observed"] + 0.5 * occ
    return df


def settings_fixed_at_construction(built, later):
    """differences a fit / store / reload may NOT make to the settings a model was built with.  The one documented
    exception: train_features=None is filled with the default features at fit time (settings.add_default_features)."""
    return [(p_, v) for p_, v in pdiff(later, built)
            if not (p_ == ["train_features"] and built.get("train_features") is None)]


def hourly_stored(run, impl, only=None):
    """real hourly fits (about 0.5 s each) on data that carries a supplemental time-series column: the settings a
    fitted HourlyModel holds, records (to_dict) and gives back (from_json) are the ones it was built with, and a
    settings object handed in by the caller is left as it was (the model does not cover fit: oracle only)"""
    import fitlib
    data = fitlib.hourly_baseline(hourly_frame_with_supplement(run.seed % 100000))
    jobs = [("dict", None, doc) for doc in HOURLY_STORED_DOCS[:run.n(4, len(HOURLY_STORED_DOCS))]]
    for cls, kw in HOURLY_STORED_OBJECTS[:run.n(2, len(HOURLY_STORED_OBJECTS))]:
        jobs.append(("object", cls, kw))
    if only is not None:          # --replay of one hourly_stored case
        jobs = [only]
    for kind, cls, doc in jobs:
        case = {"stream": "hourly_stored", "ctor": {"c": "HourlyModel"},
                "input": ({"kind": "none"} if doc is None else {"kind": "dict", "doc": doc}) if kind == "dict"
                else {"kind": "obj", "cls": cls, "doc": doc}, "meta": {"claim": None}}
        run.count(vlib.sha(["hourly_stored", kind, cls, doc]), True)
        run.dist("stream", "hourly_stored")
        rounds = []
        try:
            with contextlib.redirect_stdout(io.StringIO()):
                caller = impl.cls[cls](**materialise(impl, doc)) if kind == "object" else None
                caller_built = canon(caller.model_dump()) if caller is not None else None
                for _ in range(2 if kind == "object" else 1):      # the same settings object for a second model
                    m = impl.HourlyModel(settings=caller) if kind == "object" else (
                        impl.HourlyModel() if doc is None else impl.HourlyModel(settings=materialise(impl, doc)))
                    built = canon(m.settings.model_dump())
                    m.fit(data, ignore_disqualification=True)
                    d = m.to_dict()
                    used = list(d.get("ts_features") or [])
                    held = canon(m.settings.model_dump())
                    rec = canon(d["settings"])
                    back = canon(impl.HourlyModel.from_json(m.to_json()).settings.model_dump())
                    rounds.append((built, held, rec, back, used, canon(caller.model_dump()) if caller is not None else None))
        except Exception as e:
            run.violation({"call": "HourlyModel.to_json/from_json", "broken": "store or reload failed", "raised": type(e).__name__},
                          "C14: a fitted HourlyModel could not be stored and reloaded: %s: %s" % (type(e).__name__, str(e)[:150]),
                          case=case, generator="c14.hourly_stored")
            continue
        sup = (doc or {}).get("supplemental_time_series_columns") or []
        run.dist("hourly_stored", "%s input, supplemental column %s" % (kind, "used by fit" if any(c in rounds[0][4] for c in sup) else "none"))
        for rnd, (built, held, rec, back, used, caller_now) in enumerate(rounds):
            checks = [("HourlyModel.fit", "settings changed by fit", held, "after fit model.settings holds"),
                      ("HourlyModel.to_dict", "recorded != built", rec, "to_dict records"),
                      ("HourlyModel.from_json", "reloaded != built", back, "after reload the settings hold")]
            if caller_now is not None:
                checks.append(("HourlyModel.fit", "caller's settings object changed", caller_now, "the caller's settings object holds"))
            for call, broken, later, words in checks:
                ref = caller_built if broken.startswith("caller") else built
                for p_, v in settings_fixed_at_construction(ref, later):
                    run.violation({"call": call, "broken": broken, "field": ".".join(p_), "family": "hourly", "input": kind},
                                  "C14: HourlyModel built with %s = %r (%s input%s): %s %r"
                                  % (".".join(p_), jsonable(get_path(ref, p_)), kind, ", second model from the same object" if rnd else "",
                                     words, jsonable(v)),
                                  case=case, observation={"built": jsonable(ref), "later": jsonable(later), "ts_features": used},
                                  generator="c14.hourly_stored")
            if rnd and caller_built is not None:
                for p_, v in pdiff(built, caller_built):
                    run.violation({"call": "HourlyModel", "broken": "second model built from altered settings", "field": ".".join(p_),
                                   "family": "hourly", "input": kind},
                                  "C14: the second model built from the caller's settings object starts with %s = %r, the caller constructed %r"
                                  % (".".join(p_), jsonable(v), jsonable(get_path(caller_built, p_))),
                                  case=case, generator="c14.hourly_stored")


def confirm_unusable_season(impl, doc):
    """D17: the constructor accepts season names the fitting code cannot use; show that fit dies (cheap: up to the
    first component fit on a synthetic year)"""
    import random
    import fitlib
    df = fitlib.daily_frame(random.Random(1))
    data = fitlib.daily_baseline(df)
    try:
        with contextlib.redirect_stdout(io.StringIO()):
            m = impl.DailyModel(settings=materialise(impl, doc))
            m.df_meter, _ = m._initialize_data(data.df)
            m.combinations = m._combinations()
            m.components = m._components()
            m.fit_components = m._fit_components()
        return None
    except Exception as e:
        return "%s: %s" % (type(e).__name__, str(e)[:120])


# ------------------------------------------------------------------ main

def process(run, impl, ap, cases, defaults):
    by_stream = {}
    for case in cases:
        st = case["stream"]
        if st == "stored":
            obs = run_stored(impl, case["ctor"], case["input"])
        else:
            obs, _ = run_impl(impl, case["ctor"], case["input"])
        case["obs"] = obs
        doc = case["input"].get("doc") or {}
        key = vlib.sha([case["ctor"], case["input"]])
        if obs["kind"] == "inner":
            run.count(key, False)
            run.dist("outcome", "inner construction failed (skipped)")
            continue
        run.count(key, nontrivial=bool(doc))
        run.dist("stream", st)
        run.dist("outcome", "accepted" if obs["kind"] == "ok" else obs["reason"])
        if case["meta"].get("tag"):
            run.dist("alternative", case["meta"]["tag"])
        if case["meta"].get("variant"):
            run.dist("key_variant", case["meta"]["variant"])
        run.dist("constructor", sig_ctor(case["ctor"]))
        run.dist("developer_mode", str(case["meta"].get("dm")))
        fails = oracle(ap, case, obs)
        if st == "stored":
            fails += oracle_stored(case, obs)
        for sig, msg in fails:
            run.violation(sig, "C14: " + msg, case={"stream": st, "ctor": case["ctor"], "input": case["input"], "meta": case["meta"]},
                          observation=jsonable(obs), generator="c14." + st)
        if st == "oracle" or not in_alphabet(doc):
            continue
        ex = cexpect(obs, defaults)
        if ex is None:
            run.corr_failures.append({"stream": st, "case": jsonable(case), "model": "outcome outside the model's alphabet"})
            continue
        if st == "stored":
            if "stored" not in obs:
                continue
            sdiff = cdiff(pdiff(obs["stored"], defaults[obs["cls"]]))
            rex = cexpect(obs["reload"], defaults)
            term = "(%s, %s, %s, %s)" % (cctor(case["ctor"]), cinput(case["input"]), sdiff, rex)
        else:
            term = "(%s, %s, %s)" % (cctor(case["ctor"]), cinput(case["input"]), ex)
        by_stream.setdefault(st, []).append((term, case))
        if obs["kind"] == "ok" and doc and st in ("single", "object", "multi"):
            run.sample({"stream": st, "ctor": case["ctor"], "input": jsonable(case["input"]), "accepted_as": obs["cls"],
                        "dump_minus_defaults": jsonable(pdiff(obs["dump"], defaults[obs["cls"]]))}, limit=5)
    for st, lst in by_stream.items():
        fn, ty = ("check_stored reg", STORED_T) if st == "stored" else ("check_case reg", CASE_T)
        bad = run.coq_cases(st, IMPORTS, shared_prelude(), [t for t, _ in lst], fn, shard=400, case_type=ty)
        if bad is None:
            run.proof_ok = False
            continue
        for i in bad[:8]:
            _, case = lst[i]
            shown = run.coq_eval(IMPORTS, shared_prelude(), "show reg %s %s" % (cctor(case["ctor"]), cinput(case["input"])))
            run.corr_failures.append({"stream": st, "case": jsonable({k: case[k] for k in ("ctor", "input", "meta")}),
                                      "impl": jsonable(case["obs"]), "model": shown[-1500:]})
            run.log("disagreement [%s] %s %s\n   impl: %s\n   model: %s" % (
                st, case["ctor"], json.dumps(jsonable(case["input"]))[:300], json.dumps(jsonable(case["obs"]))[:400], shown[-600:]))
        for i in bad[8:]:
            run.corr_failures.append({"stream": st, "case": jsonable({k: lst[i][1][k] for k in ("ctor", "input")})})


def check_default_dumps(run, defaults):
    terms = ["(%s, %s)" % (cstr(c), cjv(jsonable_keep(d))) for c, d in defaults.items()]
    bad = run.coq_cases("default_dumps", IMPORTS, shared_prelude(), terms, "check_default reg", shard=50, case_type="(string * jv)%type")
    if bad is None:
        run.proof_ok = False
        return
    names = list(defaults)
    for i in bad:
        run.corr_failures.append({"stream": "default_dumps", "case": {"class": names[i]}, "impl": jsonable(defaults[names[i]]),
                                  "model": run.coq_eval(IMPORTS, shared_prelude(), "show reg (CClass %s) InNone" % cstr(names[i]))[-1500:]})


def jsonable_keep(v):
    """canonical value with Fractions kept (cjv handles them)"""
    return v


def main():
    run = Run("C14")
    run.cov["rule"] = ("exhaustive over every leaf of the six settings trees (daily, legacy, billing, hourly base/solar/non-solar: "
                       "field list from the frozen approved file) x alternative values derived from the field's domain (valid, "
                       "boundary +-, lax-coercible, invalid type/range/enum, None) x developer_mode absent/False/True x key "
                       "case/whitespace variants x constructor (settings class, DailyModel, BillingModel, BillingWeightedModel, "
                       "HourlyModel); nested settings objects of the declared / a sub / a foreign class; targeted and random "
                       "2-4 field combinations; model-name spellings; build->to_json->from_json. distinct = hash(constructor, input); "
                       "non-trivial = a non-empty override document")
    run.assumptions += [
        "alphabet of the model: JSON values with ASCII strings and finite numbers; numeric strings for numeric fields, tuples, "
        "NaN/inf go through the property oracle only (stream 'oracle')",
        "pydantic's lax coercions, validator order and error aggregation are re-specified in Model/Settings.v and tied by "
        "the correspondence only",
        "the stored-model path is exercised without running the optimiser (fit state faked, the real "
        "_create_params_from_fit_model/to_dict/to_json/from_json run)",
        "correspondence is sampled where it is not exhaustive (random multi-field stream)",
    ]
    run.cov["trusted_base"] += ["harness/translate_settings.py (pydantic introspection; output sampled into the evidence)",
                                "harness/c14.py (generator, adapter, canonicalisation, oracle)",
                                "/verif/approved_settings.json (frozen transcription of the approved constants and domains)",
                                "pydantic semantics re-specified in Model/Settings.v",
                                "Model/SettingsProg.v: semantics of the statement language the daily-family validator bodies are "
                                "compiled into (python truthiness, None/float/str tests, numeric comparison, indexing, prefix slice)"]
    info = None
    translator_error = None
    try:
        info = ts.generate(run)
        run.cov["validator_programs"] = info.get("programs", {})
        run.cov["translator"] = {"classes": {n: [f["name"] for f in c["fields"]] for n, c in info["classes"].items()},
                                 "validators": {n: [v["py"] for v in c["validators"]] for n, c in info["classes"].items()}}
    except Exception as e:   # fail-closed: a source the translator does not understand is a broken tie
        translator_error = "%s: %s" % (type(e).__name__, e)
        run.log("TRANSLATOR FAILED: " + translator_error)
    ap = Approved(ts.load_approved())
    words = list(ts.TOP_CLASSES) + NESTED_CLASSES
    for rows in ap.rows.values():
        for r in rows:
            words += r["path"] + list(r["domain"].get("vals", []))
            words += [x for x in ([r["default"]] if isinstance(r["default"], str) else
                                  r["default"] if isinstance(r["default"], list) else []) if isinstance(x, str)]
    set_shared(words + ["developer_mode", "silent_developer_mode", "current", "legacy"])
    # the theorems are re-checked in any case; when the translator failed they can only be checked against the trees of
    # the last successful translation, the tie is broken and the run cannot pass (said so in the evidence)
    run.check_proofs("Properties/C14.v", ["Proofs/SettingsProofs.v", "Proofs/SettingsGenProofs.v"], generated=["Generated/SettingsGen.v"])
    if translator_error is not None:
        run.proof_ok = False
        run.proof_log += "\ntranslator failed (broken tie): " + translator_error
        run.cov["translator"] = {"failed": translator_error,
                                 "note": "theorems re-checked against the previously generated trees only; correspondence not run"}
    else:
        run.ensure_models(["Model/SettingsRun.v", "Model/CasesLib.v", "Generated/SettingsGen.v"])
    impl = Impl()
    defaults = {}
    for c in ts.TOP_CLASSES:
        try:
            defaults[c] = canon(impl.cls[c]().model_dump())
        except Exception as e:
            run.log("default construction of %s failed: %s" % (c, e))
    cases = []
    if run.replay:
        rep = json.load(open(run.replay))
        if rep["case"]["stream"] == "hourly_stored":
            i = rep["case"]["input"]
            hourly_stored(run, Impl(), only=("object", i["cls"], i["doc"]) if i["kind"] == "obj" else ("dict", None, i.get("doc")))
        else:
            cases.append({"stream": rep["case"]["stream"], "ctor": rep["case"]["ctor"], "input": rep["case"]["input"],
                          "meta": rep["case"].get("meta", {"claim": None})})
    else:
        corpus = os.path.join(vlib.VERIF, "corpus", "C14.json")
        if os.path.exists(corpus):
            for c in json.load(open(corpus)):
                cases.append({"stream": c["stream"], "ctor": c["ctor"], "input": c["input"], "meta": c.get("meta", {"claim": None})})
        cases += gen_defaults(ap)
        cases += gen_single(ap, run)
        if info is not None:
            cases += gen_object(ap, info, run)
        cases += gen_multi(ap, run)
        cases += gen_names()
        cases += gen_stored(run)
        cases += gen_oracle_only(ap, run)
    run.log("%d cases" % len(cases))
    if info is None:     # no model to compare with: oracle only
        for c in cases:
            c["stream"] = "oracle" if c["stream"] != "stored" else "stored"
    if info is not None and not run.replay:
        check_default_dumps(run, defaults)
    process(run, impl, ap, cases, defaults)
    if not run.replay:
        hourly_stored(run, impl)
    # D17 (season names the fit cannot use): confirm on the real fitting code that the accepted settings are unusable
    if not run.replay:
        obs, _ = run_impl(impl, {"c": "DailyModel", "model": "current"}, {"kind": "dict", "doc": D17_DOC})
        if obs["kind"] == "ok":
            why = confirm_unusable_season(impl, D17_DOC)
            run.count("d17", True)
            if why is not None:
                run.violation({"call": "DailyModel", "broken": "invalid accepted", "field": "season.options",
                               "why": "season names other than summer/shoulder/winter", "fit": why.split(":")[0]},
                              "C14: season option names %r are accepted at construction but fitting dies with %s"
                              % (D17_DOC["season"]["options"], why),
                              case={"stream": "multi", "ctor": {"c": "DailyModel", "model": "current"},
                                    "input": {"kind": "dict", "doc": D17_DOC}, "meta": {"claim": None}},
                              observation=jsonable(obs), generator="c14.d17")
    run.finish()


if __name__ == "__main__":
    vlib.run_main(main, "C14")
