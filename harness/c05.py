"""C05 — the counterfactual never depends on reporting-period consumption.
Models: coq/Model/HourlyFlow.v (hourly pipeline, DST stages of Model/Dst.v), Model/Rows.v (daily / billing row
pipeline), Model/CounterfactualFlows.v (relations, CalTRACK flow); theorems: coq/Properties/C05.v;
tie: paired runs (this file).

Streams
  daily    synthetic daily / billing models (synth_daily) x reporting frames x usage alterations
           {orig, scaled, negated (x -1.5 + 0.25), shuffled, 30 % NaN, 30 % exactly 0, x 0, all NaN, dropped}, electricity and gas: implementation vs Model/Rows.v (row by row, in Coq)
           AND pairwise (oracle)
  fit      one really fitted daily and one billing model through the public data classes: pairwise
  hourly   really fitted HourlyModel (non-solar and solar), reloaded from JSON for every run: pairwise + outcome and
           equality pattern against Model/HourlyFlow.v (in Coq); paths: public data class / usage injected into the
           data object; model use: fresh / reused (the same object predicts another set first); fitted table complete /
           truncated (guard of the statement not met: reported as out-of-guard, never as a violation)
  caltrack really fitted CalTRACK hourly model: pairwise
Oracle (property text): every timestamp predicted in both runs of a pair has the bit-identical prediction; a run that
predicts on one side and raises on the other is a violation."""
import contextlib
import io
import json
import logging
import os
import random
import warnings
from fractions import Fraction

import numpy as np
import pandas as pd

import fitlib as fl
import synth_daily as sd
import vlib
from vlib import Run, zlit, qlit, coq_list, coq_bool

warnings.simplefilter("ignore")
logging.disable(logging.CRITICAL)

IMPORTS = ("From Coq Require Import QArith.\nFrom V Require Import Model.Dst Model.DstRun Model.Rows Model.RowsRun "
           "Model.HourlyFlow Model.CounterfactualFlows Model.CounterfactualRun.")
ALTS = ["orig", "scaled", "negated", "shuffled", "nan30", "zeros30", "times0", "allnan", "dropped"]
SUBHOURLY_ALTS = ALTS + ["altnan"]
HZONES = ["US/Pacific", "US/Eastern", "Europe/Berlin", "Australia/Sydney", "UTC", "Asia/Kolkata"]
# (zone, month-day of a clock change in 2022) used to aim reporting windows at short / long days
DST_DATES = {"US/Pacific": ["03-13", "11-06"], "US/Eastern": ["03-13", "11-06"], "Europe/Berlin": ["03-27", "10-30"],
             "Australia/Sydney": ["04-03", "10-02"]}
DST_POLICIES = {0: "count_rows = false (23/25-hour days found from the number of non-null observed cells: unchanged code)",
                1: "count_rows = true (23/25-hour days found from the number of rows)"}


# ------------------------------------------------------------------ alterations of the usage column

def alter(fr, name, seed):
    """fr: DataFrame with 'observed'; returns the altered copy (None column = dropped)"""
    r = np.random.default_rng(seed)
    a = fr.copy()
    if name == "orig":
        return a
    if name == "scaled":
        a["observed"] = a["observed"] * [0.5, 3.0, 7.25, 0.125][seed % 4]
    elif name == "negated":          # net-metered usage: sign and level change
        a["observed"] = a["observed"] * -1.5 + 0.25
    elif name == "shuffled":
        a["observed"] = r.permutation(a["observed"].to_numpy())
    elif name == "nan30":
        a.loc[r.random(len(a)) < 0.3, "observed"] = np.nan
    elif name == "zeros30":          # some readings replaced by exactly 0
        a.loc[(r.random(len(a)) < 0.3) & a["observed"].notna().to_numpy(), "observed"] = 0.0
    elif name == "times0":           # the whole column rescaled by 0
        a["observed"] = a["observed"] * 0.0
    elif name == "altnan":           # a block of days in which every reading off the full hour is blank
        off = a.index.minute != 0
        third = len(a) // 3
        blk = np.zeros(len(a), dtype=bool)
        blk[third:2 * third] = True
        a.loc[off & blk, "observed"] = np.nan
    elif name == "allnan":
        a["observed"] = np.nan
    elif name == "dropped":
        a = a.drop(columns=["observed"])
    else:
        raise ValueError(name)
    return a


WEATHER_COLS = ["temperature", "ghi"]


def subhourly(rep, minutes, seed):
    """the same period as a sub-hourly feed (30- or 15-minute rows): weather interpolated in time, usage split evenly"""
    idx = pd.date_range(rep.index[0], rep.index[-1] + pd.Timedelta(minutes=60 - minutes), freq="%dmin" % minutes)
    out = rep.reindex(idx)
    for c in out.columns:
        if c == "observed":
            out[c] = (rep[c] / (60 // minutes)).reindex(idx).ffill()
        else:
            out[c] = out[c].interpolate(method="time").ffill()
    r = np.random.default_rng(seed)
    out["observed"] = np.round(out["observed"] * (1 + 0.1 * r.standard_normal(len(out))), 4)
    return out


def add_duplicates(rep, seed, n=12, drop_hours=0):
    """meter and weather feeds concatenated without a join: n time stamps occur twice and the two records differ in which
    cells are NaN — first record {usage only | weather only | all NaN}, later record the complement
    {weather only | usage only | complete}.  drop_hours: that many stamps are removed altogether (a gap in the index)."""
    r = np.random.default_rng(seed)
    wcols = [c for c in WEATHER_COLS if c in rep.columns]
    pos = sorted(int(i) for i in r.choice(len(rep), size=min(n + drop_hours, len(rep)), replace=False))
    gone, pos = pos[:drop_hours], pos[drop_hours:]
    first, later = [], []
    for k, i in enumerate(pos):
        a, b = rep.iloc[[i]].copy(), rep.iloc[[i]].copy()
        if k % 3 == 0:
            a[wcols] = np.nan
            b["observed"] = np.nan
        elif k % 3 == 1:
            a["observed"] = np.nan
            b[wcols] = np.nan
        else:
            a[wcols] = np.nan
            a["observed"] = np.nan
        first.append(a)
        later.append(b)
    body = rep.drop(rep.index[pos + gone])
    return pd.concat([body] + first + later).sort_index(kind="stable")


def bits(x):
    return np.asarray(x, dtype=np.float64).view(np.int64)


def compare(a, b, presence=False):
    """a, b: observations {"ok": bool, "ts": [...], "pred": np.array} -> (same, symptom, detail).
    presence=True (hourly families: a prediction does not need a usage reading): an instant that is in both outputs and
    carries a prediction in one of them only is a lost / gained prediction"""
    if not a["ok"] and not b["ok"]:
        return True, None, None
    if a["ok"] != b["ok"]:
        bad = b if a["ok"] else a
        return False, "raises-on-one-side", {"raised": bad["err"], "msg": bad.get("msg")}
    ia = {t: i for i, t in enumerate(a["ts"])}
    na, nb = a["pred"], b["pred"]
    ta, tb = a.get("temp"), b.get("temp")
    n_both = 0
    for j, t in enumerate(b["ts"]):
        i = ia.get(t)
        if i is None:
            continue
        x, y = na[i], nb[j]
        if presence and ((x != x) != (y != y)):
            return False, "prediction-lost", {"ts": int(t), "a": None if x != x else float(x), "b": None if y != y else float(y),
                                               "predicted_a": int(np.isfinite(na).sum()), "predicted_b": int(np.isfinite(nb).sum())}
        if x != x or y != y:
            continue
        n_both += 1
        if ta is not None and tb is not None and bits(ta[i]) != bits(tb[j]):
            # the weather the data object hands to the model for a stamp predicted in both runs
            return False, "weather-differs", {"ts": int(t), "temperature_a": float(ta[i]), "temperature_b": float(tb[j]),
                                              "predicted_a": float(x), "predicted_b": float(y)}
        if bits(x) != bits(y):
            return False, "value-differs", {"ts": int(t), "a": float(x), "b": float(y), "rel": abs(x - y) / max(1e-300, abs(x))}
    return True, None, {"n_both": n_both}


def observe(call):
    try:
        out = call()
    except Exception as e:  # noqa
        return {"ok": False, "err": type(e).__name__, "msg": str(e)[:120]}
    return {"ok": True, "ts": sd.index_seconds(out.index), "pred": out["predicted"].to_numpy(dtype=float), "frame": out}


def pairwise(run, family, obs, sig_extra, case, classify=None, guard_ok=True, presence=False):
    """the property oracle on every pair of variants; returns number of pairs compared"""
    names = list(obs)
    n = 0
    reported = set()
    for i in range(len(names)):
        for j in range(i + 1, len(names)):
            a, b = names[i], names[j]
            same, symptom, detail = compare(obs[a], obs[b], presence=presence)
            n += 1
            run.dist("pair_result/" + family, "identical" if same else symptom)
            if same:
                continue
            if not guard_ok:
                run.dist("out_of_guard", "%s differs (statement's guard not met)" % family)
                continue
            cause = classify(a, b) if classify else "unexplained"
            sig = dict(sig_extra, family=family, symptom=symptom, cause=cause)
            if vlib.sha(sig) in reported:
                continue
            reported.add(vlib.sha(sig))
            run.violation(sig, "C05 %s: usage %s vs %s: %s (%s)" % (family, a, b, symptom, cause),
                          case=dict(case, pair=[a, b]), observation=detail,
                          expected="every timestamp predicted in both runs has the bit-identical prediction; "
                                   "both runs predict or both raise" + ("; an instant of both outputs is predicted in both or in neither" if presence else ""),
                          generator="c05")
    return n


# ================================================================== daily / billing, synthetic models

def gen_daily_case(rng, k):
    kind = "daily" if rng.random() < 0.55 else "billing"
    stream = "class" if (rng.random() < 0.3 and kind == "daily") else "injected"
    n = rng.choice([1, 2, 3, 7, 20, 45, 90] if stream == "injected" else [20, 45, 90])
    if k % 23 == 0:
        n = 250
    start = (pd.Timestamp("2019-01-01") + pd.Timedelta(days=rng.randrange(0, 2000))).strftime("%Y-%m-%d")
    return {"stream": "daily", "model": kind, "path": stream, "tz": rng.choice(sd.ZONES[:5]), "start": start, "n": n,
            "p_tnan": rng.choice([0.0, 0.0, 0.05, 0.3]), "p_tinf": rng.choice([0.0, 0.0, 0.03]) if stream == "injected" else 0.0,
            "p_onan": rng.choice([0.0, 0.0, 0.1]), "electric": rng.random() < 0.5, "seed": rng.randrange(2**31)}


def build_daily(case):
    rng = random.Random(case["seed"])
    subs = sd.gen_submodels(rng)
    with contextlib.redirect_stdout(io.StringIO()):
        model = sd.build_model(case["model"], subs, case["tz"])
    n = case["n"]
    idx = sd.local_midnights(case["start"], n, case["tz"])
    temp, obs = [], []
    for _ in range(n):
        u = rng.random()
        if u < case["p_tnan"]:
            temp.append(float("nan"))
        elif u < case["p_tnan"] + case["p_tinf"]:
            temp.append(float("inf") if rng.random() < 0.5 else float("-inf"))
        else:
            temp.append(float(sd.dy(rng, -40, 120, 4)))
        obs.append(float("nan") if rng.random() < case["p_onan"] else float(sd.dy(rng, 1, 200, 8)))
    fr = pd.DataFrame({"observed": obs, "temperature": temp}, index=idx, dtype=float)
    return model, subs, fr


def daily_data(case, fr):
    has = "observed" in fr.columns
    if case["path"] == "injected":
        return sd.inject(case["model"], sd.layout(fr, has), case["tz"])
    return sd.data_classes(case["model"])(fr, is_electricity_data=bool(case.get("electric", False)))


def cell(v):
    v = float(v)
    if v != v:
        return "qNaN"
    if v == float("inf"):
        return "qPInf"
    if v == float("-inf"):
        return "qNInf"
    return "(qV %s)" % qlit(Fraction(v))


def coq_pl(i, s):
    return "(mkpl %s %s %s %s %s %s)" % (zlit(i), qlit(s["intercept"]), qlit(s["hdd_bp"]), qlit(s["hdd_beta"]),
                                         qlit(s["cdd_bp"]), qlit(s["cdd_beta"]))


def run_daily_case(run, case, terms, meta):
    model, subs, fr = build_daily(case)
    smap, dmap = sd.season_maps(model)
    obs, groups = {}, {}
    for name in ALTS:
        a = alter(fr, name, case["seed"] % 1000 + ALTS.index(name))
        try:
            data = daily_data(case, a)
        except Exception as e:  # the data class refused the input
            run.dist("daily_data_class", "refused: " + type(e).__name__)
            continue
        df_in = data.df
        o = observe(lambda: model.predict(data))
        obs[name] = o
        run.count((vlib.sha(case), name), nontrivial=len(df_in) > 0 and bool(np.isfinite(df_in["temperature"]).any()))
        run.dist("daily_outcome", "ok" if o["ok"] else o["err"])
        if not o["ok"]:
            run.corr_failures.append({"stream": "daily", "case": case, "variant": name, "impl": o,
                                      "model": "Model/Rows.v has no exception outcome"})
            continue
        ts = sd.index_seconds(df_in.index)
        segs = [sd.segment_of(subs, smap[m], dmap[d + 1]) for m, d in zip(df_in.index.month, df_in.index.dayofweek)]
        if any(s is None for s in segs):
            run.corr_failures.append({"stream": "daily", "case": case, "impl": "a row is covered by no / several sub-models"})
            continue
        t_in = df_in["temperature"].to_numpy(dtype=float)
        has = "observed" in df_in.columns
        o_in = df_in["observed"].to_numpy(dtype=float) if has else np.full(len(df_in), np.nan)
        base = coq_list(["(%s, %s, %s)" % (zlit(t), zlit(s), cell(x)) for t, s, x in zip(ts, segs, t_in)])
        variant = "(%s, %s, %s)" % (coq_bool(has), coq_list([cell(x) for x in o_in]),
                                    coq_list(["(%s, %s)" % (zlit(t), cell(p)) for t, p in zip(o["ts"], o["pred"])]))
        groups.setdefault(base, []).append(variant)
    if len(groups) > 1:
        run.dist("daily_data_class", "index / temperature of data.df depends on the usage column")
    for base, variants in groups.items():
        terms.append("(0%%Z, %s, %s, %s)" % (coq_list([coq_pl(i, s) for i, s in enumerate(subs)]), base, coq_list(variants)))
        meta.append(case)
    pairwise(run, case["model"], obs, {"stream": "synthetic", "path": case["path"]}, case)
    run.dist("daily_stream", "%s/%s" % (case["model"], case["path"]))
    if len(run.cov["samples"]) < 2 and "orig" in obs and obs["orig"]["ok"]:
        run.sample({"stream": "daily", "model": case["model"], "path": case["path"], "tz": case["tz"], "rows": case["n"],
                    "predicted_orig": int(np.isfinite(obs["orig"]["pred"]).sum()),
                    "predicted_nan30": int(np.isfinite(obs["nan30"]["pred"]).sum()) if "nan30" in obs and obs["nan30"]["ok"] else None,
                    "predicted_dropped": int(np.isfinite(obs["dropped"]["pred"]).sum()) if "dropped" in obs and obs["dropped"]["ok"] else None})


def daily_stream(run, cases):
    terms, meta = [], []
    for case in cases:
        run_daily_case(run, case, terms, meta)
    if not terms:
        return
    run.log("daily/billing: %d model x frame cases, evaluating Model/Rows.v in Coq" % len(terms))
    bad = run.coq_cases("daily", IMPORTS, "", terms, "check_daily", shard=max(6, len(terms) // 12 + 1), case_type="dcase")
    if bad is None:
        run.proof_ok = False
        return
    for i in bad[:4]:
        run.corr_failures.append({"stream": "daily", "case": meta[i],
                                  "model": run.coq_eval(IMPORTS, "", "show_daily %s" % terms[i])[-1200:]})
    for i in bad[4:]:
        run.corr_failures.append({"stream": "daily", "case": meta[i]})


# ================================================================== daily / billing through the data classes, sub-daily weather

SUB_ALTS = ALTS
MI = {"z": 0}


def wall_minutes(idx):
    """local wall-clock minutes since 1970-01-01 00:00 local (tz-naive view of the index)"""
    naive = idx.tz_localize(None)
    unit = getattr(naive, "unit", "ns")
    div = {"ns": 60 * 10**9, "us": 60 * 10**6, "ms": 60 * 10**3, "s": 60}[unit]
    return [int(t) // div for t in naive.asi8]


SUB_COMBOS = [(kind, via, sh) for kind in ("daily", "billing") for via in ("frame", "from_series") for sh in (0, 6, 18)]


def gen_subdaily_case(rng, k):
    kind, via, sh = SUB_COMBOS[(k * 5) % 12]          # 5 is coprime to 12: every combination within 12 cases
    return {"stream": "subdaily", "model": kind, "via": via, "start_hour": sh, "usage_hour": rng.choice([0, 0, 7]),
            "usage": "hourly" if (kind == "daily" and rng.random() < 0.2) else "daily",
            "tz": rng.choice(["US/Pacific", "Europe/Berlin", "UTC"]),
            "start": rng.choice(["2022-01-10", "2022-06-06", "2022-07-18", "2022-08-01"]),
            "ndays": rng.choice([12, 25, 40]) if kind == "daily" else rng.choice([100, 150]),
            "electric": rng.random() < 0.5, "seed": rng.randrange(2**31)}


def build_subdaily(case):
    """-> (hourly temperature Series, usage Series on its own stamps)"""
    r = np.random.default_rng(case["seed"])
    idx = pd.date_range(pd.Timestamp("%s %02d:00" % (case["start"], case["start_hour"]), tz=case["tz"]),
                        periods=case["ndays"] * 24, freq="h")
    temp = pd.Series(np.round((55 + 12 * np.sin((idx.hour.values - 9) / 24 * 2 * np.pi) + r.normal(0, 3, len(idx))) * 4) / 4,
                     index=idx, name="temperature")
    if case["model"] == "daily":
        m = (idx.hour == case["usage_hour"]) if case["usage"] == "daily" else np.ones(len(idx), dtype=bool)
        uidx = idx[m]
        usage = pd.Series(np.round(r.uniform(2, 60, len(uidx)) * 8) / 8, index=uidx, name="observed")
    else:
        first = idx[idx.hour == case["usage_hour"]][4]
        starts = [first]
        for j in range(8):
            nxt = starts[-1] + pd.Timedelta(days=[29, 31, 30, 33, 28][j % 5])
            if nxt > idx[-1] - pd.Timedelta(days=2):
                break
            starts.append(nxt)
        usage = pd.Series(list(np.round(r.uniform(300, 900, len(starts) - 1))) + [np.nan], index=pd.DatetimeIndex(starts), name="observed")
    return temp, usage


def alter_usage(usage, name, seed, billing):
    u = usage.copy()
    r = np.random.default_rng(seed)
    n = len(u) - (1 if billing else 0)        # the final NaN of a bill series stays
    if name == "scaled":
        u = u * 3.0
    elif name == "negated":
        u = u * -1.5 + 0.25
    elif name == "shuffled":
        u.iloc[:n] = r.permutation(u.iloc[:n].to_numpy())
    elif name == "nan30":
        k = r.random(n) < 0.3
        if not k.any():
            k[n // 2] = True
        u.iloc[:n] = np.where(k, np.nan, u.iloc[:n].to_numpy())
    elif name == "zeros30":
        k = r.random(n) < 0.3
        if not k.any():
            k[n // 2] = True
        u.iloc[:n] = np.where(k & ~np.isnan(u.iloc[:n].to_numpy()), 0.0, u.iloc[:n].to_numpy())
    elif name == "times0":
        u = u * 0.0
    elif name == "allnan":
        u = u * np.nan
    elif name == "dropped":
        return None
    return u


def subdaily_data(case, temp, u):
    cls = sd.data_classes(case["model"])
    if case["via"] == "from_series":
        if u is None:
            raise LookupError("from_series needs a meter series")
        return cls.from_series(u, temp, is_electricity_data=bool(case.get("electric", False)))
    fr = temp.to_frame()
    if u is not None:
        fr["observed"] = u.reindex(fr.index)
    return cls(fr, is_electricity_data=bool(case.get("electric", False)))


def detect_filler_clock():
    """on which clock does DailyReportingData stamp a day without reading? (frame from 06:00, readings at midnight, one blanked)"""
    idx = pd.date_range(pd.Timestamp("2022-06-06 06:00", tz="UTC"), periods=5 * 24, freq="h")
    fr = pd.DataFrame({"temperature": 60.0, "observed": np.nan}, index=idx)
    fr.loc[idx.hour == 0, "observed"] = 10.0
    fr.loc[pd.Timestamp("2022-06-08 00:00", tz="UTC"), "observed"] = np.nan
    try:
        out = sd.data_classes("daily")(fr, is_electricity_data=False).df.index
    except Exception as e:  # noqa
        return None, "raised %s" % type(e).__name__
    hours = [int(t.hour) for t in out if t.date() == pd.Timestamp("2022-06-08").date()]
    return {(6,): 0, (0,): 1}.get(tuple(hours)), hours


def subdaily_stream(run, cases):
    terms, meta = [], []
    for case in cases:
        rng = random.Random(case["seed"])
        subs = sd.gen_submodels(rng)
        with contextlib.redirect_stdout(io.StringIO()):
            model = sd.build_model(case["model"], subs, case["tz"])
        temp, usage = build_subdaily(case)
        billing = case["model"] == "billing"
        obs, present = {}, {}
        for name in SUB_ALTS:
            u = alter_usage(usage, name, case["seed"] % 1000 + SUB_ALTS.index(name), billing)
            try:
                data = subdaily_data(case, temp, u)
            except Exception as e:  # the data class refuses the input (from_series without a reading, ...)
                run.dist("subdaily_data_class", "%s %s: refused %s" % (case["via"], name, type(e).__name__))
                continue
            df_in = data.df
            o = observe(lambda: model.predict(data))
            if o["ok"]:
                o["temp"] = o["frame"]["temperature"].to_numpy(dtype=float)
            obs[name] = o
            present[name] = u
            run.count((vlib.sha(case), name), nontrivial=len(df_in) > 0)
            run.dist("subdaily_outcome", "ok" if o["ok"] else o["err"])
            # Coq: the meter-day index the class built (daily class, frame constructor, one reading per day, usage not blank)
            if (case["model"] == "daily" and case["via"] == "frame" and case["usage"] == "daily" and o["ok"]):
                has = np.zeros(len(temp), dtype=bool)
                if u is not None:
                    uu = u.where(u != 0) if case.get("electric") else u
                    has = uu.reindex(temp.index).notna().to_numpy()
                terms.append("(%s, %s, %s, %s)" % (
                    zlit(MI["z"]), coq_list([zlit(t) for t in wall_minutes(temp.index)]),
                    coq_list([coq_bool(bool(x)) for x in has]), coq_list([zlit(t) for t in wall_minutes(df_in.index)])))
                meta.append(dict(case, variant=name))
        run.dist("subdaily_stream", "%s/%s start %02d usage@%02d %s" % (case["model"], case["via"], case["start_hour"],
                                                                          case["usage_hour"], case["usage"]))

        def classify(a, b):
            elec = bool(case.get("electric", False))      # a reading of exactly 0 of electricity data is a missing reading

            def state(name):
                """what the usage column of the variant actually holds: blank (no valid reading), partial (fewer valid
                readings than the unaltered column), full — decided on the content, not on the name of the alteration"""
                u = present.get(name)
                if u is None:
                    return "blank"
                v = u.where(u != 0) if elec else u
                ref = usage.where(usage != 0) if elec else usage
                if not v.notna().any():
                    return "blank"
                return "partial" if int(v.notna().sum()) < int(ref.notna().sum()) else "full"
            partial = {n for n in (a, b) if state(n) == "partial"}
            blank = {n for n in (a, b) if state(n) == "blank"}
            off_clock = case["start_hour"] != case["usage_hour"]
            ua, ub = present.get(a), present.get(b)
            def span(u):     # what from_series trims both series to (an all-NaN series is not trimmed)
                v = u.where(u != 0) if elec else u
                return (v.first_valid_index() or v.index[0], v.last_valid_index() or v.index[-1])
            if case["via"] == "from_series" and ua is not None and ub is not None and span(ua) != span(ub):
                return "from-series-trims-weather-to-valid-usage-span"
            if case["model"] == "daily" and case["via"] == "frame" and case["usage"] == "daily" and off_clock \
                    and MI["z"] == 0 and (a in partial or b in partial):
                return "filler-days-on-frame-start-clock"
            if case["model"] == "billing" and case["via"] == "frame" and off_clock and ((a in blank) != (b in blank)):
                return "billing-filler-days-on-frame-start-clock"
            return "unexplained"
        pairwise(run, case["model"], obs, {"stream": "subdaily", "path": case["via"]}, case, classify=classify)
        if len(run.cov["samples"]) < 7 and "orig" in obs and obs["orig"]["ok"]:
            run.sample({"stream": "subdaily", "model": case["model"], "via": case["via"], "start_hour": case["start_hour"],
                        "usage_hour": case["usage_hour"], "usage": case["usage"], "rows_of_data_df": len(obs["orig"]["ts"]),
                        "predicted": int(np.isfinite(obs["orig"]["pred"]).sum())})
    if terms:
        bad = run.coq_cases("mi", IMPORTS, "", terms, "check_mi", shard=max(4, len(terms) // 12 + 1),
                            case_type="(Z * list Z * list bool * list Z)%type")
        if bad is None:
            run.proof_ok = False
            return
        for i in bad[:3]:
            run.corr_failures.append({"stream": "mi", "case": meta[i],
                                      "model": run.coq_eval(IMPORTS, "", "show_mi %s" % terms[i])[-600:]})
        for i in bad[3:]:
            run.corr_failures.append({"stream": "mi", "case": meta[i]})


# ================================================================== really fitted daily / billing models

def fit_stream(run, seeds):
    from opendsm.eemeter import BillingModel, DailyModel
    for kind, seed in seeds:
        rng = random.Random(seed)
        tz = rng.choice(["US/Pacific", "Europe/Berlin"])
        case = {"stream": "fit", "model": kind, "tz": tz, "seed": seed}
        if kind == "daily":
            model = DailyModel().fit(fl.daily_baseline(fl.daily_frame(rng, tz=tz, start="2021-01-01")), ignore_disqualification=True)
            rep = fl.daily_frame(rng, tz=tz, start="2022-01-01", ndays=rng.choice([60, 200, 365]))
            obs = {}
            for name in ALTS:
                a = alter(rep, name, seed % 1000 + ALTS.index(name))
                obs[name] = observe(lambda: model.predict(fl.daily_reporting(a, electric=seed % 2 == 0), ignore_disqualification=True))
                run.count((vlib.sha(case), name))
        else:
            meter, temp = fl.billing_series(rng, tz=tz)
            model = BillingModel().fit(fl.billing_baseline(meter, temp), ignore_disqualification=True)
            meter2, temp2 = fl.billing_series(rng, tz=tz, start="2022-12-15")
            obs = {}
            r = np.random.default_rng(seed)
            for name in ["orig", "scaled", "negated", "shuffled", "nan30", "zeros30", "times0", "allnan"]:
                ms = meter2.copy()
                if name == "scaled":
                    ms = ms * 2.5
                elif name == "zeros30":
                    ms.iloc[[1, 4]] = 0.0
                elif name == "times0":
                    ms = ms * 0.0
                elif name == "negated":
                    ms = ms * -1.5
                elif name == "shuffled":
                    ms.iloc[:-1] = r.permutation(ms.iloc[:-1].to_numpy())
                elif name == "nan30":
                    ms.iloc[[2, 5, 6]] = np.nan
                elif name == "allnan":
                    ms = ms * np.nan
                obs[name] = observe(lambda: model.predict(fl.billing_reporting(ms, temp2, electric=seed % 2 == 0), ignore_disqualification=True))
                run.count((vlib.sha(case), name))
        for name, o in obs.items():
            run.dist("fit_outcome/" + kind, "ok" if o["ok"] else o["err"])
        pairwise(run, kind, obs, {"stream": "fitted", "path": "class"}, case)


# ================================================================== hourly

def minutes_of(idx):
    unit = getattr(idx, "unit", "ns")
    div = {"ns": 60 * 10**9, "us": 60 * 10**6, "ms": 60 * 10**3, "s": 60}[unit]
    return [int(t) // div for t in idx.asi8]


def skeleton(df):
    """-> list of days: {"utc0", "hours", "month", "dow", "notnull"} or None if the rows of a date are not 60 min apart"""
    idx = df.index
    mins = minutes_of(idx)
    dates = idx.date
    hours, months, dows = idx.hour, idx.month, idx.dayofweek
    notnull = df["observed"].notna().to_numpy() if "observed" in df.columns else np.zeros(len(df), dtype=bool)
    days = []
    i = 0
    while i < len(df):
        j = i
        while j < len(df) and dates[j] == dates[i]:
            j += 1
        if any(mins[k + 1] - mins[k] != 60 for k in range(i, j - 1)):
            return None
        if len(set(months[i:j])) != 1 or len(set(dows[i:j])) != 1:
            return None
        days.append({"utc0": mins[i], "hours": [int(h) for h in hours[i:j]], "month": int(months[i]), "dow": int(dows[i]),
                     "notnull": [bool(x) for x in notnull[i:j]]})
        i = j
    return days


def triggers(days, policy):
    """what _get_dst_indices tests for every date under the given counting policy"""
    out = []
    for d in days:
        c = sum(d["notnull"]) if policy == 0 else len(d["hours"])
        out.append((c == 23, c == 25))
    return out


def combos(days):
    return sorted({(d["month"], d["dow"]) for d in days})


def coq_hours(hs):
    if hs == list(range(24)):
        return "(seq 0 24)"
    return coq_list(["%d%%nat" % h for h in hs])


def coq_days(days):
    return coq_list(["(%s, %s, %s, %s, @None err)" % (zlit(d["utc0"]), coq_hours(d["hours"]), zlit(d["month"]), zlit(d["dow"]))
                     for d in days])


def coq_pats(days):
    out = []
    for d in days:
        nn = d["notnull"]
        default = sum(nn) * 2 >= len(nn)
        out.append("(%s, %s)" % (coq_bool(default), coq_list(["%d%%nat" % i for i, x in enumerate(nn) if x != default])))
    return coq_list(out)


def coq_table(tbl):
    return coq_list(["((%s, %s), %s)" % (zlit(m), zlit(d), zlit(l)) for m, d, l in tbl])


EXC = {"ValueError": "XValueError", "IndexError": "XIndexError", "UnboundLocalError": "XUnboundLocalError", "KeyError": "XKeyError"}


def coq_outcome(o, df_in):
    if not o["ok"]:
        return "(Raised %s)" % EXC[o["err"]] if o["err"] in EXC else None
    fr = o["frame"]
    kept = bool(fr.index.equals(df_in.index)) and bool(fr["predicted"].notna().all())
    return "(Rows %d%%N %s)" % (len(fr), coq_bool(kept))


def detect_dst_policy():
    """which counting does _get_dst_indices use? (a 24-hour day followed by a 23-hour day, usage all NaN)"""
    from opendsm.eemeter.models.hourly.model import _get_dst_indices
    idx = pd.date_range("2022-03-12 00:00", "2022-03-13 23:00", freq="h", tz="US/Pacific")
    df = pd.DataFrame({"observed": np.nan, "temperature": 50.0}, index=idx)
    try:
        got = _get_dst_indices(df)
    except Exception as e:  # noqa
        return None, "raised %s" % type(e).__name__
    got = ([tuple(map(int, x)) for x in got[0]], [tuple(map(int, x)) for x in got[1]])
    if got == ([], []):
        return 0, got
    if got == ([(1, 2)], []):
        return 1, got
    return None, got


class HourlyKit:
    """one fitted HourlyModel (as JSON), reloaded for every run"""

    def __init__(self, seed, solar, tz=None):
        from opendsm.eemeter import HourlyModel
        self.seed, self.solar = seed, solar
        rng = random.Random(seed)
        self.tz = rng.choice(HZONES[:4]) if rng.random() < 0.8 else rng.choice(HZONES[4:])
        if tz is not None:
            self.tz = tz
        self.cls = HourlyModel
        base = fl.hourly_frame(rng, tz=self.tz, start="2021-01-01", ndays=365, ghi=solar)
        model = HourlyModel().fit(fl.hourly_baseline(base), ignore_disqualification=True)
        self.doc = json.loads(model.to_json())
        self.table = [(int(m), int(d), int(l)) for m, d, l in self.doc["temporal_clusters"]]

    def fresh(self, drop=None):
        doc = self.doc
        if drop:
            doc = dict(doc, temporal_clusters=[r for r in doc["temporal_clusters"] if (int(r[0]), int(r[1])) not in drop])
        return self.cls.from_dict(json.loads(json.dumps(doc)))


def table_of(model):
    t = model._df_temporal_clusters
    if isinstance(t, pd.Series):
        t = t.to_frame("temporal_cluster")
    out = []
    for (m, d), l in zip(t.index, t["temporal_cluster"].to_numpy()):
        if l == l:
            out.append((int(m), int(d), int(l)))
    return out


def detect_state_policy(kit):
    rng = random.Random(1)
    rep = fl.hourly_frame(rng, tz=kit.tz, start="2022-06-06", ndays=3, ghi=kit.solar)
    m = kit.fresh()
    n0 = len(table_of(m))
    m.predict(fl.hourly_reporting(rep), ignore_disqualification=True)
    return "StoreBack" if len(table_of(m)) != n0 else "KeepLocal"


def gen_hourly_case(rng, kit, k):
    ndays = rng.choice([4, 9, 20, 35])
    if k % 2 == 0 and kit.tz in DST_DATES:          # aim at a clock change
        md = rng.choice(DST_DATES[kit.tz])
        start = (pd.Timestamp("2022-" + md) - pd.Timedelta(days=rng.randrange(1, max(2, ndays - 1)))).strftime("%Y-%m-%d")
    else:
        start = (pd.Timestamp("2022-01-01") + pd.Timedelta(days=rng.randrange(0, 330))).strftime("%Y-%m-%d")
    mode = "fresh"
    if k % 5 == 3:
        mode = "reused"
    elif k % 5 == 4:
        mode = "truncated"
    return {"stream": "hourly", "kit_seed": kit.seed, "solar": kit.solar, "tz": kit.tz, "start": start, "ndays": ndays,
            "mode": mode, "tgap": k % 3 == 1, "dups": k % 4 in (0, 2), "electric": k % 3 != 2,
            "minutes": 30 if k % 4 == 3 else None, "seed": rng.randrange(2**31)}


def labels_used(model, df_in):
    """the cluster label the run gave every (month, weekday) of the frame: [(month, dow, label | None)], or None"""
    full = getattr(model, "_processed_meter_data_full", None)
    if full is None or "temporal_cluster" not in getattr(full, "columns", []) or len(full) != len(df_in):
        return None
    t = full[["month", "day_of_week", "temporal_cluster"]].drop_duplicates()
    out = sorted((int(m), int(d), None if l != l else int(l)) for m, d, l in t.to_numpy())
    if len({(m, d) for m, d, _ in out}) != len(out):
        return "ambiguous"
    return out


def coq_ctable(lbl):
    return coq_list(["((%s, %s), %s)" % (zlit(m), zlit(d), "None" if l is None else "(Some %s)" % zlit(l)) for m, d, l in lbl])


def inject_obs(data, values):
    """place a usage column directly in the data object (bypasses the data class's interpolation)"""
    df = data._df.copy()
    df["observed"] = values
    data._df = df
    return data


def run_hourly_case(run, kit, case, pz, state_policy, terms, meta):
    rng = random.Random(case["seed"])
    rep = fl.hourly_frame(rng, tz=case["tz"], start=case["start"], ndays=case["ndays"], ghi=case["solar"])
    if case.get("tgap"):    # hours without a temperature reading (the data class interpolates them from the temperature column)
        rep.loc[np.random.default_rng(case["seed"] + 1).random(len(rep)) < 0.05, "temperature"] = np.nan
    if case.get("dups"):    # repeated time stamps whose records differ in which cells are NaN
        rep = add_duplicates(rep, case["seed"] + 2)
    electric = bool(case.get("electric", True))
    alts = ALTS
    if case.get("minutes"):     # a sub-hourly feed: the data class keeps the rows on the full hour
        rep = subhourly(rep, case["minutes"], case["seed"] + 3)
        alts = SUBHOURLY_ALTS
    variants = []   # (name, path, builder of the data object)
    raw = {}
    for name in alts:
        a = alter(rep, name, case["seed"] % 1000 + alts.index(name))
        raw[name] = a
        variants.append((name, "class", (lambda a=a: fl.hourly_reporting(a, electric=electric))))
    # usage written into the data object: gaps survive (the data class would interpolate them)
    r = np.random.default_rng(case["seed"])
    def inj(kind):
        d = fl.hourly_reporting(rep, electric=electric)
        v = d._df["observed"].to_numpy(dtype=float).copy()
        if kind == "inj_nan30":
            v[r.random(len(v)) < 0.3] = np.nan
        elif kind == "inj_one_gap":
            v[int(r.integers(0, len(v)))] = np.nan
        elif kind == "inj_day_gap":            # a whole local day without usage
            dates = d._df.index.date
            v[dates == dates[int(r.integers(0, len(v)))]] = np.nan
        return inject_obs(d, v)
    for kind in ["inj_nan30", "inj_day_gap"]:
        variants.append((kind, "injected", (lambda kind=kind: inj(kind))))

    drop = None
    history = []
    if case["mode"] == "truncated":
        # the stored table loses the combinations of some reporting months (the statement's guard fails)
        months = sorted({m for m in pd.date_range(case["start"], periods=case["ndays"], freq="D").month})
        drop = {(months[-1], d) for d in range(7) if rng.random() < 0.6} or {(months[-1], 0)}
    if case["mode"] == "reused":
        # the same model object predicts another reporting set first
        other = (pd.Timestamp(case["start"]) + pd.Timedelta(days=rng.choice([-70, 45, 100]))).strftime("%Y-%m-%d")
        history = [fl.hourly_frame(rng, tz=case["tz"], start=other, ndays=rng.choice([2, 10]), ghi=case["solar"])]

    obs, skel, tables = {}, {}, {}
    for name, path, mk in variants:
        try:
            data = mk()
        except Exception as e:  # noqa
            run.dist("hourly_data_class", "refused: " + type(e).__name__)
            continue
        model = kit.fresh(drop)
        for h in history:
            try:
                model.predict(fl.hourly_reporting(h), ignore_disqualification=True)
            except Exception as e:  # noqa
                run.dist("hourly_history", "raised " + type(e).__name__)
        tables[name] = table_of(model)
        df_in = data.df
        o = observe(lambda: model.predict(data, ignore_disqualification=True))
        o["df_in"] = df_in
        o["path"] = path
        o["labels"] = labels_used(model, df_in)
        obs[name] = o
        skel[name] = skeleton(df_in)
        run.count((vlib.sha(case), name))
        run.dist("hourly_outcome/%s/%s" % (case["mode"], path), "ok" if o["ok"] else "%s: %s" % (o["err"], (o.get("msg") or "")[:40]))
    if not obs or any(s is None for s in skel.values()):
        run.corr_failures.append({"stream": "hourly", "case": case, "impl": "rows of a date are not 60 minutes apart"})
        return
    names = list(obs)
    first = names[0]
    base_days = skel[first]
    # ---- Coq: which record of a repeated stamp the data class kept (stream ds)
    for n in names:
        if n in raw and n in ("orig", "shuffled", "zeros30", "times0", "allnan") and "interpolated_temperature" in obs[n]["df_in"].columns:
            DS_TERMS.append(coq_ds(DEDUP["z"], DEDUP["zero"], electric, raw[n], obs[n]["df_in"]))
            DS_META.append(dict(case, variant=n))
    run.dist("hourly_duplicated_stamps", int(rep.index.duplicated().sum()))
    same_wc = all([(d["utc0"], d["hours"], d["month"], d["dow"]) for d in skel[n]] ==
                  [(d["utc0"], d["hours"], d["month"], d["dow"]) for d in base_days] for n in names) and \
        all(bits(obs[n]["df_in"]["temperature"].to_numpy(dtype=float)).tolist() ==
            bits(obs[first]["df_in"]["temperature"].to_numpy(dtype=float)).tolist() for n in names)
    if not same_wc:
        run.dist("hourly_data_class", "index / weather of data.df depends on the usage column")
    table = tables[first]
    tset = {(m, d) for m, d, _ in table}
    covered = all(c in tset for c in combos(base_days))
    fitted_covered = all(c in {(m, d) for m, d, _ in kit.table} for c in combos(base_days))
    run.dist("hourly_guard", "%s: table covers the frame=%s" % (case["mode"], covered))
    n_short = sum(1 for d in base_days if len(d["hours"]) == 23)
    n_long = sum(1 for d in base_days if len(d["hours"]) == 25)
    run.dist("hourly_frame", "short days=%d long days=%d" % (n_short, n_long))

    def classify(a, b):
        if pz == 0 and triggers(skel[a], 0) != triggers(skel[b], 0):
            return "dst-days-from-nonnull-observed-count"
        if case["mode"] == "reused" and not covered and fitted_covered:
            return "cluster-table-overwritten-by-earlier-predict"
        return "unexplained"

    # the statement's guard is about the FITTED model; a table truncated by an earlier predict is the code's doing
    guard_ok = fitted_covered and case["mode"] != "truncated"
    pairwise(run, "hourly", obs, {"stream": "fitted", "model_use": case["mode"], "solar": case["solar"]},
             dict(case, variants=names), classify=classify, guard_ok=guard_ok, presence=True)
    if not same_wc:
        run.corr_failures.append({"stream": "hourly", "case": case, "impl": "data.df differs between variants in index or temperature"})
        return
    # ---- Coq: outcome of every variant and the equality pattern against the first
    vts = []
    for n in names:
        oc = coq_outcome(obs[n], obs[n]["df_in"])
        if oc is None:
            run.corr_failures.append({"stream": "hourly", "case": case, "variant": n, "impl": {k: obs[n].get(k) for k in ("err", "msg")},
                                      "model": "exception class outside the model's alphabet"})
            return
        same, _, _ = compare(obs[first], obs[n])
        vts.append("(%s, %s, %s)" % (coq_pats(skel[n]), oc, coq_bool(same)))
    terms.append("(%s, %s, %s, %s)" % (zlit(pz), coq_table(table), coq_days(base_days), coq_list(vts)))
    meta.append((case, names))
    # ---- Coq: the cluster labels each run used, against cluster_stage
    for n in names:
        lbl = obs[n].get("labels")
        if lbl is None or not obs[n]["ok"] or n in ("scaled", "negated", "nan30", "times0"):
            continue
        if lbl == "ambiguous":
            run.corr_failures.append({"stream": "labels", "case": case, "variant": n, "impl": "two labels for one (month, weekday)"})
            continue
        LABEL_TERMS.append("(%s, %s, %s, %s)" % (coq_table(tables[n]), coq_days(base_days), coq_pats(skel[n]), coq_ctable(lbl)))
        LABEL_META.append(dict(case, variant=n))
    # the table the model object holds after a predict on a covered frame (StoreBack): Model/HourlyFlow.v table_after
    if len(run.cov["samples"]) < 5:
        run.sample({"stream": "hourly", "tz": case["tz"], "start": case["start"], "days": len(base_days), "mode": case["mode"],
                    "short_days": n_short, "long_days": n_long, "table_covers": covered,
                    "outcomes": {n: ("ok" if obs[n]["ok"] else obs[n]["err"]) for n in names}})


LABEL_TERMS, LABEL_META = [], []
DS_TERMS, DS_META = [], []
DEDUP = {"z": 0, "zero": 0}


def coq_ds(pz, zz, electric, a, df_in):
    """records as the data class receives them (order kept; usage cell: NaN / exactly 0 / another value) and, per stamp of
    data.df, whether the temperature had to be gap-filled"""
    mins = minutes_of(a.index)
    wcols = [c for c in WEATHER_COLS if c in a.columns]
    has_w = a[wcols].notna().any(axis=1).to_numpy()
    has_t = a["temperature"].notna().to_numpy()
    if "observed" in a.columns:
        ov = a["observed"].to_numpy(dtype=float)
        ucell = ["None" if x != x else ("(Some true)" if x == 0 else "(Some false)") for x in ov]
    else:
        ucell = ["None"] * len(a)
    recs = coq_list(["(%s, %s, %s, %s)" % (zlit(t), coq_bool(te), coq_bool(w), o)
                     for t, te, w, o in zip(mins, has_t, has_w, ucell)])
    flags = df_in["interpolated_temperature"].to_numpy().astype(bool)
    exp = coq_list(["(%s, %s)" % (zlit(t), coq_bool(f)) for t, f in zip(minutes_of(df_in.index), flags)])
    return "(%s, %s, %s, %s, %s)" % (zlit(pz), zlit(zz), coq_bool(electric), recs, exp)


def ds_stream(run):
    terms, meta = list(DS_TERMS), list(DS_META)
    del DS_TERMS[:], DS_META[:]
    if not terms:
        return
    bad = run.coq_cases("ds", IMPORTS, "", terms, "check_ds", shard=max(4, len(terms) // 12 + 1),
                        case_type="(Z * Z * bool * list dsrec * list (Z * bool))%type")
    if bad is None:
        run.proof_ok = False
        return
    for i in bad:
        run.corr_failures.append({"stream": "ds", "case": meta[i]})


def detect_zero_policy():
    """does the zero rule of electricity data touch the weather cells? (one reading of exactly 0)"""
    idx = pd.date_range("2022-06-06 00:00", periods=48, freq="h", tz="US/Pacific")
    df = pd.DataFrame({"observed": 1.0, "temperature": 60.0}, index=idx)
    df.iloc[7, 0] = 0.0
    try:
        out = fl.hourly_reporting(df, electric=True).df
    except Exception as ex:  # noqa
        return None, "raised %s" % type(ex).__name__
    flag = bool(out["interpolated_temperature"].iloc[7])
    return (1 if flag else 0), flag


def detect_dedup_policy():
    """which record of a repeated stamp does HourlyReportingData keep? (first record empty, second with a temperature)"""
    idx = pd.date_range("2022-06-06 00:00", periods=48, freq="h", tz="US/Pacific")
    df = pd.DataFrame({"observed": 1.0, "temperature": 60.0}, index=idx)
    e = df.iloc[[5]].copy()
    e[["observed", "temperature"]] = np.nan
    df = pd.concat([df.iloc[:5], e, df.iloc[5:]])
    try:
        out = fl.hourly_reporting(df).df
    except Exception as ex:  # noqa
        return None, "raised %s" % type(ex).__name__
    flag = bool(out["interpolated_temperature"].iloc[5])
    return (0 if flag else 1), flag


def labels_stream(run):
    terms, meta = list(LABEL_TERMS), list(LABEL_META)
    del LABEL_TERMS[:], LABEL_META[:]
    if not terms:
        return
    bad = run.coq_cases("labels", IMPORTS, "", terms, "check_labels", shard=max(4, len(terms) // 12 + 1),
                        case_type="(table * list hfday * list obspat * ctable)%type")
    if bad is None:
        run.proof_ok = False
        return
    for i in bad[:3]:
        run.corr_failures.append({"stream": "labels", "case": meta[i],
                                  "model": run.coq_eval(IMPORTS, "", "show_labels %s" % terms[i])[-800:]})
    for i in bad[3:]:
        run.corr_failures.append({"stream": "labels", "case": meta[i]})


def hourly_stream(run, kits, cases_by_kit, pz, state_policy):
    terms, meta = [], []
    for kit, cases in zip(kits, cases_by_kit):
        for case in cases:
            run_hourly_case(run, kit, case, pz, state_policy, terms, meta)
    if not terms:
        return
    run.log("hourly: %d reporting sets, evaluating Model/HourlyFlow.v in Coq" % len(terms))
    bad = run.coq_cases("hourly", IMPORTS, "", terms, "check_hf", shard=max(2, len(terms) // 12 + 1), case_type="hfcase")
    if bad is None:
        run.proof_ok = False
        return
    for i in bad[:3]:
        run.corr_failures.append({"stream": "hourly", "case": meta[i][0], "variants": meta[i][1],
                                  "model": run.coq_eval(IMPORTS, "", "show_hf %s" % terms[i])[-1500:]})
    for i in bad[3:]:
        run.corr_failures.append({"stream": "hourly", "case": meta[i][0]})
    labels_stream(run)
    ds_stream(run)


def table_after_stream(run, kit, state_policy, n):
    """the stored table after one predict on a covered frame, against Model/HourlyFlow.v table_after"""
    if state_policy != "StoreBack":
        return
    terms, meta = [], []
    rng = random.Random(kit.seed + 7)
    for _ in range(n):
        start = (pd.Timestamp("2022-01-01") + pd.Timedelta(days=rng.randrange(0, 350))).strftime("%Y-%m-%d")
        rep = fl.hourly_frame(rng, tz=kit.tz, start=start, ndays=rng.choice([1, 3, 12, 40]), ghi=kit.solar)
        data = fl.hourly_reporting(rep)
        m = kit.fresh()
        try:
            m.predict(data, ignore_disqualification=True)
        except Exception:  # noqa
            continue
        days = skeleton(data.df)
        if days is None:
            continue
        run.count(("table_after", start, len(days)))
        terms.append("(%s, %s, %s, %s)" % (coq_table(kit.table), coq_days(days), coq_pats(days), coq_table(table_of(m))))
        meta.append({"stream": "table_after", "start": start, "days": len(days), "tz": kit.tz})
    if not terms:
        return
    bad = run.coq_cases("table_after", IMPORTS, "", terms, "check_table_after", shard=max(2, len(terms) // 6 + 1),
                        case_type="(table * list hfday * list obspat * table)%type")
    if bad is None:
        run.proof_ok = False
        return
    for i in bad:
        run.corr_failures.append({"stream": "table_after", "case": meta[i]})


def calendar_repair_stream(run, kit, n):
    """frames without usage on a stored table that misses some of their (month, weekday) combinations: the labels the
    implementation falls back to (unstack / ffill / bfill) against Model/HourlyFlow.v calendar_fill"""
    rng = random.Random(kit.seed + 13)
    for k in range(n):
        start = (pd.Timestamp("2022-06-01") + pd.Timedelta(days=rng.randrange(0, 60))).strftime("%Y-%m-%d")   # no clock change
        ndays = rng.choice([3, 8, 20, 45])
        rep = fl.hourly_frame(rng, tz=kit.tz, start=start, ndays=ndays, ghi=kit.solar).drop(columns=["observed"])
        data = fl.hourly_reporting(rep)
        days = skeleton(data.df)
        if days is None:
            continue
        cs = combos(days)
        p = rng.choice([0.2, 0.5, 0.8])
        drop = {c for c in cs if rng.random() < p}
        if k % 4 == 3:      # a whole month unknown
            drop |= {c for c in cs if c[0] == cs[-1][0]}
        model = kit.fresh(drop)
        table = table_of(model)
        o = observe(lambda: model.predict(data, ignore_disqualification=True))
        run.count(("calendar_repair", kit.seed, k), nontrivial=bool(drop))
        run.dist("calendar_repair", "ok" if o["ok"] else o["err"])
        lbl = labels_used(model, data.df) if o["ok"] else None
        if lbl is None or lbl == "ambiguous":
            run.corr_failures.append({"stream": "labels", "case": {"stream": "calendar_repair", "start": start, "ndays": ndays,
                                                                     "drop": sorted(drop)}, "impl": o.get("err", lbl)})
            continue
        run.dist("calendar_repair_labels", "missing=%d of %d, left NaN=%d" % (len(drop), len(cs), sum(1 for x in lbl if x[2] is None)))
        LABEL_TERMS.append("(%s, %s, %s, %s)" % (coq_table(table), coq_days(days), coq_pats(days), coq_ctable(lbl)))
        LABEL_META.append({"stream": "calendar_repair", "kit_seed": kit.seed, "tz": kit.tz, "start": start, "ndays": ndays,
                           "drop": sorted(drop)})
    labels_stream(run)


# ================================================================== CalTRACK hourly

def caltrack_stream(run, seed, nsets):
    from opendsm.eemeter import HourlyCaltrackModel
    rng = random.Random(seed)
    tz = rng.choice(HZONES[:4])
    base = fl.hourly_frame(rng, tz=tz, start="2021-01-01", ndays=365)
    with warnings.catch_warnings(), contextlib.redirect_stderr(io.StringIO()):
        warnings.simplefilter("ignore")
        model = HourlyCaltrackModel().fit(fl.caltrack_baseline(base))
    run.log("caltrack model fitted (%s)" % tz)
    for k in range(nsets):
        ndays = rng.choice([3, 10, 31, 45])
        if k % 2 == 0:
            md = rng.choice(DST_DATES[tz])
            start = (pd.Timestamp("2022-" + md) - pd.Timedelta(days=rng.randrange(1, max(2, ndays - 1)))).strftime("%Y-%m-%d")
        else:
            start = (pd.Timestamp("2022-01-01") + pd.Timedelta(days=rng.randrange(0, 330))).strftime("%Y-%m-%d")
        case = {"stream": "caltrack", "seed": seed, "tz": tz, "start": start, "ndays": ndays, "set": k}
        rep = fl.hourly_frame(rng, tz=tz, start=start, ndays=ndays)
        if k % 3 == 2:   # gaps in the temperature: those hours have no prediction on either side
            rep.loc[np.random.default_rng(k).random(len(rep)) < 0.1, "temperature"] = np.nan
        irregular = None
        if k % 4 == 1:   # repeated time stamps (records differing in which cells are NaN)
            rep = add_duplicates(rep, seed + k, n=8)
            irregular = "duplicates"
        elif k % 4 == 3:   # an hour missing from the index
            rep = add_duplicates(rep, seed + k, n=0, drop_hours=2)
            irregular = "gap"
        case["irregular_index"] = irregular
        alts = ALTS
        if k % 4 in (0, 2) and k % 3 != 2:     # a sub-hourly feed (30- or 15-minute rows)
            case["minutes"] = 30 if k % 4 == 0 else 15
            rep = subhourly(rep, case["minutes"], seed + k)
            alts = SUBHOURLY_ALTS
        obs = {}
        unc = {}
        for name in alts:
            a = alter(rep, name, seed % 1000 + alts.index(name) + k)
            o = observe(lambda: model.predict(fl.caltrack_reporting(a.copy(), electric=(k % 2 == 0))))
            obs[name] = o
            run.count((vlib.sha(case), name))
            run.dist("caltrack_outcome", "ok" if o["ok"] else o["err"])
            if o["ok"]:
                unc[name] = o["frame"]["predicted_uncertainty"].notna().any()
        if unc:
            run.dist("caltrack_uncertainty_column", "present with usage=%s, present without=%s" % (
                unc.get("orig"), unc.get("dropped")))
        def classify(a, b):
            blank = {"allnan", "dropped"}
            msgs = [obs[x].get("msg") or "" for x in (a, b) if not obs[x]["ok"]]
            if irregular and msgs and all("Meter Data must be atleast hourly" in m for m in msgs) and \
                    all((x in blank) == (not obs[x]["ok"]) for x in (a, b)):
                return "frequency-check-on-nonnull-usage-index"
            return "unexplained"
        run.dist("caltrack_index", (irregular or "regular") + (" %d-minute feed" % case["minutes"] if case.get("minutes") else ""))
        pairwise(run, "caltrack", obs, {"stream": "fitted", "path": "class"}, case, classify=classify, presence=True)
        if k == 0 and obs["orig"]["ok"]:
            run.sample({"stream": "caltrack", "tz": tz, "start": start, "rows": len(obs["orig"]["ts"]),
                        "predicted": int(np.isfinite(obs["orig"]["pred"]).sum())})
    caltrack_zone_stream(run, model, tz, seed, 2 if nsets <= 10 else 6)


def caltrack_zone_stream(run, model, tz, seed, nsets):
    """HourlyCaltrackReportingData.from_series with the meter on the baseline's clock and the temperature feed labelled in
    UTC / a third zone / the baseline's zone: for one feed, every usage alteration INCLUDING meter_data=None must give the
    same prediction per instant; in the same-zone configuration the frame constructor must agree too"""
    from opendsm.eemeter import HourlyCaltrackReportingData as R
    rng = random.Random(seed + 101)
    third = {"US/Pacific": "Europe/Berlin", "US/Eastern": "Europe/Berlin", "Europe/Berlin": "US/Eastern",
             "Australia/Sydney": "Europe/Berlin"}[tz]
    zid = {"UTC": 0, tz: 1, third: 2}
    # which clock does from_series label the rows on? (meter local, feed in the third zone)
    probe = fl.hourly_frame(random.Random(1), tz=tz, start="2022-06-06", ndays=2)
    try:
        pz = {0: 0, 2: 1}.get(zid.get(str(R.from_series(probe["observed"], probe["temperature"].tz_convert(third), False).df.index.tz)))
    except Exception:  # noqa
        pz = None
    run.cov["caltrack_from_series_clock_detected"] = {0: "UnionToUtc (code as it is)", 1: "WeatherClock"}.get(pz, "unrecognised")
    if pz is None:
        run.corr_failures.append({"stream": "policy-probe", "impl": "from_series index zone", "model": "no zone_policy explains the probe"})
        pz = 0
    iz_terms, iz_meta = [], []
    for k in range(nsets):
        start = (pd.Timestamp("2022-01-01") + pd.Timedelta(days=rng.randrange(0, 330))).strftime("%Y-%m-%d")
        ndays = rng.choice([5, 12, 25])
        rep = fl.hourly_frame(rng, tz=tz, start=start, ndays=ndays)
        electric = k % 2 == 0
        for wz in ("UTC", third, tz):
            case = {"stream": "caltrack_zones", "seed": seed, "tz": tz, "weather_zone": wz, "start": start, "ndays": ndays, "set": k}
            temp = rep["temperature"].tz_convert(wz)
            obs = {}
            for name in ["orig", "scaled", "shuffled", "nan30", "zeros30", "allnan", "none"]:
                if name == "none":
                    u = None
                else:
                    u = alter(rep[["observed"]], name, seed % 1000 + k)["observed"]
                try:
                    data = R.from_series(u, temp, electric)
                    got = zid.get(str(data.df.index.tz))
                    if got is not None:
                        iz_terms.append("(%s, %s, %s, %s)" % (zlit(pz), "None" if u is None else "(Some 1%Z)", zlit(zid[wz]), zlit(got)))
                        iz_meta.append(dict(case, variant=name))
                    o = observe(lambda: model.predict(data))
                except Exception as e:  # noqa
                    o = {"ok": False, "err": type(e).__name__, "msg": str(e)[:120]}
                obs[name] = o
                run.count((vlib.sha(case), name))
                run.dist("caltrack_zones_outcome", "ok" if o["ok"] else o["err"])
            if wz == tz:
                obs["frame"] = observe(lambda: model.predict(R(rep.copy(), electric)))
                run.count((vlib.sha(case), "frame"))

            def classify(a, b, wz=wz):
                if wz not in ("UTC", tz) and "none" in (a, b):
                    return "from-series-index-zone-depends-on-meter-presence"
                return "unexplained"
            run.dist("caltrack_zones", "meter %s / weather %s" % ("local", "UTC" if wz == "UTC" else ("local" if wz == tz else "third zone")))
            pairwise(run, "caltrack", obs, {"stream": "fitted", "path": "from_series-zones"}, case, classify=classify, presence=True)
    if iz_terms:
        bad = run.coq_cases("iz", IMPORTS, "", iz_terms, "check_iz", shard=400, case_type="(Z * option Z * Z * Z)%type")
        if bad is None:
            run.proof_ok = False
        else:
            for i in bad:
                run.corr_failures.append({"stream": "iz", "case": iz_meta[i]})


# ================================================================== corpus: witnesses of the refuted statements

def corpus_cases():
    p = os.path.join(vlib.VERIF, "corpus", "C05.json")
    return json.load(open(p)) if os.path.exists(p) else []


# ================================================================== main

def main():
    run = Run("C05")
    run.cov["rule"] = (
        "paired runs: every reporting set is predicted with its usage column {unchanged, scaled, negated, shuffled, 30 % NaN, 30 % exactly 0, x 0, all NaN, "
        "dropped} (+ hourly: gaps written into the data object: 30 % / one local day) and all pairs are compared "
        "bit-wise on the timestamps predicted in both. daily/billing: synthetic documents (1-6 sub-models, dyadic coefficients) x "
        "frames of 1-250 local days, 5 zones, NaN/inf temperatures, injected or through the data class, each variant also "
        "compared row by row with Model/Rows.v in Coq; one really fitted daily and billing model. hourly: really fitted "
        "non-solar and solar models reloaded from JSON per run; half of the sets carry repeated time stamps whose records differ in "
        "which cells are NaN (which record survives is compared with Model/HourlyFlow.v select, stream ds); reporting sets of 4-35 days, half of them placed on a clock "
        "change; model object fresh / reused after another set / stored table truncated; outcome class and equality pattern "
        "of every variant compared with Model/HourlyFlow.v in Coq. daily/billing through the data classes (frame constructor and from_series) with hourly temperature rows, frames starting "
        "at 00/06/18 h, daily / hourly / monthly usage at 00 or 07 h, all alterations; oracle extended by: identical temperature "
        "in data.df on every stamp predicted in both runs; the meter-day index of the daily class compared with "
        "Model/CounterfactualFlows.v meter_index_as_coded (stream mi). caltrack from_series with the temperature feed labelled in UTC / a third zone / the baseline zone and the meter supplied, altered or None. sub-hourly feeds (30- / 15-minute rows, extra variant: readings off the full hour blank for a block of days) for CalTRACK and hourly; for the hourly families an instant predicted in one run and NaN in the other is a violation (prediction-lost). caltrack: one fitted model, sets of 3-45 days. "
        "distinct = (case hash, variant); non-trivial = at least one finite temperature")
    run.assumptions += [
        "the usage column is altered before the public data class sees it; the data classes themselves (interpolation of hourly "
        "usage gaps, daily re-sampling) are inside the implementation under test, not inside the models",
        "daily/billing: aggregation=None (the aggregated billing frame sums predictions over the days that have usage, by C07's design)",
        "hourly: the linear map, the per-row feature maps and the two repairs of the cluster table are oracles of Model/HourlyFlow.v "
        "(any functions of their explicit inputs); the correspondence compares outcome class and equality pattern, not values",
        "hourly zones without a clock change at local midnight (those are C06's findings D18/D19)",
        "the DST-counting and table-store-back behaviours the model is run with are detected from the implementation by two "
        "probes; the property oracle, not the model, decides violations",
        "correspondence is sampled: agreement is established on the cases run",
    ]
    run.cov["trusted_base"] += [
        "harness/translate_reads.py (ast call graph from the predict entry points; classification of the mentions of \"observed\")",
        "harness/c05.py, harness/synth_daily.py, harness/fitlib.py (generators, adapters, canonicalisation, segment lookup, skeleton extraction)",
        "pandas semantics re-specified in Model/Rows.v and Model/Dst.v (C07 / C06 tie them as well)",
        "oracle contracts of Model/HourlyFlow.v: regression returns 24 values per date; feature maps read weather and cluster label only",
    ]
    # step 0: which columns the predict paths read (fail-closed ast translator -> Generated/ObservedReadsGen.v)
    import translate_reads
    reads_ok = True
    try:
        ex = translate_reads.generate(run)
        run.cov["observed_read_sites"] = {"observed_reads": len(ex["observed_reads"]), "frame_ops": len(ex["frame_ops"]),
                                          "path_functions": {k: len(v) for k, v in ex["functions"].items()}}
        run.sample({"stream": "translator", "observed_reads_hourly": [list(t[1:]) for t in ex["observed_reads"] if t[0] == "hourly"][:6]})
    except translate_reads.TranslateError as e:
        reads_ok = False
        run.log("TRANSLATOR FAILED (broken tie):", e)
        run.corr_failures.append({"stream": "translate_reads", "impl": str(e), "model": "Generated/ObservedReadsGen.v could not be regenerated"})
    ok = run.check_proofs("Properties/C05.v", ["Proofs/HourlyFlowProofs.v", "Proofs/CounterfactualProofs.v"],
                          generated=["Generated/ObservedReadsGen.v"] if reads_ok else [])
    if not ok and reads_ok:
        # name the sites that are not accounted for (the obligation C05_observed_reads_accounted / C05_frame_ops_accounted)
        ans = run.coq_eval("From Coq Require Import String.\nFrom V Require Import Generated.ObservedReadsGen Model.ReadSites.\nOpen Scope string_scope.", "",
                           "(unaccounted declared_reads observed_reads, unaccounted declared_frame_ops frame_ops)")
        run.proof_log += "\nsites of the predict paths that Model/ReadSites.v does not account for:\n" + ans[-1500:]
        run.log("read sites not accounted for:", ans[-600:])
    # Properties/C05.v imports Model/CounterfactualRun.v (and through it Model/CasesLib.v): what the cases need is built

    pz, got = detect_dst_policy()
    run.cov["dst_counting_detected"] = DST_POLICIES.get(pz, "unrecognised: %s" % (got,))
    run.log("DST counting of the implementation:", run.cov["dst_counting_detected"])
    if pz is None:
        run.corr_failures.append({"stream": "policy-probe", "impl": str(got), "model": "no counting policy of Model/Dst.v explains the probe"})
        pz = 0

    dz, dgot = detect_dedup_policy()
    run.cov["duplicate_selection_detected"] = {0: "KeepFirst (index only)", 1: "DropEmptyKeepFirst (reads the usage cell)"}.get(
        dz, "unrecognised: %s" % (dgot,))
    run.log("selection among repeated time stamps:", run.cov["duplicate_selection_detected"])
    if dz is None:
        run.corr_failures.append({"stream": "policy-probe", "impl": str(dgot), "model": "no dedup_policy of Model/HourlyFlow.v explains the probe"})
        dz = 0
    DEDUP["z"] = dz
    zz, zgot = detect_zero_policy()
    run.cov["zero_rule_detected"] = {0: "ZeroUsageCell (usage cell only)", 1: "ZeroWholeRow (weather cells wiped too)"}.get(
        zz, "unrecognised: %s" % (zgot,))
    run.log("zero rule of electricity data:", run.cov["zero_rule_detected"])
    if zz is None:
        run.corr_failures.append({"stream": "policy-probe", "impl": str(zgot), "model": "no zero_policy of Model/HourlyFlow.v explains the probe"})
        zz = 0
    DEDUP["zero"] = zz

    mz, mgot = detect_filler_clock()
    run.cov["daily_filler_clock_detected"] = {0: "FrameStart (clock of the first row of the frame)", 1: "ReadingClock"}.get(
        mz, "unrecognised: %s" % (mgot,))
    run.log("daily data class, clock of the filler days:", run.cov["daily_filler_clock_detected"])
    if mz is None:
        run.corr_failures.append({"stream": "policy-probe", "impl": str(mgot), "model": "no fill_clock of Model/CounterfactualFlows.v explains the probe"})
        mz = 0
    MI["z"] = mz

    if run.replay:
        rep = json.load(open(run.replay))
        todo = [rep["case"]]
    else:
        todo = None

    nh = run.n(8, 60)
    kits = []
    seeds = [run.rng.randrange(2**31) for _ in range(8)]
    if todo is None:
        kit_specs = [(seeds[0], False, None), (seeds[1], True, None)]
    else:
        kit_specs = [(c["kit_seed"], c["solar"], c["tz"]) for c in todo if c.get("stream") == "hourly"]
    for s, solar, tz in kit_specs:
        kits.append(HourlyKit(s, solar, tz))
        run.log("hourly model fitted (%s, solar=%s, %d table rows)" % (kits[-1].tz, solar, len(kits[-1].table)))
    state_policy = detect_state_policy(kits[0]) if kits else "StoreBack"
    run.cov["cluster_table_after_predict_detected"] = state_policy
    run.log("cluster table after predict:", state_policy)
    if pz == 0:
        run.cov["theorem_path"] = ("non-null usage cells counted: C05_hourly_statement count_observed is REFUTED (C05_hourly_ni_refuted, "
                                   "witness replayed from corpus/C05.json); C05_hourly_ni_partial / _fully_observed_partial / "
                                   "_blank_regular_partial give the guards")
    else:
        run.cov["theorem_path"] = "rows counted: C05_hourly_ni_count_rows proves the full statement for the behaviour observed"
    run.cov["theorem_path"] += ("; repeated stamps: first record kept, C05_hourly_public_ni / C05_hourly_data_stage_ni apply" if dz == 0 else
                                "; repeated stamps: selection reads usage, C05_hourly_public_refuted_drop_empty applies")
    run.cov["theorem_path"] += ("; table stored back: C05_hourly_reuse_refuted applies" if state_policy == "StoreBack"
                                else "; table kept local: C05_hourly_reuse_ni_repaired applies")

    if todo is not None:
        hc = [[c for c in todo if c.get("stream") == "hourly" and c["kit_seed"] == k.seed] for k in kits]
        hourly_stream(run, kits, hc, pz, state_policy)
        daily_stream(run, [c for c in todo if c.get("stream") == "daily"])
        subdaily_stream(run, [c for c in todo if c.get("stream") == "subdaily"])
        fit_stream(run, [(c["model"], c["seed"]) for c in todo if c.get("stream") == "fit"])
        for c in todo:
            if c.get("stream") == "caltrack":
                caltrack_stream(run, c["seed"], c["set"] + 1)
            if c.get("stream") == "caltrack_zones":
                caltrack_stream(run, c["seed"], 1)
        run.finish()

    # corpus first
    corpus = corpus_cases()
    by_kit = {}
    for c in corpus:
        if c.get("stream") == "hourly":
            by_kit.setdefault((c["kit_seed"], c["solar"], c["tz"]), []).append(c)
    for (s, solar, tz), cs in by_kit.items():
        k = HourlyKit(s, solar, tz)
        hourly_stream(run, [k], [cs], pz, state_policy)
    daily_stream(run, [c for c in corpus if c.get("stream") == "daily"])
    run.log("corpus replayed (%d cases)" % len(corpus))

    hc = [[gen_hourly_case(run.rng, kit, k) for k in range(nh // 2 + (nh % 2 if i == 0 else 0))] for i, kit in enumerate(kits)]
    hourly_stream(run, kits, hc, pz, state_policy)
    table_after_stream(run, kits[0], state_policy, run.n(6, 40))
    calendar_repair_stream(run, kits[0], run.n(8, 60))
    run.log("hourly done")
    daily_stream(run, [gen_daily_case(run.rng, k) for k in range(run.n(80, 2000))])
    subdaily_stream(run, [c for c in corpus if c.get("stream") == "subdaily"] +
                    [gen_subdaily_case(run.rng, k) for k in range(run.n(14, 300))])
    run.log("daily/billing synthetic done")
    fit_stream(run, [("daily", seeds[2]), ("billing", seeds[3])] if run.quick() else
               [(k, run.rng.randrange(2**31)) for k in ["daily", "billing"] * 4])
    run.log("fitted daily/billing done")
    for i in range(run.n(1, 3)):
        caltrack_stream(run, seeds[4] + i, run.n(8, 30))
    run.finish()


if __name__ == "__main__":
    vlib.run_main(main, "C05")
