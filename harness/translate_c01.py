"""Translator of C01: regenerates coq/Generated/C01Gen.v from the settings classes of the package on every run.

 * the schema of DailySettings / DailyLegacySettings (pydantic introspection: field order, nesting, the
   `developer` mark of json_schema_extra, default, type and numeric bounds) as `Model.DocSchema.schema` values;
 * the default settings documents of the three daily profiles (what `model_dump()` of a default object
   writes, taken through json so that it is the stored tree);
 * for the hourly settings: the default document, and the paths of every float-typed field (pydantic turns
   an int found there into a float when the tree is validated again on reload).
Fail-closed: an annotation that is not recognised aborts the generation (reported as a broken tie)."""
import enum
import json
import math
import typing

import vlib
from vlib import fhex, zlit, coq_list, coq_string, coq_bool


class Untranslatable(Exception):
    pass


def cjson(o):
    """python JSON value -> Gallina `json` literal"""
    if o is None:
        return "JNull"
    if isinstance(o, bool):
        return "(JBool %s)" % coq_bool(o)
    if isinstance(o, int):
        return "(JInt %s)" % zlit(o)
    if isinstance(o, float):
        return "(JNum %s)" % fhex(o)
    if isinstance(o, str):
        return "(JStr %s)" % coq_string(o)
    if isinstance(o, (list, tuple)):
        return "(JArr %s)" % coq_list([cjson(x) for x in o])
    if isinstance(o, dict):
        for k in o:
            if not isinstance(k, str):
                raise Untranslatable("non-string key %r in a JSON-level tree" % (k,))
        return "(JObj %s)" % coq_list(["(%s, %s)" % (coq_string(k), cjson(v)) for k, v in o.items()])
    raise Untranslatable("not a JSON value: %r" % (o,))


def jsonable(v):
    """value of a pydantic default -> the JSON-level value model_dump()+json.dumps would store"""
    return json.loads(json.dumps(v, default=lambda e: e.value if isinstance(e, enum.Enum) else (_ for _ in ()).throw(Untranslatable(repr(e)))))


def _bounds(meta):
    b = {"ge": None, "gt": None, "le": None, "lt": None}
    for m in meta:
        hit = False
        for k in b:
            if hasattr(m, k) and getattr(m, k) is not None:
                b[k] = getattr(m, k)
                hit = True
        if not hit:
            raise Untranslatable("constraint %r" % (m,))
    return b


def kind_of(ann, meta):
    origin = typing.get_origin(ann)
    args = typing.get_args(ann)
    if ann is bool:
        return "KBool"
    if ann is int:
        b = _bounds(meta)
        if b["gt"] is not None or b["lt"] is not None:
            raise Untranslatable("strict int bound")
        opt = lambda v: "None" if v is None else "(Some %s)" % zlit(int(v))
        return "(KInt %s %s)" % (opt(b["ge"]), opt(b["le"]))
    if ann is float:
        b = _bounds(meta)
        opt = lambda v: "None" if v is None else "(Some %s)" % fhex(float(v))
        return "(KFloat {| b_ge := %s; b_gt := %s; b_le := %s; b_lt := %s |})" % (opt(b["ge"]), opt(b["gt"]), opt(b["le"]), opt(b["lt"]))
    if ann is str:
        return "KStr"
    if isinstance(ann, type) and issubclass(ann, enum.Enum):
        return "(KEnum %s)" % coq_list([coq_string(str(e.value)) for e in ann])
    if origin is typing.Literal:
        raise Untranslatable("bare Literal")
    if origin is list:
        return "(KList %s)" % kind_of(args[0], [])
    if origin is typing.Union:
        rest = [a for a in args if a is not type(None)]
        has_none = len(rest) != len(args)
        if len(rest) == 1:
            inner = kind_of(rest[0], meta)
        elif len(rest) == 2 and rest[0] is float and typing.get_origin(rest[1]) is typing.Literal and len(typing.get_args(rest[1])) == 1:
            if meta:
                raise Untranslatable("bounds on a union")
            inner = "(KFloatOrLit %s)" % coq_string(typing.get_args(rest[1])[0])
        else:
            raise Untranslatable("union %r" % (ann,))
        return "(KOpt %s)" % inner if has_none else inner
    raise Untranslatable("annotation %r" % (ann,))


def schema_of(cls):
    from opendsm.common.base_settings import BaseSettings
    out = []
    for name, f in cls.model_fields.items():
        if f.exclude:
            continue                      # never written to a document (silent_developer_mode)
        ann = f.annotation
        if isinstance(ann, type) and issubclass(ann, BaseSettings):
            out.append("SNest %s %s" % (coq_string(name), schema_of(ann)))
            continue
        extra = f.json_schema_extra or {}
        if "developer" not in extra:
            raise Untranslatable("field %s.%s has no developer mark" % (cls.__name__, name))
        out.append("SLeaf %s %s %s %s" % (coq_string(name), coq_bool(bool(extra["developer"])), cjson(jsonable(f.default)),
                                           kind_of(ann, list(f.metadata))))
    return coq_list(out)


def float_paths(cls, prefix=()):
    """paths of the fields whose annotation admits a float (an int stored there is coerced on validation)"""
    import pydantic
    out = []
    for name, f in cls.model_fields.items():
        ann = f.annotation
        cands = [ann] + [a for a in typing.get_args(ann)]
        sub = [a for a in cands if isinstance(a, type) and issubclass(a, pydantic.BaseModel)]
        if sub:
            out += float_paths(sub[0], prefix + (name,))
        elif any(a is float for a in cands):
            out.append(prefix + (name,))
    return out


def generate(run=None):
    from opendsm.eemeter.models.daily.utilities.settings import DailySettings, DailyLegacySettings
    from opendsm.eemeter.models.hourly import settings as hs
    dump = lambda obj: json.loads(json.dumps(obj.model_dump()))
    billing_default = dump(DailyLegacySettings())
    billing_default["developer_mode"] = True
    parts = [
        "(* GENERATED by harness/translate_c01.py from the settings classes of the package -- do not edit. *)",
        "From Coq Require Import ZArith List String PrimFloat.",
        "From V Require Import Model.Json Model.DocSchema.",
        "Import ListNotations.",
        "Open Scope string_scope.",
        "",
        "Definition current_schema : schema := %s." % schema_of(DailySettings),
        "",
        "Definition legacy_schema : schema := %s." % schema_of(DailyLegacySettings),
        "",
        "Definition current_default_settings : json := %s." % cjson(dump(DailySettings())),
        "",
        "Definition legacy_default_settings : json := %s." % cjson(dump(DailyLegacySettings())),
        "",
        "Definition billing_default_settings : json := %s." % cjson(billing_default),
        "",
        "Definition hourly_default_settings : json := %s." % cjson(dump(hs.BaseHourlySettings())),
        "",
        "Definition hourly_float_paths : list (list string) := %s." % coq_list(
            [coq_list([coq_string(p) for p in path]) for path in float_paths(hs.BaseHourlySettings)]),
        "",
    ]
    text = "\n".join(parts)
    info = {"current_fields": len(DailySettings.model_fields), "legacy_fields": len(DailyLegacySettings.model_fields),
            "hourly_float_paths": ["/".join(p) for p in float_paths(hs.BaseHourlySettings)]}
    if run is not None:
        run.write_generated("Generated/C01Gen.v", text)
    else:
        import os
        p = os.path.join(vlib.COQ, "Generated", "C01Gen.v")
        old = open(p).read() if os.path.exists(p) else None
        if old != text:
            open(p, "w").write(text)
    return info


if __name__ == "__main__":
    print(generate(None))
