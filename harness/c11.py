"""C11 — the daily model curve is continuous, monotone and its load components add up.
Model: coq/Model/DailyCurve.v (one text over the numeric dictionary; R instance for the theorems, binary64
instance for execution); theorems: coq/Properties/C11.v; tie: correspondence (this file).

Streams
  predict  synthetic stored documents (all 7 shapes, optimiser box incl. its faces, percent-k grid) through
           DailyModel.from_dict(...)._predict(frame): columns predicted / heating_load / cooling_load on a
           temperature sweep  vs  predict_submodel at FNum (bit-exact where no exp is evaluated, 1e-9 otherwise)
  kernel   the numba kernel full_model called directly on arbitrary 7-vectors (crossed balance points, negative
           k, ... : the branches that admissible documents never reach)  vs  full_model1 at FNum
  smooth   get_smooth_coeffs directly (exact)
  exp      the model's own exp against numpy's (1e-9)
  corner   the `..._refuted` witness of Properties/C11.v and its relatives replayed on the implementation
The oracle is the property text evaluated on the implementation's columns with the proved inequalities
(Lipschitz bound of C11_curve_lipschitz_stored, exact remainder of C11_smoothed_remainder_*)."""
import json
import math
import os
import re
import warnings

import numpy as np
import pandas as pd

import vlib
from vlib import Run, fhex, coq_list

warnings.simplefilter("ignore")

IMPORTS = "From Coq Require Import PrimFloat.\nFrom V Require Import Model.Num Model.NumF Model.DailyCurve Model.DailyCurveRun."
SHAPES = ["hdd_tidd_cdd_smooth", "hdd_tidd_cdd", "hdd_tidd_smooth", "tidd_cdd_smooth", "hdd_tidd", "tidd_cdd", "tidd"]
COQ_SHAPE = {"hdd_tidd_cdd_smooth": "HddTiddCddSmooth", "hdd_tidd_cdd": "HddTiddCdd", "hdd_tidd_smooth": "HddTiddSmooth",
             "tidd_cdd_smooth": "TiddCddSmooth", "hdd_tidd": "HddTidd", "tidd_cdd": "TiddCdd", "tidd": "Tidd"}
FIELDS = ["hdd_bp", "hdd_beta", "hdd_k", "cdd_bp", "cdd_beta", "cdd_k"]
USED = {"hdd_tidd_cdd_smooth": FIELDS, "hdd_tidd_cdd": ["hdd_bp", "hdd_beta", "cdd_bp", "cdd_beta"],
        "hdd_tidd_smooth": ["hdd_bp", "hdd_beta", "hdd_k"], "tidd_cdd_smooth": ["cdd_bp", "cdd_beta", "cdd_k"],
        "hdd_tidd": ["hdd_bp", "hdd_beta"], "tidd_cdd": ["cdd_bp", "cdd_beta"], "tidd": []}
CORNER = "bp_h' == bp_c' >= T_max"


# ------------------------------------------------------------------ generator

def pick_float(rng, lo, hi):
    """a double in [lo, hi]: half of the time on a 1/4 grid (exact arithmetic in the kernel), else arbitrary"""
    if rng.random() < 0.5:
        return rng.randrange(int(math.ceil(lo * 4)), int(math.floor(hi * 4)) + 1) / 4.0
    return rng.uniform(lo, hi)


def pick_pct(rng):
    u = rng.random()
    if u < 0.14:
        return 0.0
    if u < 0.24:
        return rng.choice([0.005, 0.0099999, 0.001])          # below min_pct_k
    if u < 0.30:
        return 0.01
    if u < 0.42:
        return 1.0
    if u < 0.52:
        return rng.choice([0.25, 0.5, 0.75])
    return rng.uniform(0.01, 1.0)


def gen_tc(rng):
    t_min = pick_float(rng, -20, 45)
    t_max = pick_float(rng, max(t_min + 10, 55), 110)
    if rng.random() < 0.55:
        t_min_seg, t_max_seg = t_min, t_max
    else:
        t_min_seg = t_min + pick_float(rng, 0, 4)
        t_max_seg = t_max - pick_float(rng, 0, 4)
    return [t_min, t_max, t_min_seg, t_max_seg]


def pick_bp(rng, lo, hi, face_p=0.12):
    u = rng.random()
    if u < face_p:
        return lo
    if u < 2 * face_p:
        return hi
    return pick_float(rng, lo, hi)


def pick_beta(rng):
    u = rng.random()
    if u < 0.08:
        return 0.0
    if u < 0.5:
        return rng.randrange(1, 64) / 8.0
    return rng.uniform(1e-3, 8.0)


def gen_doc(rng, k):
    shape = SHAPES[k % 7] if k < 70 else rng.choice(SHAPES[:2] * 3 + SHAPES[2:6] * 2 + SHAPES[6:])
    tc = gen_tc(rng)
    lo, hi = tc[2], tc[3]
    d = {"shape": shape, "tc": tc, "intercept": pick_float(rng, 0, 80) if rng.random() < 0.9 else pick_float(rng, -5, 0)}
    # dtype of the temperature column of the frame handed to predict (whole degrees as int64, float32, float64)
    d["tdtype"] = ["float64", "float32", "int64"][k % 3] if k < 70 else rng.choice(["float64"] * 4 + ["float32", "int64"])
    # representation of the stored document: key order of every nested mapping, and the loader
    reps = [[o, v] for o in ("original", "sorted", "reversed", "shuffled") for v in ("from_dict", "from_json")]
    d["rep"] = reps[(k // 7) % 8] if k < 70 else (rng.choice(reps) if rng.random() < 0.5 else ["original", "from_dict"])
    for f in FIELDS:
        d[f] = None
    if shape in ("hdd_tidd_cdd_smooth", "hdd_tidd_cdd"):
        a, b = pick_bp(rng, lo, hi), pick_bp(rng, lo, hi)
        if rng.random() < 0.12:
            b = a
        d["hdd_bp"], d["cdd_bp"] = min(a, b), max(a, b)
        d["hdd_beta"], d["cdd_beta"] = pick_beta(rng), pick_beta(rng)
        if shape == "hdd_tidd_cdd_smooth":
            d["hdd_k"], d["cdd_k"] = pick_pct(rng), pick_pct(rng)
    elif shape in ("hdd_tidd_smooth", "hdd_tidd"):
        d["hdd_bp"] = pick_bp(rng, lo, hi)
        d["hdd_beta"] = -pick_beta(rng)
        if shape == "hdd_tidd_smooth":
            d["hdd_k"] = rng.choice([0.0, 0.25, 1.0, 2.0, 8.0, rng.uniform(1e-3, 30.0), rng.uniform(1e-3, 30.0)])
    elif shape in ("tidd_cdd_smooth", "tidd_cdd"):
        d["cdd_bp"] = pick_bp(rng, lo, hi)
        d["cdd_beta"] = pick_beta(rng)
        if shape == "tidd_cdd_smooth":
            d["cdd_k"] = rng.choice([0.0, 0.25, 1.0, 2.0, 8.0, rng.uniform(1e-3, 30.0), rng.uniform(1e-3, 30.0)])
    return d


def gen_temps(rng, doc, eff, n):
    """sweep -60..140 F with the special points: balance points (stored and shifted), their float neighbours,
    the fitted range ends, just outside them"""
    ts = set()
    sp = [doc["tc"][0], doc["tc"][1], doc["tc"][2], doc["tc"][3], -60.0, 140.0]
    for f in ("hdd_bp", "cdd_bp"):
        if doc[f] is not None:
            sp.append(doc[f])
    if eff is not None:
        sp += [eff["hbp"], eff["cbp"], eff["hbp"] - eff["hk"], eff["cbp"] + eff["ck"]]
    for s in sp:
        if -60.0 <= s <= 140.0:
            ts.update([s, float(np.nextafter(s, -np.inf)), float(np.nextafter(s, np.inf))])
        for dlt in (-1.0, 1.0, -0.125, 0.125):
            if -60.0 <= s + dlt <= 140.0:
                ts.add(s + dlt)
    m = max(8, n - len(ts))
    grid = m // 2
    for i in range(grid):
        ts.add(-60.0 + 200.0 * i / max(1, grid - 1))
    while len(ts) < n:
        ts.add(rng.uniform(-60.0, 140.0) if rng.random() < 0.7 else rng.randrange(-240, 561) / 4.0)
    return sorted(ts)


# ------------------------------------------------------------------ implementation adapter

_SET = {}


def _settings():
    if "s" not in _SET:
        from opendsm.eemeter import DailyModel
        _SET["s"] = json.loads(json.dumps(DailyModel().settings.model_dump(mode="json")))
    return _SET["s"]


def reorder(obj, mode, rng):
    """the same JSON value with the keys of EVERY nested mapping in another order (a JSON object is an unordered mapping)"""
    if isinstance(obj, dict):
        keys = list(obj.keys())
        if mode == "sorted":
            keys = sorted(keys)
        elif mode == "reversed":
            keys = keys[::-1]
        elif mode == "shuffled":
            rng.shuffle(keys)
        return {k: reorder(obj[k], mode, rng) for k in keys}
    if isinstance(obj, list):
        return [reorder(v, mode, rng) for v in obj]
    return obj


def build_model(doc):
    """DailyModel from the stored document; doc["rep"] = (key order of all nested mappings, from_dict | from_json)"""
    import random
    from opendsm.eemeter import DailyModel
    c = {"model_type": doc["shape"], "intercept": doc["intercept"]}
    for f in FIELDS:
        c[f] = doc[f]
    tcd = dict(zip(["T_min", "T_max", "T_min_seg", "T_max_seg"], doc["tc"]))
    d = {"submodels": {"fw-su_sh_wi": {"coefficients": c, "temperature_constraints": tcd, "f_unc": 1.0}},
         "info": {"error": {"wRMSE": 1.0, "RMSE": 1.0, "MAE": 1.0, "CVRMSE": 0.1, "PNRMSE": 0.1},
                  "baseline_timezone": "UTC", "disqualification": [], "warnings": []},
         "settings": _settings()}
    order, via = doc.get("rep", ["original", "from_dict"])
    if order != "original":
        d = reorder(d, order, random.Random(vlib.sha([doc["shape"], doc["intercept"], doc["tc"]])))
    if via == "from_json":
        return DailyModel.from_json(json.dumps(d))
    return DailyModel.from_dict(d)


_IDX = {}


def frame_for(ts, tdtype="float64"):
    n = len(ts)
    if n not in _IDX:
        _IDX[n] = pd.date_range("2021-01-01", periods=n, freq="D", tz="UTC")
    col = np.array(ts, dtype=float).astype({"float64": np.float64, "float32": np.float32, "int64": np.int64}[tdtype])
    if not np.array_equal(col.astype(np.float64), np.array(ts, dtype=float)):
        raise RuntimeError("sweep is not exactly representable in " + tdtype)
    return pd.DataFrame({"temperature": col}, index=_IDX[n])


BP32 = "float32 image of a balance point that is not a float32 number"


def bp_points(doc, v):
    pts = [v["hbp"], v["cbp"], v["lower"], v["upper"]] + [doc[f] for f in ("hdd_bp", "cdd_bp") if doc[f] is not None]
    return [float(x) for x in pts]


def is_bp32_image(doc, v, T):
    """T is the float32 rounding of a balance point without being that balance point"""
    return doc.get("tdtype") == "float32" and any(float(np.float32(b)) == T and b != T for b in bp_points(doc, v))


def cast_sweep(doc, v, ts):
    """make the sweep exactly representable in the dtype of the temperature column"""
    td = doc.get("tdtype", "float64")
    if td == "int64":
        out = set()
        for t in ts:
            for z in (math.floor(t), math.ceil(t)):
                if -60 <= z <= 140:
                    out.add(float(z))
        return sorted(out)
    if td == "float32":
        out = sorted(set(float(np.float32(t)) for t in ts))
        # the float32 image of a balance point is kept out of the compared sweep (known finding C11-F3, witness stream)
        return [t for t in out if not is_bp32_image(doc, v, t)]
    return list(ts)


def impl_effective(model):
    """the 7-vector the implementation hands to full_model (same calls as _predict_submodel)"""
    from opendsm.eemeter.models.daily.base_models.full_model import get_full_model_x
    from opendsm.eemeter.models.daily.utilities.base_model import get_smooth_coeffs
    sub = model.params.submodels["fw-su_sh_wi"]
    tc = sub.temperature_constraints
    x = get_full_model_x(sub.coefficients.model_key, sub.coefficients.to_np_array(), tc["T_min"], tc["T_max"],
                         tc["T_min_seg"], tc["T_max_seg"])
    x = [float(v) for v in x]
    if sub.coefficients.model_key == "hdd_tidd_cdd_smooth":
        hb, hk, cb, ck = [float(v) for v in get_smooth_coeffs(x[0], x[2], x[3], x[5])]
        x = [hb, x[1], hk, cb, x[4], ck, x[6]]
    return x


def run_impl(doc, ts):
    model = build_model(doc)
    xi = impl_effective(model)
    res = model._predict(frame_for(ts, doc.get("tdtype", "float64")))
    if len(res) != len(ts) or not np.array_equal(res["temperature"].to_numpy().astype(np.float64), np.array(ts)):
        raise RuntimeError("prediction frame does not line up with the sweep")
    rows = list(zip(ts, map(float, res["predicted"].to_numpy()), map(float, res["heating_load"].to_numpy()),
                    map(float, res["cooling_load"].to_numpy())))
    return xi, rows


# ------------------------------------------------------------------ oracle: the property text on the columns

def stored_view(doc):
    """what the stored document says, in the words of the property: slope magnitudes, balance points, smoothing"""
    s = doc["shape"]
    t_min, t_max = doc["tc"][0], doc["tc"][1]
    if s in ("hdd_tidd_cdd_smooth", "hdd_tidd_cdd"):
        hb, cb, bh, bc = doc["hdd_bp"], doc["cdd_bp"], doc["hdd_beta"], doc["cdd_beta"]
        ph = doc["hdd_k"] if s.endswith("smooth") else 0.0
        pc = doc["cdd_k"] if s.endswith("smooth") else 0.0
        # a slope whose balance point sits on the end of the fitted range is dropped (the model is one-sided there)
        if hb != cb:
            if cb >= t_max:
                bc = 0.0
            elif hb <= t_min:
                bh = 0.0
        if bh == 0:
            ph = 0.0
        if bc == 0:
            pc = 0.0
        if ph < 0.01 and pc < 0.01:
            hk = ck = 0.0
            hbp, cbp = hb, cb
        else:
            tot = ph + pc
            if tot > 1:
                ph, pc = ph / tot, pc / tot
            hk, ck = ph * (cb - hb), pc * (cb - hb)
            hbp, cbp = hb + hk, cb - ck
            if hb <= cb and cbp < hbp:      # the shifted balance points meet, they never cross (documented since 742a3de4)
                cbp = hbp
        return {"bh": bh, "bc": bc, "hbp": hbp, "cbp": cbp, "hk": hk, "ck": ck, "lower": hb, "upper": cb,
                "bh_stored": doc["hdd_beta"], "bc_stored": doc["cdd_beta"]}
    if s in ("hdd_tidd_smooth", "hdd_tidd"):
        bp = min(max(doc["hdd_bp"], doc["tc"][2]), doc["tc"][3]) if s == "hdd_tidd" else doc["hdd_bp"]
        k = doc["hdd_k"] if s == "hdd_tidd_smooth" and doc["hdd_beta"] != 0 else 0.0
        return {"bh": -doc["hdd_beta"], "bc": 0.0, "hbp": bp, "cbp": bp, "hk": k, "ck": 0.0, "lower": bp, "upper": bp,
                "bh_stored": -doc["hdd_beta"], "bc_stored": 0.0}
    if s in ("tidd_cdd_smooth", "tidd_cdd"):
        bp = min(max(doc["cdd_bp"], doc["tc"][2]), doc["tc"][3]) if s == "tidd_cdd" else doc["cdd_bp"]
        k = doc["cdd_k"] if s == "tidd_cdd_smooth" and doc["cdd_beta"] != 0 else 0.0
        return {"bh": 0.0, "bc": doc["cdd_beta"], "hbp": bp, "cbp": bp, "hk": 0.0, "ck": k, "lower": bp, "upper": bp,
                "bh_stored": 0.0, "bc_stored": doc["cdd_beta"]}
    return {"bh": 0.0, "bc": 0.0, "hbp": 0.0, "cbp": 0.0, "hk": 0.0, "ck": 0.0, "lower": 0.0, "upper": 0.0,
            "bh_stored": 0.0, "bc_stored": 0.0}


def in_corner(doc, v):
    return v["hbp"] == v["cbp"] and v["cbp"] >= doc["tc"][1] and (v["bh"] != 0 or v["bc"] != 0)


def smoothed_side(beta, k, d, ln_min):
    """documented smoothed hinge at distance d >= 0 beyond the (shifted) balance point"""
    if k == 0 or beta == 0:
        return beta * d
    return beta * d + beta * k * (math.exp(max(-d / k, ln_min)) - 1.0)


def oracle(doc, rows, ln_min):
    """list of (signature, message, detail). Empty = the statement holds on these rows."""
    v = stored_view(doc)
    icpt = doc["intercept"]
    corner = in_corner(doc, v)
    t_max = doc["tc"][1]
    bmax = max(v["bh_stored"], v["bc_stored"], 0.0)
    scale = max([1.0, abs(icpt), bmax * 200.0] + [abs(r[1]) for r in rows if math.isfinite(r[1])])
    slack = 1e-9 * scale
    fails = {}

    def fail(clause, T, msg, **detail):
        sig = {"clause": clause, "shape": doc["shape"], "corner": CORNER if corner else "no",
               "T": "> T_max" if T > t_max else "<= T_max", "dtype": doc.get("tdtype", "float64"),
               "T_vs_bp": BP32 if is_bp32_image(doc, v, T) else "other"}
        key = json.dumps(sig, sort_keys=True)
        if key not in fails:
            fails[key] = (sig, msg, dict(detail, T=T))

    prev = None
    for (T, p, h, c) in rows:
        if not (math.isfinite(p) and math.isfinite(h) and math.isfinite(c)):
            fail("finite", T, "non-finite prediction or load", row=[p, h, c])
            prev = None
            continue
        if abs(icpt + h + c - p) > slack:
            fail("add up", T, "base load + heating load + cooling load differs from the prediction", row=[p, h, c])
        if h < -slack or c < -slack:
            fail("non-negative loads", T, "negative %s load" % ("heating" if h < -slack else "cooling"), row=[p, h, c])
        if abs(h) > slack and abs(c) > slack:
            fail("exclusive loads", T, "heating and cooling load both non-zero", row=[p, h, c])
        if v["hbp"] <= T <= v["cbp"] and abs(p - icpt) > slack:
            fail("flat between", T, "prediction differs from the base load between the balance points", row=[p, h, c])
        # beyond the balance points: the documented (smoothed) hinge with the fitted slope
        if T <= v["hbp"]:
            want = icpt + smoothed_side(v["bh"], v["hk"], v["hbp"] - T, ln_min)
            if abs(p - want) > slack:
                fail("heating line" if v["hk"] == 0 else "heating asymptote", T,
                     "prediction is not the fitted heating line / smoothed hinge below the balance point",
                     row=[p, h, c], expected=want)
            if abs(h - (want - icpt)) > slack:
                fail("heating load value", T, "heating load is not the heating term", row=[p, h, c], expected=want - icpt)
        if T >= v["cbp"]:
            want = icpt + smoothed_side(v["bc"], v["ck"], T - v["cbp"], ln_min)
            if abs(p - want) > slack:
                fail("cooling line" if v["ck"] == 0 else "cooling asymptote", T,
                     "prediction is not the fitted cooling line / smoothed hinge above the balance point",
                     row=[p, h, c], expected=want)
            if abs(c - (want - icpt)) > slack:
                fail("cooling load value", T, "cooling load is not the cooling term", row=[p, h, c], expected=want - icpt)
        if prev is not None:
            T0, p0 = prev
            # proved Lipschitz bound (C11_curve_lipschitz_stored) = continuity, quantitatively
            if abs(p - p0) > bmax * (T - T0) + slack:
                fail("continuous (Lipschitz)", T, "jump/steepness beyond max(slopes) * |dT|", pair=[T0, p0, T, p])
            if T <= v["lower"] and p > p0 + slack:
                fail("heating monotone", T, "prediction increases with temperature below the heating balance point",
                     pair=[T0, p0, T, p])
            if T0 >= v["upper"] and p < p0 - slack:
                fail("cooling monotone", T, "prediction decreases with temperature above the cooling balance point",
                     pair=[T0, p0, T, p])
        prev = (T, p)
    return list(fails.values())


# ------------------------------------------------------------------ Coq terms

def fopt(x):
    return "None" if x is None else "(Some %s)" % fhex(x)


def coq_doc(doc):
    return "(mkc %s %s %s)" % (COQ_SHAPE[doc["shape"]], fhex(doc["intercept"]), " ".join(fopt(doc[f]) for f in FIELDS))


def coq_tc(doc):
    return "(mktc %s)" % " ".join(fhex(t) for t in doc["tc"])


def coq_x(x):
    return "(mkx %s)" % " ".join(fhex(v) for v in x)


def coq_num(x):
    """float incl. nan/inf for comparison positions"""
    return fhex(x)


def coq_predict_case(doc, xi, rows):
    rws = coq_list(["(%s, %s, %s, %s)" % (fhex(T), coq_num(p), coq_num(h), coq_num(c)) for (T, p, h, c) in rows])
    return "(%s, %s, Some %s, %s)" % (coq_doc(doc), coq_tc(doc), coq_x(xi), rws)


# ------------------------------------------------------------------ streams

def constants_tie(run):
    """the two exp-clip constants of the numeric dictionary are the package's"""
    from opendsm.common.utils import LN_MAX_POS_SYSTEM_VALUE, LN_MIN_POS_SYSTEM_VALUE
    from fractions import Fraction
    numf = open(os.path.join(vlib.COQ, "Model", "NumF.v")).read()
    numr = open(os.path.join(vlib.COQ, "Model", "NumR.v")).read()
    lo = re.search(r"f_ln_min : float := \((-?0x[0-9a-f.]+p[+-]\d+)\)", numf).group(1)
    hi = re.search(r"f_ln_max : float := \((-?0x[0-9a-f.]+p[+-]\d+)\)", numf).group(1)
    rlo = re.search(r"R_ln_min : R := - \((\d+) / (\d+)\)", numr).groups()
    rhi = re.search(r"R_ln_max : R := (\d+) / (\d+)", numr).groups()
    ok = (float.fromhex(lo) == float(LN_MIN_POS_SYSTEM_VALUE) and float.fromhex(hi) == float(LN_MAX_POS_SYSTEM_VALUE)
          and -Fraction(int(rlo[0]), int(rlo[1])) == Fraction(float(LN_MIN_POS_SYSTEM_VALUE))
          and Fraction(int(rhi[0]), int(rhi[1])) == Fraction(float(LN_MAX_POS_SYSTEM_VALUE)))
    if not ok:
        run.corr_failures.append({"stream": "constants", "case": {"LN_MIN": float(LN_MIN_POS_SYSTEM_VALUE),
                                                                  "LN_MAX": float(LN_MAX_POS_SYSTEM_VALUE)},
                                  "impl": [float(LN_MIN_POS_SYSTEM_VALUE).hex(), float(LN_MAX_POS_SYSTEM_VALUE).hex()],
                                  "model": [lo, hi, rlo, rhi]})
    return float(LN_MIN_POS_SYSTEM_VALUE)


def stream_predict(run, docs, ntemps, ln_min, stream="predict", compare=True):
    terms, kept = [], []
    for doc in docs:
        v = stored_view(doc)
        ts = doc.get("temps") or gen_temps(run.rng, doc, v, ntemps)
        if compare:
            ts = cast_sweep(doc, v, ts)
        try:
            xi, rows = run_impl(doc, ts)
        except Exception as e:  # noqa
            run.violation({"clause": "evaluates", "shape": doc["shape"], "raised": type(e).__name__},
                          "C11: an admissible stored document does not evaluate: %s: %s" % (type(e).__name__, e),
                          case={"doc": doc}, generator="c11." + stream)
            continue
        corner = in_corner(doc, v)
        smooth = v["hk"] != 0 or v["ck"] != 0
        nontrivial = doc["shape"] != "tidd" and (v["bh"] != 0 or v["bc"] != 0)
        run.count(vlib.sha([doc, len(ts)]), nontrivial)
        run.cov["temperature_evaluations"] = run.cov.get("temperature_evaluations", 0) + len(ts)
        run.dist("shape", doc["shape"])
        run.dist("temperature_dtype", doc.get("tdtype", "float64"))
        run.dist("document_representation", "/".join(doc.get("rep", ["original", "from_dict"])))
        run.dist("regime", ("corner " if corner else "") + ("smoothed" if smooth else "unsmoothed") +
                 (" equal-bp" if v["hbp"] == v["cbp"] else ""))
        if doc["shape"] == "hdd_tidd_cdd_smooth":
            tot = doc["hdd_k"] + doc["cdd_k"]
            run.dist("pct_k", "both<0.01" if (doc["hdd_k"] < 0.01 and doc["cdd_k"] < 0.01) else
                     ("sum>1" if tot > 1 else ("sum=1" if tot == 1 else "sum<1")))
        for sig, msg, detail in oracle(doc, rows, ln_min):
            run.violation(sig, "C11 %s [%s]: %s" % (doc["shape"], sig["clause"], msg),
                          case={"doc": doc, "temps": [detail["T"]] + ([detail["pair"][0]] if "pair" in detail else [])},
                          observation=detail, expected=detail.get("expected"), generator="c11." + stream)
        terms.append(coq_predict_case(doc, xi, rows))
        kept.append((doc, xi, rows))
        run.sample({"doc": doc, "effective_vector": xi, "first_rows": rows[:3], "n_temperatures": len(rows)})
    if not compare:
        return
    bad = run.coq_cases(stream, IMPORTS, "", terms, "check_predict", shard=run.n(60, 60))
    if bad is None:
        run.proof_ok = False
        return
    for i in bad[:6]:
        doc, xi, rows = kept[i]
        # find the first disagreeing row for the replay
        mdl = run.coq_eval(IMPORTS, "", "(effective_x F %s %s, map (fun T => predict_submodel F %s %s T) %s)" % (
            coq_doc(doc), coq_tc(doc), coq_doc(doc), coq_tc(doc), coq_list([fhex(r[0]) for r in rows[:12]])))
        run.corr_failures.append({"stream": stream, "case": {"doc": doc, "temps": [r[0] for r in rows[:12]]},
                                  "impl": {"x": xi, "rows": rows[:12]}, "model": mdl})
    for i in bad[6:]:
        run.corr_failures.append({"stream": stream, "case": {"doc": kept[i][0]}})


def gen_vector(rng):
    """arbitrary 7-vector for the kernel: crossed / equal balance points, zero and negative k, zero slopes"""
    t_min = pick_float(rng, -20, 45)
    t_max = pick_float(rng, t_min + 5, 110)
    lo, hi = t_min - 5, t_max + 5
    hb, cb = pick_bp(rng, lo, hi, 0.08), pick_bp(rng, lo, hi, 0.08)
    u = rng.random()
    if u < 0.15:
        cb = hb
    if u < 0.10:
        hb = cb = rng.choice([t_min, t_max])
    ks = [0.0, 0.0, 0.5, 2.0, rng.uniform(1e-3, 30), rng.uniform(1e-3, 30)]
    x = [hb, pick_beta(rng), rng.choice(ks), cb, pick_beta(rng), rng.choice(ks), pick_float(rng, -5, 80)]
    if rng.random() < 0.05:
        x[1] = -x[1]
    if rng.random() < 0.05:
        x[5] = -x[5]
    return x, t_min, t_max


def stream_kernel(run, n, ntemps):
    from opendsm.eemeter.models.daily.base_models.full_model import full_model
    terms, kept = [], []
    for _ in range(n):
        x, t_min, t_max = gen_vector(run.rng)
        ts = set([x[0], x[3], t_min, t_max, float(np.nextafter(x[0], -np.inf)), float(np.nextafter(x[0], np.inf)),
                  float(np.nextafter(x[3], -np.inf)), float(np.nextafter(x[3], np.inf)), -60.0, 140.0])
        while len(ts) < ntemps:
            ts.add(run.rng.randrange(-240, 561) / 4.0 if run.rng.random() < 0.5 else run.rng.uniform(-60, 140))
        ts = sorted(ts)
        e = full_model(*x, np.array([t_min, t_max]), np.array(ts, dtype=float))
        run.count(vlib.sha([x, t_min, t_max]), x[1] != 0 or x[4] != 0)
        run.dist("kernel_order", "crossed" if x[3] < x[0] else ("equal" if x[3] == x[0] else "ordered"))
        terms.append("(%s, %s, %s, %s)" % (coq_x(x), fhex(t_min), fhex(t_max),
                                          coq_list(["(%s, %s)" % (fhex(t), coq_num(float(v))) for t, v in zip(ts, e)])))
        kept.append((x, t_min, t_max, ts, [float(v) for v in e]))
    bad = run.coq_cases("kernel", IMPORTS, "", terms, "check_kernel", shard=200)
    if bad is None:
        run.proof_ok = False
        return
    for i in bad[:6]:
        x, t_min, t_max, ts, e = kept[i]
        mdl = run.coq_eval(IMPORTS, "", "map (fun T => full_model1 F %s %s %s T) %s" % (
            coq_x(x), fhex(t_min), fhex(t_max), coq_list([fhex(t) for t in ts[:12]])))
        run.corr_failures.append({"stream": "kernel", "case": {"x": x, "T_min": t_min, "T_max": t_max, "temps": ts[:12]},
                                  "impl": e[:12], "model": mdl})


def stream_smooth(run, n):
    from opendsm.eemeter.models.daily.utilities.base_model import get_smooth_coeffs
    terms, kept = [], []
    for _ in range(n):
        hb = pick_float(run.rng, -20, 100)
        cb = hb + (0.0 if run.rng.random() < 0.1 else pick_float(run.rng, 0, 60))
        if run.rng.random() < 0.1:
            hb, cb = cb, hb
        ph, pc = pick_pct(run.rng), pick_pct(run.rng)
        out = [float(v) for v in get_smooth_coeffs(hb, ph, cb, pc)]
        run.count(vlib.sha([hb, ph, cb, pc]), ph >= 0.01 or pc >= 0.01)
        terms.append("((%s, %s, %s, %s), (%s, %s, %s, %s))" % tuple(fhex(v) for v in [hb, ph, cb, pc] + out))
        kept.append(([hb, ph, cb, pc], out))
    bad = run.coq_cases("smooth", IMPORTS, "", terms, "check_smooth", shard=400)
    if bad is None:
        run.proof_ok = False
        return
    for i in bad[:6]:
        a, out = kept[i]
        run.corr_failures.append({"stream": "smooth", "case": a, "impl": out,
                                  "model": run.coq_eval(IMPORTS, "", "get_smooth_coeffs F %s" % " ".join(fhex(v) for v in a))})


def stream_exp(run, n):
    xs = [-331.0, 331.0, 0.0, -1.0, 1.0, -700.0 / 3] + [run.rng.uniform(-331.2, 10.0) for _ in range(n)]
    terms = ["(%s, %s)" % (fhex(x), fhex(float(np.exp(x)))) for x in xs]
    bad = run.coq_cases("exp", IMPORTS, "", terms, "check_exp", shard=400)
    if bad is None:
        run.proof_ok = False
        return
    for i in bad[:3]:
        run.corr_failures.append({"stream": "exp", "case": xs[i], "impl": float(np.exp(xs[i])),
                                  "model": run.coq_eval(IMPORTS, "", "fexp %s" % fhex(xs[i]))})


def corner_docs():
    """the refuted witness of Properties/C11.v (hdd_tidd, bp = T_max = 70), its relatives, and the old C11-F2 witness"""
    base = {f: None for f in FIELDS}
    tc = [10.0, 70.0, 10.0, 70.0]
    temps = [50.0, 69.0, 70.0, float(np.nextafter(70.0, np.inf)), 71.0, 95.0, 120.0, 140.0]
    out = [
        dict(base, shape="hdd_tidd", intercept=20.0, hdd_bp=70.0, hdd_beta=-1.0, tc=tc, temps=temps),
        dict(base, shape="hdd_tidd_smooth", intercept=20.0, hdd_bp=70.0, hdd_beta=-1.0, hdd_k=2.0, tc=tc, temps=temps),
        dict(base, shape="hdd_tidd_cdd", intercept=20.0, hdd_bp=70.0, hdd_beta=1.0, cdd_bp=70.0, cdd_beta=1.0, tc=tc, temps=temps),
        dict(base, shape="hdd_tidd_cdd_smooth", intercept=20.0, hdd_bp=50.0, hdd_beta=1.0, hdd_k=1.0, cdd_bp=70.0,
             cdd_beta=1.0, cdd_k=0.0, tc=tc, temps=temps),
        dict(base, shape="tidd_cdd", intercept=20.0, cdd_bp=70.0, cdd_beta=1.0, tc=tc, temps=temps),
        # old witness of C11-F2 (fixed by /repo 742a3de4): the shifted balance points met and crossed by an ulp
        dict(base, shape="hdd_tidd_cdd_smooth", intercept=58.7183076539315, hdd_bp=12.106478702938013,
             hdd_beta=1.6807497093904664, hdd_k=0.4126133326537498, cdd_bp=16.12505849339802, cdd_beta=5.324197379481124,
             cdd_k=0.6380378622932393, tc=[10.106478702938013, 84.0, 12.106478702938013, 82.8597945255392],
             temps=[-60.0, 0.0, 12.0, 13.5, 14.0, 16.0, 50.0, 84.0, 100.0]),
    ]
    return out


def dtype_witness_docs():
    """float32 temperature column holding the float32 image of a balance point that is itself not a float32 number
    (known finding C11-F3): oracle only, the temperature is excluded from the compared sweeps"""
    base = {f: None for f in FIELDS}
    t32 = float(np.float32(50.3))
    return [dict(base, shape="hdd_tidd_cdd", intercept=10.25, hdd_bp=50.3, hdd_beta=2.0, cdd_bp=50.3, cdd_beta=3.0,
                 tc=[10.0, 90.0, 10.0, 90.0], tdtype="float32", temps=[40.0, 50.0, t32, 51.0, 60.0]),
            dict(base, shape="hdd_tidd", intercept=20.0, hdd_bp=60.1, hdd_beta=-4.0, tc=[10.0, 90.0, 10.0, 90.0], tdtype="float32",
                 temps=[40.0, float(np.float32(60.1)), 70.0])]


# ------------------------------------------------------------------ main

def main():
    run = Run("C11")
    run.cov["rule"] = (
        "predict: stored documents of all 7 shapes drawn from the optimiser's box (balance points in [T_min_seg,T_max_seg] "
        "incl. its faces and equal balance points, slopes >= 0 incl. 0 with the stored sign convention, percent-k in "
        "{0, <0.01, 0.01, 0.25..0.75, 1, uniform} incl. sums > 1, one-sided k in {0,0.25,..,30}); each is evaluated through "
        "DailyModel.from_dict(...)._predict on a sweep of -60..140 F that contains the stored and shifted balance points, "
        "their float neighbours, T_min/T_max/T_*_seg and a uniform grid; the temperature COLUMN of the frame is float64, float32 "
        "(sweep rounded to float32) or int64 (whole degrees), the model is evaluated at the exact value of each temperature; the "
        "document is handed over with the keys of every nested mapping (top level, submodels, coefficients, temperature_constraints, "
        "settings, info) in original / sorted / reversed / shuffled order through from_dict or from_json. distinct = hash(document, sweep length); "
        "non-trivial = a shape with a non-zero effective slope. kernel: arbitrary 7-vectors (crossed/equal balance points, "
        "negative k) through the numba kernel directly; smooth: get_smooth_coeffs; exp: own exp vs numpy")
    run.assumptions += [
        "theorems are about the real-number semantics of the model text; the code computes in binary64 (no rounding-error "
        "theorem) — the same text is executed in binary64 for the correspondence and the oracle carries 1e-9*scale slack",
        "the model's exp (Taylor kernel) is not libm's: rows that evaluate exp are compared within 1e-9 relative",
        "correspondence is sampled: agreement is established on the cases run",
        "oracle: a slope whose balance point lies on the end of the fitted range of a two-sided document is read as absent "
        "(fix_full_model_x), as the theorems do (C11_effective_vector)",
    ]
    run.cov["trusted_base"] += ["harness/c11.py (generator, adapter reading predict() columns, oracle, tolerance policy)",
                                "numeric dictionary instances Model/NumR.v, Model/NumF.v (exp-clip constants compared with "
                                "opendsm.common.utils on every run)"]
    run.check_proofs("Properties/C11.v", ["Proofs/DailyCurveProofs.v"])
    run.ensure_models(["Model/DailyCurveRun.v", "Model/CasesLib.v"])
    ln_min = constants_tie(run)
    if run.replay:
        rep = json.load(open(run.replay))
        case = rep["case"]
        if "doc" in case:
            doc = dict(case["doc"])
            if case.get("temps"):
                v = stored_view(doc)
                doc["temps"] = sorted(set(list(case["temps"]) + gen_temps(run.rng, doc, v, 60)))
            stream_predict(run, [doc], 200, ln_min, "replay")
        run.finish()
    # the refuted witnesses first: must reproduce as the known finding
    stream_predict(run, corner_docs(), 0, ln_min, "corner")
    stream_predict(run, dtype_witness_docs(), 0, ln_min, "dtype_witness", compare=False)
    corpus = os.path.join(vlib.VERIF, "corpus", "C11.json")
    docs = []
    if os.path.exists(corpus):
        docs += json.load(open(corpus))
    ndocs = run.n(1000, 30000)
    ntemps = run.n(100, 200)
    docs += [gen_doc(run.rng, k) for k in range(ndocs)]
    chunk = 6000
    for i in range(0, len(docs), chunk):
        stream_predict(run, docs[i:i + chunk], ntemps, ln_min)
        run.log("predict: %d/%d documents" % (min(i + chunk, len(docs)), len(docs)))
    stream_kernel(run, run.n(1200, 40000), run.n(40, 60))
    stream_smooth(run, run.n(2000, 50000))
    stream_exp(run, run.n(500, 5000))
    run.finish()


if __name__ == "__main__":
    vlib.run_main(main, "C11")
