"""C10 support: scenarios (ground truth), pandas input builders, the implementation adapter (worker process) and the
literal oracle of the published sufficiency criteria in exact integer arithmetic.  Used by harness/c10.py.

A *scenario* is a JSON-serialisable description of one input in terms of local calendar cells (days for the daily and
billing classes, hours for the hourly class): which cells have usage / temperature / irradiance, the usage values, the
time zone, the entry point.  Three independent things are derived from it:
  * the pandas objects handed to the data class (build_input),
  * the ground truth per cell (truth), from python datetime + zoneinfo only (no pandas),
  * the verdict the statement prescribes (oracle), from the ground truth only.
The worker (run_scenario) additionally captures the frame and the day counts the data class hands to / gets from the
criteria class, so that the Gallina model can be run on exactly that frame."""
import datetime as dt
from fractions import Fraction
from zoneinfo import ZoneInfo

PREFIX = "eemeter.sufficiency_criteria."
DQ_NAMES = {
    PREFIX + "no_data": "NoData",
    PREFIX + "negative_meter_values": "NegativeMeterValues",
    PREFIX + "incorrect_number_of_total_days": "IncorrectNumberOfTotalDays",
    PREFIX + "too_many_days_with_missing_data": "TooManyDaysMissingData",
    PREFIX + "too_many_days_with_missing_meter_data": "TooManyDaysMissingMeter",
    PREFIX + "too_many_days_with_missing_temperature_data": "TooManyDaysMissingTemperature",
    PREFIX + "missing_monthly_temperature_data": "MissingMonthlyTemperature",
    PREFIX + "missing_monthly_meter_data": "MissingMonthlyMeter",
    PREFIX + "missing_monthly_ghi_data": "MissingMonthlyGhi",
    PREFIX + "offcycle_reads_in_billing_monthly_data": "OffcycleReads",
}
DQ_ORDER = ["NoData", "NegativeMeterValues", "IncorrectNumberOfTotalDays", "TooManyDaysMissingData",
            "TooManyDaysMissingMeter", "TooManyDaysMissingTemperature", "MissingMonthlyTemperature",
            "MissingMonthlyMeter", "MissingMonthlyGhi", "OffcycleReads"]
WARN_NAMES = {
    PREFIX + "extreme_values_detected": "ExtremeValues",
    "eemeter.data_quality.utc_index": "UtcIndex",
    PREFIX + "offcycle_reads_in_billing_monthly_data": "OffcycleWarning",
    PREFIX + "unable_to_confirm_daily_temperature_sufficiency": "UnverifiableTemperature",
}
WARN_ORDER = ["ExtremeValues", "UtcIndex", "OffcycleWarning", "UnverifiableTemperature"]
# warnings of the pre-processing the statement does not speak about (listed in the evidence, not compared)
OTHER_WARNINGS = {PREFIX + "missing_high_frequency_temperature_data", PREFIX + "missing_high_frequency_meter_data",
                  PREFIX + "inferior_model_usage"}

DAY = 86400
ZONES = ["US/Pacific", "America/New_York", "Europe/Berlin", "Australia/Sydney", "Asia/Kolkata", "UTC",
         "America/St_Johns", "America/Chicago"]


# ------------------------------------------------------------------ local time, from zoneinfo only

def midnight(d, tz):
    """UTC seconds of local midnight of date d"""
    return int(dt.datetime(d.year, d.month, d.day, tzinfo=ZoneInfo(tz)).timestamp())


def local(t, tz):
    return dt.datetime.fromtimestamp(t, ZoneInfo(tz))


_TRANS = {}
_T_LO = int(dt.datetime(2017, 6, 1, tzinfo=dt.timezone.utc).timestamp())
_T_HI = int(dt.datetime(2024, 1, 1, tzinfo=dt.timezone.utc).timestamp())


def _raw_offset(t, tz):
    return int(local(t, tz).utcoffset().total_seconds())


def transitions(tz):
    """[(first UTC second, offset in force from then on)] from zoneinfo, found by a daily scan + bisection"""
    if tz not in _TRANS:
        out = [(_T_LO, _raw_offset(_T_LO, tz))]
        t = _T_LO
        while t < _T_HI:
            t2 = t + DAY
            if _raw_offset(t2, tz) != out[-1][1]:
                lo, hi = t, t2
                while hi - lo > 1:
                    mid = (lo + hi) // 2
                    if _raw_offset(mid, tz) == out[-1][1]:
                        lo = mid
                    else:
                        hi = mid
                out.append((hi, _raw_offset(hi, tz)))
            t = t2
        _TRANS[tz] = out
    return _TRANS[tz]


def utc_offset(t, tz):
    if not (_T_LO <= t < _T_HI):
        return _raw_offset(t, tz)
    tr = transitions(tz)
    lo, hi = 0, len(tr)
    while hi - lo > 1:
        mid = (lo + hi) // 2
        if tr[mid][0] <= t:
            lo = mid
        else:
            hi = mid
    return tr[lo][1]


def local_month(t, tz):
    return dt.datetime.fromtimestamp(t + utc_offset(t, tz), dt.timezone.utc).month


def start_date(sc):
    y, m, d = sc["start"]
    return dt.date(y, m, d)


def day_starts(sc, extra=0):
    """UTC seconds of the cell starts of the daily grid: local midnight of every day of the span (+ extra following
    days), or - "read_hour" - the local hour at which the daily meter reads of the scenario sit"""
    d0 = start_date(sc)
    h = sc.get("read_hour", 0)
    if not h:
        return [midnight(d0 + dt.timedelta(days=i), sc["tz"]) for i in range(sc["span"] + extra)]
    out = []
    for i in range(sc["span"] + extra):
        d = d0 + dt.timedelta(days=i)
        out.append(int(dt.datetime(d.year, d.month, d.day, h, tzinfo=ZoneInfo(sc["tz"])).timestamp()))
    return out


def hour_starts(sc):
    """UTC seconds of every elapsed hour from local midnight of the first day to local midnight after the last day"""
    d0 = start_date(sc)
    a = midnight(d0, sc["tz"])
    b = midnight(d0 + dt.timedelta(days=sc["span"]), sc["tz"])
    return list(range(a, b, 3600))


def expand_runs(runs, n):
    """[[start, length], ...] -> boolean list of length n"""
    out = [False] * n
    for s, k in runs:
        for i in range(max(0, s), min(n, s + k)):
            out[i] = True
    return out


def usage_value(sc, i):
    """usage of cell i (a dyadic rational as float) before the overrides: constant within a week, five levels
    (run-length friendly: the case literals of the Coq correspondence stay small)"""
    base = sc.get("usage_base", 8.0)
    per_week = 24 * 7 if sc["family"] == "hourly" else 7
    return base + 0.5 * ((i // per_week) % 5)


def usage_cells(sc, n):
    """per cell: float value, or None (missing)"""
    miss = expand_runs(sc.get("usage_missing", []), n)
    vals = [None if miss[i] else usage_value(sc, i) for i in range(n)]
    for s, k, v in sc.get("usage_override", []):
        for i in range(max(0, s), min(n, s + k)):
            if vals[i] is not None:
                vals[i] = v
    return vals


# ------------------------------------------------------------------ ground truth

def truth(sc):
    """per cell of the class's own grid: t (UTC s), month (local), usage (Fraction | None, after the electricity
    zero rule), temp_valid (enough hours for a valid day), temp_present (a daily/hourly temperature exists), ghi"""
    tz = sc["tz"]
    fam = sc["family"]
    if fam == "hourly":
        ts = hour_starts(sc)
        n = len(ts)
        us = usage_cells(sc, n)
        tm = expand_runs(sc.get("temp_missing", []), n)
        gm = expand_runs(sc["ghi_missing"], n) if sc.get("ghi_missing") is not None else None
        ab = expand_runs(sc.get("rows_absent", []), n)          # rows that are not in the input at all
        for i in range(n):
            if ab[i]:
                us[i] = None
                tm[i] = True
                if gm is not None:
                    gm[i] = True
        cells = []
        for i, t in enumerate(ts):
            cells.append({"t": t, "month": local_month(t, tz), "usage": us[i], "temp_valid": not tm[i],
                          "temp_present": not tm[i], "ghi": None if gm is None else (not gm[i])})
    else:
        ts = day_starts(sc, extra=1)
        n = sc["span"]
        if fam == "billing" and sc.get("meter_source"):
            us = billing_rows_usage(sc)
        elif fam == "billing":
            us = billing_daily_usage(sc)
        else:
            us = usage_cells(sc, n)
        if sc.get("read_hour") and sc["entry"] == "frame":
            # a day without a read is re-inserted by the class on the day grid of the frame (anchored at its first row:
            # local midnight; from_series trims the frame to start at the first read), a day with a read keeps the
            # timestamp of the read
            mid = day_starts(dict(sc, read_hour=0), extra=1)
            ts = [mid[i] if (i < n and (us[i] is None or (sc["electric"] and us[i] == 0))) else ts[i]
                  for i in range(n + 1)]
        cells = []
        meter = has_meter(sc)
        trim = (fam == "daily" or bool(sc.get("meter_source"))) and sc["entry"] == "from_series"
        # from_series "trims the data to exclude NaNs on the outer edges": leading / trailing readings without a value
        # are not data - the meter series is cut to its first..last value, the temperature series to its first..last
        # value, and each is then cut to the range of the other (a day of the meter series reaches one period back)
        ka, kb = 0, n - 1                               # cells kept
        if trim and meter:
            have = [i for i in range(n) if us[i] is not None]
            if have:
                ka, kb = have[0], have[-1]
        if sc["temp_source"] == "daily":
            tm = expand_runs(sc.get("temp_missing", []), n)
            if trim and not all(tm):
                fv = min(i for i in range(n) if not tm[i])
                lv = max(i for i in range(n) if not tm[i])
                ka, kb = max(ka, fv), min(kb, lv)
            for i in range(ka, kb + 1):
                cells.append({"t": ts[i], "month": local_month(ts[i], tz), "usage": us[i], "temp_valid": not tm[i],
                              "temp_present": not tm[i], "ghi": None})
        else:
            hs = hour_starts(sc)
            hm = expand_runs(sc.get("temp_missing", []), len(hs))
            ha, hb = 0, len(hs) - 1                     # hours kept
            if trim and not all(hm):
                fv = min(j for j in range(len(hs)) if not hm[j])
                lv = max(j for j in range(len(hs)) if not hm[j])
                if meter and kb > ka:
                    back = max(0, (ts[ka + 1] - ts[ka]) - 3600)
                    ahead = max(0, (ts[kb] - ts[kb - 1]) - 3600)
                else:
                    back = ahead = 0
                if meter:
                    keep = [i for i in range(ka, kb + 1) if hs[fv] - back <= ts[i] <= hs[lv]]
                else:                                   # the frame has one row per local day that holds a reading
                    keep = [i for i in range(n) if ts[i + 1] > hs[fv] and ts[i] <= hs[lv]]
                if keep:
                    ka, kb = keep[0], keep[-1]
                    ha = max(fv, min(j for j in range(len(hs)) if hs[j] >= ts[ka])) if meter else fv
                    hb = min(lv, max(j for j in range(len(hs)) if hs[j] <= ts[kb] + ahead)) if meter else lv
                    # (a 25-hour last meter period reaches one hour into the next day: that day gets a row, without usage)
                    while meter and kb + 1 < n and hs[hb] >= ts[kb + 1]:
                        kb += 1
                        us[kb] = None
                else:
                    ka, kb = 0, -1
            j = 0
            while j < len(hs) and hs[j] < ts[ka if kb >= ka else 0]:      # hours before the first cell belong to no cell
                j += 1
            for i in range(ka, kb + 1):
                tot = pres = 0
                while j < len(hs) and hs[j] < ts[i + 1]:
                    if ha <= j <= hb:
                        tot += 1
                        pres += 0 if hm[j] else 1
                    j += 1
                cells.append({"t": ts[i], "month": local_month(ts[i], tz), "usage": us[i],
                              "temp_valid": 10 * pres > 9 * tot, "temp_present": 2 * pres > tot,
                              "hours": [pres, tot - pres], "ghi": None})
    for c in cells:
        if c["usage"] is not None:
            c["usage"] = Fraction(c["usage"])
            if sc["electric"] and c["usage"] == 0:
                c["usage"] = None           # "electricity data with 0 meter values are converted to NaNs"
    if sc["period"] == "reporting" and not sc.get("observed_column", True):
        for c in cells:
            c["usage"] = None
    return cells


def has_meter(sc):
    return not (sc["period"] == "reporting" and not sc.get("observed_column", True))


def billing_periods(sc):
    """the stamps as supplied: [(first day index, length in days, value | None)]"""
    out = []
    i = 0
    for ln, v in sc["periods"]:
        out.append((i, ln, v))
        i += ln
    return out


def billing_effective(sc):
    """periods between consecutive stamps that carry a reading (a stamp without one - NaN, or 0 for electricity -
    does not start a period: the preceding reading runs up to the next stamp that has one, or to the closing stamp);
    days before the first reading belong to no period.  -> [(first day, length, value)]"""
    out = []
    for i, ln, v in billing_periods(sc):
        if v is None or (sc["electric"] and v == 0):
            if out:
                out[-1][1] += ln
        else:
            out.append([i, ln, v])
    return [tuple(p) for p in out]


def billing_kind(sc):
    """monthly or bimonthly cycle: by the median length of the periods (the last one, which runs up to the closing
    stamp, is left out as the code does; generated cycles are never near the 35-day limit)"""
    lens = sorted(ln for _, ln, _ in billing_effective(sc)[:-1])
    if not lens:
        return "bimonthly"
    m = len(lens)
    med2 = lens[m // 2] * 2 if m % 2 else lens[m // 2 - 1] + lens[m // 2]      # twice the median
    return "monthly" if med2 <= 70 else "bimonthly"


def billing_rows_usage(sc):
    """daily (or hourly) meter rows handed to a billing class are summed per calendar month (a month without any
    value has none) and the month's total is spread over its days by elapsed time. -> usage per day | None"""
    n = sc["span"]
    ts = day_starts(sc, extra=1)
    raw = usage_cells(sc, n)
    d0 = start_date(sc)
    key = [((d0 + dt.timedelta(days=i)).year, (d0 + dt.timedelta(days=i)).month) for i in range(n)]
    out = [None] * n
    i = 0
    while i < n:
        j = i
        while j < n and key[j] == key[i]:
            j += 1
        vals = [Fraction(raw[d]) * ((ts[d + 1] - ts[d]) // 3600 if sc["meter_source"] == "hourly" else 24) / 24
                for d in range(i, j) if raw[d] is not None]
        if vals:
            tot = sum(vals)
            for d in range(i, j):
                out[d] = tot * (ts[d + 1] - ts[d]) / (ts[j] - ts[i])
        i = j
    return out


def billing_offcycle(sc):
    if sc.get("meter_source"):
        return []                     # calendar months are never off-cycle
    hi = 35 if billing_kind(sc) == "monthly" else 70
    return [(i, ln) for i, ln, v in billing_effective(sc) if ln < 25 or ln > hi]


def billing_daily_usage(sc):
    """usage per day: the period's total spread evenly over its elapsed time (a 25-hour day gets 25 shares);
    None outside periods / in off-cycle periods"""
    n = sc["span"]
    out = [None] * n
    hi = 35 if billing_kind(sc) == "monthly" else 70
    ts = day_starts(sc, extra=1)
    for i, ln, v in billing_effective(sc):
        if ln < 25 or ln > hi:
            continue
        for d in range(i, min(n, i + ln)):
            out[d] = Fraction(v) * (ts[d + 1] - ts[d]) / (ts[i + ln] - ts[i])
    return out


# ------------------------------------------------------------------ the oracle: the statement, literally

def whole_days(cells, valid, t_end):
    """days with ..., counting each timestamp's period up to the next timestamp (the last one has none)"""
    secs = 0
    for i, c in enumerate(cells[:-1]):
        if valid(c):
            secs += cells[i + 1]["t"] - c["t"]
    return secs // DAY, secs


def oracle(sc, cells=None):
    """-> {"dq": set of names the statement prescribes, "warn_must": set, "warn_never_dq": ..., "detail": {...}}"""
    cells = truth(sc) if cells is None else cells
    base = sc["period"] == "baseline"
    fam = sc["family"]
    has_ghi = any(c["ghi"] is not None for c in cells)
    usage_matters = base           # usage is optional for reporting data: only temperature criteria apply

    def complete(c):        # a timestamp that carries data: the span runs from the first to the last of them
        return ((not usage_matters) or c["usage"] is not None) and c["temp_present"] and (not has_ghi or c["ghi"])
    dq = set()
    det = {}
    comp = [c for c in cells if complete(c)]
    if not comp:
        dq.add("NoData")
        total = None
    else:
        total = (comp[-1]["t"] - comp[0]["t"]) // DAY + 1
    det["total"] = total
    if base and not sc["electric"] and any(c["usage"] is not None and c["usage"] < 0 for c in cells):
        dq.add("NegativeMeterValues")
    if base and total is not None and not (329 <= total <= 365):
        dq.add("IncorrectNumberOfTotalDays")

    def under(n):
        return True if total is None else 10 * n < 9 * total
    n_temp, s_temp = whole_days(cells, lambda c: c["temp_valid"], None)
    det["n_temp"] = n_temp
    if base:
        n_use, s_use = whole_days(cells, lambda c: c["usage"] is not None, None)
        n_both, s_both = whole_days(cells, lambda c: c["usage"] is not None and c["temp_valid"], None)
        det.update(n_use=n_use, n_both=n_both, secs=[s_both, s_use, s_temp])
        if under(n_use):
            dq.add("TooManyDaysMissingMeter")
    else:
        n_both, s_both = n_temp, s_temp
        det.update(n_both=n_both, secs=[s_both, None, s_temp])
    if under(n_both):
        dq.add("TooManyDaysMissingData")
    if under(n_temp):
        dq.add("TooManyDaysMissingTemperature")

    def month_under(present):
        worst = None
        for m in range(1, 13):
            g = [c for c in cells if c["month"] == m]
            if g:
                k = sum(1 for c in g if present(c))
                if 10 * k < 9 * len(g):
                    worst = m
        return worst
    mt = month_under(lambda c: c["temp_present"])
    if mt is not None:
        dq.add("MissingMonthlyTemperature")
    if fam == "hourly":
        if base and month_under(lambda c: c["usage"] is not None) is not None:
            dq.add("MissingMonthlyMeter")
        if has_ghi and month_under(lambda c: c["ghi"]) is not None:
            dq.add("MissingMonthlyGhi")
    warn = set()
    if sc["tz"] == "UTC":
        warn.add("UtcIndex")
    if fam != "hourly" and sc["temp_source"] == "daily":
        warn.add("UnverifiableTemperature")
    if fam == "billing" and has_meter(sc) and billing_offcycle(sc):
        warn.add("OffcycleWarning")
    return {"dq": dq, "warn_must": warn, "detail": det}


def extreme_truth(cells):
    """(has extreme value, margin) over the usage values present: v > median + 3 (q75 - q25), linear quantiles"""
    vs = sorted(c["usage"] for c in cells if c["usage"] is not None)
    if not vs:
        return False, None

    def q(num, den):
        pos = Fraction((len(vs) - 1) * num, den)
        lo = pos.numerator // pos.denominator
        hi = min(lo + 1, len(vs) - 1)
        return vs[lo] + (vs[hi] - vs[lo]) * (pos - lo)
    lim = q(1, 2) + 3 * (q(3, 4) - q(1, 4))
    scale = max(1, abs(lim), abs(vs[-1]))
    margin = min(abs(v - lim) for v in vs) / scale
    return vs[-1] > lim, margin


# ------------------------------------------------------------------ pandas inputs

UTC_KINDS = ["stdlib", "pytz", "zoneinfo", "dateutil", "etc"]


def tz_object(sc):
    """the tzinfo the index of the scenario carries; a UTC index is built with one of five kinds of UTC tzinfo"""
    if sc["tz"] != "UTC":
        return sc["tz"]
    kind = sc.get("utc_kind", "stdlib")
    if kind == "pytz":
        import pytz
        return pytz.UTC
    if kind == "zoneinfo":
        return ZoneInfo("UTC")
    if kind == "dateutil":
        import dateutil.tz
        return dateutil.tz.tzutc()
    if kind == "etc":
        return "Etc/UTC"
    return dt.timezone.utc


UTC_RULE = "name"       # set by c10.main from the translator: "name" | "offset_and_name"


def utc_by_name(sc):
    """str(tz) == "UTC": datetime.timezone.utc, pytz.UTC, ZoneInfo("UTC")"""
    return sc["tz"] == "UTC" and sc.get("utc_kind", "stdlib") in ("stdlib", "pytz", "zoneinfo")


def utc_as_coded(sc):
    """does the code as it is recognise the index of the scenario as a UTC index"""
    return sc["tz"] == "UTC" if UTC_RULE == "offset_and_name" else utc_by_name(sc)


def _index(secs, tz):
    import numpy as np
    import pandas as pd
    return pd.DatetimeIndex(np.array(secs, dtype="int64") * 10**9).tz_localize("UTC").tz_convert(tz)


def build_input(sc):
    """-> (kind, objects): ("frame", df) or ("series", meter, temperature)"""
    import numpy as np
    import pandas as pd
    fam = sc["family"]
    nan = float("nan")
    if fam == "hourly":
        ts = hour_starts(sc)
        n = len(ts)
        idx = _index(ts, tz_object(sc))
        us = usage_cells(sc, n)
        tm = expand_runs(sc.get("temp_missing", []), n)
        cols = {}
        if sc["period"] == "baseline" or sc.get("observed_column", True):
            cols["observed"] = [nan if v is None else v for v in us]
        cols["temperature"] = [nan if tm[i] else 50.0 + (i % 24) for i in range(n)]
        if sc.get("ghi_missing") is not None:
            gm = expand_runs(sc["ghi_missing"], n)
            cols["ghi"] = [nan if gm[i] else float((i % 24) * 10) for i in range(n)]
        df = pd.DataFrame(cols, index=idx)
        drop = expand_runs(sc.get("rows_absent", []), n)
        if any(drop):
            df = df[[not d for d in drop]]
        return "frame", (df,)
    n = sc["span"]
    days = day_starts(sc, extra=1)
    no_meter = sc["period"] == "reporting" and not sc.get("observed_column", True)
    # billing from_series: the temperature must reach the closing stamp of the last period
    closing = fam == "billing" and sc["entry"] == "from_series" and not no_meter and not sc.get("meter_source")
    if fam == "billing" and sc.get("meter_source") == "hourly":
        us = usage_cells(sc, n)
        hs = hour_starts(sc)
        vals, j = [], 0
        for i in range(n):
            while j < len(hs) and hs[j] < days[i + 1]:
                vals.append(nan if us[i] is None else us[i] / 24.0)
                j += 1
        meter = pd.Series(vals, index=_index(hs, tz_object(sc)), name="observed")
    elif fam == "billing" and not sc.get("meter_source"):
        stamps, vals = [], []
        for i, ln, v in billing_periods(sc):
            stamps.append(days[i])
            vals.append(nan if v is None else float(v))
        assert sum(ln for ln, _ in sc["periods"]) == n
        # from_series: closing stamp = first day after the last period; frame: "final row is part of the period"
        stamps.append(days[n] if sc["entry"] == "from_series" else days[n - 1])
        vals.append(nan if sc.get("final_nan", True) else 1.0)
        meter = pd.Series(vals, index=_index(stamps, tz_object(sc)), name="observed")
    else:
        us = usage_cells(sc, n)
        meter = pd.Series([nan if v is None else v for v in us], index=_index(days[:n], tz_object(sc)), name="observed")
    if sc["temp_source"] == "daily":
        tm = expand_runs(sc.get("temp_missing", []), n) + [False]
        k = n + 1 if closing else n
        temp = pd.Series([nan if tm[i] else 40.0 + (i % 30) for i in range(k)], index=_index(days[:k], tz_object(sc)),
                         name="temperature")
    else:
        hs = hour_starts(sc)
        hm = expand_runs(sc.get("temp_missing", []), len(hs))
        if closing:
            hs = hs + [days[n]]
            hm = hm + [False]
        temp = pd.Series([nan if hm[i] else 50.0 + (i % 24) for i in range(len(hs))], index=_index(hs, tz_object(sc)),
                         name="temperature")
    no_meter = sc["period"] == "reporting" and not sc.get("observed_column", True)
    if sc["entry"] == "from_series":
        return "series", (None if no_meter else meter, temp)
    if no_meter:
        df = temp.to_frame()
    else:
        df = pd.concat([meter, temp], axis=1)
    return "frame", (df,)


# ------------------------------------------------------------------ worker: implementation + capture

_CAPTURED = []
_READY = False


def _install():
    global _READY
    if _READY:
        return
    import logging
    import warnings
    warnings.simplefilter("ignore")
    logging.disable(logging.CRITICAL)
    from opendsm.eemeter.common import sufficiency_criteria as scm

    def wrap(cls):
        orig = cls.__init__

        def init(self, *a, **k):
            snap = None
            try:
                snap = _snapshot_frame(k["data"])
                snap["cls"] = cls.__name__
            except Exception as e:  # noqa
                snap = {"error": "%s: %s" % (type(e).__name__, e)}
            _CAPTURED.append(snap)
            orig(self, *a, **k)
            if "error" not in snap:
                snap["counts"] = [_num(self.n_days_total), _num(self.n_valid_days), _num(self.n_valid_meter_value_days),
                                  _num(self.n_valid_temperature_days)]
                snap["flags"] = [bool(self.is_reporting_data), bool(self.is_electricity_data)]
        cls.__init__ = init
    for name in ("DailySufficiencyCriteria", "BillingSufficiencyCriteria", "HourlySufficiencyCriteria"):
        wrap(getattr(scm, name))
    _READY = True


def _num(x):
    if x is None:
        return None
    if isinstance(x, float) and x != x:
        return "nan"
    return int(x)


def _snapshot_frame(df):
    """the frame handed to the criteria class, run-length encoded"""
    import numpy as np
    idx = df.index
    unit = getattr(idx, "unit", "ns")
    mult = {"ns": 10**9, "us": 10**6, "ms": 10**3, "s": 1}[unit]
    raw = idx.asi8
    if (raw % mult).any():
        raise ValueError("sub-second index")
    ts = (raw // mult).astype("int64")
    wall = idx.tz_localize(None).asi8 // mult
    off = (wall - ts).astype("int64")
    months = np.asarray(idx.month)
    civil = (ts + off).astype("datetime64[s]").astype("datetime64[M]").astype("int64") % 12 + 1
    if (civil != months).any():
        raise ValueError("index.month differs from the civil month of utc + offset")
    n = len(df)
    has_obs = "observed" in df.columns
    has_ghi = "ghi" in df.columns
    obs = df["observed"].to_numpy(dtype=float) if has_obs else np.full(n, np.nan)
    temp = df["temperature"].notna().to_numpy()
    a = df["temperature_not_null"].to_numpy(dtype=float)
    b = df["temperature_null"].to_numpy(dtype=float)
    ghi = df["ghi"].notna().to_numpy() if has_ghi else np.zeros(n, bool)
    others = [c for c in df.columns if c not in ("observed", "temperature", "temperature_not_null", "temperature_null", "ghi")]
    aux = df[others].notna().all(axis=1).to_numpy() if others else np.ones(n, bool)
    rows = []
    for i in range(n):
        o = None if obs[i] != obs[i] else float(obs[i]).as_integer_ratio()
        if a[i] != a[i] or b[i] != b[i]:
            cov = None
        else:
            if a[i] != int(a[i]) or b[i] != int(b[i]):
                raise ValueError("fractional coverage counts")
            cov = (int(a[i]), int(b[i]))
        rows.append((int(ts[i]), int(off[i]), int(months[i]), o, bool(temp[i]), cov, bool(ghi[i]), bool(aux[i])))
    segs = rle(rows)
    return {"has_obs": has_obs, "has_ghi": has_ghi, "segs": segs, "n_rows": n, "counts": None, "flags": None,
            "columns": list(map(str, df.columns))}


def rle(rows):
    """rows: (ts, off, month, obs, temp, cov, ghi, aux) -> segments [t0, step, n, off, obs, temp, cov, ghi, aux] + months"""
    segs = []
    i = 0
    n = len(rows)
    while i < n:
        t0, off, _, o, tp, cov, g, a = rows[i]
        j = i + 1
        step = 0
        if j < n and rows[j][1:2] + rows[j][3:] == rows[i][1:2] + rows[i][3:]:
            step = rows[j][0] - t0
            while j < n and rows[j][1:2] + rows[j][3:] == rows[i][1:2] + rows[i][3:] and rows[j][0] - rows[j - 1][0] == step:
                j += 1
        segs.append([t0, step, j - i, off, o, tp, cov, g, a])
        i = j
    return segs


def run_scenario(sc):
    """returns the canonical observation of the implementation on the scenario"""
    _install()
    import time
    t0 = time.time()
    del _CAPTURED[:]
    try:
        kind, objs = build_input(sc)
    except Exception as e:  # noqa
        return {"kind": "harness-error", "msg": "%s: %s" % (type(e).__name__, e)}
    from opendsm.eemeter.models.daily.data import DailyBaselineData, DailyReportingData
    from opendsm.eemeter.models.billing.data import BillingBaselineData, BillingReportingData
    from opendsm.eemeter.models.hourly.data import HourlyBaselineData, HourlyReportingData
    cls = {("daily", "baseline"): DailyBaselineData, ("daily", "reporting"): DailyReportingData,
           ("billing", "baseline"): BillingBaselineData, ("billing", "reporting"): BillingReportingData,
           ("hourly", "baseline"): HourlyBaselineData, ("hourly", "reporting"): HourlyReportingData}[
        (sc["family"], sc["period"])]
    try:
        if kind == "frame":
            data = cls(objs[0], is_electricity_data=sc["electric"])
        else:
            data = cls.from_series(objs[0], objs[1], is_electricity_data=sc["electric"])
    except Exception as e:  # noqa
        import traceback
        tb = traceback.extract_tb(e.__traceback__)
        where = "%s:%d" % (tb[-1].filename.split("/")[-1], tb[-1].lineno) if tb else ""
        return {"kind": "err", "cls": type(e).__name__, "msg": str(e)[:200], "where": where,
                "captured": _CAPTURED[-1] if _CAPTURED else None, "secs": round(time.time() - t0, 3)}
    dq = sorted(w.qualified_name for w in data.disqualification)
    wn = sorted(w.qualified_name for w in data.warnings)
    return {"kind": "ok", "dq": dq, "warnings": wn, "captured": _CAPTURED[-1] if _CAPTURED else None,
            "n_captured": len(_CAPTURED), "secs": round(time.time() - t0, 3)}
