"""C17 — hourly data preparation keeps what was measured and flags what was filled.
Model: coq/Model/HourlyPrep.v (+ HourlyPrepRun.v); theorems: coq/Properties/C17.v; tie: correspondence (this file).

One case = one input frame handed to HourlyBaselineData / HourlyReportingData.  For every case
  * the implementation is run (in a worker process) with a recording wrapper around the autocorrelation imputer
    (hourly_interpolation._interpolate_col, looked up by name; when it is not there the final column stands in for
    the imputer's proposal: the estimator is an arbitrary Section variable of the model),
  * the property oracle — the statement, cell by cell, on what the implementation returned — is evaluated,
  * the Gallina model is run inside coqc on the same input (+ the recorded proposal) and compared with the frame the
    implementation returned: index, values (1e-9 relative where a value was interpolated), flags."""
import datetime as dt
import json
import logging
import math
import os
import random
import warnings
from multiprocessing import Pool

import numpy as np
import pandas as pd

import tzdays
import vlib
from vlib import Run, zlit, coq_list, coq_bool

warnings.simplefilter("ignore")
logging.disable(logging.CRITICAL)

IMPORTS = "From Coq Require Import QArith.\nFrom V Require Import Model.HourlyPrep Model.HourlyPrepRun."
COLS = ["temperature", "observed", "ghi"]
STEP = 60

# zones whose UTC offset only ever moves by whole hours (18, five of them switch at local midnight) ...
ZONES = list(tzdays.ZONES)
# ... and zones with a fractional-hour shift inside the given window (UTC minutes) — the "any timezone" of the quantifier
SUBHOUR = [
    ("Australia/Lord_Howe", None),                       # +10:30 / +11:00 every year
    ("America/Caracas", (2016, 5, 1)),                   # -04:30 -> -04:00
    ("Asia/Pyongyang", (2015, 8, 15)),                   # +09:00 -> +08:30
    ("Asia/Pyongyang", (2018, 5, 5)),                    # +08:30 -> +09:00
]


# ------------------------------------------------------------------ local clock (zoneinfo, not pandas)

def local_hours(z, a, b):
    """UTC minutes t in [a, b] whose local clock reads hh:00"""
    out = []
    lo = a
    for c in [c for c in tzdays.dst_changes_cached(z) if a < c <= b] + [b + 1]:
        o = tzdays.offset(lo, z)
        first = lo + (-(lo + o)) % 60
        out.extend(range(first, c, 60))
        lo = c
    return out


def local_dt(m, z):
    return tzdays.to_dt(m).astimezone(tzdays.zone(z))


def day_first(d, z):
    return tzdays.day_start(d, z)


def offset_changes_inside(z, a, b):
    """(size of the change in minutes) for every offset change in (a, b]"""
    return [tzdays.offset(c, z) - tzdays.offset(c - 1, z) for c in tzdays.dst_changes_cached(z) if a < c <= b]


def edge_flags(z, tmin, tmax):
    """as-coded reading of the frame ends (see Model/HourlyPrep.v): which `fold` situation the input is in"""
    d0 = tzdays.local_date(tmin, z)
    s0 = day_first(d0, z)
    l0, l1 = local_dt(s0, z), local_dt(s0 + 60, z)
    twice0 = (l0.hour, l0.minute) == (0, 0) and (l1.hour, l1.minute) == (0, 0)
    lo_skip = twice0 and tmin == s0 + 60
    d1 = tzdays.local_date(tmax, z)
    e1 = day_first(d1 + dt.timedelta(days=1), z)
    a, b = local_dt(e1 - 120, z), local_dt(e1 - 60, z)
    twice23 = (a.hour, a.minute) == (23, 0) and (b.hour, b.minute) == (23, 0)
    hi_skip = twice23 and tmax != e1 - 60
    return lo_skip, hi_skip


def edge_offsets(z, tmin, tmax):
    """(lo_fwd, hi_back) of Model/HourlyPrep.v: where earliest.replace(hour=0) and latest.replace(hour=23) point, read from
    the tz database: the stamp with that wall-clock reading on that date, the occurrence chosen by the `fold` of tmin / tmax;
    a 00:00 that does not exist is moved forward to the first minute of the day"""
    d0 = tzdays.local_date(tmin, z)
    s0 = day_first(d0, z)
    c0 = [t for t in range(s0, s0 + 181, 15) if tzdays.local_date(t, z) == d0 and tzdays.local_minute_of_day(t, z) == 0]
    fold_min = local_dt(tmin, z).fold
    lo = (c0[-1] if fold_min else c0[0]) if c0 else s0
    d1 = tzdays.local_date(tmax, z)
    e1 = day_first(d1 + dt.timedelta(days=1), z)
    c1 = [t for t in range(e1 - 180, e1, 15) if tzdays.local_date(t, z) == d1 and tzdays.local_minute_of_day(t, z) == 23 * 60]
    if not c1:
        return None
    fold_max = local_dt(tmax, z).fold
    hi = c1[-1] if fold_max else c1[0]
    return lo - s0, e1 - hi


# ------------------------------------------------------------------ generator

def _date_minute(y, m, d):
    return tzdays.date_to_minute_utc(y, m, d)


def gen_spec(seed, size_class):
    """one input frame; everything derives from `seed` (a Python int) and the size class"""
    rng = random.Random(seed)
    stream = rng.choices(["plain", "edge", "subhour"], [70, 24, 6])[0]
    if size_class == "short":
        ndays = rng.choice([1, 2, 3, 3])
    elif size_class == "small":
        ndays = rng.randrange(4, 22)
    elif size_class == "medium":
        ndays = rng.randrange(22, 121)
    elif size_class == "large":
        ndays = rng.randrange(121, 401)
    else:
        ndays = rng.randrange(401, 732)
    if stream == "subhour":
        z, when = rng.choice(SUBHOUR)
        if when is None:
            ch = [c for c in tzdays.dst_changes_cached(z) if _date_minute(2013, 1, 1) < c < _date_minute(2023, 1, 1)]
            c = rng.choice(ch)
        else:
            c = [x for x in tzdays.dst_changes_cached(z) if abs(x - _date_minute(*when)) < 3 * 1440][0]
        a = c - rng.randrange(0, max(1, ndays)) * 1440 - rng.randrange(0, 1440)
    elif stream == "edge":
        z = rng.choice(ZONES)
        ch = [c for c in tzdays.dst_changes_cached(z) if _date_minute(2013, 1, 1) < c < _date_minute(2023, 1, 1)]
        if not ch:
            stream = "plain"
        else:
            c = rng.choice(ch)
            near = c + rng.choice([-180, -120, -60, 0, 60, 120])
            if rng.random() < 0.5:
                a = near                                           # first stamp next to the change
            else:
                a = near - ndays * 1440 + rng.choice([0, 0, 60, 1440 - 60])   # last stamp next to the change
                a = min(a, near)
    if stream == "plain":
        z = rng.choice(ZONES)
        a = _date_minute(2013, 1, 1) + rng.randrange(0, 3650) * 1440 + rng.randrange(0, 24) * 60
    if stream == "edge" and a != near:
        b = near
    else:
        b = a + max(ndays - 1, 0) * 1440 + rng.randrange(0, 1440 if ndays > 1 else 600)
    if size_class == "short":
        b = min(b, a + 70 * 60)
    hs = local_hours(z, a - 59, b)
    if not hs:
        hs = local_hours(z, a - 59, a + 120)
    n = len(hs)
    nrng = np.random.default_rng(seed & 0xFFFFFFFF)
    has_ghi = rng.random() < 0.5
    elec = rng.random() < 0.6
    klass = rng.choice(["baseline", "baseline", "reporting"])
    has_obs = not (klass == "reporting" and rng.random() < 0.3)
    vals = {
        "temperature": nrng.integers(-160, 880, n) / 8.0,
        "observed": nrng.integers(1, 4000, n) / 8.0,
        "ghi": nrng.integers(0, 8000, n) / 8.0,
    }
    # usage profiles, for electricity and gas alike: the zero rule is `== 0` exactly, so negative readings (a net-metered
    # site exporting to the grid), readings crossing zero and tiny non-zero readings of either sign are values
    profile = rng.choices(["positive", "net_metered", "negative", "tiny", "around_zero"], [45, 25, 8, 8, 14])[0]
    if profile == "net_metered":
        hour = np.arange(n) % 24
        vals["observed"] = (nrng.integers(-400, 1200, n) - 1500 * ((hour >= 9) & (hour <= 15))) / 8.0
    elif profile == "negative":
        vals["observed"] = -vals["observed"]
    elif profile == "tiny":
        vals["observed"] = nrng.choice(np.array([5e-324, -5e-324, 2.0 ** -40, -(2.0 ** -40), 1e-12, -1e-12, 1e-300, -1e-300, 0.125, -0.125]), n)
    elif profile == "around_zero":
        vals["observed"] = nrng.integers(-3, 4, n) / 8.0          # -0.375 .. 0.375, exact zeros included

    def holes(col):
        v = vals[col]
        if rng.random() < 0.06:
            v[:] = np.nan
            return
        p = rng.choice([0, 0, 0.002, 0.02, 0.2, 0.6])
        if p:
            v[nrng.random(n) < p] = np.nan
        for _ in range(rng.choice([0, 0, 1, 3])):
            ln = rng.choice([1, 2, 3, 6, 24, 30, 50, 200, 400, 800])
            s = rng.randrange(0, n)
            v[s:s + ln] = np.nan
        if rng.random() < 0.15:
            v[:rng.choice([1, 2, 5, 30, 100])] = np.nan
        if rng.random() < 0.15:
            v[-rng.choice([1, 2, 5, 30, 100]):] = np.nan

    for col in COLS:
        holes(col)
    pz = rng.choice([0, 0, 0.01, 0.1])
    if pz:
        vals["observed"][nrng.random(n) < pz] = 0.0
    if rng.random() < 0.04:
        vals["observed"][~np.isnan(vals["observed"])] = 0.0
    if rng.random() < 0.05 and n:
        vals["observed"][rng.randrange(n)] = -0.0
    keep = np.ones(n, bool)
    pr = rng.choice([0, 0, 0.01, 0.1])
    if pr:
        keep &= nrng.random(n) >= pr
    for _ in range(rng.choice([0, 0, 1, 3])):
        ln = rng.choice([1, 2, 5, 24, 26, 60, 100, 300])
        s = rng.randrange(0, n)
        keep[s:s + ln] = False
    if not keep.any():
        keep[rng.randrange(n)] = True
    rows = []
    for i in np.nonzero(keep)[0]:
        rows.append([hs[i]] + [None if math.isnan(vals[c][i]) else float(vals[c][i]) for c in COLS])
    for _ in range(rng.choice([0, 0, 1, 3, 10])):
        src = rows[rng.randrange(len(rows))]
        dup = [src[0]] + [rng.choice([None, 0.0, rng.randrange(1, 4000) / 8.0, -rng.randrange(1, 4000) / 8.0, v]) for v in src[1:]]
        where = rng.choice(["after", "end", "any", "start"])
        if where == "after":
            rows.insert(rows.index(src) + 1, dup)
        elif where == "end":
            rows.append(dup)
        elif where == "start":
            rows.insert(0, dup)
        else:
            rows.insert(rng.randrange(len(rows) + 1), dup)
    if rng.random() < 0.08:
        rng.shuffle(rows)
    if not has_ghi:
        for r in rows:
            r[3] = None
    if not has_obs:
        for r in rows:
            r[2] = None
    return {"zone": z, "elec": elec, "klass": klass, "has_ghi": has_ghi, "has_obs": has_obs,
            "as_column": rng.random() < 0.15, "stream": stream, "size_class": size_class, "seed": seed, "usage": profile,
            "rows": rows}


# ------------------------------------------------------------------ implementation adapter

def build_frame(spec):
    rows = spec["rows"]
    idx = pd.DatetimeIndex(pd.to_datetime([r[0] * 60 for r in rows], unit="s", utc=True)).tz_convert(spec["zone"])
    data = {"temperature": [np.nan if r[1] is None else r[1] for r in rows]}
    if spec["has_obs"]:
        data["observed"] = [np.nan if r[2] is None else r[2] for r in rows]
    if spec["has_ghi"]:
        data["ghi"] = [np.nan if r[3] is None else r[3] for r in rows]
    df = pd.DataFrame(data, index=idx, dtype=float)
    if spec["as_column"]:
        df = df.reset_index(names="datetime")
    return df


def index_minutes(index):
    unit = getattr(index, "unit", "ns")
    per_min = {"ns": 60 * 10**9, "us": 60 * 10**6, "ms": 60 * 10**3, "s": 60}[unit]
    raw = index.asi8
    if len(raw) and (raw % per_min).any():
        return None
    return [int(x) for x in raw // per_min]


def run_impl(spec):
    """returns the observation dict (plain Python / numpy arrays)"""
    from opendsm.eemeter.models.hourly import data as hd
    rec = []
    hi = None
    try:
        from opendsm.common import hourly_interpolation as hi
    except Exception:  # noqa
        hi = None
    orig = getattr(hi, "_interpolate_col", None) if hi is not None else None
    if orig is not None:
        def wrap(x, lags, *a, **k):
            name = getattr(x, "name", None)
            xin = np.array(x.to_numpy(), dtype=float, copy=True)
            out = orig(x, lags, *a, **k)
            try:
                rec.append((name, xin, np.array(np.asarray(out), dtype=float, copy=True)))
            except Exception:  # noqa
                rec.append((name, xin, None))
            return out
        hi._interpolate_col = wrap
    df = build_frame(spec)
    try:
        cls = hd.HourlyBaselineData if spec["klass"] == "baseline" else hd.HourlyReportingData
        try:
            d = cls(df, is_electricity_data=spec["elec"])
            out = d.df
        except Exception as e:  # noqa
            return {"kind": "err", "cls": type(e).__name__, "msg": str(e)[:300]}
    finally:
        if orig is not None:
            hi._interpolate_col = orig
    obs = {"kind": "ok", "ts": index_minutes(out.index), "tz": str(out.index.tz), "val": {}, "flag": {}, "rec": {},
           "dup_index": bool(out.index.has_duplicates)}
    for c in COLS:
        obs["val"][c] = np.array(out[c], dtype=float) if c in out.columns else None
        f = "interpolated_" + c
        if f in out.columns:
            try:
                obs["flag"][c] = np.array(out[f]).astype(bool)
            except Exception:  # noqa
                obs["flag"][c] = None
        else:
            obs["flag"][c] = None
    for name, xin, xout in rec:
        if name in COLS and name not in obs["rec"]:
            obs["rec"][name] = (xin, xout)
        else:
            obs["rec_confused"] = True
    try:
        suff = hd._create_sufficiency_df(d.df)
        obs["suff"] = {c: np.array(suff[c], dtype=float) for c in COLS if c in suff.columns}
    except Exception:  # noqa
        obs["suff"] = None
    return obs


# ------------------------------------------------------------------ property oracle (statement, literally)

def supplied_of(spec):
    """stamp -> [temperature, observed, ghi] of the FIRST row carrying it; zero electricity readings are missing"""
    sup = {}
    for r in spec["rows"]:
        if r[0] in sup:
            continue
        cells = list(r[1:])
        if spec["elec"] and cells[1] is not None and cells[1] == 0:
            cells[1] = None
        sup[r[0]] = cells
    return sup


def same_float(a, b):
    return a == b and math.copysign(1, a) == math.copysign(1, b)


def oracle(spec, obs):
    """list of (signature, message); empty = the statement holds on this frame"""
    z = spec["zone"]
    fails = []
    if obs["kind"] == "err":
        return [({"broken": "exception", "raised": obs["cls"]}, "the data class raised %s: %s" % (obs["cls"], obs["msg"]))]
    sup = supplied_of(spec)
    tmin, tmax = min(sup), max(sup)
    d0, d1 = tzdays.local_date(tmin, z), tzdays.local_date(tmax, z)
    s0 = day_first(d0, z)
    e1 = day_first(d1 + dt.timedelta(days=1), z)
    exp = local_hours(z, s0, e1 - 1)
    frac = any(c % 60 for c in offset_changes_inside(z, s0, e1))
    cause = "UTC offset moves by a fraction of an hour inside the data" if frac else None
    ts = obs["ts"]
    lo_skip, hi_skip = edge_flags(z, tmin, tmax)
    if ts is None:
        return [({"broken": "index", "cause": "stamps off the minute grid"}, "output stamps are not whole minutes")]
    # --- gap-free hourly frame covering whole local days from the first to the last supplied day
    if ts != exp:
        if frac:
            fails.append(({"broken": "index", "cause": cause},
                          "the frame is not one row per local clock hour of the supplied days (%d rows, expected %d)"
                          % (len(ts), len(exp))))
        elif ts == exp[1:] and lo_skip:
            fails.append(({"broken": "first day not whole", "cause": "00:00 occurs twice, first supplied stamp is the second"},
                          "the first 00:00 of %s (%s) is not in the frame" % (d0, z)))
        elif ts == exp[:-1] and hi_skip:
            fails.append(({"broken": "last day not whole", "cause": "23:00 occurs twice, last supplied stamp is not the second"},
                          "the second 23:00 of %s (%s) is not in the frame" % (d1, z)))
        elif ts == exp[1:-1] and lo_skip and hi_skip:
            fails.append(({"broken": "first day not whole", "cause": "00:00 occurs twice, first supplied stamp is the second"}, "first 00:00 missing"))
            fails.append(({"broken": "last day not whole", "cause": "23:00 occurs twice, last supplied stamp is not the second"}, "second 23:00 missing"))
        else:
            steps = sorted(set(b - a for a, b in zip(ts, ts[1:])))[:4]
            what = ("gap" if steps != [60] else
                    "first day not whole" if ts and ts[0] != exp[0] else
                    "last day not whole" if ts and ts[-1] != exp[-1] else "index")
            fails.append(({"broken": what, "cause": "other"},
                          "frame index differs from the hours of the supplied local days: %d rows from %s to %s (steps %s), "
                          "expected %d from %d to %d" % (len(ts), ts[:1], ts[-1:], steps, len(exp), exp[0], exp[-1])))
    pos = {}
    for i, t in enumerate(ts):
        pos.setdefault(t, i)
    # --- every supplied finite value appears unchanged at its timestamp
    dropped = 0
    changed = set()
    for t, cells in sup.items():
        i = pos.get(t)
        if i is None:
            dropped += 1
            continue
        for k, c in enumerate(COLS):
            if cells[k] is None:
                continue
            col = obs["val"][c]
            if col is None or not same_float(float(col[i]), cells[k]):
                kind = "missing" if col is None or math.isnan(col[i]) else "different"
                if (c, kind) not in changed:
                    changed.add((c, kind))
                    fails.append(({"broken": "supplied value changed", "column": c, "kind": kind},
                                  "%s at %d: supplied %r, frame has %r" % (c, t, cells[k], None if col is None else float(col[i]))))
    if dropped:
        off_grid = frac and all((t - ts[0]) % 60 for t in sup if t not in pos) if ts else False
        fails.append(({"broken": "supplied row dropped", "cause": cause if off_grid else "other"},
                      "%d supplied stamps are not in the frame" % dropped))
    # --- flags: filled <-> flagged, supplied never flagged; nothing missing unless the whole column was empty
    for k, c in enumerate(COLS):
        col, flg = obs["val"][c], obs["flag"][c]
        present_in = (spec["has_ghi"] if c == "ghi" else True)
        if not present_in:
            if col is not None and not np.isnan(col).all():
                fails.append(({"broken": "column invented", "column": c}, "a %s column with values appeared" % c))
            continue
        if col is None or flg is None or len(col) != len(ts) or len(flg) != len(ts):
            fails.append(({"broken": "column missing", "column": c}, "%s or interpolated_%s is not in the frame" % (c, c)))
            continue
        was_missing = np.array([sup.get(t, [None] * 3)[k] is None for t in ts], bool)
        now_present = ~np.isnan(col)
        want = was_missing & now_present
        bad = np.nonzero(want != flg)[0]
        if len(bad):
            i = int(bad[0])
            kind = ("supplied value flagged" if not was_missing[i] else
                    "filled value not flagged" if now_present[i] else "value still missing is flagged")
            fails.append(({"broken": "flag", "column": c, "kind": kind},
                          "interpolated_%s wrong on %d rows, first at %d: %s" % (c, len(bad), ts[i], kind)))
        any_supplied = any(cells[k] is not None for cells in sup.values())
        if any_supplied and not now_present.all():
            fails.append(({"broken": "still missing", "column": c, "cause": cause if frac else "other"},
                          "%d cells of %s are still missing although the column was not empty"
                          % (int((~now_present).sum()), c)))
        if not any_supplied and now_present.any():
            fails.append(({"broken": "value invented", "column": c}, "%s was empty but the frame has values" % c))
        # --- _create_sufficiency_df sees exactly what was supplied
        if obs.get("suff") and c in obs["suff"]:
            s = obs["suff"][c]
            want_s = np.where(flg, np.nan, col)
            if len(s) != len(col) or not np.array_equal(s, want_s, equal_nan=True):
                fails.append(({"broken": "sufficiency frame", "column": c}, "_create_sufficiency_df does not blank exactly the flagged cells"))
    # --- the contract of the oracle in the model: the autocorrelation stage writes missing cells only
    for c, (xin, xout) in obs["rec"].items():
        if xout is None or len(xout) != len(xin):
            fails.append(({"broken": "imputer contract", "column": c}, "_interpolate_col returned another shape"))
            continue
        keep = ~np.isnan(xin)
        if not np.array_equal(xin[keep], xout[keep]):
            fails.append(({"broken": "imputer contract", "column": c}, "_interpolate_col changed a cell that was not missing"))
        if not keep.any() and not np.isnan(xout).all():
            fails.append(({"broken": "imputer contract", "column": c, "kind": "empty column"},
                          "_interpolate_col proposed values for an empty column"))
    return fails


# ------------------------------------------------------------------ Coq terms
# Every column is written as a primitive array (Model/HourlyPrepRun.v, "compact case files").

def fhex(v):
    if v is None or v != v:
        return "nan"
    h = float(v).hex()
    m, e = h.split("p")
    if "." in m:
        m = m.rstrip("0").rstrip(".")
    h = m + "p" + e
    return "(-%s)" % h[1:] if h[0] == "-" else h


def farr(arr):
    return "[| %s | nan |]%%float" % "; ".join(fhex(v) for v in arr)


def iarr(arr):
    return "[| %s | 0 |]%%uint63" % "; ".join(str(int(v)) for v in arr)


def farr_or_empty(arr):
    """an all-NaN column is written as the empty array (Model/HourlyPrepRun.v: qcol_n)"""
    arr = list(arr)
    if all(v is None or v != v for v in arr):
        return farr([])
    return farr(arr)


def coq_def(name, spec, obs):
    """text of `Definition <name> : acase := ...` and the mode of the comparison"""
    z = spec["zone"]
    rows = spec["rows"]
    stamps = [r[0] for r in rows]
    tmin, tmax = min(stamps), max(stamps)
    bnds = tzdays.boundaries(tmin, tmax, z)
    eo = edge_offsets(z, tmin, tmax)
    if eo is None:
        return None, "the last supplied day has no 23:00"
    lo_fwd, hi_back = eo
    n = len(obs["ts"])
    est, val = [], []
    packed = np.zeros(n, dtype=np.int64)
    mode = "short" if n <= 72 else "recorded"
    for k, c in enumerate(COLS):
        col = obs["val"][c]
        v = col if col is not None else np.full(n, np.nan)
        f = obs["flag"][c] if obs["flag"][c] is not None else np.zeros(n, bool)
        packed += f.astype(np.int64) << k
        val.append(farr(v) if k == 0 else farr_or_empty(v))
        if n <= 72:
            est.append((iarr([]), farr([])))
            continue
        if c in obs["rec"] and obs["rec"][c][1] is not None and len(obs["rec"][c][1]) == n:
            xin, xout = obs["rec"][c]
            prop = np.where(np.isnan(xin), xout, np.nan)
        else:
            # the imputer could not be observed: its proposal is whatever ended up in the frame
            if not (c == "ghi" and not spec["has_ghi"]):
                mode = "oracle"
            prop = v
        where = np.nonzero(~np.isnan(prop))[0]
        est.append((iarr(where), farr(prop[where])))
    text = ("Definition %s : acase := mkacase %s %d%%uint63 %d%%uint63\n %s\n %s\n %s\n %s\n %s\n %s\n %s %s\n %s %s\n %s %s\n"
            " %d%%uint63 %d%%uint63\n %s\n %s\n %s\n %s.\n") % (
        name, coq_bool(spec["elec"]), lo_fwd, hi_back, iarr(bnds),
        iarr(stamps), farr([r[1] for r in rows]), farr_or_empty([r[2] for r in rows]), farr_or_empty([r[3] for r in rows]),
        coq_bool(n > 72), est[0][0], est[0][1], est[1][0], est[1][1], est[2][0], est[2][1],
        obs["ts"][0] if n else 0, n, val[0], val[1], val[2], iarr(packed))
    return text, mode


# ------------------------------------------------------------------ one case, in a worker

def spec_summary(spec):
    return {k: spec[k] for k in ("zone", "elec", "klass", "has_ghi", "has_obs", "as_column", "stream", "size_class", "seed", "usage")
            if k in spec} | {"n_input_rows": len(spec["rows"])}


def work(item):
    idx, kind, payload = item
    spec = gen_spec(*payload) if kind == "gen" else payload
    obs = run_impl(spec)
    fails = oracle(spec, obs)
    res = {"idx": idx, "summary": spec_summary(spec), "fails": fails, "kind": obs["kind"], "key": vlib.sha(spec["rows"]),
           "text": None, "mode": None, "size": 0, "n_out": 0, "item": item if kind == "gen" else None,
           "spec": spec if (fails or kind != "gen") else None}
    stamps = {r[0] for r in spec["rows"]}
    res["dup_rows"] = len(spec["rows"]) - len(stamps)
    res["nan_cells"] = sum(1 for r in spec["rows"] for v in r[1:] if v is None)
    res["zeros"] = sum(1 for r in spec["rows"] if r[2] == 0)
    res["negatives"] = sum(1 for r in spec["rows"] if r[2] is not None and r[2] < 0)
    if obs["kind"] == "ok" and obs["ts"] is not None and all(obs["val"][c] is not None or (c == "ghi") for c in COLS):
        res["text"], res["mode"] = coq_def("k_%d" % idx, spec, obs)
        if res["text"] is None:
            res["unmodellable"] = res["mode"]
            return res
        res["size"] = len(res["text"])
        res["n_out"] = len(obs["ts"])
        res["n_filled"] = {c: int(obs["flag"][c].sum()) if obs["flag"][c] is not None else 0 for c in COLS}
        res["lo"] = obs["ts"][0] if obs["ts"] else None
        res["recorded"] = sorted(obs["rec"])
    elif obs["kind"] == "ok":
        res["unmodellable"] = "frame without the expected columns / stamps"
    return res


def regenerate(res):
    return gen_spec(*res["item"][2]) if res["spec"] is None else res["spec"]


D_HEADER = ("From Coq Require Import ZArith PrimFloat Uint63 PArray.\n"
            "From V Require Import Model.HourlyPrep Model.HourlyPrepRun.\n")


def compile_data_files(run, todo, nfiles):
    """Write the cases as primitive-array definitions into D<j>.v (balanced by size), evaluate the comparison of
    every case inside coqc (vm_compute) there, and compile the files in parallel.  Returns {idx: diagnostics}
    for the cases coqc printed a difference for, or None when a file did not compile."""
    import subprocess
    os.makedirs(run.casedir, exist_ok=True)
    order = sorted(todo, key=lambda r: -r["size"])
    bins = [[0, []] for _ in range(max(1, min(nfiles, len(order))))]
    for r in order:
        b = min(bins, key=lambda x: x[0])
        b[0] += r["size"] + 2000
        b[1].append(r)
    names = []
    for j, (_, lst) in enumerate(bins):
        name = "D%d_%d" % (run.batch_no, j)
        with open(os.path.join(run.casedir, name + ".v"), "w") as f:
            f.write(D_HEADER)
            for r in lst:
                fn = "check_acase_spec" if r["n_out"] <= 200 else "check_acase"
                f.write(r["text"])
                f.write("Definition r_%d : bool := Eval vm_compute in (%s k_%d).\n" % (r["idx"], fn, r["idx"]))
                f.write("Eval vm_compute in (DIAG %d%%Z (if r_%d then None else Some (aexplain k_%d))).\n" % (r["idx"], r["idx"], r["idx"]))
        names.append(name)
    diags = {}
    ok = True
    with vlib.Lock(False):
        pending = list(names)
        running = []
        while pending or running:
            while pending and len(running) < 12:
                nm = pending.pop(0)
                cmd = "ulimit -s unlimited 2>/dev/null; ulimit -v 12000000; timeout 1500 coqc -q -R %s V -R %s VC -w none %s.v" % (
                    vlib.COQ, run.casedir, nm)
                running.append((nm, subprocess.Popen(["bash", "-c", cmd], stdout=subprocess.PIPE, stderr=subprocess.STDOUT,
                                                     text=True, cwd=run.casedir)))
            nm, p = running.pop(0)
            out, _ = p.communicate()
            if p.returncode != 0:
                ok = False
                run.log("coqc failed on %s.v:\n%s" % (nm, out[-1500:]))
                run.proof_log += "\ncases data file %s.v did not evaluate:\n%s" % (nm, out[-1500:])
                continue
            flat = out.replace("\n", " ")
            for m in vlib.re.finditer(r"=\s*DIAG\s+\(?(\d+)\)?(?:%Z)?\s+(.*?)\s+:\s+diag", flat):
                if not m.group(2).strip().startswith("None"):
                    diags[int(m.group(1))] = vlib.re.sub(r"\s+", " ", m.group(2))[:1500]
    return (diags if ok else None), names


def models_fresh():
    """Model/HourlyPrepRun.vo is newer than everything it is built from (then the exclusive build lock is not needed a
    second time: Properties/C17.vo, just rebuilt, already brought Model/HourlyPrep.vo up to date)"""
    def mt(rel):
        p = os.path.join(vlib.COQ, rel)
        return os.path.getmtime(p) if os.path.exists(p) else None
    vo = mt("Model/HourlyPrepRun.vo")
    deps = [mt("Model/HourlyPrepRun.v"), mt("Model/HourlyPrep.vo"), mt("Model/HourlyPrep.v"), mt("Model/CasesLib.vo"), mt("Model/CasesLib.v")]
    return vo is not None and all(d is not None and d <= vo for d in deps)


def main():
    run = Run("C17")
    run.batch_no = 0
    run.cov["rule"] = (
        "input frames of local on-the-hour stamps: 1-3 days (autocorrelation stage skipped by the code), 4-21, 22-120, 121-400, "
        "401-731 days; random first/last hour; 18 whole-hour zones (5 switching at local midnight) + 3 zones with fractional-hour "
        "shifts; 24% of the frames start or end next to a clock change; per column NaN cells (density 0-0.6), NaN runs of 1-800, "
        "leading / trailing runs, empty columns; absent rows and runs of absent rows; 0-10 duplicated stamps with other values at "
        "any position; shuffled order; usage profiles for electricity and gas alike: positive, net-metered (crossing zero), all negative, tiny non-zero values of either sign (down to 5e-324), values around zero; exact zeros / -0.0 in usage; +-ghi; electricity / gas; baseline / reporting class (with and "
        "without observed); index or datetime column. distinct = hash of the input rows; non-trivial = the frame was returned "
        "and at least one cell had to be filled or a row added")
    run.assumptions += [
        "the autocorrelation imputer's value choice is an oracle (Section variable est, arbitrary): the model takes its proposal "
        "only at missing positions; that the code does the same is re-checked on every execution (recorded input/output of "
        "_interpolate_col) and by the value oracle",
        "pandas semantics re-specified in Model/HourlyPrep.v (reindex on a date_range, Index.duplicated(keep='first'), "
        "interpolate(method='time', limit_direction='both') on an equally spaced index, ffill, bfill) are tied by the "
        "correspondence only",
        "local-day boundaries and the repeated-hour situation of the first/last stamp are data read from the system tz database "
        "through zoneinfo (harness/tzdays.py), independent of pandas",
        "inputs are on the local hour, finite or NaN (no +-inf), with the required columns; interpolated values are compared "
        "within 1e-9 relative, everything else exactly",
        "correspondence is sampled: agreement is established on the cases run",
    ]
    run.cov["trusted_base"] += ["harness/c17.py (generator, adapter, recording wrapper, canonicalisation, oracle)",
                                "harness/tzdays.py + zoneinfo tz database",
                                "pandas semantics re-specified in Model/HourlyPrep.v",
                                "Coq.Floats.FloatOps.Prim2SF (reads the binary64 literals of the cases files exactly)"]
    # step 0: the structure of the source (step order, zero rule, keep=, hours, threshold, fall-back order, flag rule) as a table
    import translate_hourlyprep
    tab, why = translate_hourlyprep.generate(run)
    run.cov["structural_tie"] = ({"established": True, "table": tab} if tab is not None else
                                 {"established": False, "reason": "construct not recognised by harness/translate_hourlyprep.py: " + why,
                                  "fallback": "behavioural correspondence and oracle only"})
    run.log("structure of the source: %s" % ("read" if tab is not None else "NOT recognised (%s); behavioural tie only" % why))
    run.cov["trusted_base"] += ["harness/translate_hourlyprep.py (ast reading of _set_data / _get_contiguous_datetime / remove_duplicates / "
                                "interpolate into Generated/HourlyPrepGen.v; an unrecognised construct yields no table, never a guessed one)"]
    run.check_proofs("Properties/C17.v", ["Proofs/HourlyPrepProofs.v", "Proofs/HourlyPrepTableProofs.v", "Proofs/HourlyPrepGenProofs.v"],
                     generated=["Generated/HourlyPrepGen.v"])
    run.log("theorems checked: %s" % run.proof_ok)
    if not models_fresh():
        run.ensure_models(["Model/HourlyPrepRun.v", "Model/CasesLib.v"])
    run.log("models built")

    items = []
    if run.replay:
        rep = json.load(open(run.replay))
        items.append(("spec", rep["case"]["spec"] if "spec" in rep["case"] else rep["case"]))
    else:
        corpus = os.path.join(vlib.VERIF, "corpus", "C17.json")
        if os.path.exists(corpus):
            for c in json.load(open(corpus)):
                items.append(("spec", c["spec"]))
        nfr = int(os.environ.get("VERIF_N") or run.n(240, 6000))
        classes = ["short"] * 25 + ["small"] * 46 + ["medium"] * 23 + ["large"] * 5 + ["huge"] * 1
        for k in range(nfr):
            sc = classes[k % 100] if run.quick() else run.rng.choice(classes)
            items.append(("gen", (run.rng.getrandbits(48), sc)))
    items = [(i,) + it for i, it in enumerate(items)]
    # import the package once, before the workers are forked
    from opendsm.eemeter.models.hourly import data as _hd  # noqa
    for z in ZONES + [s[0] for s in SUBHOUR]:
        tzdays.dst_changes_cached(z)
    nproc = int(os.environ.get("VERIF_PROCS", "14"))
    batch = run.n(400, 500)
    for b0 in range(0, len(items), batch):
        process(run, items[b0:b0 + batch], nproc)
        run.batch_no += 1
    run.finish()


def process(run, items, nproc):
    if len(items) > 1:
        import multiprocessing
        with multiprocessing.get_context("fork").Pool(min(nproc, len(items))) as pool:
            results = pool.map(work, items, chunksize=1)
    else:
        results = [work(items[0])]
    run.log("implementation runs: %d" % len(results))
    todo = []
    for res in results:
        s = res["summary"]
        filled = sum((res.get("n_filled") or {}).values())
        nontrivial = res["kind"] == "ok" and (filled > 0 or res["n_out"] > s["n_input_rows"])
        run.count(res["key"], nontrivial)
        run.dist("zone", s["zone"])
        run.dist("size_class", s.get("size_class"))
        run.dist("stream", s.get("stream"))
        run.dist("class", "%s/%s%s%s" % (s["klass"], "electricity" if s["elec"] else "gas",
                                        "+ghi" if s["has_ghi"] else "", "" if s["has_obs"] else "-observed"))
        run.dist("outcome", res["kind"])
        run.dist("model_mode", res["mode"])
        run.dist("duplicated_stamps", min(res["dup_rows"], 10))
        run.dist("zeros_in_usage", "0" if not res["zeros"] else "some")
        run.dist("usage_profile", "%s/%s" % ("electricity" if s["elec"] else "gas", s.get("usage")))
        run.dist("negative_usage_rows", "0" if not res.get("negatives") else "some")
        for sig, msg in res["fails"]:
            run.violation(sig, "C17: %s [%s, %s]" % (msg, s["zone"], s["klass"]), case={"spec": regenerate(res)},
                          observation={"n_rows": res["n_out"], "first_stamp": res.get("lo")}, generator="c17.gen_spec")
        if res["text"] is None:
            if res["kind"] == "ok":
                run.corr_failures.append({"stream": "prep", "case": {"spec": regenerate(res)},
                                          "impl": res.get("unmodellable"), "model": "outside the model's alphabet"})
            continue
        run.sample({"input": s, "rows_returned": res["n_out"], "cells_filled": res.get("n_filled"), "model_mode": res["mode"]})
        todo.append(res)
    if not todo:
        return
    diags, names = compile_data_files(run, todo, 16)
    run.log("model runs: %d cases in %d files" % (len(todo), len(names)))
    if diags is None:
        run.proof_ok = False
        st = run.cov["streams"].setdefault("prep", {"cases": 0, "disagreements": 0})
        st["coq_failed"] = True
        return
    imports = IMPORTS + "\nFrom VC Require Import %s." % " ".join(names)
    bad = run.coq_cases("prep", imports, "", ["r_%d" % r["idx"] for r in todo], "(fun b : bool => b)", shard=100000)
    if bad is None:
        run.proof_ok = False
        return
    for n_, i in enumerate(bad):
        r = todo[i]
        if n_ < 4:
            run.log("model/implementation disagreement: %s -> %s" % (r["summary"], diags.get(r["idx"], "?")[:600]))
        if n_ < 6:
            run.corr_failures.append({"stream": "prep", "case": {"spec": regenerate(r)},
                                      "impl": {"rows": r["n_out"], "first": r["lo"], "mode": r["mode"]},
                                      "model": "per column (rows, first stamp, first differing (position, stamp, model value, model flag)): "
                                               + diags.get(r["idx"], "?")})
        else:
            run.corr_failures.append({"stream": "prep", "case": {"summary": r["summary"]}})


if __name__ == "__main__":
    vlib.run_main(main, "C17")
